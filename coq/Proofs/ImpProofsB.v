(* C13, group B importers: proofs of the per-importer row theorems. *)
From Coq Require Import ZArith QArith List Bool Lia.
From Knut Require Import Model.Str Model.Dec Model.Date Model.Account Model.Ledger Model.Journal
     Model.Table Model.Report Model.JPrinter Model.ImpCommonA Model.ImpCommonB
     Model.Imp.Revolut2 Model.Imp.Revolut Model.Imp.Wise Model.Imp.Swissquote Model.Imp.Interactivebrokers
     Spec.ImpSpecA Spec.ImpSpecB Proofs.DecProofs Proofs.DecValue Proofs.PairProofs Proofs.StrProofs
     Proofs.ImpProofsA.
Import ListNotations.
Open Scope bool_scope.
Open Scope Q_scope.

(* ---------------------------------------------------------------- effect of a list of bookings *)

(* x if the posting is on account a in commodity c, else 0 *)
Definition ind (b a : account) (c' c : commodity) (x : Q) : Q :=
  if acc_eq_dec b a then if str_eq_dec c' c then x else 0 else 0.

Definition peffect (a : account) (c : commodity) (ps : list posting) : Q :=
  fold_right (fun p s => posting_effect a c p + s) 0 ps.

Lemma effect_peffect a c t : effect a c t = peffect a c (t_postings t).
Proof. reflexivity. Qed.

Lemma peffect_app a c l1 l2 : peffect a c (l1 ++ l2) == peffect a c l1 + peffect a c l2.
Proof.
  unfold peffect. induction l1 as [|p l1 IH]; cbn [app fold_right].
  - ring.
  - rewrite IH. ring.
Qed.

Lemma ind_neg b a c' c q : ind b a c' c (dvalue (neg q)) == - ind b a c' c (dvalue q).
Proof. unfold ind. destruct (acc_eq_dec b a); [destruct (str_eq_dec c' c)|]; try ring. apply dvalue_neg. Qed.

(* a booking raises the debited account and lowers the credited one, whatever the sign of the
   quantity (Build swaps the sides of a negative booking) *)
Definition leg_effect (a : account) (c : commodity) (l : leg) : Q :=
  ind (l_debit l) a (l_com l) c (dvalue (l_qty l)) - ind (l_credit l) a (l_com l) c (dvalue (l_qty l)).

Lemma booking_effect a c l : peffect a c (booking_postings l) == leg_effect a c l.
Proof.
  unfold booking_postings, pair_build, leg_effect, peffect.
  destruct (is_neg (l_qty l) || is_zero (l_qty l) && is_neg dec_nil); cbn [fold_right];
    unfold posting_effect; cbn [p_acc p_com p_qty];
    fold (ind (l_debit l) a (l_com l) c (dvalue (neg (neg (l_qty l)))));
    fold (ind (l_credit l) a (l_com l) c (dvalue (neg (l_qty l))));
    fold (ind (l_credit l) a (l_com l) c (dvalue (neg (l_qty l))));
    fold (ind (l_debit l) a (l_com l) c (dvalue (l_qty l)));
    rewrite ?ind_neg; ring.
Qed.

Definition legs_effect (a : account) (c : commodity) (ls : list leg) : Q :=
  fold_right (fun l s => leg_effect a c l + s) 0 ls.

Lemma bookings_effect a c ls : peffect a c (concat (map booking_postings ls)) == legs_effect a c ls.
Proof.
  induction ls as [|l ls IH]; cbn [map concat legs_effect fold_right]; [reflexivity|].
  rewrite peffect_app, booking_effect. fold (legs_effect a c ls). rewrite IH. reflexivity.
Qed.

Lemma legs_postings_spec ls : legs_postings ls = concat (map booking_postings ls).
Proof. unfold legs_postings. rewrite flat_map_concat_map. reflexivity. Qed.

(* a transaction built from bookings books the row once the bookings add up to the row's changes *)
Lemma books_b_intro acct f ls tg d desc :
  re_date f = d ->
  (forall c, legs_effect acct c ls == expected (re_changes f) c) ->
  books_b acct f ls tg (mkTxn d desc (legs_postings ls) tg).
Proof.
  intros Hd He. unfold books_b, consists_of. cbn [t_date t_postings t_targets].
  repeat split; try congruence.
  - apply legs_postings_spec.
  - intros c. rewrite effect_peffect. cbn [t_postings]. rewrite legs_postings_spec, bookings_effect. apply He.
Qed.

Lemma ind_same a c x : ind a a c c x == x.
Proof. unfold ind. destruct (acc_eq_dec a a); [|contradiction]. destruct (str_eq_dec c c); [reflexivity|contradiction]. Qed.
Lemma ind_other_acc b a c' c x : b <> a -> ind b a c' c x == 0.
Proof. intros H. unfold ind. destruct (acc_eq_dec b a); [contradiction|reflexivity]. Qed.

(* evaluates the account tests of leg_effect / expected under inequality hypotheses *)
Ltac acc_cases :=
  repeat match goal with
  | |- context [acc_eq_dec ?x ?x] => destruct (acc_eq_dec x x); [|contradiction]
  | H : ?x <> ?y |- context [acc_eq_dec ?x ?y] => destruct (acc_eq_dec x y); [contradiction|]
  | H : ?y <> ?x |- context [acc_eq_dec ?x ?y] => destruct (acc_eq_dec x y); [symmetry in *; contradiction|]
  end.

Lemma is_zero_dvalue d : is_zero d = true -> dvalue d == 0.
Proof. apply is_zero_value. Qed.

(* ---------------------------------------------------------------- list shapes *)
Lemma andb5 a b c d e : a && b && c && d && e = true ->
  a = true /\ b = true /\ c = true /\ d = true /\ e = true.
Proof. destruct a, b, c, d, e; cbn; intuition congruence. Qed.

(* ---------------------------------------------------------------- revolut2 *)

Lemma r2_key_eqb_eq a b : r2_key_eqb a b = true <-> a = b.
Proof.
  destruct a as [d c], b as [d' c']. unfold r2_key_eqb. cbn [fst snd]. rewrite andb_true_iff, Z.eqb_eq, str_eqb_eq.
  split; [intros [-> ->]; reflexivity|intros H; injection H; auto].
Qed.

Lemma r2_key_eqb_neq a b : r2_key_eqb a b = false <-> a <> b.
Proof.
  split.
  - intros H E. apply r2_key_eqb_eq in E. congruence.
  - intros H. destruct (r2_key_eqb a b) eqn:E; [apply r2_key_eqb_eq in E; contradiction|reflexivity].
Qed.

Lemma r2_put_other m k k' v v' : k' <> k -> (In (k, v) (r2_put m k' v') <-> In (k, v) m).
Proof.
  intros Hne. induction m as [|[k0 v0] m IH]; cbn [r2_put].
  - cbn. split; [intros [H|[]]; injection H; intros; subst; contradiction|intros []].
  - destruct (r2_key_eqb k' k0) eqn:E.
    + apply r2_key_eqb_eq in E. subst k0. cbn [In]. split; intros [H|H]; auto; injection H; intros; subst; contradiction.
    + cbn [In]. rewrite IH. reflexivity.
Qed.

Lemma r2_put_keys m k v :
  map fst (r2_put m k v) = if in_dec key_eq_dec k (map fst m) then map fst m else map fst m ++ [k].
Proof.
  induction m as [|[k0 v0] m IH]; cbn [r2_put map fst]; [reflexivity|].
  destruct (r2_key_eqb k k0) eqn:E.
  - apply r2_key_eqb_eq in E. subst k0. cbn [map fst].
    destruct (in_dec key_eq_dec k (k :: map fst m)) as [_|n]; [reflexivity|exfalso; apply n; left; reflexivity].
  - apply r2_key_eqb_neq in E. cbn [map fst]. rewrite IH.
    destruct (in_dec key_eq_dec k (map fst m)) as [i|n];
      destruct (in_dec key_eq_dec k (k0 :: map fst m)) as [i'|n']; try reflexivity.
    + exfalso. apply n'. right. exact i.
    + exfalso. destruct i' as [H|H]; [congruence|contradiction].
Qed.

Lemma nodup_snoc {A} (l : list A) x : NoDup l -> ~ In x l -> NoDup (l ++ [x]).
Proof.
  intros H Hn. induction H as [|y l Hy H IH]; cbn [app].
  - constructor; [intros []|constructor].
  - constructor.
    + rewrite in_app_iff. intros [Hi|[Hi|[]]]; [contradiction|]. subst. apply Hn. left. reflexivity.
    + apply IH. intros Hi. apply Hn. right. exact Hi.
Qed.

Lemma r2_put_nodup m k v : NoDup (map fst m) -> NoDup (map fst (r2_put m k v)).
Proof.
  intros H. rewrite r2_put_keys. destruct (in_dec key_eq_dec k (map fst m)) as [i|n]; [exact H|].
  apply nodup_snoc; assumption.
Qed.

Lemma r2_put_same m k v v' : NoDup (map fst m) -> (In (k, v) (r2_put m k v') <-> v = v').
Proof.
  induction m as [|[k0 v0] m IH]; intros Hnd; cbn [r2_put].
  - cbn. split; [intros [H|[]]; injection H; auto|intros ->; left; reflexivity].
  - cbn [map fst] in Hnd. inversion Hnd as [|x l Hx Hl]; subst.
    destruct (r2_key_eqb k k0) eqn:E.
    + apply r2_key_eqb_eq in E. subst k0. cbn [In]. split.
      * intros [H|H]; [injection H; auto|]. exfalso. apply Hx. change k with (fst (k, v)). apply in_map. exact H.
      * intros ->. left. reflexivity.
    + apply r2_key_eqb_neq in E. cbn [In]. rewrite (IH Hl). split; [intros [H|H]; [injection H; intros; subst; contradiction|exact H]|auto].
Qed.

(* what the rows do to the balance map *)
Definition r2_puts (m : list (r2_key * dec)) (rows : list (list str)) : list (r2_key * dec) :=
  fold_left (fun m r => if r2_is_booking r then r2_put m (r2_key_of r) (r2_balance r) else m) rows m.

Lemma r2_puts_nodup rows : forall m, NoDup (map fst m) -> NoDup (map fst (r2_puts m rows)).
Proof.
  induction rows as [|r rows IH]; intros m H; [exact H|].
  cbn [r2_puts fold_left]. apply IH. destruct (r2_is_booking r); [apply r2_put_nodup|]; exact H.
Qed.

Lemma r2_puts_closing rows : forall m k v, NoDup (map fst m) ->
  (In (k, v) (r2_puts m rows) <-> match r2_closing k rows with Some v' => v = v' | None => In (k, v) m end).
Proof.
  induction rows as [|r rows IH]; intros m k v Hnd; [reflexivity|].
  cbn [r2_puts fold_left r2_closing]. fold (r2_puts (if r2_is_booking r then r2_put m (r2_key_of r) (r2_balance r) else m) rows).
  rewrite IH by (destruct (r2_is_booking r); [apply r2_put_nodup|]; exact Hnd).
  destruct (r2_closing k rows); [reflexivity|].
  destruct (r2_is_booking r); [|reflexivity].
  destruct (key_eq_dec (r2_key_of r) k) as [e|n].
  - subst k. apply r2_put_same. exact Hnd.
  - apply r2_put_other. exact n.
Qed.

(* one well-formed row *)
Lemma r2_row_skipped acct feeacct r : r2_wf_row r = true -> r2_is_booking r = false ->
  r2_booking acct feeacct r = MOk None.
Proof.
  intros Hwf Hb. unfold r2_wf_row in Hwf. apply andb_prop in Hwf. destruct Hwf as [Hl _].
  unfold len_is in Hl. do 10 (destruct r as [|? r]; [discriminate Hl|]).
  unfold r2_is_booking, field in Hb. cbn [nth] in Hb. apply negb_false_iff in Hb.
  unfold r2_booking, fld_p, fld. cbn [nth_error]. rewrite Hb. reflexivity.
Qed.

Lemma r2_row_booking acct feeacct r : r2_wf_row r = true -> r2_is_booking r = true ->
  r2_booking acct feeacct r =
  MOk (Some (legs_txn (r2_date r) (r2_text r) (r2_legs acct feeacct r) None, (r2_key_of r, r2_balance r))).
Proof.
  intros Hwf Hb. unfold r2_wf_row in Hwf. apply andb_prop in Hwf. destruct Hwf as [Hl Hwf].
  unfold len_is in Hl. do 10 (destruct r as [|? r]; [discriminate Hl|]). destruct r; [|discriminate Hl].
  unfold r2_is_booking, field in Hb. cbn [nth] in Hb. apply negb_true_iff in Hb.
  unfold field in Hwf. cbn [nth] in Hwf. rewrite Hb in Hwf. cbn [orb] in Hwf.
  apply andb_prop in Hwf. destruct Hwf as [Hwf Hbal]. apply andb5 in Hwf. destruct Hwf as (Hlen & Hd & Hc & Ha & Hf).
  apply is_some_inv in Hd. destruct Hd as [d Hd]. apply is_some_inv in Ha. destruct Ha as [a Ha].
  apply is_some_inv in Hf. destruct Hf as [f Hf]. apply is_some_inv in Hbal. destruct Hbal as [b Hbal].
  unfold r2_booking, fld_p, fld, prefix10. cbn [nth_error]. rewrite Hb, Hlen, Hd, Hc. cbn [negb]. rewrite Ha, Hf, Hbal.
  unfold r2_date, r2_text, r2_legs, r2_key_of, r2_date, r2_cur, r2_amount, r2_fee, r2_balance, field. cbn [nth].
  rewrite Hd, Ha, Hf, Hbal. reflexivity.
Qed.

Lemma r2_legs_effect acct feeacct r c : acct <> tbd_account -> acct <> feeacct ->
  legs_effect acct c (r2_legs acct feeacct r) == expected (re_changes (r2_fact r)) c.
Proof.
  intros H1 H2. unfold r2_legs, r2_fact. cbn [re_changes expected fold_right fst snd].
  destruct (is_zero (r2_fee r)) eqn:Hz; cbn [legs_effect fold_right]; unfold leg_effect; cbn [l_credit l_debit l_com l_qty].
  - apply is_zero_dvalue in Hz. rewrite (ind_other_acc tbd_account acct) by congruence.
    unfold ind. acc_cases. destruct (str_eq_dec (r2_cur r) c); [rewrite dvalue_sub, Hz|]; ring.
  - rewrite (ind_other_acc tbd_account acct) by congruence. rewrite (ind_other_acc feeacct acct) by congruence.
    unfold ind. acc_cases. destruct (str_eq_dec (r2_cur r) c); [rewrite dvalue_sub|]; ring.
Qed.

Definition r2_txn (acct feeacct : account) (r : list str) : txn :=
  mkTxn (r2_date r) (build_desc (r2_text r)) (legs_postings (r2_legs acct feeacct r)) None.

Lemma r2_rows_ok acct feeacct rows : forall m, forallb r2_wf_row rows = true ->
  r2_rows acct feeacct (map CRec rows) m =
  MOk (map DTxn (map (r2_txn acct feeacct) (filter r2_is_booking rows)), r2_puts m rows).
Proof.
  induction rows as [|r rows IH]; intros m Hwf; [reflexivity|].
  cbn [forallb] in Hwf. apply andb_prop in Hwf. destruct Hwf as [Hr Hrs].
  cbn [map r2_rows filter r2_puts fold_left]. destruct (r2_is_booking r) eqn:Hb.
  - rewrite (r2_row_booking acct feeacct r Hr Hb). cbn [mbind]. rewrite (IH _ Hrs). cbn [mbind fst snd map]. reflexivity.
  - rewrite (r2_row_skipped acct feeacct r Hr Hb). cbn [mbind]. apply IH, Hrs.
Qed.

Lemma r2_header_self : r2_header_ok r2_header r2_header = MOk tt.
Proof. vm_compute. reflexivity. Qed.

Definition r2_bal_fact (kv : r2_key * dec) : balance_fact := mkBalFact (fst (fst kv)) (snd (fst kv)) (snd kv).

Theorem revolut2_faithful acct feeacct rows :
  acct <> tbd_account -> acct <> feeacct -> forallb r2_wf_row rows = true ->
  exists ts bals,
    import_revolut2 acct feeacct (CRec r2_header :: map CRec rows) =
      MOk (map DTxn ts ++ map (assertion_of acct) bals) /\
    Forall2 (fun r t => books_b acct (r2_fact r) (r2_legs acct feeacct r) None t) (filter r2_is_booking rows) ts /\
    map t_desc ts = map build_desc (map r2_text (filter r2_is_booking rows)) /\
    NoDup (map (fun b => (bf_date b, bf_com b)) bals) /\
    (forall d c v, In (mkBalFact d c v) bals <-> r2_closing (d, c) rows = Some v).
Proof.
  intros H1 H2 Hwf.
  exists (map (r2_txn acct feeacct) (filter r2_is_booking rows)), (map r2_bal_fact (sort_by r2_kv_ltb (r2_puts [] rows))).
  pose proof (sort_by_perm r2_kv_ltb (r2_puts [] rows)) as Hperm.
  split; [|split; [|split; [|split]]].
  - cbn [import_revolut2]. rewrite r2_header_self. cbn [mbind]. rewrite (r2_rows_ok acct feeacct rows [] Hwf). cbn [mbind fst snd].
    f_equal. f_equal. unfold r2_assertions, r2_assertions_pinned. rewrite map_map. apply map_ext. intros [[d c] v]. reflexivity.
  - induction (filter r2_is_booking rows) as [|r l IH]; cbn [map]; constructor; [|exact IH].
    apply books_b_intro; [reflexivity|]. intros c. apply r2_legs_effect; assumption.
  - rewrite !map_map. apply map_ext. reflexivity.
  - rewrite map_map. replace (map (fun x => (bf_date (r2_bal_fact x), bf_com (r2_bal_fact x))) (sort_by r2_kv_ltb (r2_puts [] rows)))
      with (map fst (sort_by r2_kv_ltb (r2_puts [] rows))).
    + eapply Permutation.Permutation_NoDup; [apply Permutation.Permutation_map; apply Permutation.Permutation_sym; exact Hperm|].
      apply r2_puts_nodup. constructor.
    + apply map_ext. intros [[d c] v]. reflexivity.
  - intros d c v. pose proof (r2_puts_closing rows [] (d, c) v (NoDup_nil _)) as H.
    assert (Hin : In (mkBalFact d c v) (map r2_bal_fact (sort_by r2_kv_ltb (r2_puts [] rows))) <-> In ((d, c), v) (r2_puts [] rows)).
    { rewrite in_map_iff. split.
      - intros ([[d' c'] v'] & He & Hi). unfold r2_bal_fact in He. cbn [fst snd] in He. injection He. intros; subst.
        eapply Permutation.Permutation_in; [exact Hperm|exact Hi].
      - intros Hi. exists ((d, c), v). split; [reflexivity|].
        eapply Permutation.Permutation_in; [apply Permutation.Permutation_sym; exact Hperm|exact Hi]. }
    rewrite Hin, H. destruct (r2_closing (d, c) rows) as [v'|].
    + split; [intros ->; reflexivity|intros E; injection E; auto].
    + split; [intros []|discriminate].
Qed.


(* ---------------------------------------------------------------- revolut *)

Lemma andb6b a b c d e f : a && b && c && d && e && f = true ->
  a = true /\ b = true /\ c = true /\ d = true /\ e = true /\ f = true.
Proof. destruct a, b, c, d, e, f; cbn; intuition congruence. Qed.

Lemma rv_combi_ok f c q : rv_other f = Some (c, q) -> rv_combi f = MOk (c, q).
Proof.
  unfold rv_other, rv_combi, rv_decimal, rv_dec. destruct (ufields f) as [|x [|y [|z l]]]; try discriminate.
  destruct (valid_name x); [|discriminate]. cbn [negb].
  destruct (new_from_string (remove_byte 39 y)); [|discriminate]. intros H. injection H. intros; subst. reflexivity.
Qed.

Definition rv_txn (acct : account) (cur : commodity) (r : list str) : txn :=
  mkTxn (rv_date r) (build_desc (rv_text r)) (legs_postings (rv_legs acct cur r)) None.

Definition rv_step (acct : account) (cur : commodity) (last : Z) (r : list str) : list directive :=
  (if Z.eqb (rv_date r) last then [] else [assertion_of acct (mkBalFact (rv_date r) cur (rv_balance r))]) ++
  [DTxn (rv_txn acct cur r)].

Lemma rv_row acct cur last r : rv_wf_row r = true ->
  rv_booking acct cur last r = MOk (rv_step acct cur last r, rv_date r).
Proof.
  intros Hwf. unfold rv_wf_row in Hwf. apply andb6b in Hwf. destruct Hwf as (Hl & Hd & Hb & Hx & Ha & Hk).
  unfold len_is in Hl. do 9 (destruct r as [|? r]; [discriminate Hl|]). destruct r; [|discriminate Hl].
  rename s into f0, s0 into f1, s1 into f2, s2 into f3, s3 into f4, s4 into f5, s5 into f6, s6 into f7, s7 into f8.
  unfold field in Hd, Hb, Hx, Ha. cbn [nth] in Hd, Hb, Hx, Ha.
  apply is_some_inv in Hd. destruct Hd as [d Hd]. apply is_some_inv in Hb. destruct Hb as [b Hb].
  apply is_some_inv in Ha. destruct Ha as [a Ha].
  unfold rv_step, rv_txn, rv_date, rv_balance, rv_text, field. cbn [nth]. rewrite Hd, Hb. cbn [date_or0 dec_or0].
  unfold rv_booking, len_is. cbn [length Nat.eqb negb]. unfold fld_p, fld. cbn [nth_error]. rewrite Hd.
  unfold rv_decimal. unfold rv_dec in Hb, Ha. rewrite Hb.
  assert (Hq : (if negb (is_empty f2) && is_empty f3
                then match new_from_string (remove_byte 39 f2) with Some q => MOk (mul_sign true q) | None => MErr e_amount end
                else if is_empty f2 && negb (is_empty f3)
                then match new_from_string (remove_byte 39 f3) with Some q => MOk (mul_sign false q) | None => MErr e_amount end
                else MErr e_amount) = MOk (rv_signed [f0; f1; f2; f3; f4; f5; f6; f7; f8])).
  { unfold rv_signed, rv_dec, field. cbn [nth].
    destruct (xorb_cases _ _ Hx) as [[H2 H3]|[H2 H3]]; rewrite H2, H3 in *; cbn [negb andb]; rewrite Ha; cbn [dec_or0].
    - rewrite mul_sign_pos. reflexivity.
    - rewrite mul_sign_neg. reflexivity. }
  assert (Hrest : forall asserts,
    mbind (MOk (rv_signed [f0; f1; f2; f3; f4; f5; f6; f7; f8])) (fun q =>
      let val := valuation_account_for acct in
      if rv_is_sell f1 then
        match Some f4 with Some s => mbind (rv_combi s) (fun oc =>
          MOk (asserts ++ [legs_txn d (rv_desc f1 f7 f8) [mkLeg val acct cur q; mkLeg val acct (fst oc) (snd oc)] None], d)) | None => MPanic e_index end
      else if rv_is_buy f1 then
        match Some f5 with Some s => mbind (rv_combi s) (fun oc =>
          MOk (asserts ++ [legs_txn d (rv_desc f1 f7 f8) [mkLeg val acct cur q; mkLeg val acct (fst oc) (neg (snd oc))] None], d)) | None => MPanic e_index end
      else MOk (asserts ++ [legs_txn d (rv_desc f1 f7 f8) [mkLeg tbd_account acct cur q] None], d)) =
    MOk (asserts ++ [DTxn (mkTxn d (build_desc (rv_desc f1 f7 f8))
                           (legs_postings (rv_legs acct cur [f0; f1; f2; f3; f4; f5; f6; f7; f8])) None)], d)).
  { intros asserts. cbn [mbind]. unfold rv_legs, rv_exchange. unfold rv_exchange in Hk.
    unfold rv_kind in *. unfold field in *. cbn [nth] in *.
    change (rx_anywhere (rx_two_caps_here [83;111;108;100;32]%Z [32;116;111;32]%Z) f1) with (rv_is_sell f1) in *.
    change (rx_anywhere (rx_two_caps_here [66;111;117;103;104;116;32]%Z [32;102;114;111;109;32]%Z) f1) with (rv_is_buy f1) in *.
    destruct (rv_is_sell f1).
    - apply is_some_inv in Hk. destruct Hk as [[c q] Hk]. rewrite Hk. rewrite (rv_combi_ok _ _ _ Hk). reflexivity.
    - destruct (rv_is_buy f1).
      + apply is_some_inv in Hk. destruct Hk as [[c q] Hk].
        destruct (rv_other f5) as [[c' q']|] eqn:Ho; [|discriminate Hk]. injection Hk. intros; subst.
        rewrite (rv_combi_ok _ _ _ Ho). reflexivity.
      + reflexivity. }
  destruct (d =? last)%Z; cbn [mbind app]; rewrite Hq; [apply (Hrest [])|].
  apply (Hrest [assertion d acct cur b]).
Qed.

Lemma rv_rows_ok acct cur rows : forall last, forallb rv_wf_row rows = true ->
  rv_rows acct cur last (map CRec rows) = MOk (rv_weave acct cur last rows (map (rv_txn acct cur) rows)).
Proof.
  induction rows as [|r rows IH]; intros last Hwf; [reflexivity|].
  cbn [forallb] in Hwf. apply andb_prop in Hwf. destruct Hwf as [Hr Hrs].
  cbn [map rv_rows rv_weave]. rewrite (rv_row acct cur last r Hr). cbn [mbind fst snd]. rewrite (IH _ Hrs). cbn [mbind].
  unfold rv_step. rewrite <- app_assoc. reflexivity.
Qed.

Lemma span_letters cur rest : forallb is_alpha cur = true ->
  span is_alpha (cur ++ 41%Z :: rest) = (cur, 41%Z :: rest).
Proof.
  induction cur as [|c cur IH]; intros H; [reflexivity|].
  cbn [forallb] in H. apply andb_prop in H. destruct H as [Hc Hcur].
  cbn [app span]. rewrite Hc, (IH Hcur). reflexivity.
Qed.

Lemma is_prefix_app p s : is_prefix p (p ++ s) = true.
Proof. induction p as [|c p IH]; cbn [app is_prefix]; [destruct s; reflexivity|]. rewrite Z.eqb_refl. exact IH. Qed.

Lemma rv_cur_ok cur : forallb is_alpha cur = true -> cur <> [] ->
  rv_cur (s_paid_out ++ cur ++ [41%Z]) = Some cur.
Proof.
  intros Hl Hne. assert (H : rv_cur_here (s_paid_out ++ cur ++ [41%Z]) = Some cur).
  { unfold rv_cur_here. rewrite is_prefix_app. rewrite skipn_app, skipn_all, Nat.sub_diag. cbn [app skipn].
    rewrite span_letters by assumption. destruct cur; [contradiction|reflexivity]. }
  destruct (s_paid_out ++ cur ++ [41%Z]); cbn [rv_cur]; rewrite H; reflexivity.
Qed.

Lemma rv_legs_effect acct cur r c :
  acct <> tbd_account -> acct <> valuation_account_for acct ->
  legs_effect acct c (rv_legs acct cur r) == expected (re_changes (rv_fact cur r)) c.
Proof.
  intros H1 H2. unfold rv_legs, rv_fact. cbn [re_changes].
  destruct (rv_exchange r) as [[oc oq]|]; cbn [legs_effect expected fold_right fst snd]; unfold leg_effect; cbn [l_credit l_debit l_com l_qty].
  - rewrite !(ind_other_acc (valuation_account_for acct) acct) by congruence.
    unfold ind. acc_cases. destruct (str_eq_dec cur c); destruct (str_eq_dec oc c); ring.
  - rewrite (ind_other_acc tbd_account acct) by congruence.
    unfold ind. acc_cases. destruct (str_eq_dec cur c); ring.
Qed.

Theorem revolut_faithful acct cur header rows :
  acct <> tbd_account -> acct <> valuation_account_for acct ->
  len_is header 9 = true -> field header 2 = s_paid_out ++ cur ++ [41%Z] ->
  forallb is_alpha cur = true -> cur <> [] ->
  forallb rv_wf_row rows = true ->
  exists ts,
    import_revolut acct (CRec header :: map CRec rows) = MOk (rv_weave acct cur zero_date rows ts) /\
    Forall2 (fun r t => books_b acct (rv_fact cur r) (rv_legs acct cur r) None t) rows ts /\
    map t_desc ts = map build_desc (map rv_text rows).
Proof.
  intros H1 H2 Hl Hh Hc Hne Hwf. exists (map (rv_txn acct cur) rows). split; [|split].
  - cbn [import_revolut]. unfold rv_header. rewrite Hl. cbn [negb]. unfold len_is in Hl.
    do 9 (destruct header as [|? header]; [discriminate Hl|]). unfold field in Hh. cbn [nth] in Hh.
    unfold fld_p, fld. cbn [nth_error]. rewrite Hh, (rv_cur_ok cur Hc Hne). cbn [mbind].
    apply rv_rows_ok. exact Hwf.
  - clear Hwf. induction rows as [|r rows IH]; cbn [map]; constructor; [|exact IH].
    apply books_b_intro; [reflexivity|]. intros c. apply rv_legs_effect; assumption.
  - rewrite !map_map. apply map_ext. reflexivity.
Qed.

(* ---------------------------------------------------------------- sums over bookings / changes *)

Lemma legs_effect_app a c l1 l2 : legs_effect a c (l1 ++ l2) == legs_effect a c l1 + legs_effect a c l2.
Proof.
  unfold legs_effect. induction l1 as [|l l1 IH]; cbn [app fold_right]; [ring|]. rewrite IH. ring.
Qed.

Lemma expected_app l1 l2 c : expected (l1 ++ l2) c == expected l1 c + expected l2 c.
Proof.
  unfold expected. induction l1 as [|x l1 IH]; cbn [app fold_right]; [ring|]. rewrite IH. ring.
Qed.

(* fees: each leaves the account for the fee account *)
Lemma fee_legs_effect acct feeacct c fees : acct <> feeacct ->
  legs_effect acct c (map (fun f => mkLeg acct feeacct (fst f) (snd f)) fees) ==
  expected (map (fun f : commodity * dec => (fst f, neg (snd f))) fees) c.
Proof.
  intros H. induction fees as [|[fc fq] fees IH]; [reflexivity|].
  cbn [map legs_effect expected fold_right fst snd]. fold (legs_effect acct c (map (fun f => mkLeg acct feeacct (fst f) (snd f)) fees)).
  fold (expected (map (fun f : commodity * dec => (fst f, neg (snd f))) fees) c). rewrite IH.
  unfold leg_effect. cbn [l_credit l_debit l_com l_qty]. rewrite (ind_other_acc feeacct acct) by congruence.
  unfold ind. acc_cases. destruct (str_eq_dec fc c); [rewrite dvalue_neg|]; ring.
Qed.

(* ---------------------------------------------------------------- wise *)

Lemma ws_header_self : ws_header_ok ws_header ws_header = MOk tt.
Proof. vm_compute. reflexivity. Qed.

Lemma ws_fee_spec acct feeacct a c : ws_fee_ok a c = true ->
  ws_fee acct feeacct a c = MOk (map (fun f => mkLeg acct feeacct (fst f) (snd f)) (ws_fee_of a c)).
Proof.
  unfold ws_fee_ok, ws_fee, ws_fee_of. destruct (is_empty c); [reflexivity|]. cbn [orb].
  intros H. apply andb_prop in H. destruct H as [Hq Hz]. apply is_some_inv in Hq. destruct Hq as [q Hq].
  rewrite Hq in *. cbn [dec_or0] in *. destruct (is_zero q); [reflexivity|]. cbn [orb] in Hz. rewrite Hz. reflexivity.
Qed.

Definition entry_txn (e : entry) : txn :=
  mkTxn (re_date (en_fact e)) (build_desc (en_text e)) (legs_postings (en_legs e)) None.

Lemma andb7b a b c d e f g : a && b && c && d && e && f && g = true ->
  a = true /\ b = true /\ c = true /\ d = true /\ e = true /\ f = true /\ g = true.
Proof. destruct a, b, c, d, e, f, g; cbn; intuition congruence. Qed.

Lemma ws_row rep acct feeacct trading r : ws_wf_row r = true ->
  ws_booking rep acct feeacct trading r = MOk (map DTxn (map entry_txn (ws_entries rep acct feeacct trading r))).
Proof.
  intros Hwf. unfold ws_wf_row in Hwf. apply andb4 in Hwf. destruct Hwf as (Hl & Hlen & Hd & Hrest).
  unfold len_is in Hl. do 18 (destruct r as [|? r]; [discriminate Hl|]). destruct r; [|discriminate Hl].
  rename s into id, s0 into status, s1 into direction, s2 into created, s4 into sfa, s5 into sfc, s6 into tfa, s7 into tfc,
         s9 into samt, s10 into scur, s11 into tname, s12 into tamt, s13 into tcur.
  unfold field in Hlen, Hd. cbn [nth] in Hlen, Hd. apply is_some_inv in Hd. destruct Hd as [d Hd].
  unfold ws_entries, ws_cancelled, ws_date, ws_converted, ws_dir_of, ws_fees, ws_scur, ws_tcur, ws_src, ws_tgt,
         ws_text_payment, ws_text_convert, ws_id_text, ws_scur, ws_tcur, ws_src, ws_tgt, field in *. cbn [nth] in *.
  unfold ws_booking, prefix10. rewrite Hlen, Hd. change s_cancelled with [67;65;78;67;69;76;76;69;68]%Z.
  destruct (str_eqb status [67;65;78;67;69;76;76;69;68]%Z); [reflexivity|]. cbn [orb] in Hrest.
  apply andb7b in Hrest. destruct Hrest as (Hf1 & Hf2 & Hs & Ht & Hsc & Htc & Hdir).
  rewrite (ws_fee_spec acct feeacct _ _ Hf1), (ws_fee_spec acct feeacct _ _ Hf2). cbn [mbind].
  apply is_some_inv in Hs. destruct Hs as [src Hs]. apply is_some_inv in Ht. destruct Ht as [tgt Ht].
  rewrite Hs, Ht, Hsc, Htc. cbn [negb orb dec_or0]. cbn [date_or0].
  unfold ws_direction. change s_out with [79;85;84]%Z. change s_in with [73;78]%Z. change s_neutral with [78;69;85;84;82;65;76]%Z.
  destruct (str_eqb scur tcur); cbn [negb];
    (destruct (str_eqb direction [79;85;84]%Z);
     [|destruct (str_eqb direction [73;78]%Z);
       [|destruct (str_eqb direction [78;69;85;84;82;65;76]%Z); [|discriminate Hdir]]]);
    try destruct rep; cbn [map]; rewrite ?map_app, <- ?app_assoc; reflexivity.
Qed.

Lemma ws_rows_ok rep acct feeacct trading rows : forallb ws_wf_row rows = true ->
  ws_rows rep acct feeacct trading (map CRec rows) =
  MOk (map DTxn (map entry_txn (flat_map (ws_entries rep acct feeacct trading) rows))).
Proof.
  induction rows as [|r rows IH]; intros Hwf; [reflexivity|].
  cbn [forallb] in Hwf. apply andb_prop in Hwf. destruct Hwf as [Hr Hrs].
  cbn [map ws_rows flat_map]. rewrite (ws_row rep acct feeacct trading r Hr). cbn [mbind]. rewrite (IH Hrs). cbn [mbind].
  rewrite !map_app. reflexivity.
Qed.

(* every entry of a row: its bookings change the account by its changes *)
Lemma ws_entry_effect rep acct feeacct trading r e c :
  acct <> tbd_account -> acct <> feeacct -> acct <> trading ->
  In e (ws_entries rep acct feeacct trading r) ->
  legs_effect acct c (en_legs e) == expected (re_changes (en_fact e)) c.
Proof.
  intros H1 H2 H3 Hin. unfold ws_entries in Hin.
  destruct (ws_cancelled r); [destruct Hin|].
  assert (Hconv : legs_effect acct c [mkLeg acct trading (ws_scur r) (ws_src r); mkLeg trading acct (ws_tcur r) (ws_tgt r)] ==
                  expected [(ws_scur r, neg (ws_src r)); (ws_tcur r, ws_tgt r)] c).
  { cbn [legs_effect expected fold_right fst snd]. unfold leg_effect. cbn [l_credit l_debit l_com l_qty].
    rewrite !(ind_other_acc trading acct) by congruence. unfold ind. acc_cases.
    destruct (str_eq_dec (ws_scur r) c); destruct (str_eq_dec (ws_tcur r) c); rewrite ?dvalue_neg; ring. }
  assert (Hout : forall cur q, legs_effect acct c [mkLeg acct tbd_account cur q] == expected [(cur, neg q)] c).
  { intros cur q. cbn [legs_effect expected fold_right fst snd]. unfold leg_effect. cbn [l_credit l_debit l_com l_qty].
    rewrite (ind_other_acc tbd_account acct) by congruence. unfold ind. acc_cases.
    destruct (str_eq_dec cur c); rewrite ?dvalue_neg; ring. }
  assert (Hinn : forall cur q, legs_effect acct c [mkLeg tbd_account acct cur q] == expected [(cur, q)] c).
  { intros cur q. cbn [legs_effect expected fold_right fst snd]. unfold leg_effect. cbn [l_credit l_debit l_com l_qty].
    rewrite (ind_other_acc tbd_account acct) by congruence. unfold ind. acc_cases.
    destruct (str_eq_dec cur c); ring. }
  pose proof (fee_legs_effect acct feeacct c (ws_fees r) H2) as Hfee.
  destruct (ws_converted r); destruct (ws_dir_of r); cbn [In] in Hin;
    repeat (destruct Hin as [Hin|Hin]; [subst e; cbn [en_legs en_fact re_changes]|]); try contradiction;
    try (destruct rep; cbn [en_legs en_fact re_changes]);
    rewrite ?legs_effect_app, ?expected_app, ?Hfee, ?Hconv, ?Hout, ?Hinn; try reflexivity.
Qed.

Theorem wise_faithful rep acct feeacct trading rows :
  acct <> tbd_account -> acct <> feeacct -> acct <> trading -> forallb ws_wf_row rows = true ->
  let entries := flat_map (ws_entries rep acct feeacct trading) rows in
  exists ts,
    import_wise rep acct feeacct trading (CRec ws_header :: map CRec rows) = MOk (map DTxn ts) /\
    Forall2 (fun e t => books_b acct (en_fact e) (en_legs e) None t) entries ts /\
    map t_desc ts = map build_desc (map en_text entries).
Proof.
  intros H1 H2 H3 Hwf entries. exists (map entry_txn entries). split; [|split].
  - cbn [import_wise]. rewrite ws_header_self. cbn [mbind]. apply ws_rows_ok. exact Hwf.
  - assert (Hall : forall e, In e entries -> exists r, In e (ws_entries rep acct feeacct trading r)).
    { intros e He. unfold entries in He. apply in_flat_map in He. destruct He as (r & _ & He). eauto. }
    clearbody entries. induction entries as [|e l IH]; cbn [map]; constructor.
    + destruct (Hall e (or_introl eq_refl)) as [r Hr].
      apply books_b_intro; [reflexivity|]. intros c. exact (ws_entry_effect rep acct feeacct trading r e c H1 H2 H3 Hr).
    + apply IH. intros e' He'. apply Hall. right. exact He'.
  - rewrite !map_map. apply map_ext. reflexivity.
Qed.

(* ---------------------------------------------------------------- swissquote *)

Definition sq_record_of (r : list str) : sq_record :=
  mkSq (sqs_date r) (field r 1) (field r 2) (field r 4) (field r 5)
       (if is_empty (field r 3) then None else Some (field r 3))
       (sqs_dec r 6) (sqs_dec r 7) (sqs_dec r 8) (sqs_dec r 9) (sqs_dec r 10) (sqs_dec r 11) (field r 12).

Definition tentry_txn (e : tentry) : txn :=
  mkTxn (re_date (en_fact (fst e))) (build_desc (en_text (fst e))) (legs_postings (en_legs (fst e))) (snd e).

Lemma sq_line_ok r : sqs_wf_row r = true -> sq_line r = MOk (sq_record_of r).
Proof.
  intros H. unfold sqs_wf_row in H.
  apply andb_prop in H. destruct H as [H _]. apply andb_prop in H. destruct H as [H Hcur].
  apply andb_prop in H. destruct H as [H H11]. apply andb_prop in H. destruct H as [H H10].
  apply andb_prop in H. destruct H as [H H9]. apply andb_prop in H. destruct H as [H H8].
  apply andb_prop in H. destruct H as [H H7]. apply andb_prop in H. destruct H as [H H6].
  apply andb_prop in H. destruct H as [H Hsym]. apply andb_prop in H. destruct H as [H Hd].
  apply andb_prop in H. destruct H as [Hl Hlen].
  unfold len_is in Hl. do 13 (destruct r as [|? r]; [discriminate Hl|]). destruct r; [|discriminate Hl].
  unfold sq_record_of, sqs_date, sqs_dec, sqs_dec_ok, field in *. cbn [nth] in *.
  apply is_some_inv in Hd. destruct Hd as [d Hd].
  apply is_some_inv in H6. destruct H6 as [x6 H6]. apply is_some_inv in H7. destruct H7 as [x7 H7].
  apply is_some_inv in H8. destruct H8 as [x8 H8]. apply is_some_inv in H9. destruct H9 as [x9 H9].
  apply is_some_inv in H10. destruct H10 as [x10 H10]. apply is_some_inv in H11. destruct H11 as [x11 H11].
  unfold sq_line, prefix10, sq_decimal. rewrite Hlen, Hd, H6, H7, H8, H9, H10, H11, Hcur. cbn [negb date_or0 dec_or0].
  destruct (is_empty s2); cbn [negb andb orb] in *; [reflexivity|]. rewrite Hsym. reflexivity.
Qed.

Lemma sq_step_spec acct dividend interest tax fee trading pending r : sqs_wf_row r = true ->
  sq_step acct dividend interest tax fee trading (option_map sq_record_of pending) (sq_record_of r) =
  match sqs_kind r with
  | SqTrade => MOk ([DTxn (tentry_txn (sqs_trade acct fee trading r))], option_map sq_record_of pending)
  | SqForex => match pending with
               | None => MOk ([], Some (sq_record_of r))
               | Some l => MOk ([DTxn (tentry_txn (sqs_exchange acct trading l r))], None)
               end
  | _ => match pending with
         | Some _ => MErr e_forex
         | None => MOk ([DTxn (tentry_txn (sqs_single acct dividend interest tax fee r))], None)
         end
  end.
Proof.
  intros Hwf. unfold sqs_wf_row in Hwf. apply andb_prop in Hwf. destruct Hwf as [_ Hsym].
  unfold sq_step, sq_symbol_p, sqs_single, sqs_kind in *. cbn [sq_type sq_record_of sq_symbol sq_currency sq_net sq_fee sq_quantity sq_price sq_order sq_name sq_isin sq_date].
  change s_kauf with [75;97;117;102]%Z. change s_verkauf with [86;101;114;107;97;117;102]%Z.
  change (has_str sq_forex_types (field r 2)) with (sqs_in sqs_forex (field r 2)).
  change (has_str sq_dividend_types (field r 2)) with (sqs_in sqs_dividend (field r 2)).
  change (has_str sq_transfer_types (field r 2)) with (sqs_in sqs_transfer (field r 2)).
  change s_depot with [68;101;112;111;116;103;101;98;195;188;104;114;101;110]%Z. change s_zins with [90;105;110;115]%Z.
  destruct (str_eqb (field r 2) [75;97;117;102]%Z || str_eqb (field r 2) [86;101;114;107;97;117;102]%Z).
  { apply negb_true_iff in Hsym. rewrite Hsym. reflexivity. }
  destruct (sqs_in sqs_forex (field r 2)).
  { destruct pending as [l|]; reflexivity. }
  destruct pending as [l|]; cbn [option_map];
    [destruct (sqs_in sqs_dividend (field r 2)); [reflexivity|];
     destruct (str_eqb (field r 2) [68;101;112;111;116;103;101;98;195;188;104;114;101;110]%Z); [reflexivity|];
     destruct (sqs_in sqs_transfer (field r 2)); [reflexivity|];
     destruct (str_eqb (field r 2) [90;105;110;115]%Z); reflexivity|].
  destruct (sqs_in sqs_dividend (field r 2)).
  { apply negb_true_iff in Hsym. rewrite Hsym. reflexivity. }
  destruct (str_eqb (field r 2) [68;101;112;111;116;103;101;98;195;188;104;114;101;110]%Z); [reflexivity|].
  destruct (sqs_in sqs_transfer (field r 2)); [reflexivity|].
  destruct (str_eqb (field r 2) [90;105;110;115]%Z); reflexivity.
Qed.

Lemma sq_rows_ok acct dividend interest tax fee trading rows : forall pending,
  sqs_wf (is_some pending) rows = true ->
  sq_rows acct dividend interest tax fee trading (option_map sq_record_of pending) (map CRec rows) =
  MOk (map DTxn (map tentry_txn (sqs_entries acct dividend interest tax fee trading pending rows))).
Proof.
  induction rows as [|r rows IH]; intros pending Hwf; [reflexivity|].
  cbn [sqs_wf] in Hwf. apply andb_prop in Hwf. destruct Hwf as [Hr Hrest].
  cbn [map sq_rows sqs_entries]. rewrite (sq_line_ok r Hr). cbn [mbind].
  rewrite (sq_step_spec acct dividend interest tax fee trading pending r Hr).
  destruct (sqs_kind r).
  - cbn [mbind fst snd]. rewrite (IH pending Hrest). reflexivity.
  - destruct pending as [l|]; cbn [mbind fst snd is_some negb] in *.
    + pose proof (IH None Hrest) as E. cbn [option_map] in E. rewrite E. reflexivity.
    + pose proof (IH (Some r) Hrest) as E. cbn [option_map] in E. rewrite E. reflexivity.
  - apply andb_prop in Hrest. destruct Hrest as [Hp Hrest]. destruct pending; [discriminate Hp|].
    cbn [mbind fst snd]. pose proof (IH None Hrest) as E. cbn [option_map] in E. rewrite E. reflexivity.
  - apply andb_prop in Hrest. destruct Hrest as [Hp Hrest]. destruct pending; [discriminate Hp|].
    cbn [mbind fst snd]. pose proof (IH None Hrest) as E. cbn [option_map] in E. rewrite E. reflexivity.
  - apply andb_prop in Hrest. destruct Hrest as [Hp Hrest]. destruct pending; [discriminate Hp|].
    cbn [mbind fst snd]. pose proof (IH None Hrest) as E. cbn [option_map] in E. rewrite E. reflexivity.
  - apply andb_prop in Hrest. destruct Hrest as [Hp Hrest]. destruct pending; [discriminate Hp|].
    cbn [mbind fst snd]. pose proof (IH None Hrest) as E. cbn [option_map] in E. rewrite E. reflexivity.
  - apply andb_prop in Hrest. destruct Hrest as [Hp Hrest]. destruct pending; [discriminate Hp|].
    cbn [mbind fst snd]. pose proof (IH None Hrest) as E. cbn [option_map] in E. rewrite E. reflexivity.
Qed.

Section SwissquoteEffects.
  Variables acct dividend interest tax fee trading : account.
  Hypothesis Htbd : acct <> tbd_account.
  Hypothesis Hdiv : acct <> dividend.
  Hypothesis Hint : acct <> interest.
  Hypothesis Htax : acct <> tax.
  Hypothesis Hfee : acct <> fee.
  Hypothesis Htr : acct <> trading.

  Lemma one_in_effect other cur q c : acct <> other ->
    legs_effect acct c [mkLeg other acct cur q] == expected [(cur, q)] c.
  Proof.
    intros H. cbn [legs_effect expected fold_right fst snd]. unfold leg_effect. cbn [l_credit l_debit l_com l_qty].
    rewrite (ind_other_acc other acct) by congruence. unfold ind. acc_cases. destruct (str_eq_dec cur c); ring.
  Qed.

  Lemma sqs_trade_effect r c :
    legs_effect acct c (en_legs (fst (sqs_trade acct fee trading r))) == expected (re_changes (en_fact (fst (sqs_trade acct fee trading r)))) c.
  Proof.
    unfold sqs_trade. cbn [fst en_legs en_fact re_changes legs_effect expected fold_right snd].
    unfold leg_effect. cbn [l_credit l_debit l_com l_qty].
    rewrite !(ind_other_acc trading acct) by congruence. rewrite (ind_other_acc fee acct) by congruence.
    unfold ind. acc_cases.
    destruct (str_eq_dec (sqs_sym r) c); destruct (str_eq_dec (sqs_cur r) c); rewrite ?dvalue_add, ?dvalue_neg; ring.
  Qed.

  Lemma sqs_exchange_effect l r c :
    legs_effect acct c (en_legs (fst (sqs_exchange acct trading l r))) == expected (re_changes (en_fact (fst (sqs_exchange acct trading l r)))) c.
  Proof.
    unfold sqs_exchange. cbn [fst en_legs en_fact re_changes legs_effect expected fold_right snd].
    unfold leg_effect. cbn [l_credit l_debit l_com l_qty].
    rewrite !(ind_other_acc trading acct) by congruence. unfold ind. acc_cases.
    destruct (str_eq_dec (sqs_cur l) c); destruct (str_eq_dec (sqs_cur r) c); ring.
  Qed.

  Lemma sqs_single_effect r c :
    legs_effect acct c (en_legs (fst (sqs_single acct dividend interest tax fee r))) ==
    expected (re_changes (en_fact (fst (sqs_single acct dividend interest tax fee r)))) c.
  Proof.
    unfold sqs_single. destruct (sqs_kind r); cbn [fst en_legs en_fact re_changes]; try (apply one_in_effect; assumption).
    destruct (is_zero (sqs_dec r 8)); [apply one_in_effect; assumption|].
    cbn [legs_effect expected fold_right fst snd]. unfold leg_effect. cbn [l_credit l_debit l_com l_qty].
    rewrite (ind_other_acc dividend acct) by congruence. rewrite (ind_other_acc tax acct) by congruence.
    unfold ind. acc_cases. destruct (str_eq_dec (sqs_cur r) c); rewrite ?dvalue_neg; ring.
  Qed.

  Lemma sqs_entries_books rows : forall pending,
    Forall2 (fun e t => books_b acct (en_fact (fst e)) (en_legs (fst e)) (snd e) t)
            (sqs_entries acct dividend interest tax fee trading pending rows)
            (map tentry_txn (sqs_entries acct dividend interest tax fee trading pending rows)).
  Proof.
    induction rows as [|r rows IH]; intros pending; [constructor|].
    cbn [sqs_entries]. destruct (sqs_kind r) eqn:Hk.
    2: destruct pending as [l|]; [|apply IH].
    all: cbn [map]; constructor; try apply IH.
    all: apply books_b_intro; [reflexivity|intros c].
    - apply sqs_trade_effect.
    - apply sqs_exchange_effect.
    - apply sqs_single_effect.
    - apply sqs_single_effect.
    - apply sqs_single_effect.
    - apply sqs_single_effect.
    - apply sqs_single_effect.
  Qed.
End SwissquoteEffects.

Theorem swissquote_faithful acct dividend interest tax fee trading header rows :
  acct <> tbd_account -> acct <> dividend -> acct <> interest -> acct <> tax -> acct <> fee -> acct <> trading ->
  sqs_wf false rows = true ->
  let entries := sqs_entries acct dividend interest tax fee trading None rows in
  exists ts,
    import_swissquote acct dividend interest tax fee trading (CRec header :: map CRec rows) = MOk (map DTxn ts) /\
    Forall2 (fun e t => books_b acct (en_fact (fst e)) (en_legs (fst e)) (snd e) t) entries ts /\
    map t_desc ts = map build_desc (map (fun e => en_text (fst e)) entries).
Proof.
  intros H1 H2 H3 H4 H5 H6 Hwf entries. exists (map tentry_txn entries). split; [|split].
  - cbn [import_swissquote]. apply (sq_rows_ok acct dividend interest tax fee trading rows None). exact Hwf.
  - apply sqs_entries_books; assumption.
  - rewrite !map_map. apply map_ext. reflexivity.
Qed.

(* ---------------------------------------------------------------- interactivebrokers (row lemmas) *)

(* evaluates the comparisons of the section name s with the section constants of ib_line *)
Ltac ev_sec sec :=
  repeat match goal with
  | |- context [str_eqb sec ?b] => let v := eval vm_compute in (str_eqb sec b) in change (str_eqb sec b) with v
  end.

Lemma s_data_refl : str_eqb s_data s_data = true.
Proof. reflexivity. Qed.

Section IBRows.
  Variables acct dividend interest tax fee trading : account.
  Variable st : ib_state.
  Hypothesis Htbd : acct <> tbd_account.
  Hypothesis Hdiv : acct <> dividend.
  Hypothesis Hint : acct <> interest.
  Hypothesis Htax : acct <> tax.
  Hypothesis Hfee : acct <> fee.
  Hypothesis Htr : acct <> trading.

  Lemma one_in_books other cur q d desc tg : acct <> other ->
    books_b acct (mkEffect d [(cur, q)]) [mkLeg other acct cur q] tg
            (mkTxn d desc (legs_postings [mkLeg other acct cur q]) tg).
  Proof.
    intros H. apply books_b_intro; [reflexivity|]. intros c. cbn [re_changes].
    apply (one_in_effect acct other cur q c H).
  Qed.

  (* Deposits & Withdrawals,Data,<cur>,<date>,<description>,<amount> *)
  Lemma ib_deposit_row cur day desc amt d q :
    str_eqb cur s_total = false -> is_empty day = false -> valid_name cur = true ->
    parse_iso day = Some d -> ibs_num2 amt = Some q ->
    exists t, ib_line acct dividend interest tax fee trading st [s_deposits; s_data; cur; day; desc; amt] = MOk (st, [DTxn t]) /\
      books_b acct (mkEffect d [(cur, q)]) [mkLeg tbd_account acct cur q] None t.
  Proof.
    intros H1 H2 H3 H4 H5. unfold ibs_num2, ibs_num in H5.
    unfold ib_line. ev_sec s_deposits. cbn [conds fld nth_error]. unfold eqs. rewrite s_data_refl, H1, H2. cbn [negb mbind].
    unfold fld_p, fld. cbn [nth_error]. unfold ib_com. rewrite H3. cbn [mbind]. unfold ib_date. rewrite H4. cbn [mbind].
    unfold ib_rounded, ib_decimal. destruct (new_from_string (remove_byte 44%Z amt)); [|discriminate H5].
    injection H5 as H5. rewrite H5. cbn [ib_dec mbind]. eexists. split; [reflexivity|].
    apply one_in_books. assumption.
  Qed.

  (* Dividends,Data,<cur>,<date>,<description>,<amount> *)
  Lemma ib_dividend_row cur day desc amt d q :
    is_prefix s_total cur = false -> valid_name cur = true -> parse_iso day = Some d -> ibs_num amt = Some q ->
    ibs_security desc <> [] ->
    exists t, ib_line acct dividend interest tax fee trading st [s_dividends; s_data; cur; day; desc; amt] = MOk (st, [DTxn t]) /\
      books_b acct (mkEffect d [(cur, q)]) [mkLeg dividend acct cur q] (Some [ibs_security desc]) t /\
      t_desc t = build_desc desc.
  Proof.
    intros H1 H3 H4 H5 H6. unfold ibs_num in H5.
    unfold ib_line. ev_sec s_dividends. cbn [conds fld nth_error]. unfold eqs. rewrite s_data_refl, H1. cbn [negb mbind andb].
    unfold len_is. cbn [length Nat.eqb]. unfold fld_p, fld. cbn [nth_error]. unfold ib_com. rewrite H3. cbn [mbind].
    unfold ib_date. rewrite H4. cbn [mbind]. unfold ib_decimal. rewrite H5. cbn [ib_dec mbind].
    unfold ib_symbol. fold (ibs_security desc). destruct (ibs_security desc) eqn:E; [contradiction|]. cbn [mbind].
    eexists. split; [reflexivity|]. split; [|reflexivity]. apply one_in_books. assumption.
  Qed.

  (* Interest,Data,<cur>,<date>,<description>,<amount> *)
  Lemma ib_interest_row cur day desc amt d q :
    is_prefix s_total cur = false -> valid_name cur = true -> parse_iso day = Some d -> ibs_num amt = Some q ->
    exists t, ib_line acct dividend interest tax fee trading st [s_interest; s_data; cur; day; desc; amt] = MOk (st, [DTxn t]) /\
      books_b acct (mkEffect d [(cur, q)]) [mkLeg interest acct cur q] (Some [cur]) t /\
      t_desc t = build_desc desc.
  Proof.
    intros H1 H3 H4 H5. unfold ibs_num in H5.
    unfold ib_line. ev_sec s_interest. cbn [conds fld nth_error]. unfold eqs. rewrite s_data_refl, H1. cbn [negb mbind andb].
    unfold len_is. cbn [length Nat.eqb]. unfold fld_p, fld. cbn [nth_error]. unfold ib_com. rewrite H3. cbn [mbind].
    unfold ib_date. rewrite H4. cbn [mbind]. unfold ib_decimal. rewrite H5. cbn [ib_dec mbind].
    eexists. split; [reflexivity|]. split; [|reflexivity]. apply one_in_books. assumption.
  Qed.

  (* Withholding Tax,Data,<cur>,<date>,<description>,<amount>,<code> *)
  Lemma ib_withholding_row cur day desc amt code d q :
    is_prefix s_total cur = false -> valid_name cur = true -> parse_iso day = Some d -> ibs_num amt = Some q ->
    ibs_security desc <> [] ->
    exists t, ib_line acct dividend interest tax fee trading st [s_withholding; s_data; cur; day; desc; amt; code] = MOk (st, [DTxn t]) /\
      books_b acct (mkEffect d [(cur, q)]) [mkLeg tax acct cur q] (Some [ibs_security desc]) t /\
      t_desc t = build_desc desc.
  Proof.
    intros H1 H3 H4 H5 H6. unfold ibs_num in H5.
    unfold ib_line. ev_sec s_withholding. cbn [conds fld nth_error]. unfold eqs. rewrite s_data_refl, H1. cbn [negb mbind].
    unfold fld_p, fld. cbn [nth_error]. unfold ib_com. rewrite H3. cbn [mbind].
    unfold ib_date. rewrite H4. cbn [mbind]. unfold ib_decimal. rewrite H5. cbn [ib_dec mbind].
    unfold ib_symbol. fold (ibs_security desc). destruct (ibs_security desc) eqn:E; [contradiction|]. cbn [mbind].
    eexists. split; [reflexivity|]. split; [|reflexivity]. apply one_in_books. assumption.
  Qed.

  (* Trades,Data,Order,Stocks,<cur>,<symbol>,<date, time>,<quantity>,<price>,_,<proceeds>,<commission>,... (17 fields):
     the holding changes by the quantity ROUNDED to two places, the cash by the ROUNDED proceeds
     plus the (signed, unrounded) commission *)
  Lemma ib_stock_row cur sym stamp qs ps x9 prs fs x12 x13 x14 x15 x16 d qty price proceeds feeq :
    valid_name cur = true -> valid_name sym = true ->
    Nat.leb 10 (length stamp) = true -> parse_iso (firstn 10 stamp) = Some d ->
    ibs_num2 qs = Some qty -> ibs_num ps = Some price -> ibs_num2 prs = Some proceeds -> new_from_string fs = Some feeq ->
    exists t, ib_line acct dividend interest tax fee trading st
                [s_trades; s_data; s_order; s_stocks; cur; sym; stamp; qs; ps; x9; prs; fs; x12; x13; x14; x15; x16] = MOk (st, [DTxn t]) /\
      books_b acct (mkEffect d [(sym, qty); (cur, proceeds); (cur, feeq)])
              [mkLeg trading acct sym qty; mkLeg trading acct cur proceeds; mkLeg fee acct cur feeq] (Some [sym; cur]) t.
  Proof.
    intros H1 H2 H3 H4 H5 H6 H7 H8. unfold ibs_num2, ibs_num in *.
    unfold ib_line. ev_sec s_trades. cbn [conds fld nth_error]. unfold eqs.
    change (str_eqb s_data s_data) with true. change (str_eqb s_order s_order) with true.
    change (str_eqb s_stocks s_forex) with false. change (str_eqb s_stocks s_stocks) with true. cbn [mbind].
    unfold fld_p, fld. cbn [nth_error]. unfold ib_com. rewrite H1, H2. cbn [mbind].
    unfold ib_date10, prefix10, ib_date. rewrite H3, H4. cbn [mbind].
    unfold ib_rounded, ib_decimal.
    destruct (new_from_string (remove_byte 44%Z qs)); [|discriminate H5]. injection H5 as H5. rewrite H5.
    rewrite H6.
    destruct (new_from_string (remove_byte 44%Z prs)); [|discriminate H7]. injection H7 as H7. rewrite H7.
    rewrite H8. cbn [ib_dec mbind]. eexists. split; [reflexivity|].
    apply books_b_intro; [reflexivity|]. intros c. cbn [re_changes legs_effect expected fold_right fst snd].
    unfold leg_effect. cbn [l_credit l_debit l_com l_qty].
    rewrite !(ind_other_acc trading acct) by congruence. rewrite (ind_other_acc fee acct) by congruence.
    unfold ind. acc_cases. destruct (str_eq_dec sym c); destruct (str_eq_dec cur c); ring.
  Qed.
End IBRows.

(* the statement loop concatenates what the records yield, threading the state *)
Lemma ib_rows_cons acct dividend interest tax fee trading st r rest st' ds :
  ib_line acct dividend interest tax fee trading st r = MOk (st', ds) ->
  ib_rows acct dividend interest tax fee trading st (CRec r :: rest) =
  mbind (ib_rows acct dividend interest tax fee trading st' rest) (fun ds' => MOk (ds ++ ds')).
Proof. intros H. cbn [ib_rows]. rewrite H. reflexivity. Qed.
