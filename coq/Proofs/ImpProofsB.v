(* C13, group B importers: proofs of the per-importer row theorems. *)
From Coq Require Import ZArith QArith List Bool Lia.
From Knut Require Import Model.Str Model.Dec Model.Date Model.Account Model.Ledger Model.Journal
     Model.Table Model.Report Model.JPrinter Model.ImpCommonA Model.ImpCommonB
     Model.Imp.Revolut2
     Spec.ImpSpecA Spec.ImpSpecB Proofs.DecProofs Proofs.DecValue Proofs.PairProofs Proofs.StrProofs
     Proofs.ImpProofsA.
Import ListNotations.
Open Scope bool_scope.
Open Scope Q_scope.

(* ---------------------------------------------------------------- effect of a list of bookings *)

(* x if the posting is on account a in commodity c, else 0 *)
Definition ind (b a : account) (c' c : commodity) (x : Q) : Q :=
  if acc_eq_dec b a then if str_eq_dec c' c then x else 0 else 0.

Definition peffect (a : account) (c : commodity) (ps : list posting) : Q :=
  fold_right (fun p s => posting_effect a c p + s) 0 ps.

Lemma effect_peffect a c t : effect a c t = peffect a c (t_postings t).
Proof. reflexivity. Qed.

Lemma peffect_app a c l1 l2 : peffect a c (l1 ++ l2) == peffect a c l1 + peffect a c l2.
Proof.
  unfold peffect. induction l1 as [|p l1 IH]; cbn [app fold_right].
  - ring.
  - rewrite IH. ring.
Qed.

Lemma ind_neg b a c' c q : ind b a c' c (dvalue (neg q)) == - ind b a c' c (dvalue q).
Proof. unfold ind. destruct (acc_eq_dec b a); [destruct (str_eq_dec c' c)|]; try ring. apply dvalue_neg. Qed.

(* a booking raises the debited account and lowers the credited one, whatever the sign of the
   quantity (Build swaps the sides of a negative booking) *)
Definition leg_effect (a : account) (c : commodity) (l : leg) : Q :=
  ind (l_debit l) a (l_com l) c (dvalue (l_qty l)) - ind (l_credit l) a (l_com l) c (dvalue (l_qty l)).

Lemma booking_effect a c l : peffect a c (booking_postings l) == leg_effect a c l.
Proof.
  unfold booking_postings, pair_build, leg_effect, peffect.
  destruct (is_neg (l_qty l) || is_zero (l_qty l) && is_neg dec_nil); cbn [fold_right];
    unfold posting_effect; cbn [p_acc p_com p_qty];
    fold (ind (l_debit l) a (l_com l) c (dvalue (neg (neg (l_qty l)))));
    fold (ind (l_credit l) a (l_com l) c (dvalue (neg (l_qty l))));
    fold (ind (l_credit l) a (l_com l) c (dvalue (neg (l_qty l))));
    fold (ind (l_debit l) a (l_com l) c (dvalue (l_qty l)));
    rewrite ?ind_neg; ring.
Qed.

Definition legs_effect (a : account) (c : commodity) (ls : list leg) : Q :=
  fold_right (fun l s => leg_effect a c l + s) 0 ls.

Lemma bookings_effect a c ls : peffect a c (concat (map booking_postings ls)) == legs_effect a c ls.
Proof.
  induction ls as [|l ls IH]; cbn [map concat legs_effect fold_right]; [reflexivity|].
  rewrite peffect_app, booking_effect. fold (legs_effect a c ls). rewrite IH. reflexivity.
Qed.

Lemma legs_postings_spec ls : legs_postings ls = concat (map booking_postings ls).
Proof. unfold legs_postings. rewrite flat_map_concat_map. reflexivity. Qed.

(* a transaction built from bookings books the row once the bookings add up to the row's changes *)
Lemma books_b_intro acct f ls tg d desc :
  re_date f = d ->
  (forall c, legs_effect acct c ls == expected (re_changes f) c) ->
  books_b acct f ls tg (mkTxn d desc (legs_postings ls) tg).
Proof.
  intros Hd He. unfold books_b, consists_of. cbn [t_date t_postings t_targets].
  repeat split; try congruence.
  - apply legs_postings_spec.
  - intros c. rewrite effect_peffect. cbn [t_postings]. rewrite legs_postings_spec, bookings_effect. apply He.
Qed.

Lemma ind_same a c x : ind a a c c x == x.
Proof. unfold ind. destruct (acc_eq_dec a a); [|contradiction]. destruct (str_eq_dec c c); [reflexivity|contradiction]. Qed.
Lemma ind_other_acc b a c' c x : b <> a -> ind b a c' c x == 0.
Proof. intros H. unfold ind. destruct (acc_eq_dec b a); [contradiction|reflexivity]. Qed.

(* evaluates the account tests of leg_effect / expected under inequality hypotheses *)
Ltac acc_cases :=
  repeat match goal with
  | |- context [acc_eq_dec ?x ?x] => destruct (acc_eq_dec x x); [|contradiction]
  | H : ?x <> ?y |- context [acc_eq_dec ?x ?y] => destruct (acc_eq_dec x y); [contradiction|]
  | H : ?y <> ?x |- context [acc_eq_dec ?x ?y] => destruct (acc_eq_dec x y); [symmetry in *; contradiction|]
  end.

Lemma is_zero_dvalue d : is_zero d = true -> dvalue d == 0.
Proof. apply is_zero_value. Qed.

(* ---------------------------------------------------------------- list shapes *)
Lemma andb5 a b c d e : a && b && c && d && e = true ->
  a = true /\ b = true /\ c = true /\ d = true /\ e = true.
Proof. destruct a, b, c, d, e; cbn; intuition congruence. Qed.

(* ---------------------------------------------------------------- revolut2 *)

Lemma r2_key_eqb_eq a b : r2_key_eqb a b = true <-> a = b.
Proof.
  destruct a as [d c], b as [d' c']. unfold r2_key_eqb. cbn [fst snd]. rewrite andb_true_iff, Z.eqb_eq, str_eqb_eq.
  split; [intros [-> ->]; reflexivity|intros H; injection H; auto].
Qed.

Lemma r2_key_eqb_neq a b : r2_key_eqb a b = false <-> a <> b.
Proof.
  split.
  - intros H E. apply r2_key_eqb_eq in E. congruence.
  - intros H. destruct (r2_key_eqb a b) eqn:E; [apply r2_key_eqb_eq in E; contradiction|reflexivity].
Qed.

Lemma r2_put_other m k k' v v' : k' <> k -> (In (k, v) (r2_put m k' v') <-> In (k, v) m).
Proof.
  intros Hne. induction m as [|[k0 v0] m IH]; cbn [r2_put].
  - cbn. split; [intros [H|[]]; injection H; intros; subst; contradiction|intros []].
  - destruct (r2_key_eqb k' k0) eqn:E.
    + apply r2_key_eqb_eq in E. subst k0. cbn [In]. split; intros [H|H]; auto; injection H; intros; subst; contradiction.
    + cbn [In]. rewrite IH. reflexivity.
Qed.

Lemma r2_put_keys m k v :
  map fst (r2_put m k v) = if in_dec key_eq_dec k (map fst m) then map fst m else map fst m ++ [k].
Proof.
  induction m as [|[k0 v0] m IH]; cbn [r2_put map fst]; [reflexivity|].
  destruct (r2_key_eqb k k0) eqn:E.
  - apply r2_key_eqb_eq in E. subst k0. cbn [map fst].
    destruct (in_dec key_eq_dec k (k :: map fst m)) as [_|n]; [reflexivity|exfalso; apply n; left; reflexivity].
  - apply r2_key_eqb_neq in E. cbn [map fst]. rewrite IH.
    destruct (in_dec key_eq_dec k (map fst m)) as [i|n];
      destruct (in_dec key_eq_dec k (k0 :: map fst m)) as [i'|n']; try reflexivity.
    + exfalso. apply n'. right. exact i.
    + exfalso. destruct i' as [H|H]; [congruence|contradiction].
Qed.

Lemma nodup_snoc {A} (l : list A) x : NoDup l -> ~ In x l -> NoDup (l ++ [x]).
Proof.
  intros H Hn. induction H as [|y l Hy H IH]; cbn [app].
  - constructor; [intros []|constructor].
  - constructor.
    + rewrite in_app_iff. intros [Hi|[Hi|[]]]; [contradiction|]. subst. apply Hn. left. reflexivity.
    + apply IH. intros Hi. apply Hn. right. exact Hi.
Qed.

Lemma r2_put_nodup m k v : NoDup (map fst m) -> NoDup (map fst (r2_put m k v)).
Proof.
  intros H. rewrite r2_put_keys. destruct (in_dec key_eq_dec k (map fst m)) as [i|n]; [exact H|].
  apply nodup_snoc; assumption.
Qed.

Lemma r2_put_same m k v v' : NoDup (map fst m) -> (In (k, v) (r2_put m k v') <-> v = v').
Proof.
  induction m as [|[k0 v0] m IH]; intros Hnd; cbn [r2_put].
  - cbn. split; [intros [H|[]]; injection H; auto|intros ->; left; reflexivity].
  - cbn [map fst] in Hnd. inversion Hnd as [|x l Hx Hl]; subst.
    destruct (r2_key_eqb k k0) eqn:E.
    + apply r2_key_eqb_eq in E. subst k0. cbn [In]. split.
      * intros [H|H]; [injection H; auto|]. exfalso. apply Hx. change k with (fst (k, v)). apply in_map. exact H.
      * intros ->. left. reflexivity.
    + apply r2_key_eqb_neq in E. cbn [In]. rewrite (IH Hl). split; [intros [H|H]; [injection H; intros; subst; contradiction|exact H]|auto].
Qed.

(* what the rows do to the balance map *)
Definition r2_puts (m : list (r2_key * dec)) (rows : list (list str)) : list (r2_key * dec) :=
  fold_left (fun m r => if r2_is_booking r then r2_put m (r2_key_of r) (r2_balance r) else m) rows m.

Lemma r2_puts_nodup rows : forall m, NoDup (map fst m) -> NoDup (map fst (r2_puts m rows)).
Proof.
  induction rows as [|r rows IH]; intros m H; [exact H|].
  cbn [r2_puts fold_left]. apply IH. destruct (r2_is_booking r); [apply r2_put_nodup|]; exact H.
Qed.

Lemma r2_puts_closing rows : forall m k v, NoDup (map fst m) ->
  (In (k, v) (r2_puts m rows) <-> match r2_closing k rows with Some v' => v = v' | None => In (k, v) m end).
Proof.
  induction rows as [|r rows IH]; intros m k v Hnd; [reflexivity|].
  cbn [r2_puts fold_left r2_closing]. fold (r2_puts (if r2_is_booking r then r2_put m (r2_key_of r) (r2_balance r) else m) rows).
  rewrite IH by (destruct (r2_is_booking r); [apply r2_put_nodup|]; exact Hnd).
  destruct (r2_closing k rows); [reflexivity|].
  destruct (r2_is_booking r); [|reflexivity].
  destruct (key_eq_dec (r2_key_of r) k) as [e|n].
  - subst k. apply r2_put_same. exact Hnd.
  - apply r2_put_other. exact n.
Qed.

(* one well-formed row *)
Lemma r2_row_skipped acct feeacct r : r2_wf_row r = true -> r2_is_booking r = false ->
  r2_booking acct feeacct r = MOk None.
Proof.
  intros Hwf Hb. unfold r2_wf_row in Hwf. apply andb_prop in Hwf. destruct Hwf as [Hl _].
  unfold len_is in Hl. do 10 (destruct r as [|? r]; [discriminate Hl|]).
  unfold r2_is_booking, field in Hb. cbn [nth] in Hb. apply negb_false_iff in Hb.
  unfold r2_booking, fld_p, fld. cbn [nth_error]. rewrite Hb. reflexivity.
Qed.

Lemma r2_row_booking acct feeacct r : r2_wf_row r = true -> r2_is_booking r = true ->
  r2_booking acct feeacct r =
  MOk (Some (legs_txn (r2_date r) (r2_text r) (r2_legs acct feeacct r) None, (r2_key_of r, r2_balance r))).
Proof.
  intros Hwf Hb. unfold r2_wf_row in Hwf. apply andb_prop in Hwf. destruct Hwf as [Hl Hwf].
  unfold len_is in Hl. do 10 (destruct r as [|? r]; [discriminate Hl|]). destruct r; [|discriminate Hl].
  unfold r2_is_booking, field in Hb. cbn [nth] in Hb. apply negb_true_iff in Hb.
  unfold field in Hwf. cbn [nth] in Hwf. rewrite Hb in Hwf. cbn [orb] in Hwf.
  apply andb_prop in Hwf. destruct Hwf as [Hwf Hbal]. apply andb5 in Hwf. destruct Hwf as (Hlen & Hd & Hc & Ha & Hf).
  apply is_some_inv in Hd. destruct Hd as [d Hd]. apply is_some_inv in Ha. destruct Ha as [a Ha].
  apply is_some_inv in Hf. destruct Hf as [f Hf]. apply is_some_inv in Hbal. destruct Hbal as [b Hbal].
  unfold r2_booking, fld_p, fld, prefix10. cbn [nth_error]. rewrite Hb, Hlen, Hd, Hc. cbn [negb]. rewrite Ha, Hf, Hbal.
  unfold r2_date, r2_text, r2_legs, r2_key_of, r2_date, r2_cur, r2_amount, r2_fee, r2_balance, field. cbn [nth].
  rewrite Hd, Ha, Hf, Hbal. reflexivity.
Qed.

Lemma r2_legs_effect acct feeacct r c : acct <> tbd_account -> acct <> feeacct ->
  legs_effect acct c (r2_legs acct feeacct r) == expected (re_changes (r2_fact r)) c.
Proof.
  intros H1 H2. unfold r2_legs, r2_fact. cbn [re_changes expected fold_right fst snd].
  destruct (is_zero (r2_fee r)) eqn:Hz; cbn [legs_effect fold_right]; unfold leg_effect; cbn [l_credit l_debit l_com l_qty].
  - apply is_zero_dvalue in Hz. rewrite (ind_other_acc tbd_account acct) by congruence.
    unfold ind. acc_cases. destruct (str_eq_dec (r2_cur r) c); [rewrite dvalue_sub, Hz|]; ring.
  - rewrite (ind_other_acc tbd_account acct) by congruence. rewrite (ind_other_acc feeacct acct) by congruence.
    unfold ind. acc_cases. destruct (str_eq_dec (r2_cur r) c); [rewrite dvalue_sub|]; ring.
Qed.

Definition r2_txn (acct feeacct : account) (r : list str) : txn :=
  mkTxn (r2_date r) (build_desc (r2_text r)) (legs_postings (r2_legs acct feeacct r)) None.

Lemma r2_rows_ok acct feeacct rows : forall m, forallb r2_wf_row rows = true ->
  r2_rows acct feeacct (map CRec rows) m =
  MOk (map DTxn (map (r2_txn acct feeacct) (filter r2_is_booking rows)), r2_puts m rows).
Proof.
  induction rows as [|r rows IH]; intros m Hwf; [reflexivity|].
  cbn [forallb] in Hwf. apply andb_prop in Hwf. destruct Hwf as [Hr Hrs].
  cbn [map r2_rows filter r2_puts fold_left]. destruct (r2_is_booking r) eqn:Hb.
  - rewrite (r2_row_booking acct feeacct r Hr Hb). cbn [mbind]. rewrite (IH _ Hrs). cbn [mbind fst snd map]. reflexivity.
  - rewrite (r2_row_skipped acct feeacct r Hr Hb). cbn [mbind]. apply IH, Hrs.
Qed.

Lemma r2_header_self : r2_header_ok r2_header r2_header = MOk tt.
Proof. vm_compute. reflexivity. Qed.

Definition r2_bal_fact (kv : r2_key * dec) : balance_fact := mkBalFact (fst (fst kv)) (snd (fst kv)) (snd kv).

Theorem revolut2_faithful acct feeacct rows :
  acct <> tbd_account -> acct <> feeacct -> forallb r2_wf_row rows = true ->
  exists ts bals,
    import_revolut2 acct feeacct (CRec r2_header :: map CRec rows) =
      MOk (map DTxn ts ++ map (assertion_of acct) bals) /\
    Forall2 (fun r t => books_b acct (r2_fact r) (r2_legs acct feeacct r) None t) (filter r2_is_booking rows) ts /\
    map t_desc ts = map build_desc (map r2_text (filter r2_is_booking rows)) /\
    NoDup (map (fun b => (bf_date b, bf_com b)) bals) /\
    (forall d c v, In (mkBalFact d c v) bals <-> r2_closing (d, c) rows = Some v).
Proof.
  intros H1 H2 Hwf.
  exists (map (r2_txn acct feeacct) (filter r2_is_booking rows)), (map r2_bal_fact (r2_puts [] rows)).
  split; [|split; [|split; [|split]]].
  - cbn [import_revolut2]. rewrite r2_header_self. cbn [mbind]. rewrite (r2_rows_ok acct feeacct rows [] Hwf). cbn [mbind fst snd].
    f_equal. f_equal. unfold r2_assertions. rewrite map_map. apply map_ext. intros [[d c] v]. reflexivity.
  - induction (filter r2_is_booking rows) as [|r l IH]; cbn [map]; constructor; [|exact IH].
    apply books_b_intro; [reflexivity|]. intros c. apply r2_legs_effect; assumption.
  - rewrite !map_map. apply map_ext. reflexivity.
  - rewrite map_map. replace (map (fun x => (bf_date (r2_bal_fact x), bf_com (r2_bal_fact x))) (r2_puts [] rows))
      with (map fst (r2_puts [] rows)).
    + apply r2_puts_nodup. constructor.
    + apply map_ext. intros [[d c] v]. reflexivity.
  - intros d c v. pose proof (r2_puts_closing rows [] (d, c) v (NoDup_nil _)) as H.
    assert (Hin : In (mkBalFact d c v) (map r2_bal_fact (r2_puts [] rows)) <-> In ((d, c), v) (r2_puts [] rows)).
    { rewrite in_map_iff. split.
      - intros ([[d' c'] v'] & He & Hi). unfold r2_bal_fact in He. cbn [fst snd] in He. injection He. intros; subst. exact Hi.
      - intros Hi. exists ((d, c), v). split; [reflexivity|exact Hi]. }
    rewrite Hin, H. destruct (r2_closing (d, c) rows) as [v'|].
    + split; [intros ->; reflexivity|intros E; injection E; auto].
    + split; [intros []|discriminate].
Qed.

