(* Sums over the report trees, in rationals.  For a key mapper f and a key k', [tsum f k' n] is
   the total value of all amounts stored anywhere in the tree n under keys that f maps to k'. *)
From Coq Require Import ZArith QArith List Bool Lia Permutation Setoid Morphisms.
From Knut Require Import Model.Str Model.Dec Model.Date Model.Account Model.Ledger Model.Price
     Model.Table Model.Report Proofs.DecProofs Proofs.DecValue Proofs.StrProofs.
Import ListNotations.
Open Scope Q_scope.

Lemma oz_eqb_eq a b : oz_eqb a b = true <-> a = b.
Proof.
  destruct a, b; cbn; try (split; congruence).
  rewrite Z.eqb_eq. split; congruence.
Qed.

Lemma ocom_eqb_eq a b : ocom_eqb a b = true <-> a = b.
Proof.
  destruct a, b; cbn; try (split; congruence).
  rewrite str_eqb_eq. split; congruence.
Qed.

Lemma rkey_eqb_eq a b : rkey_eqb a b = true <-> a = b.
Proof.
  destruct a, b. unfold rkey_eqb. cbn [fst snd]. rewrite andb_true_iff, oz_eqb_eq, ocom_eqb_eq.
  split; [intros [-> ->]; reflexivity|intros H; inversion H; auto].
Qed.

Lemma rkey_eqb_refl a : rkey_eqb a a = true.
Proof. apply rkey_eqb_eq. reflexivity. Qed.

Definition contrib (f : rkey -> rkey) (k' : rkey) (k : rkey) (v : dec) : Q :=
  if rkey_eqb (f k) k' then dvalue v else 0.

Fixpoint esum (f : rkey -> rkey) (k' : rkey) (m : ramounts) : Q :=
  match m with
  | [] => 0
  | (k, v) :: rest => contrib f k' k v + esum f k' rest
  end.

Fixpoint tsum (f : rkey -> rkey) (k' : rkey) (n : node) : Q :=
  match n with
  | Node _ _ _ a ch => esum f k' a + fold_right (fun c acc => tsum f k' c + acc) 0 ch
  end.

Definition csum (f : rkey -> rkey) (k' : rkey) (ch : list node) : Q :=
  fold_right (fun c acc => tsum f k' c + acc) 0 ch.

Lemma tsum_unfold f k' s p hv a ch : tsum f k' (Node s p hv a ch) = esum f k' a + csum f k' ch.
Proof. reflexivity. Qed.

Lemma esum_app f k' a b : esum f k' (a ++ b) == esum f k' a + esum f k' b.
Proof.
  induction a as [|[k v] a IH]; cbn [app esum]; [ring|]. rewrite IH. ring.
Qed.

Lemma contrib_add f k' k a b : contrib f k' k (add a b) == contrib f k' k a + contrib f k' k b.
Proof. unfold contrib. destruct (rkey_eqb (f k) k'); [apply dvalue_add|ring]. Qed.

Lemma esum_ra_add f k' m k v : esum f k' (ra_add m k v) == esum f k' m + contrib f k' k v.
Proof.
  induction m as [|[k0 v0] m IH]; cbn [ra_add esum].
  - rewrite contrib_add. unfold contrib at 1. destruct (rkey_eqb (f k) k'); [rewrite dvalue_nil|]; ring.
  - destruct (rkey_eqb k k0) eqn:E.
    + apply rkey_eqb_eq in E. subst k0. cbn [esum]. rewrite contrib_add. ring.
    + cbn [esum]. rewrite IH. ring.
Qed.

Lemma esum_filter_nonzero f k' m :
  esum f k' (filter (fun kv => negb (is_zero (snd kv))) m) == esum f k' m.
Proof.
  induction m as [|[k v] m IH]; cbn [filter esum snd]; [reflexivity|].
  destruct (is_zero v) eqn:E; cbn [negb].
  - rewrite IH. unfold contrib. destruct (rkey_eqb (f k) k'); [|ring].
    apply is_zero_value in E. rewrite E. ring.
  - cbn [esum]. rewrite IH. reflexivity.
Qed.

(* folding ra_add with a mapped key: the contribution of every source entry is added *)
Lemma esum_fold_add g f k' src : forall dest,
  esum f k' (fold_left (fun d kv => ra_add d (g (fst kv)) (snd kv)) src dest)
  == esum f k' dest + esum (fun k => f (g k)) k' src.
Proof.
  induction src as [|[k v] src IH]; intros dest; cbn [fold_left esum fst snd]; [ring|].
  rewrite IH, esum_ra_add. unfold contrib. ring.
Qed.

Lemma esum_sum_into f k' dest src g :
  esum f k' (ra_sum_into dest src g) == esum f k' dest + esum (fun k => f (g k)) k' src.
Proof. unfold ra_sum_into. rewrite esum_filter_nonzero. apply esum_fold_add. Qed.

Lemma esum_plus f k' a b : esum f k' (ra_plus a b) == esum f k' a + esum f k' b.
Proof.
  unfold ra_plus. rewrite (esum_fold_add (fun k => k)). reflexivity.
Qed.

(* ------------------------------------------------------------ insertion into the tree *)

Lemma csum_children_insert f k' rec h path (delta : Q) l :
  (forall c, tsum f k' (rec c) == tsum f k' c + delta) ->
  csum f k' (children_insert rec h path l) == csum f k' l + delta.
Proof.
  intros Hrec. induction l as [|c l IH]; cbn [children_insert].
  - unfold csum. cbn [fold_right]. rewrite Hrec. cbn [tsum esum fold_right]. ring.
  - destruct (str_cmp h (n_seg c)).
    + unfold csum. cbn [fold_right]. rewrite Hrec. ring.
    + unfold csum. cbn [fold_right]. rewrite Hrec. cbn [tsum esum fold_right]. ring.
    + unfold csum in *. cbn [fold_right]. rewrite IH. ring.
Qed.

Lemma tsum_node_insert f k' k v : forall fuel prefix rest n,
  (length rest <= fuel)%nat ->
  tsum f k' (node_insert fuel prefix rest k v n) == tsum f k' n + contrib f k' k v.
Proof.
  induction fuel as [|fu IH]; intros prefix rest [s p hv a ch] Hlen.
  - destruct rest; [|cbn in Hlen; lia]. cbn [node_insert]. rewrite !tsum_unfold, esum_ra_add. ring.
  - destruct rest as [|h tail].
    + cbn [node_insert]. rewrite !tsum_unfold, esum_ra_add. ring.
    + cbn [node_insert]. rewrite !tsum_unfold.
      rewrite (csum_children_insert f k' _ h (prefix ++ [h]) (contrib f k' k v)).
      * ring.
      * intros c. apply IH. cbn in Hlen. lia.
Qed.

Definition rsum (f : rkey -> rkey) (k' : rkey) (r : report) : Q := tsum f k' (r_al r) + tsum f k' (r_eie r).

Lemma rsum_insert f k' r date a c v :
  rsum f k' (report_insert r date a c v) == rsum f k' r + contrib f k' (date, Some c) v.
Proof.
  unfold report_insert, rsum. destruct (is_AL a); cbn [r_al r_eie];
    rewrite tsum_node_insert by lia; ring.
Qed.

Lemma rsum_new f k' : rsum f k' new_report == 0.
Proof. unfold rsum, new_report, empty_root. cbn. ring. Qed.

(* ------------------------------------------------------------ sorting and totals *)

Lemma csum_perm f k' l1 l2 : Permutation l1 l2 -> csum f k' l1 == csum f k' l2.
Proof.
  induction 1; unfold csum in *; cbn [fold_right]; try reflexivity.
  - rewrite IHPermutation. reflexivity.
  - ring.
  - rewrite IHPermutation1. exact IHPermutation2.
Qed.

Lemma csum_map_ext f k' g l :
  Forall (fun c => tsum f k' (g c) == tsum f k' c) l -> csum f k' (map g l) == csum f k' l.
Proof.
  induction 1 as [|c l Hc _ IH]; unfold csum in *; cbn [map fold_right]; [reflexivity|].
  rewrite Hc, IH. reflexivity.
Qed.

Fixpoint node_size (n : node) : nat :=
  match n with Node _ _ _ _ ch => S (fold_right (fun c acc => node_size c + acc)%nat O ch) end.

Lemma node_ind_size (P : node -> Prop) :
  (forall s p hv a ch, Forall P ch -> P (Node s p hv a ch)) -> forall n, P n.
Proof.
  intros H. fix IH 1. intros [s p hv a ch]. apply H.
  induction ch as [|c ch IHch]; constructor; [apply IH|exact IHch].
Qed.

Lemma tsum_node_sort f k' alpha valued n : tsum f k' (node_sort alpha valued n) == tsum f k' n.
Proof.
  induction n as [s p hv a ch IH] using node_ind_size.
  cbn [node_sort]. rewrite !tsum_unfold.
  rewrite (csum_perm f k' _ _ (sort_by_perm _ _)).
  rewrite csum_map_ext; [reflexivity|exact IH].
Qed.

Lemma esum_node_totals f k' g n : forall acc,
  esum f k' (node_totals g n acc) == esum f k' acc + tsum (fun k => f (g k)) k' n.
Proof.
  induction n as [s p hv a ch IH] using node_ind_size. intros acc.
  cbn [node_totals]. rewrite esum_sum_into, tsum_unfold.
  assert (Hch : forall acc0, esum f k' (fold_left (fun x c => node_totals g c x) ch acc0)
                             == esum f k' acc0 + csum (fun k => f (g k)) k' ch).
  { clear - IH. induction IH as [|c ch Hc _ IHch]; intros acc0; cbn [fold_left].
    - unfold csum. cbn. ring.
    - rewrite IHch, Hc. unfold csum. cbn [fold_right]. ring. }
  rewrite Hch. ring.
Qed.
