(* C09_same_reports without C05's exclusion of conflicting prices.
   journal.Print reorders nothing but the transactions of a day: the printed days have the
   journal's price lists.  C05's stage lemmas need [prices_consistent] only to commute price
   declarations; with EQUAL price lists ComputePrices runs identically ([cp_stage_same]), and the
   rest of C05's chain (Valuate, Filter, CloseAccounts, Query.Into, the renderer) applies as it
   stands.  [reports_printed_dirs_direct]: the printed sequence has the journal's reports. *)
From Coq Require Import ZArith List Bool Lia Permutation.
From Knut Require Import Model.Str Model.Dec Model.Date Model.Account Model.Ledger Model.Price Model.Journal
     Model.Check Model.Pipeline Model.Table Model.Report Model.JPrinter Model.Cli.
From Knut Require Import Spec.WellformedSpec Proofs.StrProofs Proofs.BuilderProofs Proofs.CheckPerm Proofs.OrderProofs Proofs.OrderStages
     Proofs.OrderPipeline Proofs.OrderReport Proofs.OrderRender Proofs.OrderCmd
     Proofs.PrintProofs Proofs.PrintRegroup Proofs.PrintNormal.
Import ListNotations.
Open Scope bool_scope.
Open Scope Z_scope.

Definition DIsame (d1 d2 : day) : Prop := DIok d1 d2 /\ d_prices d1 = d_prices d2.

Lemma cp_day_same v s1 s2 d1 d2 :
  s1 = s2 -> DIsame d1 d2 ->
  req (fun a b => fst a = fst b /\ DIok (snd a) (snd b))
      (process_day (compute_prices_proc v) s1 d1) (process_day (compute_prices_proc v) s2 d2).
Proof.
  intros <- [[De Hok] Hp]. pose proof De as (E0 & E1 & E2 & E3 & E4 & E5 & E6).
  unfold process_day. proc_fields. cbn [rbind fst snd]. rewrite <- Hp.
  destruct (fold_res cp_price_cb s1 (d_prices d1)) as [a1| |]; cbn [rbind req]; try exact I.
  rewrite !fold_txns_none by reflexivity. cbn [rbind fst snd].
  rewrite !fold_asserts_none by reflexivity. cbn [rbind]. rewrite !day_eta.
  assert (HR : forall n, day_equiv (set_normalized d1 n)
             (set_normalized (mkDay (d_date d2) (d_prices d1) (d_opens d2) (d_txns d2) (d_asserts d2) (d_closes d2) (d_normalized d2)) n)).
  { intros n. repeat split; cbn [set_normalized d_date d_prices d_opens d_txns d_asserts d_closes d_normalized]; try assumption. apply Permutation_refl. }
  unfold cp_day_end. cbn [d_prices].
  destruct (d_prices d1) as [|x1 r1].
  - cbn [req fst snd]. split; [reflexivity|]. split; [apply HR|exact Hok].
  - destruct (normalize (cp_prices a1) v); cbn [req fst snd]; [|exact I].
    split; [reflexivity|]. split; [apply HR|exact Hok].
Qed.

Theorem cp_stage_same v s l1 l2 :
  Forall2 DIsame l1 l2 ->
  req (fun a b => fst a = fst b /\ Forall2 DIok (snd a) (snd b))
      (process_days (compute_prices_proc v) s l1) (process_days (compute_prices_proc v) s l2).
Proof.
  intros HF. apply (process_days_rel (compute_prices_proc v) eq DIsame DIok); [|exact HF|reflexivity].
  intros; apply cp_day_same; assumption.
Qed.

Lemma upd_day_id_same dt l1 l2 :
  Forall2 DIsame l1 l2 -> Forall2 DIsame (upd_day l1 dt (fun x => x)) (upd_day l2 dt (fun x => x)).
Proof.
  assert (He : DIsame (empty_day dt) (empty_day dt)).
  { split; [|reflexivity]. split; [apply day_equiv_refl|]. intros t p []. }
  induction 1 as [|x y l1 l2 Hxy Hl IH]; cbn [upd_day].
  - constructor; [exact He|constructor].
  - assert (E : d_date x = d_date y) by apply Hxy. rewrite E.
    destruct (dt =? d_date y); [constructor; assumption|].
    destruct (dt <? d_date y).
    + constructor; [exact He|]. constructor; assumption.
    + constructor; assumption.
Qed.

Lemma builder_touch_same b1 b2 dates :
  Forall2 DIsame (b_days b1) (b_days b2) -> Forall2 DIsame (b_days (builder_touch b1 dates)) (b_days (builder_touch b2 dates)).
Proof.
  unfold builder_touch. cbn [b_days]. generalize (b_days b1) (b_days b2).
  induction dates as [|d dates IH]; intros l l' H; cbn [fold_left]; [exact H|]. apply IH. now apply upd_day_id_same.
Qed.

Lemma Forall2_DIsame_ok l1 l2 : Forall2 DIsame l1 l2 -> Forall2 DIok l1 l2.
Proof. induction 1 as [|x y l1 l2 [H _] Hl IH]; constructor; assumption. Qed.

(* C05's chain from two builders whose days differ in the order of each day's transactions only *)
Theorem balance_table_same cfg X X' b b' :
  load X = COk b -> load X' = COk b' ->
  Forall2 DIsame (b_days b) (b_days b') -> b_min b = b_min b' -> b_max b = b_max b' ->
  ceq eq (balance_table cfg X) (balance_table cfg X').
Proof.
  intros HX HX' HF Hmin Hmax. unfold balance_table.
  eapply (ceq_bind (fun a a' => report_eq (fst a) (fst a') /\ snd a = snd a')).
  2:{ intros [r1 p1] [r2 p2] [H E]. cbn [fst snd ceq] in *. subst p2. apply render_report_eq. exact H. }
  rewrite !balance_report_days.
  eapply (ceq_bind (fun a a' => Forall2 DIok (fst a) (fst a') /\ snd a = snd a')).
  2:{ intros [l1 pt1] [l2 pt2] [HF' E]. cbn [fst snd] in *. subst pt2.
      eapply ceq_bind.
      - unfold run_stage. apply ceq_of_presult. apply query_stage_rel. apply Forall2_DIok_equiv. exact HF'.
      - intros [r1 x1] [r2 x2] H. cbn [ceq fst snd] in *. split; [exact H|reflexivity]. }
  unfold balance_days. rewrite HX, HX'.
  destruct (match bc_valuation cfg with Some v => if valid_commodity v then COk tt else CErr k_valuation v | None => COk tt end);
    cbn [cbind ceq]; try exact I.
  rewrite (cfg_partition_equiv cfg b b' Hmin Hmax).
  destruct (cfg_partition cfg b') as [part| |]; cbn [cbind ceq]; try exact I. cbv zeta.
  set (c1 := if bc_close cfg then builder_touch b (start_dates part) else b).
  set (c2 := if bc_close cfg then builder_touch b' (start_dates part) else b').
  assert (HS : Forall2 DIsame (b_days c1) (b_days c2)).
  { unfold c1, c2. destruct (bc_close cfg); [now apply builder_touch_same|exact HF]. }
  pose proof (Forall2_DIsame_ok _ _ HS) as HF'.
  eapply ceq_bind; [apply check_stage_current; exact HF'|].
  intros [s1 r1] [s2 r2] [E1 E2]. cbn [fst snd] in *. subst r1 r2.
  eapply ceq_bind.
  { instantiate (1 := fun l1 l2 => Forall2 DIok l1 l2).
    destruct (bc_valuation cfg) as [v|]; [|exact HF'].
    eapply ceq_bind.
    - unfold run_stage. apply ceq_of_presult. apply cp_stage_same. exact HS.
    - intros [u1 q1] [u2 q2] [_ Hq]. cbn [fst snd] in *.
      eapply ceq_bind.
      + unfold run_stage. apply ceq_of_presult. apply val_stage_rel; [intros k0 a0 c0 q0 []|exact Hq].
      + intros [w1 z1] [w2 z2] [_ Hz]. cbn [fst snd ceq] in *. exact Hz. }
  intros l1 l2 Hl. eapply ceq_bind.
  { unfold run_stage. apply ceq_of_presult. apply filter_stage_rel. exact Hl. }
  intros [u1 q1] [u2 q2] [_ Hq]. cbn [fst snd] in *.
  eapply ceq_bind.
  { instantiate (1 := fun l1 l2 => Forall2 DIok l1 l2).
    destruct (bc_close cfg); [|exact Hq].
    eapply ceq_bind.
    - unfold run_stage. apply ceq_of_presult. apply close_stage_rel; [intros k0 a0 c0 q0 []|exact Hq].
    - intros [w1 z1] [w2 z2] [_ Hz]. cbn [fst snd ceq] in *. exact Hz. }
  intros m1 m2 Hm. cbn [ceq fst snd]. split; [exact Hm|reflexivity].
Qed.

Lemma sort_days_same D : Forall day_accs_ok D -> Forall2 DIsame D (sort_days D).
Proof.
  unfold sort_days. induction 1 as [|x D Hx HD IH]; cbn [map]; constructor; [|exact IH].
  split; [|reflexivity]. split; [|exact Hx].
  apply set_txns_equiv; [apply day_equiv_refl|]. apply Permutation_sym, sort_by_perm.
Qed.

(* the printed sequence has the journal's reports: no condition on the prices *)
Theorem reports_printed_dirs_direct ss b :
  sd_syntactic ss -> load ss = COk b ->
  (forall cfg, ceq eq (balance_csv cfg ss) (balance_csv cfg (printed_dirs (b_days b)))) /\
  (forall cfg tc, ceq eq (balance_text cfg tc ss) (balance_text cfg tc (printed_dirs (b_days b)))).
Proof.
  intros Hs Hl. destruct (load_days ss b Hl) as (ds & Hp & ->).
  assert (HT : forall cfg, ceq eq (balance_table cfg ss) (balance_table cfg (printed_dirs (b_days (builder_of ds))))).
  { intros cfg. eapply (balance_table_same cfg _ _ _ _ Hl (load_printed_dirs ss ds Hp)); cbn [b_days b_min b_max]; try reflexivity.
    apply sort_days_same. apply builder_accs_ok. exact (Hs ds Hp). }
  split; [intros cfg|intros cfg tc]; unfold balance_csv, balance_text;
    (eapply ceq_bind; [apply HT|]); intros t1 t2 <-; cbn [ceq]; reflexivity.
Qed.
