(* C02, table level, part 5: under which DATES the report stores amounts.
   Every amount of an unvalued balance report is stored under the end date of a shown period:
   never under the zero date (Partition.Align returns the zero time for a date after the last
   period), never under another date.  For --close this needs the dates of what the close stage
   emits: CloseAccounts only appends, on a day that is a period start, transactions dated on that
   day ([close_days_dates]); a period start is aligned to the end of its own period.
   Consequences ([report_dates]): a cell under the zero date or under a date that is not a column
   is zero -- per account row ([rcell]) and per tree ([tsum], for the total lines). *)
From Coq Require Import ZArith QArith List Bool Lia Permutation.
From Knut Require Import Model.Str Model.Dec Model.Date Model.Account Model.Ledger Model.Price
     Model.Journal Model.Check Model.Pipeline Model.Table Model.Report Model.Cli
     Spec.DateSpec Spec.LedgerSpec Spec.BalanceTableSpec
     Proofs.DecValue Proofs.StrProofs Proofs.DateProofs Proofs.ReportSum Proofs.Conservation Proofs.LedgerProofs
     Proofs.CloseProofs Proofs.LayoutProofs Proofs.BalanceTableTree.
Import ListNotations.
Open Scope Q_scope.

(* ------------------------------------------------------------ the close stage: dates of what it emits *)

Lemma closing_txns_dates date vs : forall m, Forall (fun t => t_date t = date) (closing_txns date m vs).
Proof.
  induction m as [|[k0 [[a c] qy]] m IH]; cbn [closing_txns]; [constructor|].
  destruct (is_zero qy && is_zero (match pos_get vs a c with Some x => x | None => dec_nil end)); [exact IH|].
  constructor; [reflexivity|exact IH].
Qed.

Lemma close_fold_txns_id cds ts s s' ts' : fold_txns (close_proc cds) s ts = ROk (s', ts') -> ts' = ts.
Proof.
  apply fold_txns_id. intros f s0 t x s1 x1 Hf H. cbn [close_proc pr_posting] in Hf. injection Hf as <-.
  unfold close_posting in H. destruct (is_AL (p_acc x) || acc_eqb (p_acc x) equity_account); inversion H; reflexivity.
Qed.

(* one day: the day is returned as it is, or -- on a closing day -- with closing transactions of
   that date appended.  No hypothesis on the state or the postings. *)
Lemma close_day_shape cds s d s' d' :
  process_day (close_proc cds) s d = ROk (s', d') ->
  d' = (if existsb (Z.eqb (d_date d)) cds
        then set_txns d (d_txns d ++ closing_txns (d_date d) (c_qty s) (c_val s)) else d).
Proof.
  intros H. unfold process_day in H.
  cbn [close_proc pr_day_start pr_price pr_open pr_balance pr_close pr_day_end] in H.
  unfold close_day_start in H.
  assert (Ha : forall l s0, fold_asserts (close_proc cds) s0 l = ROk s0).
  { induction l as [|a l IHl]; intros s0; cbn [fold_asserts close_proc pr_balance rbind]; [reflexivity|apply IHl]. }
  destruct (existsb (Z.eqb (d_date d)) cds) eqn:Ecl; cbn [rbind fst snd] in H.
  - cbn [set_txns d_txns d_date d_prices d_opens d_asserts d_closes d_normalized] in H.
    destruct (fold_txns (close_proc cds) s (d_txns d ++ closing_txns (d_date d) (c_qty s) (c_val s))) as [[s1 ts1]| |] eqn:E1;
      try discriminate.
    cbn [rbind fst snd] in H. rewrite Ha in H. cbn [rbind] in H. inversion H; subst s' d'. clear H.
    rewrite (close_fold_txns_id _ _ _ _ _ E1). reflexivity.
  - destruct (fold_txns (close_proc cds) s (d_txns d)) as [[s1 ts1]| |] eqn:E1; try discriminate.
    cbn [rbind fst snd] in H. rewrite Ha in H. cbn [rbind] in H. inversion H; subst s' d'. clear H.
    rewrite (close_fold_txns_id _ _ _ _ _ E1). apply day_rebuild.
Qed.

(* THE CLOSE-STAGE DATE LEMMA: a dated posting that leaves the close stage either entered it, or
   is dated on one of the closing days (the period starts) *)
Lemma close_days_dates cds : forall ds s s' ds',
  process_days (close_proc cds) s ds = ROk (s', ds') ->
  forall dp, In dp (days_postings ds') -> In dp (days_postings ds) \/ In (fst dp) cds.
Proof.
  induction ds as [|d ds IH]; intros s s' ds' H dp Hin; cbn [process_days] in H.
  - inversion H; subst. destruct Hin.
  - destruct (process_day (close_proc cds) s d) as [[s1 d1]| |] eqn:E1; try discriminate.
    cbn [rbind fst snd] in H.
    destruct (process_days (close_proc cds) s1 ds) as [[s2 ds2]| |] eqn:E2; try discriminate.
    cbn [rbind fst snd] in H. inversion H; subst s' ds'. clear H.
    unfold days_postings in Hin |- *. cbn [map concat] in Hin |- *. apply in_app_or in Hin.
    destruct Hin as [Hin|Hin].
    + pose proof (close_day_shape _ _ _ _ _ E1) as Hd1.
      destruct (existsb (Z.eqb (d_date d)) cds) eqn:Ecl; subst d1.
      * rewrite day_postings_txns in Hin. cbn [set_txns d_txns] in Hin. rewrite txns_postings_app in Hin.
        apply in_app_or in Hin. destruct Hin as [Hin|Hin].
        -- left. apply in_or_app. left. exact Hin.
        -- right. apply existsb_exists in Ecl. destruct Ecl as (x & Hx & Ex). apply Z.eqb_eq in Ex. subst x.
           unfold txns_postings in Hin. apply in_concat in Hin. destruct Hin as (l & Hl & Hin).
           apply in_map_iff in Hl. destruct Hl as (t & <- & Ht). apply in_map_iff in Hin. destruct Hin as (p0 & <- & _).
           cbn [fst]. pose proof (closing_txns_dates (d_date d) (c_val s) (c_qty s)) as Hall.
           rewrite Forall_forall in Hall. rewrite (Hall t Ht). exact Hx.
      * left. apply in_or_app. left. exact Hin.
    + destruct (IH _ _ _ E2 dp Hin) as [H1|H1]; [left; apply in_or_app; right; exact H1|right; exact H1].
Qed.

(* ------------------------------------------------------------ Align on the dates that occur *)

Lemma align_list_in ps d e : align_list ps d = Some e -> In e (map p_end ps).
Proof.
  induction ps as [|p ps IH]; cbn [align_list map]; [discriminate|].
  destruct (negb (p_end p <? d)%Z); [intros H; inversion H; left; reflexivity|intros H; right; exact (IH H)].
Qed.

Lemma align_list_some ps d p : In p ps -> (d <= p_end p)%Z -> align_list ps d <> None.
Proof.
  induction ps as [|q ps IH]; intros Hin Hle; [destruct Hin|]. cbn [align_list].
  destruct (p_end q <? d)%Z eqn:E; cbn [negb]; [|discriminate].
  destruct Hin as [->|Hin]; [lia|exact (IH Hin Hle)].
Qed.

(* the dates the report may use as keys *)
Definition col_date (part : partition) (od : option Z) : Prop := exists e, od = Some e /\ In e (end_dates part).

Lemma align_col_date part d : Date.align part d <> None -> col_date part (Date.align part d).
Proof.
  unfold Date.align, col_date, end_dates. destruct (align_list (periods part) d) as [e|] eqn:E; [|congruence].
  intros _. exists e. split; [reflexivity|exact (align_list_in _ _ _ E)].
Qed.

(* a date inside the span, or a period start, is aligned to a column *)
Lemma align_in_span part d : part_facts part -> in_span (span part) d = true -> col_date part (Date.align part d).
Proof.
  intros [_ Htiles] Hsp. apply align_col_date. unfold in_span in Hsp.
  assert (Hd : (p_start (span part) <= d <= p_end (span part))%Z) by lia.
  destruct (Htiles ltac:(lia)) as [Ht _].
  unfold Date.align. rewrite align_list_column_for. exact (column_some _ _ _ _ Ht (proj2 Hd)).
Qed.

Lemma align_start part d : part_facts part -> (p_start (span part) <= p_end (span part))%Z ->
  In d (start_dates part) -> col_date part (Date.align part d).
Proof.
  intros [_ Htiles] Hle Hin. apply align_col_date.
  destruct (Htiles Hle) as [Ht _]. destruct (tiles_facts _ _ _ Ht) as [_ Hb].
  unfold start_dates in Hin. apply in_map_iff in Hin. destruct Hin as (p & <- & Hp).
  rewrite Forall_forall in Hb. specialize (Hb _ Hp).
  unfold Date.align. apply (align_list_some _ _ p Hp). lia.
Qed.

(* ------------------------------------------------------------ the query stage with the dates it sees *)

Section QueryDated.
  Variable q : query.
  Variable D : option Z -> Prop.
  Variable P : report -> Prop.
  Hypothesis Pins : forall r d a c v, D d -> P r -> P (report_insert r d a c v).

  Lemma query_postings_dated t : D (q_date q (t_date t)) -> forall ps r r' ps',
    P r -> fold_postings (query_posting q report_insert) t r ps = ROk (r', ps') -> P r'.
  Proof.
    intros Ht. induction ps as [|p ps IH]; intros r r' ps' HP H; cbn [fold_postings] in H.
    - inversion H; subst. exact HP.
    - destruct (query_posting q report_insert r t p) as [[r1 p1]| |] eqn:E1; try discriminate.
      cbn [rbind fst snd] in H.
      destruct (fold_postings (query_posting q report_insert) t r1 ps) as [[r2 ps2]| |] eqn:E2; try discriminate.
      cbn [rbind fst snd] in H. inversion H; subst r' ps'. clear H.
      refine (IH r1 r2 ps2 _ E2).
      unfold query_posting in E1.
      destruct (q_where q (p_acc p) (p_com p)); [|inversion E1; subst; exact HP].
      destruct (q_account q (p_acc p)) as [a| |]; try discriminate; inversion E1; subst; [apply Pins; [exact Ht|]|]; exact HP.
  Qed.

  Lemma query_txns_dated : forall ts r r' ts',
    (forall t, In t ts -> t_postings t <> [] -> D (q_date q (t_date t))) ->
    P r -> fold_txns (query_proc q report_insert) r ts = ROk (r', ts') -> P r'.
  Proof.
    induction ts as [|t ts IH]; intros r r' ts' Hts HP H; cbn [fold_txns] in H.
    - inversion H; subst. exact HP.
    - cbn [query_proc pr_txn pr_posting rbind] in H.
      destruct (fold_postings (query_posting q report_insert) t r (t_postings t)) as [[r1 ps1]| |] eqn:E1; try discriminate.
      cbn [rbind fst snd] in H.
      destruct (fold_txns (query_proc q report_insert) r1 ts) as [[r2 ts2]| |] eqn:E2; try discriminate.
      cbn [rbind fst snd] in H. inversion H; subst r' ts'. clear H.
      refine (IH _ _ _ (fun t0 H0 => Hts t0 (or_intror H0)) _ E2).
      destruct (t_postings t) as [|p0 ps0] eqn:Eps.
      + cbn [fold_postings] in E1. inversion E1; subst. exact HP.
      + refine (query_postings_dated t _ _ _ _ _ HP E1). apply Hts; [left; reflexivity|rewrite Eps; discriminate].
  Qed.

  Lemma txn_date_in_postings ts t : In t ts -> t_postings t <> [] -> exists p, In (t_date t, p) (txns_postings ts).
  Proof.
    intros Hin Hne. destruct (t_postings t) as [|p0 ps0] eqn:E; [contradiction|]. exists p0.
    unfold txns_postings. apply in_concat. exists (map (fun p => (t_date t, p)) (t_postings t)).
    split; [apply in_map_iff; exists t; split; [reflexivity|exact Hin]|]. rewrite E. left. reflexivity.
  Qed.

  Lemma query_day_dated r d r' d' :
    (forall dp, In dp (day_postings d) -> D (q_date q (fst dp))) ->
    P r -> process_day (query_proc q report_insert) r d = ROk (r', d') -> P r'.
  Proof.
    intros Hd HP H. unfold process_day in H.
    cbn [query_proc pr_day_start pr_price pr_open pr_balance pr_close pr_day_end rbind fst snd] in H.
    destruct (fold_txns (query_proc q report_insert) r (d_txns d)) as [[r1 ts1]| |] eqn:E1; try discriminate.
    cbn [rbind fst snd] in H. cbn [d_asserts d_closes] in H.
    assert (Ha : forall l s, fold_asserts (query_proc q report_insert) s l = ROk s).
    { induction l as [|a l IHl]; intros s; cbn [fold_asserts query_proc pr_balance rbind]; [reflexivity|apply IHl]. }
    rewrite Ha in H. cbn [rbind] in H. inversion H; subst r' d'.
    refine (query_txns_dated _ _ _ _ _ HP E1).
    intros t Ht Hne. destruct (txn_date_in_postings _ _ Ht Hne) as (p & Hp).
    rewrite <- day_postings_txns in Hp. exact (Hd _ Hp).
  Qed.

  Lemma query_days_dated : forall ds r r' ds',
    (forall dp, In dp (days_postings ds) -> D (q_date q (fst dp))) ->
    P r -> process_days (query_proc q report_insert) r ds = ROk (r', ds') -> P r'.
  Proof.
    induction ds as [|d ds IH]; intros r r' ds' Hds HP H; cbn [process_days] in H.
    - inversion H; subst. exact HP.
    - destruct (process_day (query_proc q report_insert) r d) as [[r1 d1]| |] eqn:E1; try discriminate.
      cbn [rbind fst snd] in H.
      destruct (process_days (query_proc q report_insert) r1 ds) as [[r2 ds2]| |] eqn:E2; try discriminate.
      cbn [rbind fst snd] in H. inversion H; subst r' ds'. clear H.
      unfold days_postings in Hds. cbn [map concat] in Hds.
      refine (IH _ _ _ (fun dp H0 => Hds dp (in_or_app _ _ _ (or_intror H0))) _ E2).
      exact (query_day_dated _ _ _ _ (fun dp H0 => Hds dp (in_or_app _ _ _ (or_introl H0))) HP E1).
  Qed.
End QueryDated.

(* ------------------------------------------------------------ the dates of the balance report *)

(* nothing is stored outside the keys K: per row and per tree *)
Definition keys_within (K : rkey -> Prop) (r : report) : Prop :=
  wf_report r /\
  forall k, ~ K k ->
    (forall row, rcell row k r == 0) /\ tsum idk k (r_al r) == 0 /\ tsum idk k (r_eie r) == 0.

Lemma keys_within_new (K : rkey -> Prop) : keys_within K new_report.
Proof.
  split; [exact wf_new_report|]. intros k _. split; [intros row; apply rcell_new|].
  unfold new_report, empty_root. cbn [r_al r_eie]. rewrite tsum_unfold. unfold csum. cbn [esum fold_right]. split; ring.
Qed.

Lemma keys_within_insert (K : rkey -> Prop) r d a c v : K (d, Some c) -> keys_within K r -> keys_within K (report_insert r d a c v).
Proof.
  intros Hd [Hwf H]. split; [exact (proj2 (rcell_insert [] (None, None) r d a c v Hwf))|].
  intros k Hk. destruct (H k Hk) as (H1 & H2 & H3).
  assert (Hne : rkey_eqb (d, Some c) k = false).
  { destruct (rkey_eqb (d, Some c) k) eqn:E; [|reflexivity]. apply rkey_eqb_eq in E. subst k. contradiction. }
  split; [|split].
  - intros row. rewrite (proj1 (rcell_insert row k r d a c v Hwf)), H1.
    unfold delta_at, contrib. change (idk (d, Some c)) with (d, Some c). rewrite Hne. destruct (acc_eqb a row); ring.
  - unfold report_insert. destruct (is_AL a); cbn [r_al]; [|exact H2].
    rewrite tsum_node_insert by lia. rewrite H2. unfold contrib. change (idk (d, Some c)) with (d, Some c). rewrite Hne. ring.
  - unfold report_insert. destruct (is_AL a); cbn [r_eie]; [exact H3|].
    rewrite tsum_node_insert by lia. rewrite H3. unfold contrib. change (idk (d, Some c)) with (d, Some c). rewrite Hne. ring.
Qed.

(* the keys of a balance report: the end date of a shown period and a commodity *)
Definition col_key (part : partition) (k : rkey) : Prop := col_date part (fst k) /\ snd k <> None.

Lemma col_key_ins part d (c : commodity) : col_date part d -> col_key part (d, Some c).
Proof. intros H. split; [exact H|cbn [snd]; discriminate]. Qed.

(* every amount of the report is stored under the end date of a shown period *)
Theorem report_dates cfg ds r part :
  bc_valuation cfg = None ->
  balance_report cfg ds = COk (r, part) ->
  keys_within (col_key part) r.
Proof.
  intros Hv H. unfold balance_report in H. rewrite Hv in H. cbn [cbind] in H.
  unfold load in H. destruct (parse_directives ds) as [dl| |] eqn:Ep; try discriminate. cbn [cbind of_mresult] in H.
  unfold cfg_partition in H. rewrite builder_period_spec in H.
  destruct (new_partition (clip (mkPeriod (bc_from cfg) (bc_to cfg)) (journal_period dl)) (bc_interval cfg) (bc_last cfg)) as [part0| |] eqn:Epart; try discriminate.
  cbn [cbind] in H. unfold run_stage in H.
  pose proof (partition_facts _ _ _ _ Epart) as Hpf.
  set (b := if bc_close cfg then builder_touch (builder_of dl) (start_dates part0) else builder_of dl) in *.
  assert (Hdated : days_dated (b_days b)).
  { unfold b. destruct (bc_close cfg); [apply builder_touch_dated|]; apply builder_of_dated. }
  destruct (process_days (check_proc_current (bc_lenient cfg)) check_init (b_days b)) as [[s1 d1]| |] eqn:E1; try discriminate.
  cbn [cbind of_presult fst snd] in H.
  pose proof (check_current_stage_id _ _ _ _ _ E1) as ->.
  destruct (process_days (filter_proc (span part0)) tt (b_days b)) as [[s4 d4]| |] eqn:E4; try discriminate.
  cbn [cbind of_presult fst snd] in H.
  pose proof (filter_stage_spec _ _ _ _ _ E4) as ->.
  change (map (fun d => if period_contains (span part0) (d_date d) then d else set_txns d []) (b_days b))
    with (map (filt (span part0)) (b_days b)) in H.
  (* the postings that reach the query: inside the span, or dated on a period start *)
  assert (Hq : exists days days',
    process_days (query_proc (balance_query cfg part0) report_insert) new_report days = ROk (r, days') /\ part0 = part /\
    forall dp, In dp (days_postings days) ->
      in_span (span part0) (fst dp) = true \/
      ((p_start (span part0) <= p_end (span part0))%Z /\ In (fst dp) (start_dates part0))).
  { assert (Hfilt : forall dp, In dp (days_postings (map (filt (span part0)) (b_days b))) -> in_span (span part0) (fst dp) = true).
    { intros dp Hin. apply (filt_in_iff _ _ _ Hdated) in Hin. exact (proj2 Hin). }
    destruct (bc_close cfg) eqn:Hc.
    - destruct (process_days (close_proc (start_dates part0)) (mkClose [] []) _) as [[s5 d5]| |] eqn:E5; try discriminate.
      cbn [cbind of_presult fst snd] in H.
      destruct (process_days (query_proc (balance_query cfg part0) report_insert) new_report d5) as [[r6 d6]| |] eqn:E6; try discriminate.
      cbn [cbind of_presult fst snd] in H. inversion H; subst r6 part0. clear H.
      exists d5, d6. split; [exact E6|split; [reflexivity|]]. intros dp Hin.
      destruct (close_days_dates _ _ _ _ _ E5 dp Hin) as [H1|H1]; [left; exact (Hfilt dp H1)|].
      destruct (Z_le_gt_dec (p_start (span part)) (p_end (span part))) as [Hle|Hgt]; [right; split; assumption|].
      (* an empty span: nothing passes the filter, so nothing is ever closed *)
      exfalso. clear Hfilt.
      assert (Hempty : forall d, in_span (span part) d = false) by (intros d; unfold in_span; lia).
      assert (Hnil : forall ds0 s0 s0' ds0', c_qty s0 = [] ->
                process_days (close_proc (start_dates part)) s0 (map (filt (span part)) ds0) = ROk (s0', ds0') ->
                days_postings ds0' = []).
      { induction ds0 as [|d0 ds0 IH]; intros s0 s0' ds0' Hs0 Hrun; cbn [map process_days] in Hrun.
        - inversion Hrun; subst. reflexivity.
        - destruct (process_day (close_proc (start_dates part)) s0 (filt (span part) d0)) as [[sa da]| |] eqn:Ea; try discriminate.
          cbn [rbind fst snd] in Hrun.
          destruct (process_days (close_proc (start_dates part)) sa (map (filt (span part)) ds0)) as [[sb db]| |] eqn:Eb; try discriminate.
          cbn [rbind fst snd] in Hrun. inversion Hrun; subst s0' ds0'. clear Hrun.
          pose proof (close_day_shape _ _ _ _ _ Ea) as Hda.
          assert (Hf : filt (span part) d0 = set_txns d0 []).
          { unfold filt. rewrite period_contains_in_span, Hempty. reflexivity. }
          rewrite Hf in Hda, Ea. cbn [set_txns d_date d_txns] in Hda. rewrite Hs0 in Hda. cbn [closing_txns app] in Hda.
          assert (Hda' : day_postings da = []) by (destruct (existsb _ _) in Hda; subst da; reflexivity).
          assert (Hsa : c_qty sa = []).
          { unfold process_day in Ea. cbn [close_proc pr_day_start pr_price pr_open pr_balance pr_close pr_day_end] in Ea.
            unfold close_day_start in Ea. cbn [set_txns d_date d_txns] in Ea. rewrite Hs0 in Ea. cbn [closing_txns app] in Ea.
            assert (Hfa : forall l s9, fold_asserts (close_proc (start_dates part)) s9 l = ROk s9).
            { induction l as [|a l IHl]; intros s9; cbn [fold_asserts close_proc pr_balance rbind]; [reflexivity|apply IHl]. }
            destruct (existsb _ _) in Ea; cbn [rbind fst snd set_txns d_txns d_asserts d_closes fold_txns] in Ea;
              rewrite Hfa in Ea; cbn [rbind] in Ea; inversion Ea; subst; exact Hs0. }
          unfold days_postings. cbn [map concat]. rewrite Hda'. cbn [app]. exact (IH _ _ _ Hsa Eb). }
      rewrite (Hnil (b_days b) (mkClose [] []) s5 d5 eq_refl E5) in Hin. destruct Hin.
    - cbn [cbind] in H.
      destruct (process_days (query_proc (balance_query cfg part0) report_insert) new_report _) as [[r6 d6]| |] eqn:E6; try discriminate.
      cbn [cbind of_presult fst snd] in H. inversion H; subst r6 part0. clear H.
      eexists _, d6. split; [exact E6|split; [reflexivity|]]. intros dp Hin. left. exact (Hfilt dp Hin). }
  destruct Hq as (days & days' & Hrun & -> & Hdates).
  refine (query_days_dated (balance_query cfg part) (col_date part) (keys_within (col_key part))
            (fun r0 d a c v Hd => keys_within_insert (col_key part) r0 d a c v (col_key_ins part d c Hd))
            days new_report r days' _ (keys_within_new _) Hrun).
  intros dp Hin. cbn [balance_query q_date].
  destruct (Hdates dp Hin) as [Hs|[Hle Hs]]; [exact (align_in_span part _ Hpf Hs)|exact (align_start part _ Hpf Hle Hs)].
Qed.

(* the two consequences used below: a cell under the zero date, or under a date that is not a
   column, or under the nil commodity, is zero *)
Lemma col_key_some part col c : In col (end_dates part) -> col_key part (Some col, Some c).
Proof. intros H. split; [exists col; split; [reflexivity|exact H]|discriminate]. Qed.

Lemma col_key_inv part k : col_key part k -> exists col c, k = (Some col, Some c) /\ In col (end_dates part).
Proof.
  destruct k as [od oc]. intros [(e & E & He) Hc]. cbn [fst snd] in *. subst od. destruct oc as [c|]; [|congruence].
  exists e, c. split; [reflexivity|exact He].
Qed.

Lemma classic_col_key part k : col_key part k \/ ~ col_key part k.
Proof.
  destruct k as [[e|] [c|]].
  - destruct (in_dec Z.eq_dec e (end_dates part)) as [H|H]; [left; apply col_key_some; exact H|right].
    intros Hk. destruct (col_key_inv _ _ Hk) as (col & c' & E & Hin). inversion E; subst. contradiction.
  - right. intros [_ H]. apply H. reflexivity.
  - right. intros [(e & E & _) _]. discriminate E.
  - right. intros [_ H]. apply H. reflexivity.
Qed.
