(* C09 (b): the decimal text that Decimal.String writes is a NORMAL FORM.
   [to_string d] is sign, integer digits without superfluous leading zero, and -- only if some are
   left after trimming -- a point and fraction digits that do not end in '0' ([to_string_canon]).
   Every numeral of that shape is printed again exactly as it stands when it has been read with
   decimal.NewFromString ([to_string_of_canon]); hence

     of_string (to_string q) = Some x  ->  to_string x = to_string q       ([to_string_normal_form])

   and (with DecStringProofs.of_to_string) re-reading always succeeds, gives a decimal of the same
   value, and printing is idempotent through the text ([reread_spec]). *)
From Coq Require Import ZArith List Bool Lia Arith.
From Knut Require Import Model.Str Model.Dec Spec.TableSpec Proofs.DecProofs Proofs.DecStringProofs.
Import ListNotations.
Open Scope bool_scope.
Open Scope Z_scope.

Local Ltac Zify.zify_post_hook ::= Z.div_mod_to_equations.

(* ------------------------------------------------------------------ digit strings are injective *)

Lemma parse_digits_inj : forall a b acc v,
  0 <= acc -> length a = length b ->
  parse_digits a acc = Some v -> parse_digits b acc = Some v -> a = b.
Proof.
  induction a as [|c a IH]; intros b acc v Hacc Hlen Ha Hb.
  - destruct b; [reflexivity|discriminate].
  - destruct b as [|d b]; [discriminate|]. cbn [length] in Hlen. injection Hlen as Hlen.
    cbn [parse_digits] in Ha, Hb.
    destruct (is_digit c) eqn:Hc; [|discriminate]. destruct (is_digit d) eqn:Hd; [|discriminate].
    apply is_digit_range in Hc. apply is_digit_range in Hd.
    pose proof (parse_digits_range _ _ _ Ha ltac:(lia)) as Ra.
    pose proof (parse_digits_range _ _ _ Hb ltac:(lia)) as Rb.
    rewrite <- Hlen in Rb. pose proof (pow10_nat_pos (length a)) as HP.
    set (P := 10 ^ Z.of_nat (length a)) in *.
    assert (c = d) by nia. subst d. f_equal.
    eapply IH; [|exact Hlen|exact Ha|exact Hb]. lia.
Qed.

(* a digit string is its value's numeral behind leading zeros *)
Lemma digits_of_parse s v : s <> [] -> parse_digits s 0 = Some v ->
  exists k, s = repeat 48 k ++ digits v.
Proof.
  intros Hne Hp.
  pose proof (parse_digits_range _ _ _ Hp ltac:(lia)) as Hr.
  assert (Hv : 0 <= v) by lia.
  destruct (digits_spec v Hv) as (D1 & D2 & D3 & D4 & D5).
  assert (Hlen : (length (digits v) <= length s)%nat).
  { destruct (Z.eq_dec v 0) as [->|Hnz].
    - rewrite digits_zero. destruct s; [congruence|cbn [length]; lia].
    - pose proof (digits_length_bounds v ltac:(lia)) as Hb.
      destruct (le_lt_dec (length (digits v)) (length s)) as [Hle|Hgt]; [exact Hle|exfalso].
      assert (Hpow : 10 ^ Z.of_nat (length s) <= 10 ^ (Z.of_nat (length (digits v)) - 1))
        by (apply Z.pow_le_mono_r; lia).
      lia. }
  exists (length s - length (digits v))%nat.
  eapply parse_digits_inj with (acc := 0) (v := v); [lia| |exact Hp|].
  - rewrite app_length, repeat_length. lia.
  - rewrite parse_digits_app, parse_digits_zeros, Z.mul_0_l. exact D3.
Qed.

Lemma hd_repeat_app k (r : str) : (0 < k)%nat -> hd 0 (repeat 48 k ++ r) = 48.
Proof. destruct k; [lia|reflexivity]. Qed.

(* no leading zero: the string IS the numeral *)
Lemma digits_of_parse_nz s v : s <> [] -> hd 0 s <> 48 -> parse_digits s 0 = Some v -> digits v = s.
Proof.
  intros Hne Hhd Hp. destruct (digits_of_parse s v Hne Hp) as [k Hk].
  destruct k as [|k]; [now rewrite Hk|]. exfalso. apply Hhd. rewrite Hk. apply hd_repeat_app. lia.
Qed.

(* ------------------------------------------------------------------ trimmed fractions *)

(* s does not end in '0' *)
Definition trimmed (s : str) : Prop := match rev s with 48 :: _ => False | _ => True end.

Lemma strip_rev_fix r : match r with 48 :: _ => False | _ => True end -> strip_trailing_zeros_rev r = r.
Proof.
  destruct r as [|c t]; [reflexivity|]. rewrite strip_rev_cons.
  destruct (Z.eqb_spec c 48) as [->|Hne]; [tauto|reflexivity].
Qed.

Lemma strip_rev_trimmed r : match strip_trailing_zeros_rev r with 48 :: _ => False | _ => True end.
Proof.
  induction r as [|c t IH]; [exact I|]. rewrite strip_rev_cons.
  destruct (Z.eqb_spec c 48) as [->|Hne]; [exact IH|].
  destruct c as [|p|p]; try exact I. do 6 (try (destruct p as [p|p|]; try exact I)). congruence.
Qed.

Lemma strip_trimmed s : trimmed (strip_trailing_zeros s).
Proof. unfold trimmed, strip_trailing_zeros. rewrite rev_involutive. apply strip_rev_trimmed. Qed.

Lemma strip_fix s : trimmed s -> strip_trailing_zeros s = s.
Proof. unfold trimmed, strip_trailing_zeros. intros H. rewrite strip_rev_fix by exact H. apply rev_involutive. Qed.

Lemma trimmed_not_zeros k : (0 < k)%nat -> ~ trimmed (repeat 48 k).
Proof. unfold trimmed. rewrite rev_repeat'. destruct k; [lia|]. cbn [repeat]. tauto. Qed.

Lemma trimmed_app_r a b : b <> [] -> trimmed (a ++ b) -> trimmed b.
Proof.
  unfold trimmed. rewrite rev_app_distr. intros Hne.
  destruct (rev b) as [|c t] eqn:E; [|cbn [app]; tauto].
  exfalso. apply Hne. rewrite <- (rev_involutive b), E. reflexivity.
Qed.

(* ------------------------------------------------------------------ canonical numerals *)

(* integer digits: "0" or no leading zero *)
Definition ip_canon (ip : str) : Prop := ip = [48] \/ (ip <> [] /\ hd 0 ip <> 48).

(* what NewFromString makes of a canonical numeral, printed again, is the numeral *)
Lemma to_string_of_canon (neg : bool) ip fp v :
  ip_canon ip -> forallb is_digit ip = true -> forallb is_digit fp = true -> trimmed fp ->
  parse_digits (ip ++ fp) 0 = Some v -> (neg = true -> 0 < v) ->
  to_string (mkDec (if neg then - v else v) (- Z.of_nat (length fp))) =
  (if neg then [45] else []) ++ ip ++ frac_tail fp.
Proof.
  intros Hip Dip Dfp Htr Hp Hneg.
  pose proof (parse_digits_range _ _ _ Hp ltac:(lia)) as Hr. assert (Hv : 0 <= v) by lia.
  set (x := mkDec (if neg then - v else v) (- Z.of_nat (length fp))).
  assert (Hsgn : sgn x = if neg then [45] else []).
  { unfold sgn, x. cbn [coef]. destruct neg.
    - specialize (Hneg eq_refl). replace (- v <? 0) with true by lia. reflexivity.
    - replace (v <? 0) with false by lia. reflexivity. }
  assert (Habs : Z.abs (coef x) = v) by (unfold x; cbn [coef]; destruct neg; lia).
  assert (Hipne : ip <> []) by (destruct Hip as [->|[H _]]; [discriminate|exact H]).
  assert (Hcase : fp = [] \/ fp <> []) by (destruct fp; [left; reflexivity|right; discriminate]).
  destruct Hcase as [Efp|Hfpne].
  - (* an integer *)
    subst fp.
    unfold to_string. rewrite to_string_gen_int by (unfold x; cbn [ex length]; lia).
    rewrite Hsgn, Habs. unfold x. cbn [ex length Z.of_nat]. change (10 ^ (- 0)) with 1. rewrite Z.mul_1_r.
    rewrite app_nil_r in Hp. cbn [frac_tail]. rewrite app_nil_r. f_equal.
    destruct Hip as [->|[_ Hhd]].
    + cbn in Hp. injection Hp as <-. reflexivity.
    + now apply digits_of_parse_nz.
  - assert (Hex : ex x < 0). { unfold x. cbn [ex]. destruct fp; [congruence|cbn [length]; lia]. }
    unfold to_string. rewrite (to_string_gen_neg_ex true x Hex). rewrite Hsgn. f_equal.
    assert (Hsplit : frac_split x = (ip, fp)).
    { unfold frac_split. rewrite Habs. replace (- ex x) with (Z.of_nat (length fp)) by (unfold x; cbn [ex]; lia).
      assert (Hne2 : ip ++ fp <> []) by (intros Hc; apply app_eq_nil in Hc; tauto).
      destruct (digits_of_parse (ip ++ fp) v Hne2 Hp) as [k Hk].
      destruct Hip as [->|[_ Hhd]].
      - (* "0.fp": the numeral of v is fp without its leading zeros *)
        destruct k as [|k].
        + (* v's numeral would start with '0': v = 0, then fp = [] *)
          exfalso. cbn [repeat app] in Hk.
          destruct (Z.eq_dec v 0) as [->|Hnz].
          * rewrite digits_zero in Hk. injection Hk as Hk. congruence.
          * pose proof (digits_no_leading_zero v ltac:(lia)) as Hnl. rewrite <- Hk in Hnl. cbn [hd] in Hnl. congruence.
        + cbn [repeat app] in Hk. injection Hk as Hk.
          assert (Hvpos : 0 < v).
          { destruct (Z.eq_dec v 0) as [->|Hnz]; [|lia]. exfalso. rewrite digits_zero in Hk.
            rewrite repeat_snoc in Hk. change (48 :: repeat 48 k) with (repeat 48 (S k)) in Hk.
            apply (trimmed_not_zeros (S k)); [lia|]. rewrite <- Hk. exact Htr. }
          assert (Hl : length fp = (k + length (digits v))%nat) by (rewrite Hk, app_length, repeat_length; reflexivity).
          replace (Z.of_nat (length fp) <? Z.of_nat (length (digits v))) with false by lia.
          f_equal. unfold repeat_z.
          replace (Z.to_nat (Z.of_nat (length fp) - Z.of_nat (length (digits v)))) with k by lia.
          symmetry. exact Hk.
      - (* no leading zero: ip ++ fp is the numeral of v *)
        assert (Hd : digits v = ip ++ fp).
        { apply digits_of_parse_nz; [exact Hne2| |exact Hp]. destruct ip; [congruence|exact Hhd]. }
        rewrite Hd, app_length.
        assert (Hipl : (0 < length ip)%nat) by (destruct ip; [congruence|cbn [length]; lia]).
        replace (Z.of_nat (length fp) <? Z.of_nat (length ip + length fp)) with true
          by (symmetry; apply Z.ltb_lt; lia).
        replace (Z.to_nat (Z.of_nat (length ip + length fp) - Z.of_nat (length fp))) with (length ip) by lia.
        rewrite firstn_app, Nat.sub_diag, firstn_all, firstn_O, app_nil_r.
        rewrite skipn_app, Nat.sub_diag, skipn_all. reflexivity. }
    rewrite Hsplit. cbn [fst snd]. rewrite strip_fix by exact Htr. reflexivity.
Qed.

(* ------------------------------------------------------------------ to_string writes canonical numerals *)

Lemma hd_firstn {A} (d : A) k l : (0 < k)%nat -> hd d (firstn k l) = hd d l.
Proof. destruct k; [lia|]. destruct l; reflexivity. Qed.

Lemma frac_split_canon d : ex d < 0 -> ip_canon (fst (frac_split d)).
Proof.
  intros He. unfold frac_split.
  set (s := digits (Z.abs (coef d))).
  destruct (- ex d <? Z.of_nat (length s)) eqn:E; cbn [fst]; [|left; reflexivity].
  right. apply Z.ltb_lt in E.
  set (k := Z.to_nat (Z.of_nat (length s) - - ex d)). assert (Hk : (0 < k <= length s)%nat) by lia.
  split.
  - intros Hc. pose proof (firstn_length k s) as Hl. rewrite Hc in Hl. cbn [length] in Hl. lia.
  - rewrite hd_firstn by lia. unfold s. apply digits_no_leading_zero.
    destruct (Z.eq_dec (Z.abs (coef d)) 0) as [H0|H0]; [|lia].
    exfalso. unfold s in E. rewrite H0, digits_zero in E. cbn [length] in E. lia.
Qed.

Lemma to_string_canon d : exists ip fp v,
  to_string d = sgn d ++ ip ++ frac_tail fp /\
  ip_canon ip /\ forallb is_digit ip = true /\ forallb is_digit fp = true /\ trimmed fp /\
  parse_digits (ip ++ fp) 0 = Some v /\ (coef d < 0 -> 0 < v).
Proof.
  destruct (Z_lt_ge_dec (ex d) 0) as [He|He].
  - unfold to_string. rewrite (to_string_gen_neg_ex true d He).
    destruct (frac_split_spec d He) as (H1 & H2 & H3 & H4 & H5).
    pose proof (frac_split_canon d He) as Hc.
    destruct (frac_split d) as [ip FP]. cbn [fst snd] in *.
    destruct (strip_trailing_zeros_spec FP) as [k Hk].
    pose proof (strip_trimmed FP) as Htr.
    remember (strip_trailing_zeros FP) as fp eqn:Efp. clear Efp. subst FP.
    rewrite forallb_app in H3. apply andb_prop in H3. destruct H3 as [H3 _].
    rewrite app_assoc, parse_digits_app in H5.
    destruct (parse_digits (ip ++ fp) 0) as [v|] eqn:Hv; [|discriminate].
    rewrite parse_digits_zeros in H5. injection H5 as H5.
    exists ip, fp, v. repeat split; try assumption.
    intros Hneg. pose proof (pow10_nat_pos k). pose proof (parse_digits_range _ _ _ Hv ltac:(lia)). nia.
  - unfold to_string. rewrite (to_string_gen_int true d) by lia.
    set (V := Z.abs (coef d) * 10 ^ ex d).
    assert (HV : 0 <= V). { unfold V. pose proof (Z.pow_pos_nonneg 10 (ex d) ltac:(lia) ltac:(lia)). nia. }
    destruct (digits_spec V HV) as (D1 & D2 & D3 & D4 & D5).
    exists (digits V), [], V. cbn [frac_tail]. rewrite !app_nil_r.
    repeat split; try assumption; try reflexivity.
    + destruct (Z.eq_dec V 0) as [H0|H0]; [left; now apply D5|right; split; [exact D1|apply D4; lia]].
    + intros Hneg. unfold V. pose proof (Z.pow_pos_nonneg 10 (ex d) ltac:(lia) ltac:(lia)). nia.
Qed.

(* ------------------------------------------------------------------ the normal form *)

(* (b) of Properties/C09.v: what has been printed and read back prints the same bytes *)
Theorem to_string_normal_form q x : of_string (to_string q) = Some x -> to_string x = to_string q.
Proof.
  destruct (to_string_canon q) as (ip & fp & v & Hs & Hc & Dip & Dfp & Htr & Hp & Hneg).
  assert (Hipne : ip <> []) by (destruct Hc as [->|[H _]]; [discriminate|exact H]).
  rewrite Hs. intros Hx.
  pose proof (eq_trans (eq_sym Hx) (of_string_numeral (coef q <? 0) ip fp v Hipne Dip Dfp Hp)) as Hxx.
  injection Hxx as ->.
  apply (to_string_of_canon (coef q <? 0) ip fp v Hc Dip Dfp Htr Hp). intros E. apply Hneg. lia.
Qed.

(* the quantity as it is after a trip through its text *)
Definition reread (q : dec) : dec := match of_string (to_string q) with Some x => x | None => q end.

Theorem reread_spec q :
  of_string (to_string q) = Some (reread q) /\ dec_eqv (reread q) q /\ to_string (reread q) = to_string q.
Proof.
  unfold reread. destruct (of_to_string q) as (x & Hx & He). rewrite Hx.
  split; [reflexivity|]. split; [exact He|]. now apply to_string_normal_form.
Qed.

Lemma reread_idem q : reread (reread q) = reread q.
Proof.
  destruct (reread_spec q) as (H1 & _ & H3). unfold reread at 1. rewrite H3, H1. reflexivity.
Qed.

Lemma to_string_reread q : to_string (reread q) = to_string q.
Proof. apply reread_spec. Qed.

Lemma reread_eqv q : dec_eqv (reread q) q.
Proof. apply reread_spec. Qed.

(* sign and zero-ness survive *)
Lemma dec_eqv_sign a b : dec_eqv a b -> Z.sgn (coef a) = Z.sgn (coef b).
Proof.
  unfold dec_eqv, coef_at. intros H.
  pose proof (Z.pow_pos_nonneg 10 (ex a - Z.min (ex a) (ex b)) ltac:(lia) ltac:(lia)).
  pose proof (Z.pow_pos_nonneg 10 (ex b - Z.min (ex a) (ex b)) ltac:(lia) ltac:(lia)).
  nia.
Qed.

Lemma reread_is_neg q : is_neg (reread q) = is_neg q.
Proof. unfold is_neg. pose proof (dec_eqv_sign _ _ (reread_eqv q)). lia. Qed.

Lemma reread_is_zero q : is_zero (reread q) = is_zero q.
Proof. unfold is_zero. pose proof (dec_eqv_sign _ _ (reread_eqv q)). lia. Qed.

Example reread_example :
  reread (mkDec 1500 (-3)) = mkDec 15 (-1) /\ reread (mkDec 15 1) = mkDec 150 0 /\
  reread (mkDec (-50) (-4)) = mkDec (-5) (-3) /\ reread (mkDec 0 (-2)) = mkDec 0 0.
Proof. vm_compute. auto. Qed.
