(* C02, table level, part 6: WHICH commodity lines an account block and the three total rows list.
   The renderer lists a commodity for every key (date, commodity) that is left after the zero
   amounts have been dropped -- whatever the date.  With Proofs/BalanceTableDates.v (every key of
   the report is the end date of a shown period) this is exactly: the ledger has a non-zero
   period amount of that commodity in some COLUMN of the table.
     commodity_line_iff   account blocks (both directions)
     total_lines_listed   Total (A+L), Total (E+I+E): the same over all A/L / all other accounts;
                          Delta: the union of the two lists (Amounts.Plus drops nothing), even
                          where its numbers are zero. *)
From Coq Require Import ZArith QArith List Bool Lia Permutation.
From Knut Require Import Model.Str Model.Dec Model.Date Model.Account Model.Ledger Model.Price
     Model.Journal Model.Check Model.Pipeline Model.Table Model.Report Model.Cli
     Spec.WellformedSpec Spec.LedgerSpec Spec.LedgerSyntax Spec.BalanceTableSpec
     Proofs.DecValue Proofs.StrProofs Proofs.CheckLemmas Proofs.ReportSum Proofs.Conservation Proofs.LedgerProofs
     Proofs.CloseProofs Proofs.LayoutProofs Proofs.MarkToMarketMapped
     Proofs.BalanceTableLayout Proofs.BalanceTableTree Proofs.BalanceTableCells Proofs.BalanceTableTotals
     Proofs.BalanceTableDates.
Import ListNotations.
Open Scope Q_scope.

(* ------------------------------------------------------------ commodities of amounts without zeros *)

Definition no_zeros (m : ramounts) : Prop := Forall (fun kv : rkey * dec => is_zero (snd kv) = false) m.

Lemma sum_into_no_zeros dest src f : no_zeros (ra_sum_into dest src f).
Proof.
  unfold no_zeros, ra_sum_into. apply Forall_forall. intros kv H. apply filter_In in H. destruct H as [_ H].
  destruct (is_zero (snd kv)); [discriminate|reflexivity].
Qed.

(* a commodity is listed iff one of its amounts is not zero *)
Lemma commodities_nonzero m oc : ra_unique m -> no_zeros m ->
  (In oc (ra_commodities m) <-> exists d, ~ dvalue (ra_get0 m (d, oc)) == 0).
Proof.
  intros Hu Hnz. rewrite ra_commodities_in. split.
  - intros ([[d oc'] v] & Hin & E). cbn [fst snd] in E. subst oc'. exists d.
    unfold ra_get0. rewrite (ra_get_unique _ _ _ Hu Hin).
    unfold no_zeros in Hnz. rewrite Forall_forall in Hnz. specialize (Hnz _ Hin). cbn [snd] in Hnz.
    intros Hz. apply is_zero_value in Hz. congruence.
  - intros (d & Hd). unfold ra_get0 in Hd.
    destruct (ra_get m (d, oc)) as [v|] eqn:E.
    + exists ((d, oc), v). split; [apply ra_get_in; exact E|reflexivity].
    + exfalso. apply Hd. apply dvalue_nil.
Qed.

(* the keys of Amounts.Plus: those of both sides *)
Lemma ra_add_keys m k0 v k : In k (map fst (ra_add m k0 v)) <-> k = k0 \/ In k (map fst m).
Proof.
  induction m as [|[k1 v1] m IH]; cbn [ra_add map fst In]; [intuition congruence|].
  destruct (rkey_eqb k0 k1) eqn:E; cbn [map fst In].
  - apply rkey_eqb_eq in E. subst k1. intuition congruence.
  - rewrite IH. intuition congruence.
Qed.

Lemma ra_plus_keys a b k : In k (map fst (ra_plus a b)) <-> In k (map fst a) \/ In k (map fst b).
Proof.
  unfold ra_plus. revert a. induction b as [|[k1 v1] b IH]; intros a; cbn [fold_left map fst In]; [tauto|].
  rewrite IH, ra_add_keys. intuition congruence.
Qed.

Lemma ra_commodities_keys m oc : In oc (ra_commodities m) <-> exists d, In (d, oc) (map fst m).
Proof.
  rewrite ra_commodities_in. split.
  - intros ([[d oc'] v] & Hin & E). cbn [fst snd] in E. subst oc'. exists d.
    apply in_map_iff. exists ((d, oc), v). split; [reflexivity|exact Hin].
  - intros (d & Hin). apply in_map_iff in Hin. destruct Hin as ([k v] & E & Hin). cbn [fst] in E. subst k.
    exists ((d, oc), v). split; [exact Hin|reflexivity].
Qed.

Lemma ra_plus_commodities a b oc :
  In oc (ra_commodities (ra_plus a b)) <-> In oc (ra_commodities a) \/ In oc (ra_commodities b).
Proof.
  rewrite !ra_commodities_keys. split.
  - intros (d & H). apply ra_plus_keys in H. destruct H as [H|H]; [left|right]; exists d; exact H.
  - intros [(d & H)|(d & H)]; exists d; apply ra_plus_keys; [left|right]; exact H.
Qed.

(* ------------------------------------------------------------ a block from its commodity list *)

Lemma line_rows_block rc dates indent name neg_ vals coms amts :
  rc_valuation rc = None -> ra_commodities vals = map Some coms ->
  (forall c, In c coms -> Forall2 num_is (row_numbers (rc_diff rc) neg_ vals (Some c) dates dec_nil) (amts c)) ->
  block_ok (tw rc dates) name indent coms amts (line_rows rc dates indent name neg_ vals).
Proof.
  intros Hv Hcoms Hnum. unfold line_rows, block_ok. destruct vals as [|kv vals'] eqn:Evals.
  - destruct coms; [reflexivity|discriminate Hcoms].
  - destruct coms as [|c0 coms'] eqn:Ecoms.
    + exfalso. assert (Hin0 : In (snd (fst kv)) (ra_commodities (kv :: vals'))).
      { apply ra_commodities_in. exists kv. split; [left; reflexivity|reflexivity]. }
      rewrite Hcoms in Hin0. destruct Hin0.
    + rewrite Hcoms. apply render_rows_lines_ok; [exact Hv|].
      intros c Hc. apply Hnum. exact Hc.
Qed.

(* commodities listed (no nil commodity, ascending) *)
Lemma commodities_list m : ~ In None (ra_commodities m) ->
  exists coms, ra_commodities m = map Some coms /\ coms_sorted coms /\ forall c, In c coms <-> In (Some c) (ra_commodities m).
Proof.
  intros Hn. destruct (all_somes _ Hn) as (coms & Hcoms). exists coms. split; [exact Hcoms|].
  split; [apply somes_sorted; rewrite <- Hcoms; apply ra_commodities_sorted|].
  intros c. rewrite Hcoms. split; [apply in_map|]. intros Hc. apply in_map_iff in Hc. destruct Hc as (c' & E & Hc'). inversion E; subst. exact Hc'.
Qed.

(* two ascending lists with the same members are the same list *)
Lemma coms_sorted_ext l1 : forall l2, coms_sorted l1 -> coms_sorted l2 -> (forall c, In c l1 <-> In c l2) -> l1 = l2.
Proof.
  induction l1 as [|a l1 IH]; intros l2 H1 H2 Hm.
  - destruct l2 as [|b l2]; [reflexivity|]. exfalso. apply (proj2 (Hm b)). left. reflexivity.
  - destruct l2 as [|b l2]; [exfalso; apply (proj1 (Hm a)); left; reflexivity|].
    cbn [coms_sorted] in H1, H2. destruct H1 as [A1 S1], H2 as [B1 S2]. rewrite Forall_forall in A1, B1.
    assert (Hab : a = b).
    { destruct (proj1 (Hm a) (or_introl eq_refl)) as [E|Hin]; [symmetry; exact E|].
      destruct (proj2 (Hm b) (or_introl eq_refl)) as [E|Hin2]; [exact E|].
      pose proof (A1 _ Hin2) as L1. pose proof (B1 _ Hin) as L2.
      rewrite str_cmp_antisym, L1 in L2. discriminate. }
    subst b. f_equal. apply IH; [exact S1|exact S2|]. intros c. split; intros Hc.
    + destruct (proj1 (Hm c) (or_intror Hc)) as [E|Hin]; [|exact Hin]. subst c. specialize (A1 _ Hc). rewrite str_cmp_refl in A1. discriminate.
    + destruct (proj2 (Hm c) (or_intror Hc)) as [E|Hin]; [|exact Hin]. subst c. specialize (B1 _ Hc). rewrite str_cmp_refl in B1. discriminate.
Qed.

(* ------------------------------------------------------------ account blocks *)

Section Lines.
  Variables (cfg : balance_cfg) (ds : list sdirective) (r : report) (part : partition) (dl : list directive).
  Hypothesis Hv : bc_valuation cfg = None.
  Hypothesis Hrun : balance_report cfg ds = COk (r, part).
  Hypothesis Hp : parse_directives ds = MOk dl.
  Hypothesis Hsyn : postings_syntactic dl.

  Let es := ledger_entries cfg dl part.
  Let rc := balance_render_cfg cfg.
  Let dates := end_dates part.
  Lemma Hkeys : keys_within (col_key part) r.
  Proof. exact (report_dates cfg ds r part Hv Hrun). Qed.
  Lemma Hcell : forall row c col, rcell row (Some col, Some c) r == dvalue (period_amount es (acc_eqb row) c col).
  Proof. exact (Hcells cfg ds r part dl Hv Hrun Hp Hsyn). Qed.
  Lemma Htree : forall (al : bool) c col,
      tsum idk (Some col, Some c) (if al then r_al r else r_eie r)
      == dvalue (period_amount es (fun a => if al then is_AL a else negb (is_AL a)) c col).
  Proof. exact (tree_total cfg ds r part dl Hv Hrun Hp Hsyn). Qed.

  (* a cell of an account row is non-zero under some key iff the ledger has a non-zero period
     amount in some column *)
  Lemma row_nonzero_iff row c :
    (exists od, ~ rcell row (od, Some c) r == 0) <->
    (exists col, In col dates /\ ~ dvalue (period_amount es (acc_eqb row) c col) == 0).
  Proof.
    split.
    - intros (od & Hnz).
      assert (Hk : col_key part (od, Some c)).
      { destruct (classic_col_key part (od, Some c)) as [H|H]; [exact H|]. exfalso. apply Hnz.
        exact (proj1 (proj2 Hkeys _ H) row). }
      destruct (col_key_inv _ _ Hk) as (col & c' & E & Hin). inversion E; subst od c'.
      exists col. split; [exact Hin|]. pose proof (Hcell row c col) as E2. rewrite <- E2. exact Hnz.
    - intros (col & _ & Hnz). exists (Some col). pose proof (Hcell row c col) as E2. rewrite E2. exact Hnz.
  Qed.

  Theorem commodity_line_iff_sec :
    forall row a, In (row, a) (account_rows rc r) ->
      exists coms,
        coms_sorted coms /\
        (forall c, In c coms <-> exists col, In col dates /\ ~ dvalue (period_amount es (acc_eqb row) c col) == 0) /\
        block_ok (tw rc dates) (last row []) (name_indent row) coms
                 (fun c => cell_amounts (bc_diff cfg) (negb (is_AL row)) es (acc_eqb row) c dates dec_nil)
                 (acct_lines rc dates row a).
  Proof.
    intros row a Hin.
    destruct (table_cells cfg ds r part Hv Hrun) as (dl' & Hp' & H). rewrite Hp in Hp'. inversion Hp'; subst dl'.
    destruct (H Hsyn row a Hin) as (coms & Hs & Hm & _ & Hb). exists coms.
    split; [exact Hs|]. split; [|exact Hb]. intros c. rewrite (Hm c). apply row_nonzero_iff.
  Qed.

  (* ---------------------------------------------------------- total rows *)


  (* the value of the totals under ANY key is the sum over the tree *)
  Lemma totals_value_key (al : bool) k :
    dvalue (ra_get0 (node_totals (total_key rc) (if al then sorted_al rc r else sorted_eie rc r) []) k)
    == tsum idk k (if al then r_al r else r_eie r).
  Proof.
    rewrite ra_get0_esum by (apply node_totals_unique; constructor).
    rewrite esum_node_totals. cbn [esum]. rewrite Qplus_0_l.
    assert (Hext : forall n, tsum (fun k0 => idk (total_key rc k0)) k n == tsum idk k n).
    { intros n. rewrite !tsum_lines. apply qsum_ext. intros l _. unfold total_key, rc, balance_render_cfg. cbn [rc_valuation]. rewrite Hv.
      cbn [negb]. rewrite (esum_ext (fun k0 => idk (collapse_key true k0)) idk); [reflexivity|]. intros x. unfold idk. apply collapse_key_true. }
    rewrite Hext. destruct al; unfold sorted_al, sorted_eie; apply tsum_node_sort.
  Qed.

  Lemma totals_no_zeros (al : bool) : no_zeros (node_totals (total_key rc) (if al then sorted_al rc r else sorted_eie rc r) []).
  Proof.
    destruct al; unfold sorted_al, sorted_eie.
    - destruct (r_al r) as [s p hv a ch]. cbn [node_sort node_totals]. apply sum_into_no_zeros.
    - destruct (r_eie r) as [s p hv a ch]. cbn [node_sort node_totals]. apply sum_into_no_zeros.
  Qed.

  Let sel (al : bool) : account -> bool := fun a => if al then is_AL a else negb (is_AL a).

  (* which commodities a total row lists *)
  Lemma totals_listed (al : bool) oc :
    In oc (ra_commodities (node_totals (total_key rc) (if al then sorted_al rc r else sorted_eie rc r) [])) <->
    exists c, oc = Some c /\ exists col, In col dates /\ ~ dvalue (period_amount es (sel al) c col) == 0.
  Proof.
    rewrite commodities_nonzero by (apply node_totals_unique || apply totals_no_zeros; constructor).
    split.
    - intros (od & Hnz). rewrite totals_value_key in Hnz.
      assert (Hk : col_key part (od, oc)).
      { destruct (classic_col_key part (od, oc)) as [H|H]; [exact H|]. exfalso. apply Hnz.
        destruct (proj2 Hkeys _ H) as (_ & H2 & H3). destruct al; assumption. }
      destruct (col_key_inv _ _ Hk) as (col & c & E & Hin). inversion E; subst od oc.
      exists c. split; [reflexivity|]. exists col. split; [exact Hin|].
      pose proof (Htree al c col) as E2. unfold sel. rewrite <- E2. exact Hnz.
    - intros (c & -> & col & _ & Hnz). exists (Some col). rewrite totals_value_key.
      pose proof (Htree al c col) as E2. unfold sel in Hnz. rewrite E2. exact Hnz.
  Qed.

  Theorem total_lines_listed_sec :
    let total_al := node_totals (total_key rc) (sorted_al rc r) [] in
    let total_eie := node_totals (total_key rc) (sorted_eie rc r) [] in
    exists coms_al coms_eie coms_delta,
      (coms_sorted coms_al /\
       (forall c, In c coms_al <-> exists col, In col dates /\ ~ dvalue (period_amount es is_AL c col) == 0) /\
       block_ok (tw rc dates) s_TotalAL 0 coms_al
                (fun c => cell_amounts (bc_diff cfg) false es is_AL c dates dec_nil)
                (line_rows rc dates 0 s_TotalAL false total_al)) /\
      (coms_sorted coms_eie /\
       (forall c, In c coms_eie <-> exists col, In col dates /\ ~ dvalue (period_amount es (fun a => negb (is_AL a)) c col) == 0) /\
       block_ok (tw rc dates) s_TotalEIE 0 coms_eie
                (fun c => cell_amounts (bc_diff cfg) true es (fun a => negb (is_AL a)) c dates dec_nil)
                (line_rows rc dates 0 s_TotalEIE true total_eie)) /\
      (coms_sorted coms_delta /\
       (forall c, In c coms_delta <-> In c coms_al \/ In c coms_eie) /\
       block_ok (tw rc dates) s_Delta 0 coms_delta
                (fun c => cell_amounts (bc_diff cfg) false es (fun _ => true) c dates dec_nil)
                (line_rows rc dates 0 s_Delta false (ra_plus total_al total_eie))).
  Proof.
    cbv zeta.
    set (total_al := node_totals (total_key rc) (sorted_al rc r) []).
    set (total_eie := node_totals (total_key rc) (sorted_eie rc r) []).
    assert (Hnum := fun c => total_lines cfg ds r part dl Hv Hrun Hp Hsyn c). cbv zeta in Hnum.
    fold rc es dates total_al total_eie in Hnum.
    assert (Hrcv : rc_valuation rc = None) by exact Hv.
    assert (Hdiff : rc_diff rc = bc_diff cfg) by reflexivity.
    assert (Nal : ~ In None (ra_commodities total_al)).
    { intros H. apply (totals_listed true) in H. destruct H as (c & E & _). discriminate. }
    assert (Neie : ~ In None (ra_commodities total_eie)).
    { intros H. apply (totals_listed false) in H. destruct H as (c & E & _). discriminate. }
    assert (Ndelta : ~ In None (ra_commodities (ra_plus total_al total_eie))).
    { intros H. apply ra_plus_commodities in H. tauto. }
    destruct (commodities_list _ Nal) as (coms_al & Eal & Sal & Mal).
    destruct (commodities_list _ Neie) as (coms_eie & Eeie & Seie & Meie).
    destruct (commodities_list _ Ndelta) as (coms_delta & Edelta & Sdelta & Mdelta).
    exists coms_al, coms_eie, coms_delta. split; [|split].
    - split; [exact Sal|]. split.
      + intros c. rewrite Mal. unfold total_al. rewrite (totals_listed true). split.
        * intros (c' & E & H). inversion E; subst c'. exact H.
        * intros H. exists c. split; [reflexivity|exact H].
      + apply line_rows_block; [exact Hrcv|exact Eal|]. intros c _. rewrite Hdiff. exact (proj1 (Hnum c)).
    - split; [exact Seie|]. split.
      + intros c. rewrite Meie. unfold total_eie. rewrite (totals_listed false). split.
        * intros (c' & E & H). inversion E; subst c'. exact H.
        * intros H. exists c. split; [reflexivity|exact H].
      + apply line_rows_block; [exact Hrcv|exact Eeie|]. intros c _. rewrite Hdiff. exact (proj1 (proj2 (Hnum c))).
    - split; [exact Sdelta|]. split.
      + intros c. rewrite Mdelta, Mal, Meie. apply ra_plus_commodities.
      + apply line_rows_block; [exact Hrcv|exact Edelta|]. intros c _. rewrite Hdiff. exact (proj2 (proj2 (Hnum c))).
  Qed.
End Lines.

(* ------------------------------------------------------------ closed statements *)

Lemma balance_report_parsed cfg ds r part :
  balance_report cfg ds = COk (r, part) -> exists dl, parse_directives ds = MOk dl.
Proof.
  intros H. unfold balance_report in H.
  apply cbind_ok in H. destruct H as (u & _ & H). cbv beta in H.
  apply cbind_ok in H. destruct H as (b & Hb & _). unfold load in Hb.
  destruct (parse_directives ds) as [dl| |]; try discriminate. exists dl. reflexivity.
Qed.

(* an account block lists commodity c iff the ledger has a non-zero period amount for
   (account, c) in some column of the table *)
Theorem commodity_line_iff cfg ds r part :
  bc_valuation cfg = None ->
  balance_report cfg ds = COk (r, part) ->
  exists dl,
    parse_directives ds = MOk dl /\
    (postings_syntactic dl ->
     let rc := balance_render_cfg cfg in
     let dates := end_dates part in
     let es := ledger_entries cfg dl part in
     forall row a, In (row, a) (account_rows rc r) ->
       exists coms,
         coms_sorted coms /\
         (forall c, In c coms <-> exists col, In col dates /\ ~ dvalue (period_amount es (acc_eqb row) c col) == 0) /\
         block_ok (tw rc dates) (last row []) (name_indent row) coms
                  (fun c => cell_amounts (bc_diff cfg) (negb (is_AL row)) es (acc_eqb row) c dates dec_nil)
                  (acct_lines rc dates row a)).
Proof.
  intros Hv H. destruct (balance_report_parsed _ _ _ _ H) as (dl & Hp). exists dl. split; [exact Hp|].
  intros Hsyn. cbv zeta. exact (commodity_line_iff_sec cfg ds r part dl Hv H Hp Hsyn).
Qed.

Theorem total_lines_listed cfg ds r part dl :
  bc_valuation cfg = None ->
  balance_report cfg ds = COk (r, part) ->
  parse_directives ds = MOk dl ->
  postings_syntactic dl ->
  let rc := balance_render_cfg cfg in
  let es := ledger_entries cfg dl part in
  let dates := end_dates part in
  let total_al := node_totals (total_key rc) (sorted_al rc r) [] in
  let total_eie := node_totals (total_key rc) (sorted_eie rc r) [] in
  exists coms_al coms_eie coms_delta,
    (coms_sorted coms_al /\
     (forall c, In c coms_al <-> exists col, In col dates /\ ~ dvalue (period_amount es is_AL c col) == 0) /\
     block_ok (tw rc dates) s_TotalAL 0 coms_al
              (fun c => cell_amounts (bc_diff cfg) false es is_AL c dates dec_nil)
              (line_rows rc dates 0 s_TotalAL false total_al)) /\
    (coms_sorted coms_eie /\
     (forall c, In c coms_eie <-> exists col, In col dates /\ ~ dvalue (period_amount es (fun a => negb (is_AL a)) c col) == 0) /\
     block_ok (tw rc dates) s_TotalEIE 0 coms_eie
              (fun c => cell_amounts (bc_diff cfg) true es (fun a => negb (is_AL a)) c dates dec_nil)
              (line_rows rc dates 0 s_TotalEIE true total_eie)) /\
    (coms_sorted coms_delta /\
     (forall c, In c coms_delta <-> In c coms_al \/ In c coms_eie) /\
     block_ok (tw rc dates) s_Delta 0 coms_delta
              (fun c => cell_amounts (bc_diff cfg) false es (fun _ => true) c dates dec_nil)
              (line_rows rc dates 0 s_Delta false (ra_plus total_al total_eie))).
Proof. intros Hv H Hp Hsyn. exact (total_lines_listed_sec cfg ds r part dl Hv H Hp Hsyn). Qed.

(* the keys of the report, in words: a cell that is not under (end date of a shown period,
   commodity) is zero, in every row *)
Theorem report_key_dates cfg ds r part :
  bc_valuation cfg = None ->
  balance_report cfg ds = COk (r, part) ->
  forall row od oc,
    ~ (exists col c, od = Some col /\ oc = Some c /\ In col (end_dates part)) ->
    rcell row (od, oc) r == 0.
Proof.
  intros Hv H row od oc Hn. destruct (report_dates cfg ds r part Hv H) as [_ Hk].
  refine (proj1 (Hk (od, oc) _) row). intros Hc. apply Hn.
  destruct (col_key_inv _ _ Hc) as (col & c & E & Hin). inversion E; subst. exists col, c. auto.
Qed.
