(* C20, part 6: the rendered weights table as the rows on which Spec/PortfolioSpec.mapping_law_b
   is evaluated.
   - [nodes]: the nodes of a tree with their paths, in the renderer's order; PropagateWeights
     maps over them, SortWeighted permutes them;
   - the rows of the rendered tree are the rows of its nodes; [row_paths] (paths read off the
     indentation) recovers the paths of the nodes; the [members] of a row are the rows of the
     children of its node; [leaf_rows] are the rows of the nodes without children;
   - [groups_own_ok_b] holds of a rendered tree when every node satisfies the law locally. *)
From Coq Require Import ZArith QArith Qabs Qfield List Bool Lia Permutation Sorting.Sorted.
From Knut Require Proofs.StrProofs.
From Knut Require Import Model.Str Model.Dec Model.Date Model.Account Model.Ledger Model.Price
     Model.Journal Model.Perf Model.Weights Spec.PortfolioSpec Spec.PortfolioMapSpec
     Proofs.SMapProofs Proofs.PortfolioDays Proofs.PortfolioReturns Proofs.PortfolioWeights
     Proofs.PortfolioTree Proofs.PortfolioMapping.
Import ListNotations.
Open Scope Q_scope.

(* ------------------------------------------------------------ paths *)

Lemma path_prefix_iff a : forall b, path_prefix a b = true <-> exists r, b = a ++ r.
Proof.
  induction a as [|x a IH]; intros b; cbn [path_prefix app].
  - split; [intros _; exists b; reflexivity|reflexivity].
  - destruct b as [|y b]; [split; [discriminate|intros [r H]; discriminate]|].
    rewrite andb_true_iff, str_eqb_eq, IH. split.
    + intros [-> [r ->]]. exists r. reflexivity.
    + intros [r H]. inversion H; subst. split; [reflexivity|exists r; reflexivity].
Qed.

Lemma path_eqb_eq a b : path_eqb a b = true <-> a = b.
Proof.
  unfold path_eqb. rewrite andb_true_iff, !path_prefix_iff. split.
  - intros [[r1 H1] [r2 H2]]. subst b. rewrite <- app_assoc in H2. rewrite <- (app_nil_r a) in H2 at 1.
    apply app_inv_head in H2. symmetry in H2. apply app_eq_nil in H2. destruct H2 as [-> _]. rewrite app_nil_r. reflexivity.
  - intros ->. split; exists []; rewrite app_nil_r; reflexivity.
Qed.

(* ------------------------------------------------------------ list helpers *)

Lemma flat_map_map {A B C} (f : B -> list C) (g : A -> B) l : flat_map f (map g l) = flat_map (fun x => f (g x)) l.
Proof. induction l as [|x l IH]; cbn [map flat_map]; [reflexivity|]. rewrite IH. reflexivity. Qed.

Lemma map_flat_map {A B C} (f : B -> C) (g : A -> list B) l : map f (flat_map g l) = flat_map (fun x => map f (g x)) l.
Proof. induction l as [|x l IH]; cbn [map flat_map]; [reflexivity|]. rewrite map_app, IH. reflexivity. Qed.

Lemma flat_map_Forall_eq {A B} (f g : A -> list B) l : Forall (fun x => f x = g x) l -> flat_map f l = flat_map g l.
Proof. induction 1 as [|x l H _ IH]; cbn [flat_map]; [reflexivity|]. rewrite H, IH. reflexivity. Qed.

Lemma flat_map_Forall_perm {A B} (f g : A -> list B) l :
  Forall (fun x => Permutation (f x) (g x)) l -> Permutation (flat_map f l) (flat_map g l).
Proof. induction 1 as [|x l H _ IH]; cbn [flat_map]; [constructor|]. apply Permutation_app; assumption. Qed.

Lemma qsum_perm l l' : Permutation l l' -> qsum l == qsum l'.
Proof.
  induction 1 as [|x l l' _ IH|x y l|l l' l'' _ IH1 _ IH2]; cbn [qsum fold_right].
  - reflexivity.
  - fold (qsum l). fold (qsum l'). rewrite IH. reflexivity.
  - ring.
  - rewrite IH1. exact IH2.
Qed.

Lemma qsum_cons x l : qsum (x :: l) == x + qsum l.
Proof. reflexivity. Qed.

Lemma qsum_flat_map {A} (f : A -> list Q) l : qsum (flat_map f l) == qsum (map (fun x => qsum (f x)) l).
Proof. induction l as [|x l IH]; cbn [flat_map map]; [reflexivity|]. rewrite qsum_app, qsum_cons, IH. reflexivity. Qed.

Lemma qsum_zero {A} (f : A -> Q) l : (forall x, In x l -> f x == 0) -> qsum (map f l) == 0.
Proof.
  induction l as [|x l IH]; intros H; cbn [map]; [reflexivity|]. rewrite qsum_cons, IH, (H x); [ring|left; reflexivity|].
  intros y Hy. apply H. right. exact Hy.
Qed.

(* ------------------------------------------------------------ the nodes of a tree with their paths *)

Fixpoint nodes (p : list str) (n : wnode) : list (list str * wnode) :=
  match n with
  | WNode _ _ _ ch => (p, n) :: flat_map (fun c => nodes (p ++ [wn_seg c]) c) ch
  end.

Definition below (p : list str) (ch : list wnode) : list (list str * wnode) :=
  flat_map (fun c => nodes (p ++ [wn_seg c]) c) ch.

Lemma nodes_unfold p n : nodes p n = (p, n) :: below p (wn_children n).
Proof. destruct n; reflexivity. Qed.

Lemma below_cons p c ch : below p (c :: ch) = nodes (p ++ [wn_seg c]) c ++ below p ch.
Proof. reflexivity. Qed.

Definition nmap (f : wnode -> wnode) (px : list str * wnode) : list str * wnode := (fst px, f (snd px)).

Lemma nodes_propagate n : forall p, nodes p (propagate n) = map (nmap propagate) (nodes p n).
Proof.
  induction n as [s lf w ch IH] using wnode_ind'. intros p.
  rewrite (nodes_unfold p (propagate _)), propagate_children, nodes_unfold. cbn [map wn_children nmap fst snd]. f_equal.
  unfold below. rewrite flat_map_map, map_flat_map. apply flat_map_Forall_eq.
  rewrite Forall_forall in *. intros c Hc. rewrite propagate_seg. apply IH. exact Hc.
Qed.

Lemma sort_weighted_seg n : wn_seg (sort_weighted n) = wn_seg n.
Proof. destruct n; reflexivity. Qed.
Lemma sort_weighted_weights n : wn_weights (sort_weighted n) = wn_weights n.
Proof. destruct n; reflexivity. Qed.
Lemma sort_weighted_children n : Permutation (wn_children (sort_weighted n)) (map sort_weighted (wn_children n)).
Proof. destruct n as [s lf w ch]. cbn [sort_weighted wn_children]. apply StrProofs.sort_by_perm. Qed.

Lemma nodes_sort n : forall p, Permutation (nodes p (sort_weighted n)) (map (nmap sort_weighted) (nodes p n)).
Proof.
  induction n as [s lf w ch IH] using wnode_ind'. intros p.
  rewrite (nodes_unfold p (sort_weighted _)), nodes_unfold. cbn [map nmap fst snd]. apply perm_skip.
  unfold below. etransitivity; [apply Permutation_flat_map; apply sort_weighted_children|]. cbn [wn_children].
  rewrite flat_map_map, map_flat_map. apply flat_map_Forall_perm.
  rewrite Forall_forall in *. intros c Hc. rewrite sort_weighted_seg. apply IH. exact Hc.
Qed.

(* Renderer: PropagateWeights, then SortWeighted unless -a *)
Definition fin (alpha : bool) (x : wnode) : wnode := if alpha then propagate x else sort_weighted (propagate x).

Lemma nodes_fin alpha n p : Permutation (nodes p (fin alpha n)) (map (nmap (fin alpha)) (nodes p n)).
Proof.
  destruct alpha; cbn [fin].
  - rewrite nodes_propagate. reflexivity.
  - etransitivity; [apply nodes_sort|]. rewrite nodes_propagate, map_map. reflexivity.
Qed.

Lemma fin_seg alpha x : wn_seg (fin alpha x) = wn_seg x.
Proof. destruct alpha; cbn [fin]; [|rewrite sort_weighted_seg]; apply propagate_seg. Qed.

Lemma fin_weights alpha x : wn_weights (fin alpha x) = wn_weights (propagate x).
Proof. destruct alpha; cbn [fin]; [reflexivity|apply sort_weighted_weights]. Qed.

Lemma fin_children alpha x : Permutation (wn_children (fin alpha x)) (map (fin alpha) (wn_children x)).
Proof.
  destruct x as [s lf w ch]. destruct alpha; cbn [fin].
  - rewrite propagate_children. reflexivity.
  - etransitivity; [apply sort_weighted_children|]. rewrite propagate_children, map_map. reflexivity.
Qed.

Lemma below_fin alpha n p :
  Permutation (below p (wn_children (fin alpha n))) (map (nmap (fin alpha)) (below p (wn_children n))).
Proof.
  pose proof (nodes_fin alpha n p) as H. rewrite !nodes_unfold in H. cbn [map nmap fst snd] in H.
  apply Permutation_cons_inv in H. exact H.
Qed.

(* ------------------------------------------------------------ rows *)

Section Rows.
  Variable dates : list Z.

  Definition cells_of (x : wnode) : list scell := map (wcell (wn_weights x)) dates.
  (* the number in column j of the row of x *)
  Definition ccol (j : nat) (x : wnode) : Q := scell_q (nth j (cells_of x) None).

  Fixpoint render_s (depth : Z) (n : wnode) : list srow :=
    match n with
    | WNode s _ w ch => (depth, s, map (wcell w) dates) :: flat_map (render_s (depth + 1)%Z) ch
    end.

  Lemma render_s_unfold depth n :
    render_s depth n = (depth, wn_seg n, cells_of n) :: flat_map (render_s (depth + 1)%Z) (wn_children n).
  Proof. destruct n; reflexivity. Qed.

  Lemma render_s_eq n : forall k, map srow_of_wrow (render_wnode dates (2 * k) n) = render_s k n.
  Proof.
    induction n as [s lf w ch IH] using wnode_ind'. intros k. cbn [render_wnode render_s map srow_of_wrow].
    replace (2 * k / 2)%Z with k by (rewrite Z.mul_comm, Z.div_mul; lia). f_equal.
    rewrite map_flat_map. apply flat_map_Forall_eq. rewrite Forall_forall in *. intros c Hc.
    replace (2 * k + 2)%Z with (2 * (k + 1))%Z by lia. apply IH. exact Hc.
  Qed.

  (* the row of a node at a path *)
  Definition nrow (px : list str * wnode) : list str * srow :=
    (fst px, ((Z.of_nat (length (fst px)) - 1)%Z, wn_seg (snd px), cells_of (snd px))).

  Lemma depth_snoc (p : list str) s : (Z.of_nat (length (p ++ [s])) - 1 = Z.of_nat (length p))%Z.
  Proof. rewrite app_length. cbn [length]. lia. Qed.

  Lemma nrow_snoc (p : list str) s x : nrow (p ++ [s], x) = (p ++ [s], (Z.of_nat (length p), wn_seg x, cells_of x)).
  Proof. unfold nrow. cbn [fst snd]. rewrite depth_snoc. reflexivity. Qed.

  Lemma rows_nodes n : forall p,
    map snd (map nrow (nodes (p ++ [wn_seg n]) n)) = render_s (Z.of_nat (length p)) n.
  Proof.
    induction n as [s lf w ch IH] using wnode_ind'. intros p. cbn [wn_seg]. rewrite nodes_unfold, render_s_unfold.
    cbn [map nrow fst snd wn_seg wn_children]. rewrite depth_snoc. f_equal.
    unfold below. rewrite !map_flat_map. apply flat_map_Forall_eq. rewrite Forall_forall in *. intros c Hc.
    rewrite (IH c Hc (p ++ [s])). rewrite app_length. cbn [length]. f_equal. lia.
  Qed.

  Lemma rows_below p ch : map snd (map nrow (below p ch)) = flat_map (render_s (Z.of_nat (length p))) ch.
  Proof.
    unfold below. rewrite !map_flat_map. apply flat_map_Forall_eq. rewrite Forall_forall. intros c _.
    apply rows_nodes.
  Qed.

  (* ---------------------------------------------------------- row_paths *)

  Lemma firstn_shorter (p : list str) s l : firstn (length (p ++ [s])) l = p ++ [s] -> firstn (length p) l = p.
  Proof.
    intros H. assert (E : firstn (length p) (firstn (length (p ++ [s])) l) = firstn (length p) (p ++ [s])) by (rewrite H; reflexivity).
    rewrite firstn_firstn in E. rewrite app_length in E. cbn [length] in E. rewrite Nat.min_l in E by lia.
    rewrite E, firstn_app, Nat.sub_diag. cbn [firstn]. rewrite app_nil_r. apply firstn_all.
  Qed.

  Definition RPnode (n : wnode) : Prop := forall p prev tail,
    firstn (length p) prev = p ->
    exists prev', firstn (length p) prev' = p /\
      row_paths prev (render_s (Z.of_nat (length p)) n ++ tail) =
      map nrow (nodes (p ++ [wn_seg n]) n) ++ row_paths prev' tail.

  Lemma RPlist ch : Forall RPnode ch -> forall p prev tail,
    firstn (length p) prev = p ->
    exists prev', firstn (length p) prev' = p /\
      row_paths prev (flat_map (render_s (Z.of_nat (length p))) ch ++ tail) =
      map nrow (below p ch) ++ row_paths prev' tail.
  Proof.
    induction 1 as [|c ch Hc _ IH]; intros p prev tail Hp.
    - exists prev. split; [exact Hp|reflexivity].
    - cbn [flat_map]. rewrite <- app_assoc.
      destruct (Hc p prev (flat_map (render_s (Z.of_nat (length p))) ch ++ tail) Hp) as [prev1 [H1 E1]].
      destruct (IH p prev1 tail H1) as [prev2 [H2 E2]]. exists prev2. split; [exact H2|].
      rewrite E1, E2, below_cons, map_app, <- app_assoc. reflexivity.
  Qed.

  Lemma RPall n : RPnode n.
  Proof.
    induction n as [s lf w ch IH] using wnode_ind'. intros p prev tail Hp. cbn [wn_seg].
    rewrite render_s_unfold, nodes_unfold. cbn [app row_paths map wn_seg wn_children srow_depth srow_label fst snd].
    rewrite Nat2Z.id, Hp.
    assert (Hk : (Z.of_nat (length p) + 1)%Z = Z.of_nat (length (p ++ [s]))) by (rewrite app_length; cbn [length]; lia).
    rewrite Hk.
    destruct (RPlist ch IH (p ++ [s]) (p ++ [s]) tail (firstn_all _)) as [prev' [H1 E1]].
    exists prev'. split; [exact (firstn_shorter p s prev' H1)|]. rewrite E1.
    unfold nrow at 2. cbn [fst snd wn_seg]. rewrite depth_snoc. reflexivity.
  Qed.

  Lemma row_paths_top ch : row_paths [] (flat_map (render_s 0) ch) = map nrow (below [] ch).
  Proof.
    destruct (RPlist ch (proj2 (Forall_forall _ _) (fun c _ => RPall c)) [] [] [] eq_refl) as [prev' [_ E]].
    cbn [length Z.of_nat] in E. rewrite !app_nil_r in E. exact E.
  Qed.

  (* ---------------------------------------------------------- members *)

  Lemma render_s_depth n : forall k, Forall (fun r => (k <= srow_depth r)%Z) (render_s k n).
  Proof.
    induction n as [s lf w ch IH] using wnode_ind'. intros k. rewrite render_s_unfold. constructor; [cbn; lia|].
    apply Forall_flat_map. rewrite Forall_forall in *. intros c Hc. specialize (IH c Hc (k + 1)%Z).
    rewrite Forall_forall in *. intros r Hr. specialize (IH r Hr). lia.
  Qed.

  Lemma members_skip k deep rest : Forall (fun r => (k + 1 < srow_depth r)%Z) deep -> members k (deep ++ rest) = members k rest.
  Proof.
    induction 1 as [|r deep Hr _ IH]; [reflexivity|]. cbn [app members].
    replace (srow_depth r <=? k)%Z with false by (symmetry; apply Z.leb_gt; lia).
    replace (srow_depth r =? k + 1)%Z with false by (symmetry; apply Z.eqb_neq; lia). exact IH.
  Qed.

  Definition tail_le (k : Z) (tail : list srow) : Prop :=
    match tail with [] => True | r :: _ => (srow_depth r <= k)%Z end.

  Lemma tail_le_mono k k' tail : tail_le k tail -> (k <= k')%Z -> tail_le k' tail.
  Proof. destruct tail; cbn; [trivial|lia]. Qed.

  Definition first_row (k : Z) (c : wnode) : srow := (k, wn_seg c, cells_of c).

  Lemma members_children k ch tail : tail_le k tail ->
    members k (flat_map (render_s (k + 1)%Z) ch ++ tail) = map (first_row (k + 1)%Z) ch.
  Proof.
    intros Ht. induction ch as [|c ch IH]; cbn [flat_map map app].
    - destruct tail as [|r tail]; [reflexivity|]. cbn [tail_le] in Ht. cbn [members].
      replace (srow_depth r <=? k)%Z with true by (symmetry; apply Z.leb_le; exact Ht). reflexivity.
    - rewrite render_s_unfold. cbn [app members srow_depth fst].
      replace (k + 1 <=? k)%Z with false by (symmetry; apply Z.leb_gt; lia). rewrite Z.eqb_refl.
      unfold first_row at 1. f_equal. rewrite <- app_assoc. rewrite members_skip; [exact IH|].
      apply Forall_flat_map. rewrite Forall_forall. intros g _. pose proof (render_s_depth g (k + 1 + 1)%Z) as H.
      rewrite Forall_forall in *. intros r Hr. specialize (H r Hr). lia.
  Qed.

  Lemma tail_le_below p ch tail :
    tail_le (Z.of_nat (length p)) (map snd tail) ->
    tail_le (Z.of_nat (length p)) (map snd (map nrow (below p ch) ++ tail)).
  Proof.
    intros Ht. destruct ch as [|c' ch]; [exact Ht|]. rewrite below_cons, nodes_unfold. cbn [map app tail_le nrow fst snd srow_depth].
    rewrite depth_snoc. lia.
  Qed.

  (* ---------------------------------------------------------- leaf_rows *)

  Definition leafp (px : list str * wnode) : bool := match wn_children (snd px) with [] => true | _ => false end.

  Definition Lnode (n : wnode) : Prop := forall p tail,
    tail_le (Z.of_nat (length p)) (map snd tail) ->
    leaf_rows (map nrow (nodes (p ++ [wn_seg n]) n) ++ tail) =
    map nrow (filter leafp (nodes (p ++ [wn_seg n]) n)) ++ leaf_rows tail.

  Lemma Llist ch : Forall Lnode ch -> forall p tail,
    tail_le (Z.of_nat (length p)) (map snd tail) ->
    leaf_rows (map nrow (below p ch) ++ tail) = map nrow (filter leafp (below p ch)) ++ leaf_rows tail.
  Proof.
    induction 1 as [|c ch Hc _ IH]; intros p tail Ht; [reflexivity|].
    rewrite below_cons, map_app, <- app_assoc, filter_app, map_app, <- app_assoc.
    rewrite (Hc p _ (tail_le_below p ch tail Ht)), (IH p tail Ht). reflexivity.
  Qed.

  Lemma Lall n : Lnode n.
  Proof.
    induction n as [s lf w ch IH] using wnode_ind'. intros p tail Ht. cbn [wn_seg]. rewrite nodes_unfold.
    cbn [map app leaf_rows filter wn_children]. unfold nrow at 1. cbn [fst snd srow_depth].
    rewrite map_app, rows_below, depth_snoc.
    assert (Hk : Z.of_nat (length (p ++ [s])) = (Z.of_nat (length p) + 1)%Z) by (rewrite app_length; cbn [length]; lia).
    rewrite Hk, (members_children (Z.of_nat (length p)) ch (map snd tail) Ht).
    assert (Ht' : tail_le (Z.of_nat (length (p ++ [s]))) (map snd tail)) by (apply (tail_le_mono _ _ _ Ht); lia).
    rewrite (Llist ch IH (p ++ [s]) tail Ht').
    unfold leafp at 1. cbn [snd wn_children]. destruct ch as [|c ch]; [reflexivity|]. cbn [map]. reflexivity.
  Qed.

  Lemma leaf_rows_top ch : leaf_rows (map nrow (below [] ch)) = map nrow (filter leafp (below [] ch)).
  Proof.
    pose proof (Llist ch (proj2 (Forall_forall _ _) (fun c _ => Lall c)) [] [] I) as H.
    rewrite !app_nil_r in H. exact H.
  Qed.

  (* ---------------------------------------------------------- groups_own_ok_b *)

  Lemma close_b_eq a b : a == b -> close_b 0 a b = true.
  Proof.
    intros H. unfold close_b. apply Qle_bool_iff. assert (E : a - b == 0) by (rewrite H; ring).
    rewrite E. cbn. apply Qle_refl.
  Qed.

  Variable ncols : nat.
  Variable m : list rule.
  Variable leaves : list (list str * srow).

  (* the law at one node: its cell = what the mapping folds into it + the cells of its children, in the
     columns in which every leaf row (of the table without -m) is a finite number *)
  Definition LOC (px : list str * wnode) : Prop := forall j, (j < ncols)%nat ->
    forallb (fun lf => scol_finite j (snd lf)) leaves = true ->
    ccol j (snd px) == own_sum m leaves (fst px) j + qsum (map (ccol j) (wn_children (snd px))).

  Definition gok (prs : list (list str * srow)) : Prop := groups_own_ok_b 0 ncols m leaves prs = true.

  Definition Gnode (n : wnode) : Prop := forall p tail,
    tail_le (Z.of_nat (length p)) (map snd tail) ->
    Forall LOC (nodes (p ++ [wn_seg n]) n) -> gok tail -> gok (map nrow (nodes (p ++ [wn_seg n]) n) ++ tail).

  Lemma Glist ch : Forall Gnode ch -> forall p tail,
    tail_le (Z.of_nat (length p)) (map snd tail) ->
    Forall LOC (below p ch) -> gok tail -> gok (map nrow (below p ch) ++ tail).
  Proof.
    induction 1 as [|c ch Hc _ IH]; intros p tail Ht Hl Hg; [exact Hg|].
    rewrite below_cons in *. apply Forall_app in Hl. destruct Hl as [Hl1 Hl2].
    rewrite map_app, <- app_assoc. apply (Hc p _ (tail_le_below p ch tail Ht) Hl1). apply IH; assumption.
  Qed.

  Lemma col_sum_first_rows j k ch : col_sum j (map (first_row k) ch) = qsum (map (ccol j) ch).
  Proof. unfold col_sum. rewrite map_map. reflexivity. Qed.

  Lemma Gall n : Gnode n.
  Proof.
    induction n as [s lf w ch IH] using wnode_ind'. intros p tail Ht Hl Hg. cbn [wn_seg] in *. rewrite nodes_unfold in *.
    cbn [wn_children] in *. inversion Hl as [|? ? Hloc Hrest]; subst. unfold gok. cbn [map app groups_own_ok_b].
    apply andb_true_iff. split.
    - rewrite !nrow_snoc. cbn [fst snd srow_depth]. rewrite map_app, rows_below.
      assert (Hk : Z.of_nat (length (p ++ [s])) = (Z.of_nat (length p) + 1)%Z) by (rewrite app_length; cbn [length]; lia).
      rewrite Hk, (members_children (Z.of_nat (length p)) ch (map snd tail) Ht).
      apply forallb_forall. intros j Hj. apply in_seq in Hj.
      destruct (forallb (fun lf => scol_finite j (snd lf)) leaves) eqn:Efin; [|rewrite andb_false_r; reflexivity].
      apply orb_true_iff. right. apply close_b_eq.
      rewrite col_sum_first_rows. exact (Hloc j (proj2 Hj) Efin).
    - assert (Ht' : tail_le (Z.of_nat (length (p ++ [s]))) (map snd tail))
        by (apply (tail_le_mono _ _ _ Ht); rewrite app_length; cbn [length]; lia).
      exact (Glist ch IH (p ++ [s]) tail Ht' Hrest Hg).
  Qed.

  Lemma gok_top ch : Forall LOC (below [] ch) -> gok (map nrow (below [] ch)).
  Proof.
    intros H. pose proof (Glist ch (proj2 (Forall_forall _ _) (fun c _ => Gall c)) [] [] I H eq_refl) as G.
    rewrite app_nil_r in G. exact G.
  Qed.
End Rows.
