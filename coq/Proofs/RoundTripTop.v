(* C08 round trip, part 8: the statements of Properties/C08.v.
   * [class_ok] holds of Go's unicode.IsLetter / unicode.IsDigit (Model/UnicodeTables.v), so
     the round trip and idempotence hold of the real parser without any hypothesis;
   * without [class_ok] the round trip is false: a classification that calls the blank a
     letter refutes it ([roundtrip_unrestricted_refuted]);
   * idempotence = the round trip composed with FormatProofs.idem_of_roundtrip.             *)
From Coq Require Import String ZArith List Bool Lia.
From Knut Require Import Model.Bytes Model.Utf8 Model.UnicodeTables Model.Scanner Model.Parser Model.SynPrinter
  Spec.SyntaxSpec Proofs.ScannerProofs Proofs.ParserProofs Spec.FormatSpec Model.SynRender Proofs.FormatProofs
  Proofs.RoundTripLeaf Proofs.RoundTripFile.
Import ListNotations.
Open Scope Z_scope.

Lemma unicode_class_ok : class_ok is_letter is_digit.
Proof.
  constructor.
  - intros c Hc. cbn [In] in Hc.
    repeat (destruct Hc as [<-|Hc]; [split; vm_compute; reflexivity|]). destruct Hc.
  - vm_compute. reflexivity.
Qed.

(* the ASCII classification satisfies it, too *)
Definition ascii_letter (c : Z) : bool := ((65 <=? c) && (c <=? 90)) || ((97 <=? c) && (c <=? 122)).
Definition ascii_digit (c : Z) : bool := (48 <=? c) && (c <=? 57).

Lemma ascii_class_ok : class_ok ascii_letter ascii_digit.
Proof.
  constructor.
  - intros c Hc. cbn [In] in Hc.
    repeat (destruct Hc as [<-|Hc]; [split; vm_compute; reflexivity|]). destruct Hc.
  - vm_compute. reflexivity.
Qed.

Theorem roundtrip_unicode t f out :
  parse_text is_letter is_digit t = ParseOk f -> format_text is_letter is_digit t f = FOk out ->
  exists f', parse_text is_letter is_digit out = ParseOk f' /\ sem out f' = sem t f /\ gaps out f' = gaps t f.
Proof. apply roundtrip. exact unicode_class_ok. Qed.

Theorem idem letter digit t f out :
  class_ok letter digit ->
  parse_text letter digit t = ParseOk f -> format_text letter digit t f = FOk out ->
  exists f', parse_text letter digit out = ParseOk f' /\ format_text letter digit out f' = FOk out.
Proof.
  intros Hc Hp Hf. destruct (roundtrip letter digit t f out Hc Hp Hf) as (f' & Hp' & Hs & Hg).
  exists f'. split; [exact Hp'|]. exact (idem_of_roundtrip letter digit t f out f' Hp Hf Hp' Hs Hg).
Qed.

Theorem idem_unicode t f out :
  parse_text is_letter is_digit t = ParseOk f -> format_text is_letter is_digit t f = FOk out ->
  exists f', parse_text is_letter is_digit out = ParseOk f' /\ format_text is_letter is_digit out f' = FOk out.
Proof. apply idem. exact unicode_class_ok. Qed.

(* the command: formatting a file twice is formatting it once *)
Theorem format_cmd_idem letter digit t n :
  class_ok letter digit -> format_cmd letter digit t = Rewritten n -> format_cmd letter digit n = Rewritten n.
Proof.
  intros Hc H. pose proof (format_cmd_total letter digit t) as Ht. rewrite H in Ht.
  destruct Ht as (f & Hp & Hf). destruct (idem letter digit t f n Hc Hp Hf) as (f' & Hp' & Hf').
  unfold format_cmd. now rewrite Hp', Hf'.
Qed.

(* ---- without class_ok the round trip fails ---- *)

Definition blank_letter (c : Z) : bool := (c =? 32) || ascii_letter c.

Definition refuting_text : str := Eval vm_compute in
  runes_of_string ("2020-01-01 price X" ++ String (Ascii.ascii_of_nat 9) ("1" ++ String (Ascii.ascii_of_nat 9) "Y"))%string.

Definition refuting_file : file := Eval vm_compute in
  match parse_text blank_letter ascii_digit refuting_text with ParseOk x => x | _ => mkFile zero_range [] end.
Definition refuting_out : str := Eval vm_compute in
  match format_text blank_letter ascii_digit refuting_text refuting_file with FOk o => o | _ => [] end.

Theorem roundtrip_unrestricted_refuted :
  exists letter digit t f out,
    parse_text letter digit t = ParseOk f /\ format_text letter digit t f = FOk out /\
    ~ exists f', parse_text letter digit out = ParseOk f' /\ sem out f' = sem t f /\ gaps out f' = gaps t f.
Proof.
  exists blank_letter, ascii_digit, refuting_text, refuting_file, refuting_out.
  split; [vm_compute; reflexivity|]. split; [vm_compute; reflexivity|].
  intros (f' & Hp' & _). vm_compute in Hp'. discriminate.
Qed.
