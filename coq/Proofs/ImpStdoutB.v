(* C13, group B: the importer commands print the executable statement-level specification
   (Spec/ImpStmtB.v): C13_<importer>_stdout. *)
From Coq Require Import ZArith QArith List Bool Lia Permutation.
From Knut Require Import Model.Str Model.Dec Model.Date Model.Account Model.Ledger Model.Journal
     Model.Table Model.ImpCommonA Model.ImpCommonB Model.Imp.Revolut2 Model.Imp.Revolut Model.Imp.Wise Model.Imp.Swissquote
     Spec.ImpSpecA Spec.ImpSpecB Spec.ImpStmtA Spec.ImpStmtB
     Proofs.StrProofs Proofs.StableSort Proofs.PairProofs Proofs.ImpProofsA Proofs.ImpProofsB Proofs.ImpRunB Proofs.ImpStdoutA.
Import ListNotations.
Open Scope bool_scope.

(* ---------------------------------------------------------------- general *)
(* what books_b and the description say about a transaction determines it *)
Lemma books_b_determines acct f ls tg text t :
  books_b acct f ls tg t -> t_desc t = build_desc text -> DTxn t = booking_directive f text ls tg.
Proof.
  intros (Hd & Hc & _ & Ht) Hx. unfold consists_of in Hc. unfold booking_directive, legs_txn.
  rewrite legs_postings_spec, <- Hd, <- Hc, <- Ht, <- Hx. destruct t; reflexivity.
Qed.

Lemma forall2_books_determine {A} acct (fact : A -> row_effect) (legs : A -> list leg) (tg : A -> option (list commodity))
      (text : A -> str) xs : forall ts,
  Forall2 (fun x t => books_b acct (fact x) (legs x) (tg x) t) xs ts ->
  map t_desc ts = map build_desc (map text xs) ->
  map DTxn ts = map (fun x => booking_directive (fact x) (text x) (legs x) (tg x)) xs.
Proof.
  induction xs as [|x xs IH]; intros ts H Hd; inversion H as [|? t ? ts' Hb Hrest]; subst; [reflexivity|].
  cbn [map] in Hd |- *. injection Hd as Hx Hd. f_equal; [eapply books_b_determines; eassumption|apply IH; assumption].
Qed.

Lemma uses_nil_bookings {A} (fact : A -> row_effect) (legs : A -> list leg) (tg : A -> option (list commodity))
      (text : A -> str) xs :
  (forall x, In x xs -> forallb leg_named (legs x) = true) ->
  uses_nil (map (fun x => booking_directive (fact x) (text x) (legs x) (tg x)) xs) = false.
Proof.
  induction xs as [|x xs IH]; intros Hn; [reflexivity|]. cbn [map].
  change (uses_nil (booking_directive (fact x) (text x) (legs x) (tg x) :: ?l))
    with (existsb nil_posting (legs_postings (legs x)) || uses_nil l).
  rewrite (legs_postings_named _ (Hn x (or_introl eq_refl))), IH; [reflexivity|].
  intros y Hy. apply Hn. right. exact Hy.
Qed.

(* sorting commutes with a map that preserves the comparator *)
Lemma insert_sorted_map {A B} (lt : A -> A -> bool) (ltB : B -> B -> bool) (g : A -> B) x l :
  (forall a b, ltB (g a) (g b) = lt a b) ->
  insert_sorted ltB (g x) (map g l) = map g (insert_sorted lt x l).
Proof.
  intros H. induction l as [|y l IH]; [reflexivity|]. cbn [map insert_sorted]. rewrite H.
  destruct (lt x y); [reflexivity|]. cbn [map]. rewrite IH. reflexivity.
Qed.

Lemma sort_by_map {A B} (lt : A -> A -> bool) (ltB : B -> B -> bool) (g : A -> B) l :
  (forall a b, ltB (g a) (g b) = lt a b) -> sort_by ltB (map g l) = map g (sort_by lt l).
Proof.
  intros H. induction l as [|x l IH] using rev_ind; [reflexivity|].
  rewrite map_app. cbn [map]. rewrite !sort_by_snoc, IH. apply insert_sorted_map, H.
Qed.

Lemma nodup_map_inj {A B} (f : A -> B) l x y : NoDup (map f l) -> In x l -> In y l -> f x = f y -> x = y.
Proof.
  induction l as [|z l IH]; intros Hnd Hx Hy E; [destruct Hx|].
  cbn [map] in Hnd. inversion Hnd as [|? ? Hz Hl]; subst.
  destruct Hx as [Hx|Hx], Hy as [Hy|Hy]; subst.
  - reflexivity.
  - exfalso. apply Hz. rewrite E. apply in_map, Hy.
  - exfalso. apply Hz. rewrite <- E. apply in_map, Hx.
  - apply IH; assumption.
Qed.

(* ---------------------------------------------------------------- the order of (day, currency) keys *)
Lemma key_ltb_irrefl a : key_ltb a a = false.
Proof. unfold key_ltb. rewrite Z.ltb_irrefl, Z.eqb_refl, str_ltb_irrefl. reflexivity. Qed.

Lemma key_ltb_trans a b c : key_ltb a b = true -> key_ltb b c = true -> key_ltb a c = true.
Proof.
  unfold key_ltb. intros H1 H2.
  apply orb_true_iff in H1. apply orb_true_iff in H2. apply orb_true_iff.
  destruct H1 as [H1|H1], H2 as [H2|H2].
  - left. apply Z.ltb_lt. apply Z.ltb_lt in H1, H2. lia.
  - apply andb_prop in H2. destruct H2 as [H2 _]. apply Z.eqb_eq in H2. left. rewrite <- H2. exact H1.
  - apply andb_prop in H1. destruct H1 as [H1 _]. apply Z.eqb_eq in H1. left. rewrite H1. exact H2.
  - apply andb_prop in H1. destruct H1 as [H1 S1]. apply andb_prop in H2. destruct H2 as [H2 S2].
    apply Z.eqb_eq in H1, H2. right. rewrite H1, H2, Z.eqb_refl. exact (str_ltb_trans _ _ _ S1 S2).
Qed.

Lemma key_ltb_total a b : key_ltb a b = false -> key_ltb b a = false -> a = b.
Proof.
  unfold key_ltb. destruct a as [d c], b as [d' c']. cbn [fst snd]. intros H1 H2.
  apply orb_false_elim in H1. apply orb_false_elim in H2. destruct H1 as [L1 E1], H2 as [L2 E2].
  apply Z.ltb_ge in L1, L2. assert (d = d') by lia. subst d'. rewrite Z.eqb_refl in E1, E2. cbn [andb] in E1, E2.
  f_equal. apply str_ltb_total; assumption.
Qed.

Lemma bf_ltb_irrefl x : bf_ltb x x = false.
Proof. exact (by_key_irrefl key_ltb bf_key key_ltb_irrefl x). Qed.
Lemma bf_ltb_trans x y z : bf_ltb x y = true -> bf_ltb y z = true -> bf_ltb x z = true.
Proof. exact (by_key_trans key_ltb bf_key key_ltb_trans x y z). Qed.
Lemma bf_ltb_cotrans x y z : bf_ltb x y = true -> bf_ltb x z = true \/ bf_ltb z y = true.
Proof. exact (by_key_cotrans key_ltb bf_key key_ltb_trans key_ltb_total x y z). Qed.
Lemma bf_eqv_key x y : eqv bf_ltb x y = true -> bf_key x = bf_key y.
Proof. apply (eqv_by_key key_ltb bf_key key_ltb_irrefl key_ltb_total). Qed.

(* ---------------------------------------------------------------- revolut2 *)
Lemma r2s_header_eq : r2s_header = r2_header.
Proof. reflexivity. Qed.

Lemma r2_closing_key k rows v : r2_closing k rows = Some v -> In k (r2s_keys rows).
Proof.
  unfold r2s_keys. rewrite nodup_In. revert v. induction rows as [|r rows IH]; intros v; cbn [r2_closing]; [discriminate|].
  intros H. cbn [filter]. destruct (r2_closing k rows) as [v'|].
  - destruct (r2_is_booking r); [right|]; apply (IH v'); reflexivity.
  - destruct (r2_is_booking r); [|discriminate H]. destruct (key_eq_dec (r2_key_of r) k) as [e|n]; [|discriminate H].
    left. exact e.
Qed.

Lemma r2s_closings_in rows d c v : In (mkBalFact d c v) (r2s_closings rows) <-> r2_closing (d, c) rows = Some v.
Proof.
  unfold r2s_closings. rewrite in_flat_map. split.
  - intros ([d' c'] & _ & Hin). cbn [fst snd] in Hin. destruct (r2_closing (d', c') rows) as [v'|] eqn:E; [|destruct Hin].
    destruct Hin as [Hin|[]]. injection Hin. intros; subst. exact E.
  - intros H. exists (d, c). split; [eapply r2_closing_key; exact H|]. rewrite H. left. reflexivity.
Qed.

Lemma r2s_closings_keys rows :
  map bf_key (r2s_closings rows) = filter (fun k => is_some (r2_closing k rows)) (r2s_keys rows).
Proof.
  unfold r2s_closings. induction (r2s_keys rows) as [|k ks IH]; [reflexivity|].
  cbn [flat_map filter]. rewrite map_app, IH. destruct k as [d c]. destruct (r2_closing (d, c) rows); reflexivity.
Qed.

Lemma r2s_closings_nodup rows : NoDup (map bf_key (r2s_closings rows)).
Proof. rewrite r2s_closings_keys. apply NoDup_filter. unfold r2s_keys. apply NoDup_nodup. Qed.

Lemma r2_bal_fact_key kv : bf_key (r2_bal_fact kv) = fst kv.
Proof. destruct kv as [[d c] v]. reflexivity. Qed.

(* the balance map the importer ends with, sorted as addBalances sorts it, holds the statement's
   closing balances in the order of the specification *)
Lemma r2_balances_spec rows :
  map r2_bal_fact (sort_by r2_kv_ltb (r2_puts [] rows)) = r2s_balances rows.
Proof.
  unfold r2s_balances. rewrite <- (sort_by_map r2_kv_ltb bf_ltb r2_bal_fact) by (intros [[d c] v] [[d' c'] v']; reflexivity).
  assert (Hk : map bf_key (map r2_bal_fact (r2_puts [] rows)) = map fst (r2_puts [] rows)).
  { rewrite map_map. apply map_ext, r2_bal_fact_key. }
  assert (Hnd : NoDup (map bf_key (map r2_bal_fact (r2_puts [] rows)))).
  { rewrite Hk. apply r2_puts_nodup. constructor. }
  apply (sort_by_perm_inj bf_ltb bf_ltb_irrefl bf_ltb_trans bf_ltb_cotrans).
  - apply NoDup_Permutation.
    + eapply NoDup_map_inv. exact Hnd.
    + eapply NoDup_map_inv. apply r2s_closings_nodup.
    + intros [d c v]. rewrite r2s_closings_in.
      pose proof (r2_puts_closing rows [] (d, c) v (NoDup_nil _)) as H.
      assert (Hin : In (mkBalFact d c v) (map r2_bal_fact (r2_puts [] rows)) <-> In ((d, c), v) (r2_puts [] rows)).
      { rewrite in_map_iff. split.
        - intros ([[d' c'] v'] & He & Hi). unfold r2_bal_fact in He. cbn [fst snd] in He. injection He. intros; subst. exact Hi.
        - intros Hi. exists ((d, c), v). split; [reflexivity|exact Hi]. }
      rewrite Hin, H. destruct (r2_closing (d, c) rows) as [v'|].
      * split; [intros ->; reflexivity|intros E; injection E; auto].
      * split; [intros []|discriminate].
  - intros x y Hx Hy E. apply bf_eqv_key in E. exact (nodup_map_inj bf_key _ x y Hnd Hx Hy E).
Qed.

Lemma import_revolut2_spec acct feeacct rows : forallb r2_wf_row rows = true ->
  import_revolut2 acct feeacct (CRec r2_header :: map CRec rows) = MOk (r2s_directives acct feeacct rows).
Proof.
  intros Hwf. cbn [import_revolut2]. rewrite r2_header_self. cbn [mbind]. rewrite (r2_rows_ok acct feeacct rows [] Hwf).
  cbn [mbind fst snd]. unfold r2s_directives. f_equal. f_equal.
  - rewrite map_map. reflexivity.
  - rewrite <- r2_balances_spec. unfold r2_assertions, r2_assertions_pinned. rewrite map_map. apply map_ext.
    intros [[d c] v]. reflexivity.
Qed.

Theorem revolut2_stdout aflag fflag acct feeacct recs :
  account_flag aflag = AAcc acct -> account_flag fflag = AAcc feeacct ->
  r2_statement_wf recs = true ->
  exists out, r2_statement_output acct feeacct recs = Some out /\
    run_revolut2 aflag fflag (map CRec recs) = mkRun out SOk.
Proof.
  intros Fa Ff Hwf. unfold r2_statement_output. rewrite Hwf. eexists. split; [reflexivity|].
  destruct recs as [|h rows]; [discriminate Hwf|]. cbn [r2_statement_wf] in Hwf. apply andb_prop in Hwf.
  destruct Hwf as [Hh Hrows]. apply rec_eqb_eq in Hh. subst h. rewrite r2s_header_eq. cbn [tl map].
  pose proof (account_flag_named _ _ Fa) as Na. pose proof (account_flag_named _ _ Ff) as Nf. pose proof tbd_named as Nt.
  unfold run_revolut2. cbn [resolve_flags]. rewrite Fa, Ff. cbn [flag_account].
  rewrite (import_revolut2_spec acct feeacct rows Hrows). cbn [finish_run_b].
  unfold r2s_directives at 1. rewrite uses_nil_app, (assertions_named acct _ Na), orb_false_r.
  rewrite (uses_nil_bookings r2_fact (r2_legs acct feeacct) (fun _ => None) r2_text); [reflexivity|].
  intros r _. unfold r2_legs. destruct (is_zero (r2_fee r)); named_legs.
Qed.

(* ---------------------------------------------------------------- revolut *)
Lemma is_prefix_split p : forall s, is_prefix p s = true -> s = p ++ skipn (length p) s.
Proof.
  induction p as [|x p IH]; intros s H; [reflexivity|].
  destruct s as [|y s]; [discriminate H|]. cbn [is_prefix] in H. apply andb_prop in H. destruct H as [Hx Hp].
  apply Z.eqb_eq in Hx. subst y. cbn [length skipn app]. f_equal. apply IH, Hp.
Qed.

Lemma span_spec f s : forall a b, span f s = (a, b) -> s = a ++ b /\ forallb f a = true.
Proof.
  induction s as [|c s IH]; intros a b H; cbn [span] in H.
  - injection H as <- <-. split; reflexivity.
  - destruct (f c) eqn:E.
    + destruct (span f s) as [a' b'] eqn:E'. injection H as <- <-. destruct (IH a' b' eq_refl) as [H1 H2].
      subst s. cbn [app forallb]. rewrite E, H2. split; reflexivity.
    + injection H as <- <-. split; reflexivity.
Qed.

Lemma rvs_currency_spec h cur : rvs_currency h = Some cur ->
  field h 2 = s_paid_out ++ cur ++ [41%Z] /\ forallb is_alpha cur = true /\ cur <> [].
Proof.
  unfold rvs_currency. change rvs_paid_out with s_paid_out.
  destruct (is_prefix s_paid_out (field h 2)) eqn:Hp; [|discriminate].
  destruct (span is_alpha (skipn (length s_paid_out) (field h 2))) as [a rest] eqn:Hs.
  destruct (negb (is_empty a) && str_eqb rest [41%Z]) eqn:Hc; [|discriminate]. intros H. injection H as ->.
  apply andb_prop in Hc. destruct Hc as [Hne Hr]. apply str_eqb_eq in Hr. subst rest.
  destruct (span_spec _ _ _ _ Hs) as [H1 H2]. split; [|split].
  - rewrite (is_prefix_split _ _ Hp) at 1. rewrite H1. reflexivity.
  - exact H2.
  - intros ->. discriminate Hne.
Qed.

Lemma rvs_weave_spec acct cur rows : forall last,
  rv_weave acct cur last rows (map (rv_txn acct cur) rows) = rvs_weave acct cur last rows.
Proof. induction rows as [|r rows IH]; intros last; [reflexivity|]. cbn [map rv_weave rvs_weave]. rewrite IH. reflexivity. Qed.

Lemma rvs_weave_named acct cur rows : forall last, is_nil_account acct = false -> uses_nil (rvs_weave acct cur last rows) = false.
Proof.
  intros last Na. rewrite <- rvs_weave_spec. apply rv_weave_named; [exact Na|].
  assert (Nv : is_nil_account (valuation_account_for acct) = false) by reflexivity. pose proof tbd_named as Nt.
  rewrite map_map.
  apply (uses_nil_bookings (rv_fact cur) (rv_legs acct cur) (fun _ => None) rv_text).
  intros r _. unfold rv_legs. destruct (rv_exchange r) as [[c q]|]; named_legs.
Qed.

Theorem revolut_stdout aflag acct recs :
  account_flag aflag = AAcc acct -> rv_statement_wf recs = true ->
  exists out, rv_statement_output acct recs = Some out /\ run_revolut aflag (map CRec recs) = mkRun out SOk.
Proof.
  intros Fa Hwf. unfold rv_statement_output. rewrite Hwf.
  destruct recs as [|h rows]; [discriminate Hwf|]. cbn [rv_statement_wf] in Hwf.
  apply andb_prop in Hwf. destruct Hwf as [Hwf Hrows]. apply andb_prop in Hwf. destruct Hwf as [Hl Hc].
  destruct (rvs_currency h) as [cur|] eqn:Hcur; [|discriminate Hc]. eexists. split; [reflexivity|].
  destruct (rvs_currency_spec h cur Hcur) as (Hh & Ha & Hne).
  pose proof (account_flag_named _ _ Fa) as Na.
  unfold run_revolut. cbn [resolve_flags]. rewrite Fa. cbn [flag_account map import_revolut].
  unfold rv_header. rewrite Hl. cbn [negb]. unfold len_is in Hl.
  do 9 (destruct h as [|? h]; [discriminate Hl|]). unfold field in Hh. cbn [nth] in Hh.
  unfold fld_p, fld. cbn [nth_error]. rewrite Hh, (rv_cur_ok cur Ha Hne). cbn [mbind].
  rewrite (rv_rows_ok acct cur rows zero_date Hrows), rvs_weave_spec. cbn [finish_run_b].
  change zero_date with rvs_zero_day. rewrite (rvs_weave_named acct cur rows rvs_zero_day Na). reflexivity.
Qed.

(* ---------------------------------------------------------------- com.wise *)
Theorem wise_stdout rep aflag fflag tflag acct feeacct trading recs :
  account_flag aflag = AAcc acct -> account_flag fflag = AAcc feeacct -> account_flag tflag = AAcc trading ->
  ws_statement_wf recs = true ->
  exists out, ws_statement_output rep acct feeacct trading recs = Some out /\
    run_wise rep aflag fflag tflag (map CRec recs) = mkRun out SOk.
Proof.
  intros Fa Ff Ft Hwf. unfold ws_statement_output. rewrite Hwf. eexists. split; [reflexivity|].
  destruct recs as [|h rows]; [discriminate Hwf|]. cbn [ws_statement_wf] in Hwf. apply andb_prop in Hwf.
  destruct Hwf as [Hh Hrows]. apply rec_eqb_eq in Hh. subst h. change wss_header with ws_header. cbn [tl map].
  pose proof (account_flag_named _ _ Fa) as Na. pose proof (account_flag_named _ _ Ff) as Nf.
  pose proof (account_flag_named _ _ Ft) as Nt.
  unfold run_wise. cbn [resolve_flags]. rewrite Fa, Ff, Ft. cbn [flag_account import_wise].
  rewrite ws_header_self. cbn [mbind]. rewrite (ws_rows_ok rep acct feeacct trading rows Hrows). rewrite map_map.
  change (map (fun x => DTxn (entry_txn x)) (flat_map (ws_entries rep acct feeacct trading) rows))
    with (ws_directives rep acct feeacct trading rows).
  cbn [finish_run_b]. unfold ws_directives at 1.
  rewrite (uses_nil_bookings en_fact en_legs (fun _ => None) en_text); [reflexivity|].
  intros e He. apply in_flat_map in He. destruct He as (r & _ & He).
  exact (ws_entries_named rep acct feeacct trading r e Na Nf Nt He).
Qed.

(* ---------------------------------------------------------------- ch.swissquote *)
Theorem swissquote_stdout aflag dflag iflag wflag fflag tflag acct dividend interest tax fee trading recs :
  account_flag aflag = AAcc acct -> account_flag dflag = AAcc dividend -> account_flag iflag = AAcc interest ->
  account_flag wflag = AAcc tax -> account_flag fflag = AAcc fee -> account_flag tflag = AAcc trading ->
  sqs_statement_wf recs = true ->
  exists out, sqs_statement_output acct dividend interest tax fee trading recs = Some out /\
    run_swissquote aflag dflag iflag wflag fflag tflag (map CRec recs) = mkRun out SOk.
Proof.
  intros Fa Fd Fi Fw Ff Ft Hwf. unfold sqs_statement_output. rewrite Hwf. eexists. split; [reflexivity|].
  destruct recs as [|h rows]; [discriminate Hwf|]. cbn [sqs_statement_wf] in Hwf. cbn [tl map].
  unfold run_swissquote. cbn [resolve_flags]. rewrite Fa, Fd, Fi, Fw, Ff, Ft. cbn [flag_account import_swissquote].
  pose proof (sq_rows_ok acct dividend interest tax fee trading rows None Hwf) as E. cbn [option_map] in E. rewrite E. rewrite map_map.
  change (map (fun x => DTxn (tentry_txn x)) (sqs_entries acct dividend interest tax fee trading None rows))
    with (sqs_directives acct dividend interest tax fee trading rows).
  cbn [finish_run_b]. unfold sqs_directives at 1.
  rewrite (uses_nil_bookings (fun e : tentry => en_fact (fst e)) (fun e : tentry => en_legs (fst e)) (fun e : tentry => snd e)
                             (fun e : tentry => en_text (fst e))); [reflexivity|].
  intros e He. eapply sqs_entries_named; [..|exact He]; eapply account_flag_named; eassumption.
Qed.
