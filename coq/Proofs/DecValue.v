(* The rational value of a decimal, and the exactness of add / neg / mul with respect to it. *)
From Coq Require Import ZArith QArith Qpower List Bool Lia.
From Knut Require Import Model.Dec Proofs.DecProofs.
Import ListNotations.
Open Scope Q_scope.

Definition ten : Q := 10 # 1.

Lemma ten_nz : ~ ten == 0.
Proof. unfold ten. discriminate. Qed.

Definition dvalue (d : dec) : Q := inject_Z (coef d) * Qpower ten (ex d).

Lemma pow10_as_Q n : (0 <= n)%Z -> inject_Z (pow10 n) == Qpower ten n.
Proof.
  intros H. unfold pow10. pattern n. apply natlike_ind; [reflexivity| |exact H].
  intros x Hx IH. rewrite Z.pow_succ_r by assumption.
  rewrite inject_Z_mult, IH. unfold Z.succ.
  rewrite (Qpower_plus ten x 1 ten_nz). change (Qpower ten 1) with ten.
  change (inject_Z 10) with ten. ring.
Qed.

Lemma scale_to_value d m : (m <= ex d)%Z -> inject_Z (scale_to d m) * Qpower ten m == dvalue d.
Proof.
  intros H. unfold scale_to, dvalue. rewrite inject_Z_mult, pow10_as_Q by lia.
  rewrite <- Qmult_assoc, <- (Qpower_plus ten _ _ ten_nz).
  replace (ex d - m + m)%Z with (ex d) by ring. reflexivity.
Qed.

Lemma dvalue_add a b : dvalue (add a b) == dvalue a + dvalue b.
Proof.
  rewrite add_normal. set (m := Z.min (ex a) (ex b)).
  unfold dvalue at 1. cbn [coef ex]. rewrite inject_Z_plus, Qmult_plus_distr_l.
  rewrite !scale_to_value by (unfold m; lia). reflexivity.
Qed.

Lemma dvalue_neg a : dvalue (neg a) == - dvalue a.
Proof. unfold dvalue, neg. cbn [coef ex]. rewrite inject_Z_opp. ring. Qed.

Lemma dvalue_sub a b : dvalue (sub a b) == dvalue a - dvalue b.
Proof.
  assert (H : sub a b = add a (neg b)).
  { unfold sub, add, neg, rescale_pair. cbn [ex coef].
    destruct (ex a =? ex b)%Z; [cbn [coef ex]; f_equal; ring|].
    destruct (negb (Z.min (ex a) (ex b) =? ex a)%Z); cbn [coef ex].
    - f_equal; try ring.
    - change (mkDec (- coef b) (ex b)) with (neg b). rewrite rescale_neg.
      unfold neg. cbn [coef ex]. f_equal; try ring. }
  rewrite H, dvalue_add, dvalue_neg. ring.
Qed.

Lemma dvalue_mul a b : dvalue (mul a b) == dvalue a * dvalue b.
Proof.
  unfold dvalue, mul. cbn [coef ex]. rewrite inject_Z_mult, (Qpower_plus ten _ _ ten_nz). ring.
Qed.

Lemma Qpower_ten_pos n : 0 < Qpower ten n.
Proof. apply Qpower_0_lt. reflexivity. Qed.

Lemma is_zero_value d : is_zero d = true <-> dvalue d == 0.
Proof.
  unfold is_zero, dvalue. rewrite Z.eqb_eq. split.
  - intros ->. ring.
  - intros H. pose proof (Qpower_ten_pos (ex d)) as Hp.
    destruct (Z.eq_dec (coef d) 0) as [|Hne]; [assumption|exfalso].
    apply Qmult_integral in H. destruct H as [H|H].
    + apply Hne. unfold Qeq in H. cbn in H. lia.
    + rewrite H in Hp. apply (Qlt_irrefl 0 Hp).
Qed.

Lemma dvalue_nil : dvalue (mkDec 0 0) == 0.
Proof. reflexivity. Qed.

Lemma dvalue_zero_coef e : dvalue (mkDec 0 e) == 0.
Proof. unfold dvalue. cbn [coef]. ring. Qed.

Lemma dec_equal_value a b : dec_equal a b = true <-> dvalue a == dvalue b.
Proof.
  unfold dec_equal, cmp.
  assert (Hs : forall x y, (let '(p, q) := rescale_pair x y in coef p - coef q)%Z = coef (sub x y)).
  { intros x y. unfold sub. destruct (rescale_pair x y). reflexivity. }
  assert (Hz : is_zero (sub a b) = true <-> dvalue a == dvalue b).
  { rewrite is_zero_value, dvalue_sub. split; intros H.
    - rewrite <- (Qplus_0_l (dvalue b)), <- H. ring.
    - rewrite H. ring. }
  rewrite <- Hz. unfold is_zero. rewrite <- Hs.
  destruct (rescale_pair a b) as [p q].
  destruct (coef p ?= coef q)%Z eqn:E.
  - apply Z.compare_eq in E. rewrite E, Z.sub_diag. split; reflexivity.
  - split; [discriminate|]. intros H. apply Z.eqb_eq in H. rewrite Z.compare_lt_iff in E. exfalso. clear - H E. lia.
  - split; [discriminate|]. intros H. apply Z.eqb_eq in H. rewrite Z.compare_gt_iff in E. exfalso. clear - H E. lia.
Qed.
