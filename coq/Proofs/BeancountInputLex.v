(* C16: the side conditions of the verdict theorem, from the INPUT.
   [input_lex ss] (Proofs/PrintLexInput.v, the hypothesis of C09) says of the syntax-level directives
   what knut's parser guarantees: years 0..9999, account segments and commodities non-empty runs of
   letters and digits, descriptions valid UTF-8 without a double quote.  Then every model directive
   (after accrual expansion) satisfies PrintLex.mdir_lex ([parse_lex]) and its postings come in pairs
   ([parsed_dir_ok]), hence the byte-level conditions of C16 hold of the parsed journal:
   Spec/BeancountLex.v journal_lex_b (what the reader/writer round trip needs) and
   Spec/BeancountAdjLex.v journal_adj_lex_b (syntactic accounts, commodities without space). *)
From Coq Require Import ZArith List Bool Lia.
From Knut Require Import Model.Bytes Model.Utf8 Model.UnicodeTables Model.Scanner Model.Parser.
From Knut Require Import Model.Str Model.Dec Model.Date Model.Account Model.Ledger Model.Journal Model.JPrinter.
From Knut Require Import Spec.WellformedSpec Spec.LedgerSpec Spec.BeancountLex Spec.BeancountAdjLex.
From Knut Require Import Proofs.ScannerProofs Proofs.RoundTripBase Proofs.RoundTripLeaf
     Proofs.PrintProofs Proofs.PrintRequant Proofs.PrintNormal Proofs.PrintSem Proofs.PrintLex Proofs.PrintLexInput
     Proofs.BeancountRead.
Import ListNotations.
Open Scope bool_scope.
Open Scope Z_scope.

(* ================================================================== bytes of a run of runes *)

(* an ASCII byte outside the class does not occur in a run of runes of the class *)
Lemma cls_no_ascii (P : Z -> bool) z s : 0 <= z < 128 -> P z = false -> ucls P s -> ~ In z s.
Proof.
  intros Hz HP. induction 1 as [|c b x Hc Hp Hx IH]; [intros []|]. intros Hin. apply in_app_or in Hin.
  destruct Hin as [Hin|Hin]; [|tauto].
  destruct (chunk_shape c b Hc) as (b0 & bt & -> & _ & _ & Hlo & Hhi).
  destruct (Z_lt_ge_dec b0 128) as [L|G].
  - destruct (Hlo L) as (-> & ->). destruct Hin as [E|[]]. rewrite E, HP in Hp. discriminate.
  - destruct Hin as [E|Hin]; [lia|]. specialize (Hhi ltac:(lia)). rewrite Forall_forall in Hhi. specialize (Hhi _ Hin). lia.
Qed.

Lemma ualnum_32 : ualnum 32 = false. Proof. vm_compute. reflexivity. Qed.
Lemma ualnum_10 : ualnum 10 = false. Proof. vm_compute. reflexivity. Qed.
Lemma ualnum_34 : ualnum 34 = false. Proof. vm_compute. reflexivity. Qed.

Lemma alnum_no_byte z s : 0 <= z < 128 -> ualnum z = false -> ucls ualnum s -> no_byte z s = true.
Proof. intros Hz Hu Hc. apply no_byte_iff. exact (cls_no_ascii _ z s Hz Hu Hc). Qed.

Lemma seg_lex_bytes s : seg_lex s -> seg_lex_b s = true.
Proof.
  intros (Hc & _). unfold seg_lex_b.
  rewrite (alnum_no_byte 32 s ltac:(lia) ualnum_32 Hc), (alnum_no_byte 10 s ltac:(lia) ualnum_10 Hc),
          (alnum_no_byte 34 s ltac:(lia) ualnum_34 Hc). reflexivity.
Qed.

Lemma acc_lex_bytes a : PrintLex.acc_lex a -> acc_lex_b a = true.
Proof.
  intros (Hne & Hseg & _). unfold acc_lex_b. destruct a as [|s rest]; [congruence|].
  inversion Hseg as [|? ? Hs Hrest]; subst. apply andb_true_iff. split.
  - destruct Hs as (_ & Hs). destruct s; [congruence|reflexivity].
  - apply forallb_forall. intros x Hx. apply seg_lex_bytes. rewrite Forall_forall in Hseg. exact (Hseg x Hx).
Qed.

Lemma com_lex_bytes c : com_lex c -> com_lex_b c = true /\ no_byte 32 c = true.
Proof.
  intros (Hc & _). unfold com_lex_b. split.
  - exact (alnum_no_byte 34 c ltac:(lia) ualnum_34 Hc).
  - exact (alnum_no_byte 32 c ltac:(lia) ualnum_32 Hc).
Qed.

Lemma date_lex_bytes d : date_printable d -> date_lex_b d = true.
Proof. unfold date_printable, date_lex_b. intros [H1 H2]. apply andb_true_iff. split; apply Z.leb_le; assumption. Qed.

Lemma notquote_34 : RoundTripLeaf.notquote 34 = false. Proof. reflexivity. Qed.

Lemma desc_lex_bytes s : ucls RoundTripLeaf.notquote s -> desc_lex_b s = true.
Proof. intros H. unfold desc_lex_b. apply no_byte_iff. exact (cls_no_ascii _ 34 s ltac:(lia) notquote_34 H). Qed.

(* ================================================================== postings *)

(* both postings of every pair have lexical accounts and the pair's commodity *)
Lemma canonical_all_lex_com ps : PrintProofs.canonical ps -> Forall posting_lex (odd_postings ps) ->
  Forall (fun p => PrintLex.acc_lex (p_acc p) /\ com_lex (p_com p)) ps.
Proof.
  induction 1 as [|p1 p2 rest (H1 & _) Hr IH]; intros H; [constructor|].
  cbn [odd_postings] in H. inversion H as [|? ? (La & Lo & Lc) H']; subst.
  constructor; [cbn [p_acc p_com]; split; assumption|]. constructor; [split; assumption|now apply IH].
Qed.

Lemma txn_postings_lex t : mdir_lex (DTxn t) -> dir_ok (DTxn t) ->
  Forall (fun p => PrintLex.acc_lex (p_acc p) /\ com_lex (p_com p)) (t_postings t).
Proof.
  intros (_ & _ & _ & HF & _) Hok. exact (canonical_all_lex_com _ (dir_ok_txn_canonical t Hok) HF).
Qed.

Lemma directive_lex_bytes d : mdir_lex d -> dir_ok d -> directive_lex_b d = true.
Proof.
  destruct d as [dt c p t|dt a|dt a|dt bs|t]; intros HL Hok; cbn [directive_lex_b].
  - apply date_lex_bytes. exact (proj1 HL).
  - destruct HL as [Hd Ha]. rewrite (date_lex_bytes _ Hd), (acc_lex_bytes _ Ha). reflexivity.
  - destruct HL as [Hd Ha]. rewrite (date_lex_bytes _ Hd), (acc_lex_bytes _ Ha). reflexivity.
  - apply date_lex_bytes. exact (proj1 HL).
  - pose proof (txn_postings_lex t HL Hok) as Hps. destruct HL as (Hd & Hq & _).
    unfold txn_lex_b. rewrite (date_lex_bytes _ Hd), (desc_lex_bytes _ Hq). cbn [andb].
    apply forallb_forall. intros p Hp. rewrite Forall_forall in Hps. destruct (Hps p Hp) as [La Lc].
    unfold posting_lex_b. rewrite (acc_lex_bytes _ La), (proj1 (com_lex_bytes _ Lc)). reflexivity.
Qed.

Lemma in_flat_postings dl d p : In (d, p) (flat_postings dl) -> exists t, In (DTxn t) dl /\ In p (t_postings t).
Proof.
  unfold flat_postings. intros H. apply in_concat in H. destruct H as (l & Hl & Hin).
  apply in_map_iff in Hl. destruct Hl as (x & <- & Hx).
  destruct x as [? ? ? ?|? ?|? ?|? ?|t]; try (destruct Hin).
  apply in_map_iff in Hin. destruct Hin as (p' & E & Hp'). inversion E; subst. exists t. split; assumption.
Qed.

(* ================================================================== the journal *)

Theorem input_lex_journal ss dl : input_lex ss -> parse_directives ss = MOk dl ->
  journal_lex_b dl = true /\ journal_adj_lex_b dl = true.
Proof.
  intros HL Hp. pose proof (parse_lex ss dl HL Hp) as HF. pose proof (parsed_dir_ok ss dl Hp) as Hok.
  rewrite Forall_forall in HF, Hok. split.
  - unfold journal_lex_b. apply forallb_forall. intros d Hd. exact (directive_lex_bytes d (HF d Hd) (Hok d Hd)).
  - unfold journal_adj_lex_b. apply forallb_forall. intros [d p] Hin. cbn [snd].
    destruct (in_flat_postings dl d p Hin) as (t & Ht & Hpt).
    pose proof (txn_postings_lex t (HF _ Ht) (Hok _ Ht)) as Hps. rewrite Forall_forall in Hps.
    destruct (Hps p Hpt) as [La Lc]. unfold posting_adj_lex_b.
    rewrite (account_ok_lex _ La), (proj2 (com_lex_bytes _ Lc)). reflexivity.
Qed.
