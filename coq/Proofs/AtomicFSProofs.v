(* Proofs about Model/AtomicFS.v: a safe trace keeps the target in {old, new} after every prefix;
   every trace of the write-temp-then-rename protocol, with a failure at any operation and any
   splitting into short writes, is safe, installs new iff the rename happened and leaves no
   temporary file; operations leave the paths they do not mention untouched.                  *)
From Coq Require Import List Bool Arith PeanoNat NArith Lia.
From Knut Require Import Model.AtomicFS.
Import ListNotations.

Lemma bytes_eqb_eq : forall a b, bytes_eqb a b = true <-> a = b.
Proof.
  induction a as [|x a IH]; intros [|y b]; simpl; split; intro H; try reflexivity; try discriminate.
  - apply andb_true_iff in H. destruct H as [H1 H2]. apply N.eqb_eq in H1. apply IH in H2. congruence.
  - injection H as -> ->. rewrite N.eqb_refl. apply IH. reflexivity.
Qed.

Lemma bytes_eqb_refl : forall a, bytes_eqb a a = true.
Proof. intros. apply bytes_eqb_eq. reflexivity. Qed.

Ltac eqb_cases :=
  repeat match goal with
  | |- context [?a =? ?b] => destruct (a =? b) eqn:?
  | H : context [if ?a =? ?b then _ else _] |- _ => destruct (a =? b) eqn:?
  end;
  repeat match goal with
  | H : (_ =? _) = true |- _ => apply Nat.eqb_eq in H
  | H : (_ =? _) = false |- _ => apply Nat.eqb_neq in H
  end; subst.

Ltac crush :=
  simpl in *;
  repeat (match goal with
  | H : negb _ = true |- _ => apply negb_true_iff in H
  | H : _ && _ = true |- _ => apply andb_true_iff in H; destruct H
  | H : _ || _ = false |- _ => apply orb_false_iff in H; destruct H
  | |- context [match content ?f ?p with _ => _ end] => destruct (content f p) eqn:?
  | H : context [match content ?f ?p with _ => _ end] |- _ => destruct (content f p) eqn:?
  | |- context [if is_open ?f ?p then _ else _] => destruct (is_open f p) eqn:?
  | H : bytes_eqb _ _ = true |- _ => apply bytes_eqb_eq in H; subst
  end; simpl in * );
  eqb_cases; simpl in *;
  repeat (match goal with
  | H : negb _ = true |- _ => apply negb_true_iff in H
  | H : _ && _ = true |- _ => apply andb_true_iff in H; destruct H
  | H : context [match content ?f ?p with _ => _ end] |- _ => destruct (content f p) eqn:?
  | H : bytes_eqb _ _ = true |- _ => apply bytes_eqb_eq in H; subst
  end; simpl in * );
  eqb_cases; simpl in *; try congruence; try discriminate; auto.

Section Safe.
  Variable tgt : path.
  Variable old new : bytes.

  Definition tgt_ok (f : fs) : Prop := content f tgt = Some old \/ content f tgt = Some new.

  Lemma step_keeps_target : forall f o, op_safe tgt new f o = true -> tgt_ok f -> tgt_ok (fs_step tgt f o).
  Proof.
    intros f o Hs Hok. unfold tgt_ok in *.
    destruct o as [p|p d|p|p|p|p q|p|p|d|]; crush.
  Qed.

  Lemma safe_prefixes : forall tr f, safe_from tgt new f tr = true -> tgt_ok f ->
    forall k, tgt_ok (fs_run tgt (firstn k tr) f).
  Proof.
    induction tr as [|o tr IH]; intros f Hs Hok k.
    - rewrite firstn_nil. assumption.
    - destruct k as [|k]; [assumption|]. simpl in *. apply andb_true_iff in Hs. destruct Hs as [H1 H2].
      apply IH; [assumption|]. apply step_keeps_target; assumption.
  Qed.

  Lemma init_ok : tgt_ok (fs_init tgt old).
  Proof. left. unfold fs_init. simpl. rewrite Nat.eqb_refl. reflexivity. Qed.

  Lemma safe_from_app : forall a b f,
    safe_from tgt new f (a ++ b) = safe_from tgt new f a && safe_from tgt new (fs_run tgt a f) b.
  Proof.
    induction a as [|o a IH]; intros b f; simpl; [reflexivity|]. rewrite IH, andb_assoc. reflexivity.
  Qed.

  Lemma fs_run_app : forall a b f, fs_run tgt (a ++ b) f = fs_run tgt b (fs_run tgt a f).
  Proof. intros. unfold fs_run. apply fold_left_app. Qed.

  (* operations leave the paths they do not mention untouched *)
  Lemma step_frame : forall f o q, mentions o tgt q = false ->
    content (fs_step tgt f o) q = content f q /\ is_open (fs_step tgt f o) q = is_open f q.
  Proof.
    intros f o q Hm.
    destruct o as [p|p d|p|p|p|p r|p|p|d|]; crush.
  Qed.

  Lemma run_frame : forall tr f q, forallb (fun o => negb (mentions o tgt q)) tr = true ->
    content (fs_run tgt tr f) q = content f q /\ is_open (fs_run tgt tr f) q = is_open f q.
  Proof.
    induction tr as [|o tr IH]; intros f q H; simpl in *; [auto|].
    apply andb_true_iff in H. destruct H as [H1 H2]. apply negb_true_iff in H1.
    destruct (IH (fs_step tgt f o) q H2) as [A B]. destruct (step_frame f o q H1) as [C D].
    rewrite A, B, C, D. auto.
  Qed.

  (* ---------------------------------------------------------------- the protocol *)
  Variable tmp : path.
  Hypothesis Hne : tmp <> tgt.

  Lemma writes_run : forall splits data f c,
    content f tmp = Some c -> is_open f tmp = true ->
    content (fs_run tgt (writes tmp data splits) f) tmp = Some (c ++ data) /\
    is_open (fs_run tgt (writes tmp data splits) f) tmp = true /\
    content (fs_run tgt (writes tmp data splits) f) tgt = content f tgt /\
    safe_from tgt new f (writes tmp data splits) = true.
  Proof.
    assert (E1 : (tmp =? tgt) = false) by (apply Nat.eqb_neq; assumption).
    assert (E2 : (tgt =? tmp) = false) by (apply Nat.eqb_neq; auto).
    induction splits as [|s r IH]; intros data f c Hc Ho; simpl.
    - destruct data as [|b data]; simpl.
      + rewrite app_nil_r. auto.
      + rewrite Hc, Ho. simpl. rewrite Nat.eqb_refl, E1, E2. auto.
    - rewrite Hc, Ho. simpl. rewrite E1. simpl.
      destruct (IH (skipn s data) (set_content f tmp (Some (c ++ firstn s data))) (c ++ firstn s data))
        as (A & B & C & D).
      + simpl. rewrite Nat.eqb_refl. reflexivity.
      + simpl. assumption.
      + rewrite A, B, C, D. rewrite <- app_assoc, firstn_skipn. simpl. rewrite E2. auto.
  Qed.

  Lemma renamed_writes : forall splits data, renamed_to tgt (writes tmp data splits) = false.
  Proof.
    induction splits as [|s r IH]; intros data; simpl.
    - destruct data; reflexivity.
    - apply IH.
  Qed.

  Lemma renamed_app : forall a b, renamed_to tgt (a ++ b) = renamed_to tgt a || renamed_to tgt b.
  Proof. intros. unfold renamed_to. apply existsb_app. Qed.

  (* state after  Create tmp :: writes tmp data splits  from the initial directory *)
  Lemma after_writes : forall splits data,
    let f := fs_run tgt (Create tmp :: writes tmp data splits) (fs_init tgt old) in
    content f tmp = Some data /\ is_open f tmp = true /\ content f tgt = Some old /\
    safe_from tgt new (fs_init tgt old) (Create tmp :: writes tmp data splits) = true.
  Proof.
    intros splits data.
    assert (E1 : (tmp =? tgt) = false) by (apply Nat.eqb_neq; assumption).
    assert (E2 : (tgt =? tmp) = false) by (apply Nat.eqb_neq; auto).
    simpl. rewrite E1. simpl.
    destruct (writes_run splits data
               (set_open (set_content (fs_init tgt old) tmp (Some [])) tmp true) [])
      as (A & B & C & D).
    - simpl. rewrite Nat.eqb_refl. reflexivity.
    - simpl. rewrite Nat.eqb_refl. reflexivity.
    - rewrite A, B, C, D. simpl. rewrite E2, Nat.eqb_refl. auto.
  Qed.

  Ltac tail_compute HA HB HC E1 E2 :=
    simpl; rewrite ?HA, ?HB, ?HC; simpl; rewrite ?E1, ?E2, ?Nat.eqb_refl, ?HA, ?HB, ?HC; simpl;
    rewrite ?E1, ?E2, ?Nat.eqb_refl, ?HA, ?HB, ?HC, ?bytes_eqb_refl; simpl;
    rewrite ?E1, ?E2, ?Nat.eqb_refl; simpl.

  Lemma protocol_correct : forall chmod splits flt,
    let tr := atomic_write tmp tgt new chmod splits flt in
    let f := fs_run tgt tr (fs_init tgt old) in
    safe_trace tgt old new tr = true /\
    content f tgt = Some (if renamed_to tgt tr then new else old) /\
    (renamed_to tgt tr = true <-> flt = NoFault) /\
    content f tmp = None.
  Proof.
    intros chmod splits flt.
    assert (E1 : (tmp =? tgt) = false) by (apply Nat.eqb_neq; assumption).
    assert (E2 : (tgt =? tmp) = false) by (apply Nat.eqb_neq; auto).
    unfold safe_trace.
    destruct flt as [|  |k| | | | | ]; unfold atomic_write.
    (* the common shape  (Create tmp :: writes ..) ++ tail  *)
    all: try match goal with
      |- context [Create ?t :: writes ?t ?data ?sp ++ ?tail] =>
        change (Create t :: writes t data sp ++ tail)
          with ((Create t :: writes t data sp) ++ tail);
        destruct (after_writes sp data) as (HA & HB & HC & HD);
        cbv zeta; rewrite safe_from_app, fs_run_app, HD, renamed_app;
        change (renamed_to tgt (Create t :: writes t data sp))
          with (renamed_to tgt (writes t data sp));
        rewrite renamed_writes;
        set (W := fs_run tgt (Create t :: writes t data sp) (fs_init tgt old)) in *
      end.
    - (* NoFault *)
      destruct chmod; tail_compute HA HB HC E1 E2;
        (repeat split; auto; intros; try reflexivity; try discriminate).
    - (* FailCreate *)
      simpl. rewrite Nat.eqb_refl, E1. repeat split; auto; intros; discriminate.
    - tail_compute HA HB HC E1 E2. repeat split; auto; intros; discriminate.
    - tail_compute HA HB HC E1 E2. repeat split; auto; intros; discriminate.
    - tail_compute HA HB HC E1 E2. repeat split; auto; intros; discriminate.
    - tail_compute HA HB HC E1 E2. repeat split; auto; intros; discriminate.
    - tail_compute HA HB HC E1 E2. repeat split; auto; intros; discriminate.
    - destruct chmod; tail_compute HA HB HC E1 E2; (repeat split; auto; intros; discriminate).
  Qed.

  (* the protocol only ever mentions its temporary file and its target *)
  Lemma writes_mentions : forall splits data o q, In o (writes tmp data splits) -> q <> tmp ->
    mentions o tgt q = false.
  Proof.
    induction splits as [|s r IH]; intros data o q Hin Hq; simpl in Hin.
    - destruct data; [contradiction|]. destruct Hin as [<-|[]]. simpl. apply Nat.eqb_neq. assumption.
    - destruct Hin as [<-|Hin]; [simpl; apply Nat.eqb_neq; assumption|]. eapply IH; eassumption.
  Qed.

  Lemma atomic_write_mentions : forall chmod splits flt o q,
    In o (atomic_write tmp tgt new chmod splits flt) -> q <> tmp -> q <> tgt -> mentions o tgt q = false.
  Proof.
    intros chmod splits flt o q Hin Hq1 Hq2.
    assert (E1 : (q =? tmp) = false) by (apply Nat.eqb_neq; assumption).
    assert (E2 : (q =? tgt) = false) by (apply Nat.eqb_neq; assumption).
    destruct flt; unfold atomic_write in Hin; destruct chmod; simpl in Hin;
      repeat (try rewrite in_app_iff in Hin; simpl in Hin;
              match goal with
              | H : _ \/ _ |- _ => destruct H as [H|H]
              | H : False |- _ => contradiction
              | H : _ = o |- _ => subst o; simpl; rewrite ?E1, ?E2; reflexivity
              | H : In _ (writes _ _ _) |- _ => eapply writes_mentions; eassumption
              end).
  Qed.

  Lemma protocol_leaves_others : forall chmod splits flt f q, q <> tmp -> q <> tgt ->
    content (fs_run tgt (atomic_write tmp tgt new chmod splits flt) f) q = content f q.
  Proof.
    intros chmod splits flt f q H1 H2. apply run_frame. apply forallb_forall. intros o Ho.
    apply negb_true_iff. eapply atomic_write_mentions; eassumption.
  Qed.

End Safe.
