(* C16: the reader of Spec/BeancountSpec.v gives back, from the text Model/Beancount.v writes, the
   valuation commodity and the erased items -- with every amount as it is after a trip through its
   text (DecNormalForm.reread: Decimal.String drops trailing zeros and expands a positive exponent,
   so 1.0 comes back as 1 and 5e2 as 500; the value is the same, the record is not).

   Part 1  the line splitter on texts made of plain segments and quoted strings
   Part 2  the lines of an item, and that they are such texts
   Part 3  read_line on each kind of line
   Part 4  read_lines on the lines of an item and of a list of items; read_ledger *)
From Coq Require Import ZArith List Bool Lia.
From Knut Require Import Model.Str Model.Dec Model.Date Model.Account Model.Ledger Model.Journal
     Model.Report Model.JPrinter Model.Beancount
     Spec.BeancountSpec Spec.BeancountErase Spec.BeancountLex
     Proofs.CalendarSweep Proofs.CalendarProofs Proofs.DecStringProofs Proofs.DecNormalForm.
Import ListNotations.
Open Scope bool_scope.
Open Scope Z_scope.

Local Ltac Zify.zify_post_hook ::= Z.div_mod_to_equations.

(* ------------------------------------------------------------------ what the reader returns *)

Definition reread_sposting (x : str * dec * str) : str * dec * str :=
  (account_of x, reread (amount_of x), commodity_of x).

Definition reread_entry (e : sentry) : sentry :=
  match e with
  | ETxn d s ps => ETxn d s (map reread_sposting ps)
  | _ => e
  end.

Definition reread_entries (es : list sentry) : list sentry := map reread_entry es.

(* ------------------------------------------------------------------ bytes *)

Lemma no_byte_iff c s : no_byte c s = true <-> ~ In c s.
Proof.
  unfold no_byte. rewrite negb_true_iff. split.
  - intros H Hin. assert (E : existsb (Z.eqb c) s = true).
    { apply existsb_exists. exists c. split; [exact Hin|apply Z.eqb_refl]. }
    congruence.
  - intros H. destruct (existsb (Z.eqb c) s) eqn:E; [|reflexivity].
    apply existsb_exists in E. destruct E as (x & Hx & Hc). apply Z.eqb_eq in Hc. subst. contradiction.
Qed.

Lemma not_in_app_iff {A} (x : A) a b : ~ In x (a ++ b) <-> ~ In x a /\ ~ In x b.
Proof. rewrite in_app_iff. tauto. Qed.

Lemma not_in_cons_iff {A} (x y : A) l : ~ In x (y :: l) <-> y <> x /\ ~ In x l.
Proof. cbn [In]. tauto. Qed.

(* ================================================================== Part 1: the line splitter *)

(* a piece of text that leaves the splitter outside a string and adds no line break *)
Definition seg_ok (x : str) : Prop :=
  forall s cur, split_lines_aux (x ++ s) cur false = split_lines_aux s (rev x ++ cur) false.

Lemma seg_ok_nil : seg_ok [].
Proof. intros s cur. reflexivity. Qed.

Lemma seg_ok_app x y : seg_ok x -> seg_ok y -> seg_ok (x ++ y).
Proof.
  intros Hx Hy s cur. rewrite <- app_assoc, Hx, Hy, rev_app_distr, <- app_assoc. reflexivity.
Qed.

Lemma seg_ok_plain x : ~ In 10 x -> ~ In 34 x -> seg_ok x.
Proof.
  induction x as [|c x IH]; intros H10 H34 s cur; [reflexivity|].
  apply not_in_cons_iff in H10. apply not_in_cons_iff in H34. destruct H10 as [N10 H10]. destruct H34 as [N34 H34].
  cbn [app split_lines_aux].
  destruct (Z.eqb_spec c 10) as [E|_]; [contradiction|]. cbn [andb].
  destruct (Z.eqb_spec c 34) as [E|_]; [contradiction|].
  rewrite (IH H10 H34). cbn [rev]. rewrite <- app_assoc. reflexivity.
Qed.

Lemma split_inq x : ~ In 34 x -> forall s cur,
  split_lines_aux (x ++ s) cur true = split_lines_aux s (rev x ++ cur) true.
Proof.
  induction x as [|c x IH]; intros H34 s cur; [reflexivity|].
  apply not_in_cons_iff in H34. destruct H34 as [N34 H34].
  cbn [app split_lines_aux]. rewrite andb_false_r.
  destruct (Z.eqb_spec c 34) as [E|_]; [contradiction|].
  rewrite (IH H34). cbn [rev]. rewrite <- app_assoc. reflexivity.
Qed.

(* a string between double quotes; newlines inside do not count *)
Lemma seg_ok_quoted d : ~ In 34 d -> seg_ok (34 :: d ++ [34]).
Proof.
  intros H34 s cur. cbn [app split_lines_aux andb Z.eqb negb]. cbn [Pos.eqb].
  rewrite <- app_assoc, (split_inq d H34). cbn [app split_lines_aux Z.eqb Pos.eqb andb negb].
  cbn [rev]. rewrite rev_app_distr. cbn [rev app]. rewrite <- !app_assoc. reflexivity.
Qed.

Lemma split_line_end l : seg_ok l -> forall s,
  split_lines_aux (l ++ 10 :: s) [] false = l :: split_lines_aux s [] false.
Proof.
  intros Hl s. rewrite Hl. cbn [split_lines_aux Z.eqb Pos.eqb andb negb]. rewrite app_nil_r, rev_involutive. reflexivity.
Qed.

Definition unlines (ls : list str) : str := concat (map (fun l => l ++ [10]) ls).

Lemma unlines_app a b : unlines (a ++ b) = unlines a ++ unlines b.
Proof. unfold unlines. rewrite map_app, concat_app. reflexivity. Qed.

Lemma split_unlines ls : Forall seg_ok ls -> forall s,
  split_lines_aux (unlines ls ++ s) [] false = ls ++ split_lines_aux s [] false.
Proof.
  induction 1 as [|l ls Hl _ IH]; intros s; [reflexivity|].
  unfold unlines. cbn [map concat]. fold (unlines ls). rewrite <- !app_assoc. cbn [app].
  rewrite (split_line_end l Hl), IH. reflexivity.
Qed.

(* ================================================================== Part 2: the lines of an item *)

Definition posting_line (v : commodity) (p : posting) : str :=
  [32;32] ++ acc_name (p_acc p) ++ [32] ++ to_string (p_val p) ++ [32] ++ strip_non_alphanum v.

Definition head_line (t : txn) : str := format_date (t_date t) ++ [32;42;32] ++ 34 :: t_desc t ++ [34].

Definition entry_lines (v : commodity) (e : bentry) : list str :=
  match e with
  | BOpen d a => [print_open d a; []]
  | BClose d a => [print_close d a; []]
  | BTxn t => head_line t :: map (posting_line v) (t_postings t) ++ [[]]
  end.

Lemma postings_lines v ps : concat (map (write_posting v) ps) = unlines (map (posting_line v) ps).
Proof.
  induction ps as [|p ps IH]; [reflexivity|].
  unfold unlines in *. cbn [map concat]. rewrite IH. unfold write_posting, posting_line.
  rewrite <- !app_assoc. reflexivity.
Qed.

Lemma write_entry_lines v e : write_entry v e = unlines (entry_lines v e).
Proof.
  destruct e as [d a|d a|t]; cbn [write_entry entry_lines].
  - unfold unlines. cbn [map concat app]. rewrite <- app_assoc. reflexivity.
  - unfold unlines. cbn [map concat app]. rewrite <- app_assoc. reflexivity.
  - unfold write_trx. rewrite postings_lines.
    change (head_line t :: map (posting_line v) (t_postings t) ++ [[]])
      with ([head_line t] ++ map (posting_line v) (t_postings t) ++ [[]]).
    rewrite !unlines_app. unfold unlines at 2 4. cbn [map concat]. unfold head_line.
    rewrite <- !app_assoc. cbn [app]. rewrite <- !app_assoc. rewrite ?app_nil_r. reflexivity.
Qed.

Lemma write_entries_lines v es : concat (map (write_entry v) es) = unlines (flat_map (entry_lines v) es).
Proof.
  induction es as [|e es IH]; [reflexivity|].
  cbn [map concat flat_map]. rewrite unlines_app, IH, write_entry_lines. reflexivity.
Qed.

(* ---- the bytes of a printed date *)
Lemma format_date_chars d : date_lex_b d = true ->
  Forall (fun c => c = 45 \/ 48 <= c <= 57) (format_date d).
Proof.
  unfold date_lex_b, year_of. rewrite andb_true_iff, !Z.leb_le. intros Hy.
  pose proof (civil_valid d) as Hv. unfold format_date. destruct (civil d) as [[y m] dd]. cbn [fst] in Hy.
  cbn [valid_civil] in Hv. destruct Hv as (Hm & Hd). pose proof (dim_pos y m) as Hdim.
  unfold four_digits, two_digits. cbn [app].
  repeat (apply Forall_cons; [first [left; reflexivity|right; lia]|]). apply Forall_nil.
Qed.

Lemma format_date_no c d : date_lex_b d = true -> c < 45 -> ~ In c (format_date d).
Proof.
  intros Hd Hc Hin. pose proof (format_date_chars d Hd) as H. rewrite Forall_forall in H.
  specialize (H c Hin). lia.
Qed.

Lemma to_string_no c d : c < 45 -> ~ In c (to_string d).
Proof.
  intros Hc Hin. apply to_string_gen_chars in Hin. unfold is_digit in Hin.
  destruct Hin as [H|[H|H]]; [apply andb_true_iff in H; destruct H as [H _]; apply Z.leb_le in H|..]; lia.
Qed.

Lemma strip_chars v c : In c (strip_non_alphanum v) -> 65 <= c.
Proof.
  induction v as [|b v IH]; cbn [strip_non_alphanum]; [intros []|].
  destruct (is_ascii_letter b) eqn:E.
  - intros [<-|H]; [|exact (IH H)]. unfold is_ascii_letter in E.
    apply orb_true_iff in E. destruct E as [E|E]; apply andb_true_iff in E; destruct E as [E _]; apply Z.leb_le in E; lia.
  - destruct (is_continuation b); [exact IH|]. intros [<-|H]; [lia|exact (IH H)].
Qed.

Lemma strip_no v c : c < 65 -> ~ In c (strip_non_alphanum v).
Proof. intros Hc Hin. apply strip_chars in Hin. lia. Qed.

Lemma name_lex_spec s : name_lex_b s = true -> s <> [] /\ ~ In 32 s /\ ~ In 10 s /\ ~ In 34 s.
Proof.
  unfold name_lex_b. rewrite !andb_true_iff, !no_byte_iff, negb_true_iff. intros [[[H0 H1] H2] H3].
  repeat split; try assumption. intros ->. discriminate.
Qed.

(* ---- every line is a text of plain segments and quoted strings *)
Lemma seg_ok_cons c x : c <> 10 -> c <> 34 -> seg_ok x -> seg_ok (c :: x).
Proof.
  intros H10 H34 Hx. change (c :: x) with ([c] ++ x). apply seg_ok_app; [|exact Hx].
  apply seg_ok_plain; cbn [In]; intros [H|[]]; congruence.
Qed.

Lemma seg_ok_date d : date_lex_b d = true -> seg_ok (format_date d).
Proof. intros H. apply seg_ok_plain; apply format_date_no; try assumption; lia. Qed.

Lemma seg_ok_open d a : date_lex_b d = true -> name_lex_b (acc_name a) = true -> seg_ok (print_open d a).
Proof.
  intros Hd Ha. apply name_lex_spec in Ha. destruct Ha as (_ & _ & H10 & H34).
  unfold print_open. apply seg_ok_app; [apply seg_ok_date; exact Hd|].
  apply seg_ok_app; [|apply seg_ok_plain; assumption].
  apply seg_ok_plain; unfold s_open; cbn [In]; intros H; repeat (destruct H as [H|H]; [discriminate|]); exact H.
Qed.

Lemma seg_ok_close d a : date_lex_b d = true -> name_lex_b (acc_name a) = true -> seg_ok (print_close d a).
Proof.
  intros Hd Ha. apply name_lex_spec in Ha. destruct Ha as (_ & _ & H10 & H34).
  unfold print_close. apply seg_ok_app; [apply seg_ok_date; exact Hd|].
  apply seg_ok_app; [|apply seg_ok_plain; assumption].
  apply seg_ok_plain; unfold s_close; cbn [In]; intros H; repeat (destruct H as [H|H]; [discriminate|]); exact H.
Qed.

Lemma seg_ok_head t : date_lex_b (t_date t) = true -> desc_lex_b (t_desc t) = true -> seg_ok (head_line t).
Proof.
  intros Hd Hs. unfold desc_lex_b in Hs. apply no_byte_iff in Hs.
  unfold head_line. apply seg_ok_app; [apply seg_ok_date; exact Hd|].
  apply seg_ok_app; [|apply seg_ok_quoted; exact Hs].
  apply seg_ok_plain; cbn [In]; intros H; repeat (destruct H as [H|H]; [discriminate|]); exact H.
Qed.

Lemma seg_ok_posting v p : name_lex_b (acc_name (p_acc p)) = true -> seg_ok (posting_line v p).
Proof.
  intros Ha. apply name_lex_spec in Ha. destruct Ha as (_ & _ & H10 & H34).
  unfold posting_line. apply seg_ok_plain.
  - rewrite !not_in_app_iff. repeat split; try assumption;
      try (cbn [In]; intros H; repeat (destruct H as [H|H]; [discriminate|]); exact H).
    + apply to_string_no. lia.
    + apply strip_no. lia.
  - rewrite !not_in_app_iff. repeat split; try assumption;
      try (cbn [In]; intros H; repeat (destruct H as [H|H]; [discriminate|]); exact H).
    + apply to_string_no. lia.
    + apply strip_no. lia.
Qed.

Lemma entry_lines_ok v e : entry_lex_b e = true -> Forall seg_ok (entry_lines v e).
Proof.
  destruct e as [d a|d a|t]; cbn [entry_lex_b entry_lines]; rewrite ?andb_true_iff.
  - intros [Hd Ha]. apply Forall_cons; [apply seg_ok_open; assumption|].
    apply Forall_cons; [apply seg_ok_nil|apply Forall_nil].
  - intros [Hd Ha]. apply Forall_cons; [apply seg_ok_close; assumption|].
    apply Forall_cons; [apply seg_ok_nil|apply Forall_nil].
  - intros [[Hd Hs] Hp]. apply Forall_cons; [apply seg_ok_head; assumption|].
    apply Forall_app. split; [|apply Forall_cons; [apply seg_ok_nil|apply Forall_nil]].
    rewrite forallb_forall in Hp. apply Forall_forall. intros l Hl. apply in_map_iff in Hl.
    destruct Hl as (p & <- & Hin). apply seg_ok_posting. apply Hp. exact Hin.
Qed.

Lemma entries_lines_ok v es : entries_lex_b es = true -> Forall seg_ok (flat_map (entry_lines v) es).
Proof.
  unfold entries_lex_b. induction es as [|e es IH]; cbn [forallb flat_map]; [constructor|].
  rewrite andb_true_iff. intros [He Hes]. apply Forall_app. split; [apply entry_lines_ok; exact He|apply IH; exact Hes].
Qed.

(* the option line *)
Definition option_line (v : commodity) : str := s_option ++ v ++ [34].

Lemma seg_ok_option v : ~ In 34 v -> seg_ok (option_line v).
Proof.
  intros Hv.
  assert (E : option_line v =
              [111;112;116;105;111;110;32] ++
              (34 :: [111;112;101;114;97;116;105;110;103;95;99;117;114;114;101;110;99;121] ++ [34]) ++
              [32] ++ (34 :: v ++ [34])) by reflexivity.
  rewrite E. apply seg_ok_app; [|apply seg_ok_app; [|apply seg_ok_app]].
  - apply seg_ok_plain; cbn [In]; intros H; repeat (destruct H as [H|H]; [discriminate|]); exact H.
  - apply seg_ok_quoted. cbn [In]; intros H; repeat (destruct H as [H|H]; [discriminate|]); exact H.
  - apply seg_ok_plain; cbn [In]; intros H; repeat (destruct H as [H|H]; [discriminate|]); exact H.
  - apply seg_ok_quoted. exact Hv.
Qed.

(* the text of a ledger, line by line *)
Definition ledger_text (v : commodity) (es : list bentry) : str :=
  s_option ++ v ++ [34;10;10] ++ concat (map (write_entry v) es).

Lemma ledger_text_lines v es :
  ledger_text v es = unlines (option_line v :: [] :: flat_map (entry_lines v) es).
Proof.
  unfold ledger_text. rewrite write_entries_lines. unfold unlines at 2. cbn [map concat].
  fold (unlines (flat_map (entry_lines v) es)). unfold option_line. rewrite <- !app_assoc. reflexivity.
Qed.

Lemma split_ledger_text v es : ~ In 34 v -> entries_lex_b es = true ->
  split_lines (ledger_text v es) = option_line v :: [] :: flat_map (entry_lines v) es ++ [[]].
Proof.
  intros Hv Hes. rewrite ledger_text_lines. unfold split_lines.
  rewrite <- (app_nil_r (unlines _)). rewrite split_unlines.
  - reflexivity.
  - apply Forall_cons; [apply seg_ok_option; exact Hv|]. apply Forall_cons; [apply seg_ok_nil|].
    apply entries_lines_ok. exact Hes.
Qed.

(* ================================================================== Part 3: read_line *)

Lemma strip_prefix_app p s : strip_prefix p (p ++ s) = Some s.
Proof. induction p as [|x p IH]; [destruct s; reflexivity|]. cbn [app strip_prefix]. rewrite Z.eqb_refl. exact IH. Qed.

Lemma strip_last_quote_app s : strip_last_quote (s ++ [34]) = Some s.
Proof. unfold strip_last_quote. rewrite rev_app_distr. cbn [rev app]. rewrite rev_involutive. reflexivity. Qed.

Lemma is_digit_48 k : 0 <= k <= 9 -> is_digit (48 + k) = true.
Proof. intros H. unfold is_digit. apply andb_true_iff. split; apply Z.leb_le; lia. Qed.

Lemma read_format_date d rest : date_lex_b d = true -> read_date (format_date d ++ rest) = Some (d, rest).
Proof.
  unfold date_lex_b, year_of. rewrite andb_true_iff, !Z.leb_le. intros Hy.
  pose proof (civil_valid d) as Hv. pose proof (of_civil_civil d) as Ho.
  unfold format_date. destruct (civil d) as [[y m] dd]. cbn [fst] in Hy. cbn [valid_civil] in Hv.
  destruct Hv as (Hm & Hd). pose proof (dim_pos y m) as Hdim.
  unfold four_digits, two_digits. cbn [app]. unfold read_date. cbn [forallb].
  rewrite !is_digit_48 by lia. cbn [andb]. unfold d2.
  replace (((48 + y / 1000 - 48) * 10 + (48 + (y / 100) mod 10 - 48)) * 100 +
           ((48 + (y / 10) mod 10 - 48) * 10 + (48 + y mod 10 - 48))) with y by lia.
  replace ((48 + m / 10 - 48) * 10 + (48 + m mod 10 - 48)) with m by lia.
  replace ((48 + dd / 10 - 48) * 10 + (48 + dd mod 10 - 48)) with dd by lia.
  unfold parse_ymd.
  replace (1 <=? m) with true by (symmetry; apply Z.leb_le; lia).
  replace (m <=? 12) with true by (symmetry; apply Z.leb_le; lia).
  replace (1 <=? dd) with true by (symmetry; apply Z.leb_le; lia).
  replace (dd <=? days_in_month y m) with true by (symmetry; apply Z.leb_le; lia).
  cbn [andb]. rewrite Ho. reflexivity.
Qed.

(* what read_line does with a line that does not start with a space *)
Definition read_dated_line (l : str) : line :=
  match read_date l with
  | None => LBad
  | Some (d, rest) =>
    match strip_prefix s_kw_open rest with
    | Some a => if no_space a then LOpen d a else LBad
    | None =>
      match strip_prefix s_kw_close rest with
      | Some a => if no_space a then LClose d a else LBad
      | None =>
        match strip_prefix s_kw_txn rest with
        | Some r => match strip_last_quote r with Some desc => LTxn d desc | None => LBad end
        | None => LBad
        end
      end
    end
  end.

Lemma read_line_dated c t : c <> 32 -> read_line (c :: t) = read_dated_line (c :: t).
Proof.
  intros Hc. unfold read_line.
  destruct c as [|p|p]; try reflexivity.
  do 6 (destruct p as [p|p|]; try reflexivity).
  exfalso. apply Hc. reflexivity.
Qed.

Lemma format_date_head d : date_lex_b d = true -> exists c t, format_date d = c :: t /\ c <> 32.
Proof.
  intros Hd. pose proof (format_date_chars d Hd) as H. unfold format_date in *.
  destruct (civil d) as [[y m] dd]. unfold four_digits in *. cbn [app] in *.
  eexists. eexists. split; [reflexivity|]. apply Forall_inv in H. cbn beta in H. lia.
Qed.

Lemma no_space_name s : name_lex_b s = true -> no_space s = true.
Proof.
  intros H. apply name_lex_spec in H. destruct H as (Hne & H32 & _). unfold no_space.
  apply no_byte_iff in H32. unfold no_byte in H32. rewrite H32. destruct s; [congruence|reflexivity].
Qed.

Lemma read_line_open d a : date_lex_b d = true -> name_lex_b (acc_name a) = true ->
  read_line (print_open d a) = LOpen d (acc_name a).
Proof.
  intros Hd Ha. unfold print_open. destruct (format_date_head d Hd) as (c & t & E & Hc).
  rewrite E. cbn [app]. rewrite read_line_dated by exact Hc.
  change (c :: t ++ s_open ++ acc_name a) with ((c :: t) ++ s_open ++ acc_name a). rewrite <- E.
  unfold read_dated_line. rewrite (read_format_date d _ Hd).
  change s_open with s_kw_open. rewrite strip_prefix_app, (no_space_name _ Ha). reflexivity.
Qed.

Lemma read_line_close d a : date_lex_b d = true -> name_lex_b (acc_name a) = true ->
  read_line (print_close d a) = LClose d (acc_name a).
Proof.
  intros Hd Ha. unfold print_close. destruct (format_date_head d Hd) as (c & t & E & Hc).
  rewrite E. cbn [app]. rewrite read_line_dated by exact Hc.
  change (c :: t ++ s_close ++ acc_name a) with ((c :: t) ++ s_close ++ acc_name a). rewrite <- E.
  unfold read_dated_line. rewrite (read_format_date d _ Hd).
  assert (E1 : strip_prefix s_kw_open (s_close ++ acc_name a) = None) by reflexivity. rewrite E1.
  change s_close with s_kw_close. rewrite strip_prefix_app, (no_space_name _ Ha). reflexivity.
Qed.

Lemma read_line_head t : date_lex_b (t_date t) = true -> read_line (head_line t) = LTxn (t_date t) (t_desc t).
Proof.
  intros Hd. unfold head_line. destruct (format_date_head _ Hd) as (c & r & E & Hc).
  rewrite E. cbn [app]. rewrite read_line_dated by exact Hc.
  change (c :: r ++ 32 :: 42 :: 32 :: 34 :: t_desc t ++ [34]) with ((c :: r) ++ [32;42;32;34] ++ t_desc t ++ [34]).
  rewrite <- E. unfold read_dated_line. rewrite (read_format_date _ _ Hd).
  assert (E1 : strip_prefix s_kw_open ([32;42;32;34] ++ t_desc t ++ [34]) = None) by reflexivity.
  assert (E2 : strip_prefix s_kw_close ([32;42;32;34] ++ t_desc t ++ [34]) = None) by reflexivity.
  rewrite E1, E2. change [32;42;32;34] with s_kw_txn. rewrite strip_prefix_app, strip_last_quote_app. reflexivity.
Qed.

Lemma split_on_aux_run c x : ~ In c x -> forall s cur,
  split_on_aux c (x ++ s) cur = split_on_aux c s (rev x ++ cur).
Proof.
  induction x as [|b x IH]; intros Hx s cur; [reflexivity|].
  apply not_in_cons_iff in Hx. destruct Hx as [Hb Hx]. cbn [app split_on_aux].
  destruct (Z.eqb_spec b c) as [E|_]; [contradiction|].
  rewrite (IH Hx). cbn [rev]. rewrite <- app_assoc. reflexivity.
Qed.

Lemma split_on_three a q c : ~ In 32 a -> ~ In 32 q -> ~ In 32 c ->
  split_on 32 (a ++ [32] ++ q ++ [32] ++ c) = [a; q; c].
Proof.
  intros Ha Hq Hc. unfold split_on.
  rewrite (split_on_aux_run 32 a Ha). cbn [app split_on_aux Z.eqb Pos.eqb]. rewrite app_nil_r, rev_involutive.
  rewrite (split_on_aux_run 32 q Hq). cbn [app split_on_aux Z.eqb Pos.eqb]. rewrite app_nil_r, rev_involutive.
  rewrite <- (app_nil_r c) at 1. rewrite (split_on_aux_run 32 c Hc). cbn [split_on_aux].
  rewrite app_nil_r, rev_involutive. reflexivity.
Qed.

Lemma no_space_strip v : strip_non_alphanum v <> [] -> no_space (strip_non_alphanum v) = true.
Proof.
  intros Hne. unfold no_space.
  assert (H : existsb (Z.eqb 32) (strip_non_alphanum v) = false).
  { pose proof (proj2 (no_byte_iff 32 (strip_non_alphanum v)) (strip_no v 32 ltac:(lia))) as H.
    unfold no_byte in H. apply negb_true_iff in H. exact H. }
  rewrite H. destruct (strip_non_alphanum v); [congruence|reflexivity].
Qed.

Lemma read_line_posting v p : strip_non_alphanum v <> [] -> name_lex_b (acc_name (p_acc p)) = true ->
  read_line (posting_line v p) = LPosting (acc_name (p_acc p)) (reread (p_val p)) (strip_non_alphanum v).
Proof.
  intros Hv Ha. pose proof (no_space_name _ Ha) as Hns. apply name_lex_spec in Ha. destruct Ha as (_ & H32 & _).
  unfold posting_line. cbn [app]. unfold read_line.
  change (acc_name (p_acc p) ++ 32 :: to_string (p_val p) ++ 32 :: strip_non_alphanum v)
    with (acc_name (p_acc p) ++ [32] ++ to_string (p_val p) ++ [32] ++ strip_non_alphanum v).
  rewrite split_on_three; [|exact H32|apply to_string_no; lia|apply strip_no; lia].
  rewrite (proj1 (reread_spec (p_val p))), Hns, (no_space_strip v Hv). reflexivity.
Qed.

(* ================================================================== Part 4: read_lines, read_ledger *)

Lemma read_lines_postings v d desc ps : strip_non_alphanum v <> [] ->
  forallb (fun p => name_lex_b (acc_name (p_acc p))) ps = true ->
  forall rest cur acc,
  read_lines (map (posting_line v) ps ++ rest) (Some (d, desc, cur)) acc =
  read_lines rest (Some (d, desc, rev (map reread_sposting (map (erase_posting v) ps)) ++ cur)) acc.
Proof.
  intros Hv. induction ps as [|p ps IH]; intros Hp rest cur acc; [reflexivity|].
  cbn [forallb] in Hp. apply andb_true_iff in Hp. destruct Hp as [Hp Hps].
  cbn [map app read_lines]. rewrite (read_line_posting v p Hv Hp). rewrite (IH Hps).
  cbn [rev]. rewrite <- app_assoc. reflexivity.
Qed.

Lemma read_lines_entry v e : strip_non_alphanum v <> [] -> entry_lex_b e = true -> forall rest acc,
  read_lines (entry_lines v e ++ rest) None acc = read_lines rest None (reread_entry (erase_entry v e) :: acc).
Proof.
  intros Hv. destruct e as [d a|d a|t]; cbn [entry_lex_b entry_lines erase_entry reread_entry]; rewrite ?andb_true_iff.
  - intros [Hd Ha] rest acc. cbn [app read_lines]. rewrite (read_line_open d a Hd Ha). reflexivity.
  - intros [Hd Ha] rest acc. cbn [app read_lines]. rewrite (read_line_close d a Hd Ha). reflexivity.
  - intros [[Hd Hs] Hp] rest acc. cbn [app read_lines]. rewrite (read_line_head t Hd).
    rewrite <- app_assoc, (read_lines_postings v _ _ _ Hv Hp). cbn [app read_lines read_line].
    rewrite app_nil_r, rev_involutive. reflexivity.
Qed.

Lemma read_lines_entries v es : strip_non_alphanum v <> [] -> entries_lex_b es = true -> forall rest acc,
  read_lines (flat_map (entry_lines v) es ++ rest) None acc =
  read_lines rest None (rev (reread_entries (erase_entries v es)) ++ acc).
Proof.
  intros Hv. unfold entries_lex_b. induction es as [|e es IH]; intros Hes rest acc; [reflexivity|].
  cbn [forallb] in Hes. apply andb_true_iff in Hes. destruct Hes as [He Hes].
  cbn [flat_map]. rewrite <- app_assoc, (read_lines_entry v e Hv He), (IH Hes).
  unfold reread_entries, erase_entries. cbn [map rev]. rewrite <- app_assoc. reflexivity.
Qed.

Lemma commodity_lex_spec v : commodity_lex_b v = true -> ~ In 10 v /\ ~ In 34 v /\ strip_non_alphanum v <> [].
Proof.
  unfold commodity_lex_b. rewrite !andb_true_iff, !no_byte_iff, negb_true_iff. intros [[H1 H2] H3].
  repeat split; try assumption. intros E. rewrite E in H3. discriminate.
Qed.

(* the round trip *)
Theorem read_ledger_text v es : commodity_lex_b v = true -> entries_lex_b es = true ->
  read_ledger (ledger_text v es) = Some (v, reread_entries (erase_entries v es)).
Proof.
  intros Hv Hes. apply commodity_lex_spec in Hv. destruct Hv as (_ & H34 & Hne).
  unfold read_ledger. rewrite (split_ledger_text v es H34 Hes).
  unfold option_line. change s_kw_option with s_option. rewrite strip_prefix_app, strip_last_quote_app.
  cbn [read_lines read_line]. rewrite (read_lines_entries v es Hne Hes). cbn [read_lines read_line].
  rewrite app_nil_r, rev_involutive. reflexivity.
Qed.

Lemma transcode_is_ledger_text days v : transcode days v = ledger_text v (transcode_entries days []).
Proof. reflexivity. Qed.

(* ------------------------------------------------------------------ the executable test roundtrip_b *)
(* what the reader returns equals the erased items as text: the comparison of
   Spec/BeancountErase.v (amounts through Decimal.String) cannot tell q from reread q *)
Lemma str_eqb_same s : str_eqb s s = true.
Proof.
  unfold str_eqb. assert (E : str_cmp s s = Eq); [|rewrite E; reflexivity].
  induction s as [|x s IH]; [reflexivity|]. cbn [str_cmp]. rewrite Z.compare_refl. exact IH.
Qed.

Lemma sposting_eqb_reread x : sposting_eqb (reread_sposting x) x = true.
Proof.
  unfold sposting_eqb, reread_sposting, account_of, amount_of, commodity_of. cbn [fst snd].
  rewrite to_string_reread, !str_eqb_same. reflexivity.
Qed.

Lemma sentry_eqb_reread e : sentry_eqb (reread_entry e) e = true.
Proof.
  destruct e as [d a|d a|d s ps]; cbn [reread_entry sentry_eqb]; rewrite ?Z.eqb_refl, ?str_eqb_same; try reflexivity.
  cbn [andb]. induction ps as [|x ps IH]; [reflexivity|]. cbn [map list_eqb]. rewrite sposting_eqb_reread, IH. reflexivity.
Qed.

Lemma list_eqb_reread es : list_eqb sentry_eqb (reread_entries es) es = true.
Proof.
  induction es as [|e es IH]; [reflexivity|]. unfold reread_entries. cbn [map list_eqb].
  fold (reread_entries es). rewrite sentry_eqb_reread, IH. reflexivity.
Qed.

Theorem roundtrip_b_true v days : commodity_lex_b v = true -> entries_lex_b (transcode_entries days []) = true ->
  roundtrip_b v days = true.
Proof.
  intros Hv Hes. unfold roundtrip_b. rewrite transcode_is_ledger_text, (read_ledger_text v _ Hv Hes).
  rewrite str_eqb_same, list_eqb_reread. reflexivity.
Qed.
