(* C16, mark-to-market clause, part 1: one cell (account a, commodity c) of the days that
   `knut transcode -v V` hands to beancount.Transcode (Model/CliTranscode.v transcode_days:
   load, Sort, ComputePrices, Check, Valuate).

   Part A  the Sort stage: every day keeps everything but the order of its transactions
   Part B  a cell that is never booked is never revalued (no posting at all after Valuate)
   Part C  the cell against the journal: value posted = quantity * latest price, from the
           directives (Spec/ValuationSpec.v qty_upto, price_on), up to 10^-8 per booking of the
           cell and per day of the journal; the valuation commodity itself: exactly its quantity *)
From Coq Require Import ZArith QArith Qabs List Bool Lia Permutation Sorting.Sorted.
From Knut Require Import Model.Str Model.Dec Model.Date Model.Account Model.Ledger Model.Price
     Model.Journal Model.Check Model.Pipeline Model.Table Model.Report Model.Cli Model.Beancount Model.CliTranscode
     Spec.DateSpec Spec.WellformedSpec Spec.LedgerSpec Spec.LedgerSyntax Spec.MarkToMarketSpec
     Spec.PriceSpec Spec.PriceDaySpec Spec.ValuationSpec Spec.MarkToMarketReportSpec
     Proofs.StrProofs Proofs.DecProofs Proofs.DecValue Proofs.CheckLemmas Proofs.CheckProofs Proofs.PairProofs
     Proofs.DateProofs Proofs.BuilderProofs Proofs.StableSort Proofs.BeancountProofs
     Proofs.LedgerProofs Proofs.CloseProofs Proofs.PriceDayProofs Proofs.ValuationProofs
     Proofs.MarkToMarket Proofs.MarkToMarketReport Proofs.MarkToMarketWindow Proofs.MarkToMarketJournal
     Proofs.MarkToMarketFinal Proofs.MarkToMarketRow.
Import ListNotations.
Open Scope Q_scope.

(* ------------------------------------------------------------ Part A: the Sort stage *)

Definition sort_day (d : day) : day := set_txns d (sort_by txn_ltb (d_txns d)).

Lemma sort_stage_spec : forall ds s s' ds',
  process_days sort_proc s ds = ROk (s', ds') -> ds' = map sort_day ds.
Proof.
  induction ds as [|d ds IH]; intros s s' ds' H; cbn [process_days] in H.
  - inversion H; reflexivity.
  - destruct (process_day sort_proc s d) as [[s1 d1]| |] eqn:E1; try discriminate. cbn [rbind fst snd] in H.
    destruct (process_days sort_proc s1 ds) as [[s2 ds2]| |] eqn:E2; try discriminate. cbn [rbind fst snd] in H.
    inversion H; subst. cbn [map]. rewrite (IH _ _ _ E2). f_equal.
    unfold process_day in E1. cbn [sort_proc pr_day_start pr_price pr_open pr_close pr_day_end rbind fst snd] in E1.
    assert (Ht : forall ts s0, fold_txns sort_proc s0 ts = ROk (s0, ts)).
    { induction ts as [|t ts IHt]; intros s0; cbn [fold_txns sort_proc pr_txn pr_posting rbind fst snd]; [reflexivity|].
      rewrite IHt. cbn [rbind fst snd]. reflexivity. }
    rewrite Ht in E1. cbn [rbind fst snd d_asserts d_closes] in E1.
    assert (Ha : forall l s0, fold_asserts sort_proc s0 l = ROk s0).
    { induction l as [|a l IHl]; intros s0; cbn [fold_asserts sort_proc pr_balance rbind]; [reflexivity|apply IHl]. }
    rewrite Ha in E1. cbn [rbind d_date] in E1. rewrite day_rebuild in E1. inversion E1. reflexivity.
Qed.

Lemma sort_days_prices ds : map d_prices (map sort_day ds) = map d_prices ds.
Proof. rewrite map_map. apply map_ext. intros d. reflexivity. Qed.

Lemma perm_concat_map {A B} (f g : A -> list B) l :
  (forall x, In x l -> Permutation (f x) (g x)) -> Permutation (concat (map f l)) (concat (map g l)).
Proof.
  induction l as [|x l IH]; intros H; cbn [map concat]; [constructor|].
  apply Permutation_app; [apply H; left; reflexivity|apply IH; intros y Hy; apply H; right; exact Hy].
Qed.

Lemma perm_concat {A} (l1 l2 : list (list A)) : Permutation l1 l2 -> Permutation (concat l1) (concat l2).
Proof.
  induction 1 as [|x l l' P IH|x y l|l l' l'' P1 IH1 P2 IH2]; cbn [concat].
  - constructor.
  - apply Permutation_app_head. exact IH.
  - rewrite !app_assoc. apply Permutation_app_tail. apply Permutation_app_comm.
  - eapply Permutation_trans; eassumption.
Qed.

Lemma sort_day_postings d : Permutation (vday (sort_day d)) (vday d).
Proof.
  unfold MarkToMarketSpec.day_postings, sort_day. cbn [set_txns d_txns].
  apply perm_concat. apply Permutation_map. apply sort_by_perm.
Qed.

Lemma sort_days_postings ds : Permutation (vposts (map sort_day ds)) (vposts ds).
Proof.
  unfold MarkToMarketSpec.days_postings. rewrite map_map.
  apply perm_concat_map. intros d _. apply sort_day_postings.
Qed.

(* sums over postings do not depend on their order *)
Lemma vsum_perm (f : posting -> Q) l1 l2 : Permutation l1 l2 -> vsum f l1 == vsum f l2.
Proof.
  induction 1 as [|x l l' P IH|x y l|l l' l'' P1 IH1 P2 IH2]; cbn [MarkToMarketSpec.qsum].
  - reflexivity.
  - rewrite IH. reflexivity.
  - ring.
  - rewrite IH1. exact IH2.
Qed.

Lemma cell_qty_perm a c l1 l2 : Permutation l1 l2 -> cell_qty a c l1 == cell_qty a c l2.
Proof. apply vsum_perm. Qed.
Lemma cell_value_perm a c l1 l2 : Permutation l1 l2 -> cell_value a c l1 == cell_value a c l2.
Proof. apply vsum_perm. Qed.
Lemma cell_count_perm a c l1 l2 : Permutation l1 l2 -> cell_count a c l1 = cell_count a c l2.
Proof.
  intros P. rewrite !cell_count_filter. f_equal. apply Permutation_length. apply perm_filter'. exact P.
Qed.

(* ------------------------------------------------------------ Part B: a cell that is never booked *)

Lemma cell_count_zero a c l : cell_count a c l = 0%Z -> Forall (fun p => cellb a c p = false) l.
Proof.
  induction l as [|p l IH]; intros H; constructor; cbn [cell_count] in H;
    pose proof (cell_count_nonneg a c l) as Hn; destruct (cellb a c p); try reflexivity; try lia; apply IH; lia.
Qed.

Lemma cell_count_zero_rev a c l : Forall (fun p => cellb a c p = false) l -> cell_count a c l = 0%Z.
Proof. induction 1 as [|p l Hp _ IH]; cbn [cell_count]; [reflexivity|]. rewrite Hp, IH. reflexivity. Qed.

Section NoCell.
  Variables (v : commodity) (a : account) (c : commodity).
  Hypothesis Ha : account_ok a = true.
  Hypothesis HAL : is_AL a = true.

  (* no entry of the position map belongs to the cell *)
  Definition nomatch (m : positions) : Prop := forall x, In x m -> ematch a c x = false.

  Lemma nomatch_count m : nomatch m -> ematch_count a c m = 0%Z.
  Proof.
    induction m as [|x m IH]; intros H; cbn [ematch_count]; [reflexivity|].
    rewrite (H x (or_introl eq_refl)), IH; [reflexivity|]. intros y Hy. apply H. right. exact Hy.
  Qed.

  Lemma val_posting_qty s t p s' p' :
    val_posting v s t p = ROk (s', p') ->
    v_qty s' = v_qty s \/ v_qty s' = pos_add (v_qty s) (p_acc p) (p_com p) (p_qty p).
  Proof.
    unfold val_posting. intros H. destruct (is_zero (p_qty p)); [injection H as <- _; left; reflexivity|].
    assert (E : forall s1, s1 = (if is_AL (p_acc p)
                   then mkVal (v_prev s) (v_cur s) (pos_add (v_qty s) (p_acc p) (p_com p) (p_qty p)) else s) ->
                v_qty s1 = v_qty s \/ v_qty s1 = pos_add (v_qty s) (p_acc p) (p_com p) (p_qty p)).
    { intros s1 ->. destruct (is_AL (p_acc p)); [right|left]; reflexivity. }
    destruct (str_eqb v (p_com p)); [injection H as <- _; apply E; reflexivity|].
    destruct (v_cur s) as [n|]; [|discriminate]. destruct (np_valuate n (p_com p) (p_qty p)); [|discriminate].
    injection H as <- _. apply E. reflexivity.
  Qed.

  Lemma val_posting_nomatch s t p s' p' :
    val_posting v s t p = ROk (s', p') -> cellb a c p = false -> nomatch (v_qty s) -> nomatch (v_qty s').
  Proof.
    intros H Hc Hn. destruct (val_posting_qty _ _ _ _ _ H) as [->| ->]; [exact Hn|].
    intros x Hx. unfold pos_add in Hx. apply sm_put_in in Hx. destruct Hx as [->|Hx]; [|apply Hn; exact Hx].
    unfold ematch. cbn [fst snd]. exact Hc.
  Qed.

  Lemma fold_postings_nomatch t ps : forall s s' ps',
    fold_postings (val_posting v) t s ps = ROk (s', ps') ->
    Forall (fun p => cellb a c p = false) ps -> nomatch (v_qty s) -> nomatch (v_qty s').
  Proof.
    induction ps as [|p ps IH]; intros s s' ps' H Hc Hn; cbn [fold_postings] in H.
    - injection H as <- _. exact Hn.
    - inversion Hc as [|? ? Hp Hrest]; subst.
      destruct (val_posting v s t p) as [[s1 p1]| |] eqn:E1; cbn [rbind fst snd] in H; try discriminate.
      destruct (fold_postings (val_posting v) t s1 ps) as [[s2 ps2]| |] eqn:E2; cbn [rbind fst snd] in H; try discriminate.
      injection H as <- _. exact (IH _ _ _ E2 Hrest (val_posting_nomatch _ _ _ _ _ E1 Hp Hn)).
  Qed.

  Lemma fold_txns_nomatch ts : forall s s' ts',
    fold_txns (valuate_proc v) s ts = ROk (s', ts') ->
    Forall (fun p => cellb a c p = false) (MarkToMarket.txns_postings ts) -> nomatch (v_qty s) -> nomatch (v_qty s').
  Proof.
    induction ts as [|t ts IH]; intros s s' ts' H Hc Hn; cbn [fold_txns] in H.
    - injection H as <- _. exact Hn.
    - cbn [valuate_proc pr_txn pr_posting rbind] in H.
      unfold MarkToMarket.txns_postings in Hc. cbn [map concat] in Hc. apply Forall_app in Hc. destruct Hc as [Ht Hrest].
      destruct (fold_postings (val_posting v) t s (t_postings t)) as [[s1 ps1]| |] eqn:E1; cbn [rbind fst snd] in H; try discriminate.
      destruct (fold_txns (valuate_proc v) s1 ts) as [[s2 ts2]| |] eqn:E2; cbn [rbind fst snd] in H; try discriminate.
      injection H as <- _. exact (IH _ _ _ E2 Hrest (fold_postings_nomatch _ _ _ _ _ E1 Ht Hn)).
  Qed.

  Lemma day_nomatch s d s' d' :
    process_day (valuate_proc v) s d = ROk (s', d') ->
    (forall x, In x (v_qty s) -> CheckProofs.entry_ok x) -> nomatch (v_qty s) ->
    cell_count a c (vday d) = 0%Z ->
    nomatch (v_qty s') /\ cell_count a c (vday d') = 0%Z.
  Proof.
    intros H He Hn Hc.
    destruct (valuate_day_inv _ _ _ _ _ H) as (ts & s2 & txns' & Eadj & Efold & -> & Etx & _).
    pose proof (adj_count v a c Ha HAL _ _ _ _ _ Eadj He) as A. rewrite (nomatch_count _ Hn) in A.
    pose proof (cell_count_nonneg a c (MarkToMarket.txns_postings ts)) as A0.
    assert (Hall : cell_count a c (MarkToMarket.txns_postings (d_txns d ++ ts)) = 0%Z).
    { unfold MarkToMarket.txns_postings. rewrite map_app, concat_app, cell_count_app.
      fold (MarkToMarket.txns_postings ts). fold (vday d). lia. }
    split.
    - cbn [v_qty]. apply (fold_txns_nomatch _ _ _ _ Efold); [apply cell_count_zero; exact Hall|exact Hn].
    - unfold MarkToMarketSpec.day_postings. rewrite Etx. fold (MarkToMarket.txns_postings txns').
      rewrite (fold_txns_count _ a c _ _ _ _ Efold). exact Hall.
  Qed.

  Lemma days_nomatch : forall ds s s' ds',
    process_days (valuate_proc v) s ds = ROk (s', ds') ->
    Forall posting_in_ok (vposts ds) -> entries_ok (v_qty s) -> nomatch (v_qty s) ->
    cell_count a c (vposts ds) = 0%Z -> cell_count a c (vposts ds') = 0%Z.
  Proof.
    induction ds as [|d r IH]; intros s s' ds' H Hin Hs Hn Hc; cbn [process_days] in H.
    - injection H as _ <-. reflexivity.
    - destruct (process_day (valuate_proc v) s d) as [[s1 d1]| |] eqn:E1; cbn [rbind fst snd] in H; try discriminate.
      destruct (process_days (valuate_proc v) s1 r) as [[s2 r2]| |] eqn:E2; cbn [rbind fst snd] in H; try discriminate.
      injection H as _ <-.
      unfold MarkToMarketSpec.days_postings in Hin, Hc. cbn [map concat] in Hin, Hc.
      apply Forall_app in Hin. destruct Hin as [Hd Hr]. rewrite cell_count_app in Hc.
      pose proof (cell_count_nonneg a c (vday d)) as N1.
      pose proof (cell_count_nonneg a c (concat (map vday r))) as N2.
      assert (E1' : process_days (valuate_proc v) s [d] = ROk (s1, [d1])) by (cbn [process_days]; rewrite E1; reflexivity).
      assert (Hd' : Forall posting_in_ok (vposts [d])).
      { unfold MarkToMarketSpec.days_postings. cbn [map concat]. rewrite app_nil_r. exact Hd. }
      pose proof (days_entries_ok v [d] s s1 [d1] Hd' Hs E1') as Hs1.
      destruct (day_nomatch _ _ _ _ E1 (proj2 Hs) Hn ltac:(lia)) as [Hn1 Hc1].
      assert (Hc2 : cell_count a c (vposts r2) = 0%Z).
      { apply (IH _ _ _ E2 Hr Hs1 Hn1). unfold MarkToMarketSpec.days_postings. lia. }
      unfold MarkToMarketSpec.days_postings in *. cbn [map concat]. rewrite cell_count_app, Hc1, Hc2. reflexivity.
  Qed.
End NoCell.

(* ------------------------------------------------------------ Part C: the cell against the journal *)

(* the run of transcode_days with the Sort and Check stages resolved: ComputePrices then Valuate
   over the builder's days with each day's transactions sorted *)
Lemma transcode_days_run l v sds days :
  transcode_days l v sds = COk days ->
  exists dl s1 ds1 s2,
    parse_directives sds = MOk dl /\
    process_days (compute_prices_proc v) (mkCp [] None) (map sort_day (b_days (builder_of dl))) = ROk (s1, ds1) /\
    process_days (valuate_proc v) val_init ds1 = ROk (s2, days).
Proof.
  intros H. destruct (transcode_days_inv _ _ _ _ H) as (dl & d1 & d2 & d3 & s1 & s2 & s3 & s4 & E0 & E1 & E2 & E3 & E4).
  apply sort_stage_spec in E1. subst d1. apply check_stage_id in E3. subst d3.
  exists dl, s2, d2, s4. split; [exact E0|]. split; [exact E2|exact E4].
Qed.

Definition a_partition : partition := mkPartition (mkPeriod 0 0) Daily [].

Lemma built_false dl : built_days false dl a_partition = b_days (builder_of dl).
Proof. reflexivity. Qed.

Definition dates_upto (dl : list directive) (T : Z) : Prop := forall d, In d dl -> (ddate d <= T)%Z.

Lemma days_upto_all dl T : dates_upto dl T -> days_upto T (b_days (builder_of dl)) = b_days (builder_of dl).
Proof.
  intros HT. unfold days_upto. apply filter_all_true. intros x Hx.
  destruct (builder_canonical dl) as (_ & _ & Hd & _). cbn zeta in Hd.
  assert (Hin : In (d_date x) (map d_date (b_days (builder_of dl)))) by (apply in_map; exact Hx).
  apply Hd in Hin. apply in_map_iff in Hin. destruct Hin as (d & Ed & Hd'). specialize (HT d Hd'). lia.
Qed.

Lemma sorted_in_ok sds dl :
  parse_directives sds = MOk dl -> postings_syntactic dl ->
  Forall posting_in_ok (vposts (map sort_day (b_days (builder_of dl)))).
Proof.
  intros Hl Hsyn. eapply Permutation_Forall; [symmetry; apply sort_days_postings|].
  rewrite <- built_false. exact (built_days_in_ok' false sds dl a_partition Hl Hsyn).
Qed.

Lemma entries_ok_nil : entries_ok [].
Proof. split; [constructor|intros x []]. Qed.

(* quantities: what the sorted days carry on the cell is what the journal booked up to T *)
Lemma sorted_days_qty dl T a c : dates_upto dl T ->
  cell_qty a c (vposts (map sort_day (b_days (builder_of dl)))) == dvalue (qty_upto (flat_postings dl) a c T).
Proof.
  intros HT. rewrite (cell_qty_perm a c _ _ (sort_days_postings _)).
  rewrite <- (qty_on_days_journal false dl a_partition a c T). unfold qty_on_days.
  rewrite built_false, (days_upto_all dl T HT). reflexivity.
Qed.

Lemma sorted_days_count dl a c :
  cell_count a c (vposts (map sort_day (b_days (builder_of dl))))
  = Z.of_nat (length (filter (fun dp : Z * posting => cellb a c (snd dp)) (flat_postings dl))).
Proof.
  rewrite (cell_count_perm a c _ _ (sort_days_postings _)).
  rewrite cell_count_filter, <- snd_dposts, filter_map_length. f_equal.
  apply Permutation_length. apply perm_filter'. rewrite <- built_false. apply built_days_perm.
Qed.

Lemma sorted_days_price dl T V c : dates_upto dl T -> c <> V -> b_days (builder_of dl) <> [] ->
  let SD := map sort_day (b_days (builder_of dl)) in
  price_value (PriceDaySpec.price_on V SD (pred (length SD))) c = price_q (ValuationSpec.price_on dl V c T).
Proof.
  intros HT Hcv Hne SD. rewrite <- (price_on_days_journal false dl a_partition V c T Hcv).
  unfold price_on_days. rewrite built_false, (days_upto_all dl T HT).
  unfold SD. rewrite map_length. destruct (b_days (builder_of dl)) as [|x B] eqn:EB; [contradiction|].
  cbn [length pred prices_after]. unfold PriceDaySpec.price_on, history_upto.
  rewrite firstn_map, sort_days_prices. reflexivity.
Qed.

Lemma built_length dl : length (b_days (builder_of dl)) = length (WellformedSpec.dates dl).
Proof.
  destruct (builder_canonical dl) as (_ & Hd & _). cbn zeta in Hd. rewrite <- Hd, map_length. reflexivity.
Qed.

Definition cell_bookings (dl : list directive) (a : account) (c : commodity) : Z :=
  Z.of_nat (length (filter (fun dp : Z * posting => cellb a c (snd dp)) (flat_postings dl))).

(* a commodity other than V: the value the ledger carries on (a, c) is quantity * latest price up
   to one 10^-8 per booking of the cell and per day of the journal *)
Theorem transcode_cell l v sds dl days a c T :
  parse_directives sds = MOk dl -> postings_syntactic dl -> dates_upto dl T ->
  transcode_days l v sds = COk days ->
  account_ok a = true -> is_AL a = true -> c <> v ->
  Qabs (cell_value a c (vposts days) - mv_cell dl v a c T)
    <= inject_Z (cell_bookings dl a c + Z.of_nat (length (WellformedSpec.dates dl))) * eps8.
Proof.
  intros Hl Hsyn HT H Ha HAL Hcv.
  destruct (transcode_days_run _ _ _ _ H) as (dl' & s1 & ds1 & s2 & E0 & E1 & E2).
  assert (dl' = dl) by congruence. subst dl'.
  pose proof (sorted_in_ok sds dl Hl Hsyn) as Hin.
  assert (Hnn : (0 <= cell_bookings dl a c + Z.of_nat (length (WellformedSpec.dates dl)))%Z) by (unfold cell_bookings; lia).
  assert (Hcase : b_days (builder_of dl) = [] \/ b_days (builder_of dl) <> []).
  { destruct (b_days (builder_of dl)); [left; reflexivity|right; discriminate]. }
  destruct Hcase as [EB|HneB].
  - unfold mv_cell. rewrite <- (sorted_days_qty dl T a c HT).
    rewrite EB in E1 |- *. cbn [map process_days] in E1. injection E1 as _ <-.
    cbn [process_days] in E2. injection E2 as _ <-. cbn [map].
    setoid_replace (cell_value a c (vposts []) - cell_qty a c (vposts []) * price_q (ValuationSpec.price_on dl v c T)) with 0
      by (unfold cell_value, cell_qty, MarkToMarketSpec.days_postings; cbn; ring).
    cbn [Qabs Z.abs]. apply Qmult_le_0_compat; [|exact eps8_nonneg].
    change 0 with (inject_Z 0). rewrite <- Zle_Qle. exact Hnn.
  - set (SD := map sort_day (b_days (builder_of dl))) in *.
    assert (HneSD : SD <> []).
    { unfold SD. destruct (b_days (builder_of dl)); [contradiction|cbn [map]; discriminate]. }
    pose proof (mark_to_market_pipeline v a c SD s1 ds1 s2 days Ha HAL Hcv HneSD Hin E1 E2) as M.
    pose proof (sorted_days_price dl T v c HT Hcv HneB) as EP. cbn zeta in EP. fold SD in EP.
    rewrite EP in M. unfold SD in M at 1. rewrite (sorted_days_qty dl T a c HT) in M.
    eapply Qle_trans; [exact M|]. apply Qmult_le_compat_r; [|exact eps8_nonneg]. rewrite <- Zle_Qle.
    pose proof (cp_days_postings _ _ _ _ _ E1) as EPs.
    assert (Hin1 : Forall posting_in_ok (vposts ds1)) by (rewrite EPs; exact Hin).
    pose proof (days_count v a c Ha HAL ds1 val_init s2 days Hin1 entries_ok_nil E2) as C.
    rewrite EPs in C. unfold SD in C at 1. rewrite sorted_days_count in C.
    rewrite (process_days_length _ _ _ _ _ E1) in C. unfold SD in C. rewrite map_length, built_length in C.
    unfold cell_bookings. exact C.
Qed.

(* the valuation commodity itself is carried at its quantity: no Multiply, no revaluation *)
Theorem transcode_cell_V l v sds dl days a T :
  parse_directives sds = MOk dl -> postings_syntactic dl -> dates_upto dl T ->
  transcode_days l v sds = COk days ->
  cell_value a v (vposts days) == mv_cell dl v a v T.
Proof.
  intros Hl Hsyn HT H.
  destruct (transcode_days_run _ _ _ _ H) as (dl' & s1 & ds1 & s2 & E0 & E1 & E2).
  assert (dl' = dl) by congruence. subst dl'.
  pose proof (sorted_in_ok sds dl Hl Hsyn) as Hin.
  pose proof (cp_days_postings _ _ _ _ _ E1) as EPs.
  assert (Hin1 : Forall posting_in_ok (vposts ds1)) by (rewrite EPs; exact Hin).
  rewrite (val_days_V v a ds1 _ _ _ E2 Hin1), EPs, (sorted_days_qty dl T a v HT).
  unfold mv_cell, ValuationSpec.price_on. rewrite str_eqb_refl. cbn [price_q].
  assert (E1' : dvalue one == 1) by reflexivity. rewrite E1'. ring.
Qed.

(* a commodity the account never books: the ledger has no posting on (a, c) at all *)
Theorem transcode_cell_unbooked l v sds dl days a c :
  parse_directives sds = MOk dl -> postings_syntactic dl ->
  transcode_days l v sds = COk days ->
  account_ok a = true -> is_AL a = true ->
  cell_bookings dl a c = 0%Z ->
  Forall (fun p => cellb a c p = false) (vposts days).
Proof.
  intros Hl Hsyn H Ha HAL Hc.
  destruct (transcode_days_run _ _ _ _ H) as (dl' & s1 & ds1 & s2 & E0 & E1 & E2).
  assert (dl' = dl) by congruence. subst dl'.
  pose proof (sorted_in_ok sds dl Hl Hsyn) as Hin.
  pose proof (cp_days_postings _ _ _ _ _ E1) as EPs.
  assert (Hin1 : Forall posting_in_ok (vposts ds1)) by (rewrite EPs; exact Hin).
  apply cell_count_zero.
  apply (days_nomatch v a c Ha HAL ds1 val_init s2 days E2 Hin1 entries_ok_nil).
  - intros x [].
  - rewrite EPs, sorted_days_count. exact Hc.
Qed.
