(* Proofs about Model/Pipe.v, part 3: deadlock freedom and termination of cpr.Seq's transition
   system: in every reachable non-terminal state a label is enabled; a progress measure grows
   with every effective step and is bounded, so schedules have at most [bound] effective steps
   and the canonical scheduler [drain] reaches a terminal state.                              *)
From Coq Require Import List Bool Arith PeanoNat Lia.
From Knut Require Import Model.Pipe Spec.PipeSpec Proofs.PipeInv Proofs.PipeProofs.
Import ListNotations.

Fixpoint sum_upto (f : nat -> nat) (len : nat) : nat :=
  match len with 0 => 0 | S l => f l + sum_upto f l end.

Lemma sum_upto_ext : forall f g len, (forall i, i < len -> f i = g i) -> sum_upto f len = sum_upto g len.
Proof.
  induction len as [|l IH]; intros H; simpl; [reflexivity|].
  rewrite H by lia. rewrite IH; [reflexivity|]. intros; apply H; lia.
Qed.

Lemma sum_upto_upd : forall (g : node -> nat) f i v len, i < len ->
  sum_upto (fun j => g (upd f i v j)) len + g (f i) = sum_upto (fun j => g (f j)) len + g v.
Proof.
  induction len as [|l IH]; intros Hi; [lia|]. simpl.
  destruct (Nat.eq_dec i l) as [->|Hne].
  - unfold upd at 1. rewrite Nat.eqb_refl.
    rewrite (sum_upto_ext (fun j => g (upd f l v j)) (fun j => g (f j)) l).
    + lia.
    + intros j Hj. unfold upd. destruct (j =? l) eqn:E; [apply Nat.eqb_eq in E; lia|reflexivity].
  - unfold upd at 1. destruct (l =? i) eqn:E; [apply Nat.eqb_eq in E; lia|].
    specialize (IH ltac:(lia)). lia.
Qed.

Lemma sum_upto_le : forall f len b, (forall i, i < len -> f i <= b) -> sum_upto f len <= len * b.
Proof.
  induction len as [|l IH]; intros b H; simpl; [lia|].
  specialize (IH b ltac:(intros; apply H; lia)). specialize (H l ltac:(lia)). lia.
Qed.

Section SeqLive.
  Variable n m : nat.
  Variable fails : nat -> nat -> bool.

  Notation step := (step n m fails).
  Notation run := (run n m fails).
  Notation step_or_stay := (step_or_stay n m fails).
  Notation Inv := (Inv n m fails).
  Notation terminal := (terminal n).
  Notation enabled := (enabled n m fails).
  Notation pick := (pick n m fails).
  Notation drain := (drain n m fails).
  Notation effective := (effective n m fails).

  (* progress of one node *)
  Definition prog (nd : node) : nat :=
    if is_running nd then
      match ph nd with
      | PIdle => 4 * cnt nd
      | PHolding => 4 * cnt nd + 1
      | PWorking => 4 * cnt nd + 2
      | PReady | PFailed => 4 * cnt nd + 3
      end
    else 4 * m + 5.

  Definition mu (st : state) : nat := sum_upto (fun i => prog (nodes st i)) (n + 2).

  Lemma prog_le : forall st, Inv st -> forall i, prog (nodes st i) <= 4 * m + 5.
  Proof.
    intros st HI i. pose proof (I_bound _ _ _ _ HI i) as B. unfold bounded in B. unfold prog.
    destruct (is_running (nodes st i)); [|lia]. destruct (ph (nodes st i)); lia.
  Qed.

  Lemma mu_le : forall st, Inv st -> mu st <= bound n m.
  Proof.
    intros st HI. unfold mu, bound. apply sum_upto_le. intros i _. apply prog_le. assumption.
  Qed.

  Lemma mu_upd1 : forall st i v, i <= S n ->
    sum_upto (fun j => prog (upd (nodes st) i v j)) (n + 2) + prog (nodes st i) = mu st + prog v.
  Proof. intros. unfold mu. apply (sum_upto_upd prog). lia. Qed.

  Lemma mu_upd2 : forall st i v w, S i <= S n ->
    sum_upto (fun j => prog (upd (upd (nodes st) i v) (S i) w j)) (n + 2)
      + prog (nodes st i) + prog (nodes st (S i)) = mu st + prog v + prog w.
  Proof.
    intros st i v w Hi.
    pose proof (sum_upto_upd prog (upd (nodes st) i v) (S i) w (n + 2) ltac:(lia)) as A.
    pose proof (mu_upd1 st i v ltac:(lia)) as B.
    unfold upd at 3 in A. replace (S i =? i) with false in A
      by (symmetry; apply Nat.eqb_neq; lia).
    lia.
  Qed.

  Ltac prog_simpl :=
    unfold prog, is_running, stop_node in *; simpl in *; rwph; simpl in *.

  Lemma step_progress : forall l st st', Inv st -> step l st = Some st' -> mu st < mu st'.
  Proof.
    intros l st st' HI Hs.
    destruct l as [|i|i|i|i|i|i]; simpl in Hs;
    match type of Hs with (if ?c then _ else _) = _ => destruct c eqn:Hc; [|discriminate] end;
    bfacts.
    - (* Fetch *)
      injection Hs as <-. unfold mu at 2. simpl.
      pose proof (mu_upd1 st 0 (mkNode PReady (cnt (nodes st 0)) Running) ltac:(lia)) as A.
      prog_simpl. lia.
    - (* Hand *)
      pose proof (I_chan _ _ _ _ HI i H) as E. pose proof (I_bound _ _ _ _ HI i) as B.
      unfold sent, recv, bounded in *.
      destruct (cancelled st); injection Hs as <-; unfold mu at 2; simpl.
      + pose proof (mu_upd2 st i (mkNode PIdle (S (cnt (nodes st i))) Running)
                     (mkNode PHolding (cnt (nodes st i)) Stopped) ltac:(lia)) as A.
        prog_simpl. lia.
      + pose proof (mu_upd2 st i (mkNode PIdle (S (cnt (nodes st i))) Running)
                     (mkNode PHolding (cnt (nodes st i)) Running) ltac:(lia)) as A.
        prog_simpl. lia.
    - (* Begin *)
      pose proof (mu_upd1 st i (mkNode PWorking (cnt (nodes st i)) Running) ltac:(lia)) as A.
      destruct (i <=? n); injection Hs as <-; unfold mu at 2; simpl; prog_simpl; lia.
    - (* End *)
      destruct (i <=? n).
      + injection Hs as <-; unfold mu at 2; simpl.
        pose proof (mu_upd1 st i (mkNode (if fails i (cnt (nodes st i)) then PFailed else PReady)
                                         (cnt (nodes st i)) Running) ltac:(lia)) as A.
        destruct (fails i (cnt (nodes st i))); prog_simpl; lia.
      + injection Hs as <-; unfold mu at 2; simpl.
        pose proof (mu_upd1 st i (mkNode PIdle (S (cnt (nodes st i))) Running) ltac:(lia)) as A.
        prog_simpl; lia.
    - (* Report *)
      pose proof (I_bound _ _ _ _ HI i) as B. unfold bounded in B.
      injection Hs as <-; unfold mu at 2; simpl.
      pose proof (mu_upd1 st i (stop_node (nodes st i)) ltac:(lia)) as A.
      prog_simpl; lia.
    - (* CloseCh *)
      pose proof (I_bound _ _ _ _ HI i) as B. unfold bounded in B.
      pose proof (mu_upd1 st i (stop_node (nodes st i)) ltac:(lia)) as A1.
      pose proof (mu_upd1 st i (mkNode PIdle (cnt (nodes st i)) Done) ltac:(lia)) as A2.
      destruct ((i =? 0) || negb (cancelled st)); [destruct (i =? S n)|];
        injection Hs as <-; unfold mu at 2; simpl; prog_simpl; lia.
    - (* ObserveCancel, blocked in Push *)
      pose proof (I_bound _ _ _ _ HI i) as B. unfold bounded in B.
      pose proof (mu_upd1 st i (stop_node (nodes st i)) ltac:(lia)) as A1.
      injection Hs as <-; unfold mu at 2; simpl; prog_simpl; lia.
    - (* ObserveCancel, blocked in Pop *)
      pose proof (I_bound _ _ _ _ HI i) as B. unfold bounded in B.
      pose proof (mu_upd1 st i (stop_node (nodes st i)) ltac:(lia)) as A1.
      injection Hs as <-; unfold mu at 2; simpl; prog_simpl; lia.
  Qed.

  (* every schedule has at most [bound n m] effective steps *)
  Lemma effective_bound_from : forall sched st, Inv st -> effective sched st + mu st <= bound n m.
  Proof.
    induction sched as [|l rest IH]; intros st HI; simpl.
    - apply mu_le; assumption.
    - destruct (step l st) as [st'|] eqn:E.
      + pose proof (step_progress l st st' HI E). pose proof (step_inv _ _ _ _ _ _ HI E) as HI'.
        specialize (IH st' HI'). lia.
      + apply IH; assumption.
  Qed.

  (* ------------------------------------------------------------------ deadlock freedom *)
  Lemma in_all_labels : forall i l, i <= S n -> In l (labels_of i) -> In l (all_labels n).
  Proof.
    intros i l Hi Hl. unfold all_labels. right. apply in_flat_map. exists i. split; [|assumption].
    apply in_seq. lia.
  Qed.

  Definition can_move (st : state) : Prop := exists l, In l (all_labels n) /\ enabled st l = true.

  Lemma en_fetch : forall st, live (nodes st 0) PIdle = true -> cnt (nodes st 0) < m -> can_move st.
  Proof.
    intros st L C. exists Fetch. split; [left; reflexivity|]. unfold Pipe.enabled. simpl.
    rewrite L. apply Nat.ltb_lt in C. rewrite C. reflexivity.
  Qed.

  Lemma en_hand : forall st i, i <= n -> live (nodes st i) PReady = true ->
    live (nodes st (S i)) PIdle = true -> can_move st.
  Proof.
    intros st i Hi A B. exists (Hand i). split.
    - apply (in_all_labels i); [lia | simpl; auto].
    - unfold Pipe.enabled. simpl. apply Nat.leb_le in Hi. rewrite Hi, A, B. simpl.
      destruct (cancelled st); reflexivity.
  Qed.

  Lemma en_begin : forall st i, 1 <= i -> i <= S n -> live (nodes st i) PHolding = true -> can_move st.
  Proof.
    intros st i H1 Hi A. exists (Begin i). split.
    - apply (in_all_labels i); [lia | simpl; auto].
    - unfold Pipe.enabled. cbn [Pipe.step]. apply Nat.leb_le in H1, Hi. rewrite H1, Hi, A. simpl.
      reflexivity.
  Qed.

  Lemma en_end : forall st i, 1 <= i -> i <= S n -> live (nodes st i) PWorking = true -> can_move st.
  Proof.
    intros st i H1 Hi A. exists (End i). split.
    - apply (in_all_labels i); [lia | simpl; auto].
    - unfold Pipe.enabled. cbn [Pipe.step]. apply Nat.leb_le in H1, Hi. rewrite H1, Hi, A. simpl.
      destruct (i <=? n); reflexivity.
  Qed.

  Lemma en_report : forall st i, 1 <= i -> i <= n -> live (nodes st i) PFailed = true -> can_move st.
  Proof.
    intros st i H1 Hi A. exists (Report i). split.
    - apply (in_all_labels i); [lia | simpl; auto].
    - unfold Pipe.enabled. cbn [Pipe.step]. apply Nat.leb_le in H1, Hi. rewrite H1, Hi, A. reflexivity.
  Qed.

  Lemma en_close : forall st i, i <= S n -> live (nodes st i) PIdle = true ->
    (if i =? 0 then cnt (nodes st i) =? m else closed (nodes st (pred i))) = true -> can_move st.
  Proof.
    intros st i Hi A B. exists (CloseCh i). split.
    - apply (in_all_labels i); [lia | simpl; auto 6].
    - unfold Pipe.enabled. cbn [Pipe.step]. apply Nat.leb_le in Hi. rewrite Hi, A, B. simpl.
      destruct ((i =? 0) || negb (cancelled st)); [destruct (i =? S n)|]; reflexivity.
  Qed.

  Lemma en_observe_ready : forall st i, i <= S n -> cancelled st = true ->
    live (nodes st i) PReady = true -> can_move st.
  Proof.
    intros st i Hi C A. exists (ObserveCancel i). split.
    - apply (in_all_labels i); [lia | simpl; auto 7].
    - unfold Pipe.enabled. cbn [Pipe.step]. apply Nat.leb_le in Hi. rewrite Hi, C, A. reflexivity.
  Qed.

  Lemma live_intro : forall nd p, stat nd = Running -> ph nd = p -> live nd p = true.
  Proof. intros. apply live_true. auto. Qed.

  (* a node blocked in Pop can move, or something upstream can *)
  Lemma idle_can_move : forall st, Inv st -> forall i, i <= S n ->
    stat (nodes st i) = Running -> ph (nodes st i) = PIdle -> can_move st.
  Proof.
    intros st HI. induction i as [|i IH]; intros Hi R P.
    - pose proof (I_bound _ _ _ _ HI 0) as B. unfold bounded in B. rewrite P in B.
      destruct (Nat.eq_dec (cnt (nodes st 0)) m) as [E|NE].
      + apply (en_close st 0); [lia | apply live_intro; assumption |]. simpl. apply Nat.eqb_eq. assumption.
      + apply en_fetch; [apply live_intro; assumption | lia].
    - destruct (closed (nodes st i)) eqn:C.
      + apply (en_close st (S i)); [assumption | apply live_intro; assumption | simpl; assumption].
      + assert (R' : stat (nodes st i) = Running /\ ph (nodes st i) <> PFailed).
        { unfold closed in C. apply orb_false_iff in C. destruct C as [C1 C2].
          apply negb_false_iff in C1. apply is_running_true in C1. split; [assumption|].
          intro E. rewrite E in C2. discriminate. }
        destruct R' as [R' NF].
        destruct (ph (nodes st i)) eqn:P'; try congruence.
        * apply IH; [lia|assumption|reflexivity].
        * destruct i as [|i'].
          { destruct (I_src _ _ _ _ HI) as [X|X]; congruence. }
          apply (en_begin st (S i')); [lia|lia|apply live_intro; assumption].
        * destruct i as [|i'].
          { destruct (I_src _ _ _ _ HI) as [X|X]; congruence. }
          apply (en_end st (S i')); [lia|lia|apply live_intro; assumption].
        * apply (en_hand st i); [lia | apply live_intro; assumption | apply live_intro; assumption].
  Qed.

  (* a node blocked in Push can move, or something downstream can *)
  Lemma ready_can_move : forall st, Inv st -> forall d i, i + d = n ->
    stat (nodes st i) = Running -> ph (nodes st i) = PReady -> can_move st.
  Proof.
    intros st HI. induction d as [|d IH]; intros i Hd R P.
    - (* i = n: the receiver is the sink, which is never PReady *)
      assert (i = n) by lia. subst i.
      destruct (stat (nodes st (S n))) eqn:S1.
      + destruct (I_sinkph _ _ _ _ HI) as [X|[X|X]].
        * apply (en_hand st n); [lia | apply live_intro; assumption | apply live_intro; assumption].
        * apply (en_begin st (S n)); [lia|lia|apply live_intro; assumption].
        * apply (en_end st (S n)); [lia|lia|apply live_intro; assumption].
      + destruct (I_done _ _ _ _ HI (S n) S1) as (_ & _ & C). specialize (C ltac:(lia)). simpl in C.
        destruct C as [C|C]; congruence.
      + apply (en_observe_ready st n); [lia | apply (I_stop _ _ _ _ HI (S n) S1) | apply live_intro; assumption].
    - destruct (stat (nodes st (S i))) eqn:S1.
      + destruct (ph (nodes st (S i))) eqn:P1.
        * apply (en_hand st i); [lia | apply live_intro; assumption | apply live_intro; assumption].
        * apply (en_begin st (S i)); [lia|lia|apply live_intro; assumption].
        * apply (en_end st (S i)); [lia|lia|apply live_intro; assumption].
        * apply (IH (S i)); [lia|assumption|assumption].
        * apply (en_report st (S i)); [lia|lia|apply live_intro; assumption].
      + destruct (I_done _ _ _ _ HI (S i) S1) as (_ & _ & C). specialize (C ltac:(lia)). simpl in C.
        destruct C as [C|C]; congruence.
      + apply (en_observe_ready st i); [lia | apply (I_stop _ _ _ _ HI (S i) S1) | apply live_intro; assumption].
  Qed.

  Lemma running_can_move : forall st, Inv st -> forall i, i <= S n ->
    stat (nodes st i) = Running -> can_move st.
  Proof.
    intros st HI i Hi R. destruct (ph (nodes st i)) eqn:P.
    - apply (idle_can_move st HI i); assumption.
    - destruct i as [|i']; [destruct (I_src _ _ _ _ HI) as [X|X]; congruence|].
      apply (en_begin st (S i')); [lia|lia|apply live_intro; assumption].
    - destruct i as [|i']; [destruct (I_src _ _ _ _ HI) as [X|X]; congruence|].
      apply (en_end st (S i')); [lia|lia|apply live_intro; assumption].
    - assert (i <= n).
      { destruct (Nat.eq_dec i (S n)) as [->|]; [|lia].
        destruct (I_sinkph _ _ _ _ HI) as [X|[X|X]]; congruence. }
      apply (ready_can_move st HI (n - i) i); [lia|assumption|assumption].
    - destruct (I_failed _ _ _ _ HI i P) as (_ & B).
      apply (en_report st i); [lia|lia|apply live_intro; assumption].
  Qed.

  Lemma deadlock_free_inv : forall st, Inv st -> terminal st = false -> can_move st.
  Proof.
    intros st HI HT.
    assert (exists i, i <= S n /\ stat (nodes st i) = Running) as (i & Hi & R).
    { unfold Pipe.terminal in HT.
      assert (G : forall l, forallb (fun i => negb (is_running (nodes st i))) l = false ->
                  exists i, In i l /\ is_running (nodes st i) = true).
      { induction l as [|a l IHl]; simpl; [discriminate|]. intros H.
        apply andb_false_iff in H. destruct H as [H|H].
        - exists a. split; [left; reflexivity|]. apply negb_false_iff in H. assumption.
        - destruct (IHl H) as (x & X1 & X2). exists x. auto. }
      destruct (G _ HT) as (i & I1 & I2). apply in_seq in I1. apply is_running_true in I2.
      exists i. split; [lia|assumption]. }
    apply (running_can_move st HI i); assumption.
  Qed.

  Lemma pick_none_terminal : forall st, Inv st -> pick st = None -> terminal st = true.
  Proof.
    intros st HI HP. destruct (terminal st) eqn:T; [reflexivity|]. exfalso.
    destruct (deadlock_free_inv st HI T) as (l & L1 & L2).
    unfold Pipe.pick in HP. pose proof (find_none _ _ HP l L1). congruence.
  Qed.

  Lemma pick_some_enabled : forall st l, pick st = Some l -> exists st', step l st = Some st'.
  Proof.
    intros st l HP. unfold Pipe.pick in HP. apply find_some in HP. destruct HP as [_ E].
    unfold Pipe.enabled in E. destruct (step l st) as [st'|]; [eauto|discriminate].
  Qed.

  Lemma terminal_no_step : forall st l, terminal st = true -> step l st = None.
  Proof.
    intros st l HT. rewrite (terminal_spec n) in HT.
    assert (NL : forall i p, i <= S n -> live (nodes st i) p = false).
    { intros i p Hi. apply live_false. intros [R _]. apply (HT i Hi R). }
    destruct l as [|i|i|i|i|i|i]; simpl.
    - rewrite (NL 0 PIdle ltac:(lia)). reflexivity.
    - destruct (i <=? n) eqn:E; [|reflexivity]. apply Nat.leb_le in E.
      rewrite (NL i PReady ltac:(lia)). reflexivity.
    - destruct (match i with 0 => false | S _ => true end); [|reflexivity].
      destruct (i <=? S n) eqn:E; [|reflexivity]. apply Nat.leb_le in E. rewrite (NL i _ E). reflexivity.
    - destruct (match i with 0 => false | S _ => true end); [|reflexivity].
      destruct (i <=? S n) eqn:E; [|reflexivity]. apply Nat.leb_le in E. rewrite (NL i _ E). reflexivity.
    - destruct (match i with 0 => false | S _ => true end); [|reflexivity].
      destruct (i <=? n) eqn:E; [|reflexivity]. apply Nat.leb_le in E. rewrite (NL i _ ltac:(lia)). reflexivity.
    - destruct (i <=? S n) eqn:E; [|reflexivity]. apply Nat.leb_le in E. rewrite (NL i _ E). reflexivity.
    - destruct (i <=? S n) eqn:E; [|reflexivity]. apply Nat.leb_le in E.
      rewrite (NL i PReady E), (NL i PIdle E). rewrite andb_false_r. simpl. rewrite andb_false_r. reflexivity.
  Qed.

  Lemma drain_terminal_from : forall fuel st, Inv st -> bound n m <= mu st + fuel ->
    terminal (drain fuel st) = true /\ Inv (drain fuel st).
  Proof.
    induction fuel as [|f IH]; intros st HI Hb; simpl.
    - split; [|assumption]. destruct (terminal st) eqn:T; [reflexivity|]. exfalso.
      destruct (deadlock_free_inv st HI T) as (l & _ & L2). unfold Pipe.enabled in L2.
      destruct (step l st) as [st'|] eqn:E; [|discriminate].
      pose proof (step_progress l st st' HI E). pose proof (mu_le st' (step_inv _ _ _ _ _ _ HI E)). lia.
    - destruct (pick st) as [l|] eqn:P.
      + destruct (pick_some_enabled st l P) as (st' & E).
        unfold Pipe.step_or_stay. rewrite E.
        pose proof (step_progress l st st' HI E). apply IH; [eapply step_inv; eassumption | lia].
      + split; [apply pick_none_terminal; assumption | assumption].
  Qed.

End SeqLive.
