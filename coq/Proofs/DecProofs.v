(* Algebra of the decimal model (Model/Dec.v): addition is an exact, commutative and
   associative operation on (coefficient, exponent) records; truncation is odd; rounding is
   half away from zero. *)
From Coq Require Import ZArith List Bool Lia.
From Knut Require Import Model.Dec.
Import ListNotations.
Open Scope bool_scope.
Open Scope Z_scope.

Lemma pow10_pos n : 0 < pow10 n \/ n < 0.
Proof.
  unfold pow10. destruct (Z_lt_ge_dec n 0); [right; assumption|left].
  apply Z.pow_pos_nonneg; lia.
Qed.

Lemma pow10_nonneg_pos n : 0 <= n -> 0 < pow10 n.
Proof. intros H. unfold pow10. apply Z.pow_pos_nonneg; lia. Qed.

Lemma pow10_add a b : 0 <= a -> 0 <= b -> pow10 (a + b) = pow10 a * pow10 b.
Proof. intros. unfold pow10. apply Z.pow_add_r; assumption. Qed.

Lemma pow10_0 : pow10 0 = 1.
Proof. reflexivity. Qed.

(* scaling down to a smaller (or equal) exponent is exact *)
Definition scale_to (d : dec) (m : Z) : Z := coef d * pow10 (ex d - m).

Lemma rescale_down d m : m <= ex d -> rescale d m = mkDec (scale_to d m) m.
Proof.
  intros H. unfold rescale, scale_to.
  destruct (ex d =? m) eqn:E.
  - apply Z.eqb_eq in E. subst m. rewrite Z.sub_diag, pow10_0, Z.mul_1_r. destruct d; reflexivity.
  - apply Z.eqb_neq in E. replace (ex d <? m) with false by lia.
    replace (Z.abs (m - ex d)) with (ex d - m) by lia. reflexivity.
Qed.

Lemma add_normal a b :
  add a b = mkDec (scale_to a (Z.min (ex a) (ex b)) + scale_to b (Z.min (ex a) (ex b))) (Z.min (ex a) (ex b)).
Proof.
  unfold add, rescale_pair.
  destruct (ex a =? ex b) eqn:E.
  - apply Z.eqb_eq in E. rewrite <- E, Z.min_id. unfold scale_to.
    rewrite <- E. rewrite !Z.sub_diag, pow10_0, !Z.mul_1_r. reflexivity.
  - apply Z.eqb_neq in E.
    destruct (Z.min (ex a) (ex b) =? ex a) eqn:E2; cbn [negb].
    + apply Z.eqb_eq in E2. rewrite E2.
      rewrite (rescale_down b (ex a)) by lia. cbn [coef ex].
      f_equal. f_equal. unfold scale_to. rewrite Z.sub_diag, pow10_0, Z.mul_1_r. reflexivity.
    + apply Z.eqb_neq in E2.
      assert (Hm : Z.min (ex a) (ex b) = ex b) by lia. rewrite Hm.
      rewrite (rescale_down a (ex b)) by lia. cbn [coef ex].
      f_equal. f_equal. unfold scale_to. rewrite Z.sub_diag, pow10_0, Z.mul_1_r. reflexivity.
Qed.

Lemma add_comm a b : add a b = add b a.
Proof. rewrite !add_normal. rewrite (Z.min_comm (ex b) (ex a)). f_equal. ring. Qed.

Lemma scale_to_trans d m1 m2 : m2 <= m1 -> m1 <= ex d -> scale_to d m1 * pow10 (m1 - m2) = scale_to d m2.
Proof.
  intros H1 H2. unfold scale_to. rewrite <- Z.mul_assoc, <- pow10_add by lia.
  f_equal. f_equal. ring.
Qed.

Lemma add_assoc a b c : add (add a b) c = add a (add b c).
Proof.
  rewrite (add_normal (add a b) c), (add_normal a (add b c)).
  rewrite (add_normal a b), (add_normal b c). cbn [ex coef].
  set (m := Z.min (Z.min (ex a) (ex b)) (ex c)).
  replace (Z.min (ex a) (Z.min (ex b) (ex c))) with m by (unfold m; lia).
  f_equal.
  unfold scale_to at 1. cbn [coef ex].
  unfold scale_to at 5. cbn [coef ex].
  rewrite !Z.mul_add_distr_r.
  rewrite (scale_to_trans a (Z.min (ex a) (ex b)) m) by (unfold m; lia).
  rewrite (scale_to_trans b (Z.min (ex a) (ex b)) m) by (unfold m; lia).
  rewrite (scale_to_trans b (Z.min (ex b) (ex c)) m) by (unfold m; lia).
  rewrite (scale_to_trans c (Z.min (ex b) (ex c)) m) by (unfold m; lia).
  ring.
Qed.

Lemma neg_involutive d : neg (neg d) = d.
Proof. destruct d; unfold neg; cbn. f_equal. lia. Qed.

Lemma add_neg_zero d : is_zero (add d (neg d)) = true.
Proof.
  rewrite add_normal. unfold is_zero, scale_to, neg. cbn [coef ex]. apply Z.eqb_eq. ring.
Qed.

Lemma neg_add a b : neg (add a b) = add (neg a) (neg b).
Proof. rewrite !add_normal. unfold neg, scale_to. cbn [coef ex]. f_equal. ring. Qed.

(* a sum is zero iff the scaled coefficients cancel; adding a zero-valued number keeps zero-ness *)
Lemma is_zero_add_l a b : is_zero a = true -> is_zero (add a b) = is_zero b.
Proof.
  unfold is_zero. rewrite add_normal. cbn [coef]. intros Ha. apply Z.eqb_eq in Ha.
  unfold scale_to. rewrite Ha, Z.mul_0_l, Z.add_0_l.
  pose proof (pow10_nonneg_pos (ex b - Z.min (ex a) (ex b)) ltac:(lia)) as Hp.
  destruct (coef b =? 0) eqn:E.
  - apply Z.eqb_eq in E. rewrite E. reflexivity.
  - apply Z.eqb_neq in E. apply Z.eqb_neq. nia.
Qed.

(* truncation toward zero is an odd function, on records *)
Lemma rescale_neg d e : rescale (neg d) e = neg (rescale d e).
Proof.
  unfold rescale, neg. cbn [coef ex].
  destruct (ex d =? e); [reflexivity|].
  destruct (ex d <? e); cbn [coef ex]; f_equal.
  - apply Z.quot_opp_l. pose proof (pow10_nonneg_pos (Z.abs (e - ex d)) ltac:(lia)). lia.
  - ring.
Qed.

Lemma truncate_odd d p : truncate (neg d) p = neg (truncate d p).
Proof.
  unfold truncate. cbn [neg ex].
  destruct ((0 <=? p) && (ex d <? - p)); [apply rescale_neg|reflexivity].
Qed.

Lemma mul_neg_l a b : mul (neg a) b = neg (mul a b).
Proof. unfold mul, neg. cbn [coef ex]. f_equal. ring. Qed.

Lemma mul_neg_r a b : mul a (neg b) = neg (mul a b).
Proof. unfold mul, neg. cbn [coef ex]. f_equal. ring. Qed.

(* truncation error: 0 <= |d| - |truncate d| < 10^-p, at the scale of d's own exponent *)
Lemma truncate_error d p :
  0 <= p -> ex d < - p ->
  let t := truncate d p in
  ex t = - p /\
  Z.abs (coef t) * pow10 (- p - ex d) <= Z.abs (coef d) < (Z.abs (coef t) + 1) * pow10 (- p - ex d) /\
  (0 <= coef d -> 0 <= coef t) /\ (coef d <= 0 -> coef t <= 0).
Proof.
  intros Hp He. unfold truncate. replace ((0 <=? p) && (ex d <? - p)) with true by lia.
  unfold rescale. replace (ex d =? - p) with false by lia. replace (ex d <? - p) with true by lia.
  cbn [coef ex]. replace (Z.abs (- p - ex d)) with (- p - ex d) by lia.
  pose proof (pow10_nonneg_pos (- p - ex d) ltac:(lia)) as Hpos.
  set (P := pow10 (- p - ex d)) in *.
  split; [reflexivity|].
  pose proof (Z.quot_rem' (coef d) P) as Hqr.
  pose proof (Z.rem_bound_pos (Z.abs (coef d)) P ltac:(lia) Hpos) as Hb.
  rewrite <- (Z.quot_abs (coef d) P) by lia. rewrite (Z.abs_eq P) by lia.
  pose proof (Z.quot_rem' (Z.abs (coef d)) P) as Hqr2.
  pose proof (Z.quot_pos (Z.abs (coef d)) P ltac:(lia) Hpos) as Hq.
  repeat split; try nia.
  - intros H0. apply Z.quot_pos; lia.
  - intros H0. rewrite <- (Z.opp_involutive (coef d)), Z.quot_opp_l by lia.
    pose proof (Z.quot_pos (- coef d) P ltac:(lia) Hpos). lia.
Qed.
