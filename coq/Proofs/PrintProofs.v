(* C09: proofs about printing and re-reading (Model/JPrinter.v, Model/ToModel.v). *)
From Coq Require Import ZArith List Bool Lia.
From Knut Require Import Model.Str Model.Dec Model.Date Model.Account Model.Ledger Model.Journal
     Model.Check Model.Pipeline Model.Table Model.Report Model.JPrinter Model.Cli Model.ToModel.
From Knut Require Import Spec.PrintSpec.
Import ListNotations.
Open Scope bool_scope.
Open Scope Z_scope.

(* ------------------------------------------------------------------ the witness of F2 *)
(* 2020-01-01 open Assets:A / open Assets:B / "t" Assets:A Assets:B 1 CHF /
   balance {Assets:A -1 CHF, Assets:B 1 CHF} / balance Assets:A -1 CHF *)
Definition w_A : account := [s_Assets; [65]].
Definition w_B : account := [s_Assets; [66]].
Definition w_CHF : commodity := [67; 72; 70].
Definition w_date : Z := of_civil 2020 1 1.
Definition w_journal : list sdirective :=
  [ SOpen w_date w_A; SOpen w_date w_B;
    STxn (mkStxn w_date [116] [mkBooking w_A w_B (mkDec 1 0) w_CHF] None None);
    SAssert w_date [mkBalance w_A (mkDec (-1) 0) w_CHF; mkBalance w_B (mkDec 1 0) w_CHF];
    SAssert w_date [mkBalance w_A (mkDec (-1) 0) w_CHF] ].

Definition text_of (r : cresult Str.str) : Str.str := match r with COk t => t | _ => [] end.
Definition w_text : Str.str := Eval vm_compute in text_of (print_cmd true w_journal).
Definition w_text_fixed : Str.str := Eval vm_compute in text_of (print_cmd_fixed true w_journal).

Lemma multi_assertion_refuted :
  exists ds text, accepted true ds /\ accepted false ds /\ printed (print_cmd true) ds text /\
                  printed (print_cmd false) ds text /\ reparse text = MErr e_syntax.
Proof.
  exists w_journal, w_text.
  split; [vm_compute; reflexivity|]. split; [vm_compute; reflexivity|].
  split; [vm_compute; reflexivity|]. split; vm_compute; reflexivity.
Qed.

(* the repaired printer on the same journal: its output is read back, accepted, and printed
   again byte for byte *)
Lemma multi_assertion_fixed_ok :
  printed (print_cmd_fixed true) w_journal w_text_fixed /\
  normal_form_b (print_cmd_fixed true) w_text_fixed = true.
Proof. split; vm_compute; reflexivity. Qed.

