(* C09: proofs about printing and re-reading (Model/JPrinter.v, Model/ToModel.v). *)
From Coq Require Import ZArith List Bool Lia.
From Knut Require Import Model.Bytes Model.Scanner Model.Parser.
From Knut Require Import Model.Str Model.Dec Model.Date Model.Account Model.Ledger Model.Journal
     Model.Check Model.Pipeline Model.Table Model.Report Model.JPrinter Model.Cli Model.ToModel.
From Knut Require Import Spec.PrintSpec.
From Knut Require Import Spec.TableSpec Proofs.CalendarSweep Proofs.CalendarProofs Proofs.DecStringProofs.
Import ListNotations.
Open Scope bool_scope.
Open Scope Z_scope.

(* ------------------------------------------------------------------ the witness of F2 *)
(* 2020-01-01 open Assets:A / open Assets:B / "t" Assets:A Assets:B 1 CHF /
   balance {Assets:A -1 CHF, Assets:B 1 CHF} / balance Assets:A -1 CHF *)
Definition w_A : account := [s_Assets; [65]].
Definition w_B : account := [s_Assets; [66]].
Definition w_CHF : commodity := [67; 72; 70].
Definition w_date : Z := of_civil 2020 1 1.
Definition w_journal : list sdirective :=
  [ SOpen w_date w_A; SOpen w_date w_B;
    STxn (mkStxn w_date [116] [mkBooking w_A w_B (mkDec 1 0) w_CHF] None None);
    SAssert w_date [mkBalance w_A (mkDec (-1) 0) w_CHF; mkBalance w_B (mkDec 1 0) w_CHF];
    SAssert w_date [mkBalance w_A (mkDec (-1) 0) w_CHF] ].

Definition text_of (r : cresult Str.str) : Str.str := match r with COk t => t | _ => [] end.
Definition w_text : Str.str := Eval vm_compute in text_of (print_cmd_pinned true w_journal).
Definition w_text_fixed : Str.str := Eval vm_compute in text_of (print_cmd true w_journal).

Lemma multi_assertion_refuted :
  exists ds text, accepted true ds /\ accepted false ds /\ printed (print_cmd_pinned true) ds text /\
                  printed (print_cmd_pinned false) ds text /\ reparse text = MErr e_syntax.
Proof.
  exists w_journal, w_text.
  split; [vm_compute; reflexivity|]. split; [vm_compute; reflexivity|].
  split; [vm_compute; reflexivity|]. split; vm_compute; reflexivity.
Qed.

(* the repaired printer on the same journal: its output is read back, accepted, and printed
   again byte for byte *)
Lemma multi_assertion_fixed_ok :
  printed (print_cmd true) w_journal w_text_fixed /\
  normal_form_b (print_cmd true) w_text_fixed = true.
Proof. split; vm_compute; reflexivity. Qed.

Ltac Zify.zify_post_hook ::= Z.div_mod_to_equations.

(* ------------------------------------------------------------------ dates *)
Lemma is_digit_48 k : 0 <= k <= 9 -> Dec.is_digit (48 + k) = true.
Proof. intros H. unfold Dec.is_digit. apply andb_true_iff. split; apply Z.leb_le; lia. Qed.

Lemma parse_format_date d : 0 <= year_of d <= 9999 -> parse_date_str (format_date d) = Some d.
Proof.
  intros Hy. unfold year_of in Hy. pose proof (civil_valid d) as Hv. pose proof (of_civil_civil d) as Ho.
  unfold format_date. destruct (civil d) as [[y m] dd]. cbn [fst] in Hy. cbn [valid_civil] in Hv.
  destruct Hv as (Hm & Hd). pose proof (dim_pos y m) as Hdim.
  unfold four_digits, two_digits. cbn [app]. unfold parse_date_str.
  rewrite !is_digit_48 by lia. rewrite Z.eqb_refl. cbn [andb].
  replace (1000 * (48 + y / 1000 - 48) + 100 * (48 + (y / 100) mod 10 - 48) + 10 * (48 + (y / 10) mod 10 - 48) + (48 + y mod 10 - 48)) with y by lia.
  replace (10 * (48 + m / 10 - 48) + (48 + m mod 10 - 48)) with m by lia.
  replace (10 * (48 + dd / 10 - 48) + (48 + dd mod 10 - 48)) with dd by lia.
  unfold parse_ymd.
  replace (1 <=? m) with true by (symmetry; apply Z.leb_le; lia).
  replace (m <=? 12) with true by (symmetry; apply Z.leb_le; lia).
  replace (1 <=? dd) with true by (symmetry; apply Z.leb_le; lia).
  replace (dd <=? days_in_month y m) with true by (symmetry; apply Z.leb_le; lia).
  cbn [andb]. now rewrite Ho.
Qed.

(* ------------------------------------------------------------------ accounts *)
Definition seg_ok (s : Str.str) : Prop := ~ In colon s.

Lemma split_colon_aux_run s r cur : seg_ok s ->
  split_colon_aux (s ++ r) cur = split_colon_aux r (rev s ++ cur).
Proof.
  revert cur. induction s as [|c s IH]; intros cur Hs; [reflexivity|].
  cbn [app split_colon_aux].
  destruct (Z.eqb_spec c colon) as [E|E]; [exfalso; apply Hs; left; now symmetry|].
  rewrite IH by (intros Hin; apply Hs; now right).
  cbn [rev]. now rewrite <- app_assoc.
Qed.

Lemma acc_name_roundtrip (a : account) : a <> [] -> Forall seg_ok a -> acc_of_name (acc_name a) = a.
Proof.
  unfold acc_of_name, acc_name, split_colon.
  induction a as [|x rest IH]; intros Hne Hok; [congruence|].
  inversion Hok as [|? ? Hx Hrest]; subst.
  destruct rest as [|y rest'].
  - cbn [join]. rewrite <- (app_nil_r x) at 1. rewrite split_colon_aux_run by assumption.
    cbn [split_colon_aux]. now rewrite app_nil_r, rev_involutive.
  - change (join [colon] (x :: y :: rest')) with (x ++ [colon] ++ join [colon] (y :: rest')).
    rewrite split_colon_aux_run by assumption. cbn [app split_colon_aux].
    rewrite Z.eqb_refl, app_nil_r, rev_involutive. f_equal.
    apply IH; [discriminate|assumption].
Qed.


(* ------------------------------------------------------------------ posting pairs *)
(* what pair_build returns on valid accounts: the debit half carries the non-negative quantity,
   the credit half is its mirror image; values are the nil decimal before Valuate *)
Definition canonical_pair (p1 p2 : posting) : Prop :=
  p1 = mkPosting (p_other p2) (p_acc p2) (p_com p2) (neg (p_qty p2)) dec_nil /\
  is_neg (p_qty p2) = false /\ p_val p2 = dec_nil /\
  valid_account (p_acc p2) = true /\ valid_account (p_other p2) = true.

Inductive canonical : list posting -> Prop :=
| canonical_nil : canonical []
| canonical_cons p1 p2 rest : canonical_pair p1 p2 -> canonical rest -> canonical (p1 :: p2 :: rest).

Lemma canonical_app l1 l2 : canonical l1 -> canonical l2 -> canonical (l1 ++ l2).
Proof. induction 1; intros H2; cbn; [assumption|constructor; auto]. Qed.

Lemma pair_build_canonical cr db com q :
  valid_account cr = true -> valid_account db = true -> canonical (pair_build cr db com q dec_nil).
Proof.
  intros Hc Hd. unfold pair_build. change (is_neg dec_nil) with false. rewrite andb_false_r, orb_false_r.
  destruct (is_neg q) eqn:E; constructor; try constructor;
    unfold canonical_pair; cbn [p_other p_acc p_com p_qty p_val]; repeat split; try reflexivity; try assumption.
  unfold is_neg, neg in *. cbn [coef]. apply Z.ltb_lt in E. apply Z.ltb_ge. lia.
Qed.

(* printing the debit half and reading it as a booking reproduces both halves *)
Lemma pair_build_idem p1 p2 : canonical_pair p1 p2 ->
  pair_build (p_other p2) (p_acc p2) (p_com p2) (p_qty p2) dec_nil = [p1; p2].
Proof.
  intros (H1 & H2 & H3 & _). unfold pair_build. rewrite H2. change (is_neg dec_nil) with false.
  rewrite andb_false_r. cbn [orb]. subst p1. destruct p2 as [a o c q v]. cbn in *. subst v.
  reflexivity.
Qed.

(* the booking line printPosting writes for a (debit) posting: "Other Account Quantity Commodity" *)
Definition booking_of (p : posting) : booking := mkBooking (p_other p) (p_acc p) (p_qty p) (p_com p).

(* the transaction that the printed form of [t] denotes: its date and description, one booking per
   printed posting, the performance targets, no accrual *)
Definition stxn_of_txn (t : txn) : stxn :=
  mkStxn (t_date t) (t_desc t) (map booking_of (odd_postings (t_postings t))) (t_targets t) None.

Lemma check_account_ok a : valid_account a = true -> check_account a = MOk tt.
Proof. intros H. unfold check_account. now rewrite H. Qed.

Lemma postings_create_printed ps : canonical ps ->
  postings_create (map booking_of (odd_postings ps)) = MOk ps.
Proof.
  induction 1 as [|p1 p2 rest Hp Hr IH]; [reflexivity|].
  cbn [odd_postings map postings_create booking_of b_credit b_debit b_com b_qty].
  destruct Hp as (H1 & H2 & H3 & H4 & H5).
  rewrite (check_account_ok _ H5), (check_account_ok _ H4). cbn [mbind]. rewrite IH. cbn [mbind].
  rewrite (pair_build_idem p1 p2) by (repeat split; assumption). reflexivity.
Qed.

Lemma txn_create_printed t : canonical (t_postings t) -> txn_create (stxn_of_txn t) = MOk [t].
Proof.
  intros H. unfold txn_create, txn_create_gen, stxn_of_txn. cbn [st_bookings st_date st_desc st_targets st_accrual].
  rewrite postings_create_printed by assumption. cbn [mbind]. destruct t; reflexivity.
Qed.

(* every transaction the model creates is canonical *)
Lemma postings_create_canonical bs ps : postings_create bs = MOk ps -> canonical ps.
Proof.
  revert ps. induction bs as [|b bs IH]; intros ps H; cbn in H.
  - inversion H. constructor.
  - unfold check_account in H.
    destruct (valid_account (b_credit b)) eqn:Ec; try discriminate. cbn in H.
    destruct (valid_account (b_debit b)) eqn:Ed; try discriminate. cbn in H.
    destruct (postings_create bs) as [ps'| |]; try discriminate. cbn in H. inversion H.
    apply canonical_app; [apply pair_build_canonical; assumption|apply IH; reflexivity].
Qed.

Definition txn_canonical (t : txn) : Prop := canonical (t_postings t).

Lemma canonical_accounts ps p : canonical ps -> In p ps -> valid_account (p_acc p) = true.
Proof.
  induction 1 as [|p1 p2 rest Hp Hr IH]; intros Hin; [contradiction|].
  destruct Hp as (H1 & H2 & H3 & H4 & H5).
  destruct Hin as [<-|[<-|Hin]]; [subst p1; exact H5|exact H4|auto].
Qed.

Lemma accrual_parts_canonical desc tg acc p amount rem n i ends :
  valid_account acc = true -> valid_account (p_acc p) = true ->
  Forall txn_canonical (accrual_parts desc tg acc p amount rem n i ends).
Proof.
  intros Ha Hp. revert i. induction ends as [|dt rest IH]; intros i; cbn [accrual_parts]; constructor.
  - unfold txn_canonical. cbn [t_postings]. now apply pair_build_canonical.
  - apply IH.
Qed.

Lemma expand_posting_canonical rebook t ac p l :
  valid_account (ac_account ac) = true -> valid_account (p_acc p) = true ->
  expand_posting_gen rebook t ac p = MOk l -> Forall txn_canonical l.
Proof.
  intros Ha Hp. unfold expand_posting_gen.
  set (r1 := if rebook (p_acc p) then _ else _).
  assert (Hr1 : Forall txn_canonical r1).
  { unfold r1. destruct (rebook (p_acc p)); constructor; [|constructor].
    unfold txn_canonical. cbn [t_postings]. now apply pair_build_canonical. }
  destruct (is_IE (p_acc p)).
  - destruct (new_partition _ _ _); try discriminate.
    destruct (quo_rem _ _ _) as [[amount rem]|]; try discriminate.
    intros H. inversion H. apply Forall_app. split; [exact Hr1|now apply accrual_parts_canonical].
  - intros H. inversion H. subst. exact Hr1.
Qed.

Lemma expand_postings_canonical rebook t ac ps l :
  valid_account (ac_account ac) = true -> (forall p, In p ps -> valid_account (p_acc p) = true) ->
  expand_postings_gen rebook t ac ps = MOk l -> Forall txn_canonical l.
Proof.
  intros Ha. revert l. induction ps as [|p ps IH]; intros l Hps H; cbn in H.
  - inversion H. constructor.
  - destruct (expand_posting_gen rebook t ac p) as [l1| |] eqn:E1; try discriminate. cbn in H.
    destruct (expand_postings_gen rebook t ac ps) as [l2| |] eqn:E2; try discriminate. cbn in H. inversion H.
    apply Forall_app. split.
    + eapply expand_posting_canonical; [exact Ha| |exact E1]. apply Hps. now left.
    + apply IH; [|reflexivity]. intros q Hq. apply Hps. now right.
Qed.

Lemma txn_create_gen_canonical rebook s l : txn_create_gen rebook s = MOk l -> Forall txn_canonical l.
Proof.
  unfold txn_create_gen. destruct (postings_create (st_bookings s)) as [ps| |] eqn:E; try discriminate. cbn [mbind].
  pose proof (postings_create_canonical _ _ E) as Hc.
  destruct (st_accrual s) as [ac|].
  - unfold expand_gen, check_account. destruct (valid_account (ac_account ac)) eqn:Ea; try discriminate. cbn [mbind].
    intros H. eapply expand_postings_canonical; [exact Ea| |exact H].
    cbn [t_postings]. intros p Hp. eapply canonical_accounts; eassumption.
  - intros H. inversion H. constructor; [exact Hc|constructor].
Qed.

(* Layer 1, transactions: every transaction knut's model layer creates (accrual expansions
   included) is reproduced exactly -- both posting halves, description, date, targets -- by
   creating a transaction from what the printer writes for it: one booking line per second
   posting, "Other Account Quantity Commodity", the @performance targets, no @accrue. *)
Theorem txn_print_denotes s ts t :
  txn_create s = MOk ts -> In t ts -> txn_create (stxn_of_txn t) = MOk [t].
Proof.
  intros H Hin. apply txn_create_printed.
  exact (proj1 (Forall_forall _ _) (txn_create_gen_canonical _ _ _ H) t Hin).
Qed.

(* the other directives carry no normalisation: what is printed denotes the directive itself *)
Definition sdir_of_dir (d : directive) : sdirective :=
  match d with
  | DPrice dt c p t => SPrice dt c p t
  | DOpen dt a => SOpen dt a
  | DClose dt a => SClose dt a
  | DAssert dt bs => SAssert dt bs
  | DTxn t => STxn (stxn_of_txn t)
  end.

Theorem directive_print_denotes s ds d :
  parse_directive s = MOk ds -> In d ds -> parse_directive (sdir_of_dir d) = MOk [d].
Proof.
  destruct s as [dt c p t|dt a|dt a|dt bs|st|]; cbn [parse_directive].
  - intros H Hin. inversion H. subst ds. destruct Hin as [<-|[]]. reflexivity.
  - destruct (check_account a) eqn:E; cbn [mbind]; try discriminate.
    intros H Hin. inversion H. subst ds. destruct Hin as [<-|[]]. cbn [sdir_of_dir parse_directive].
    now rewrite E.
  - destruct (check_account a) eqn:E; cbn [mbind]; try discriminate.
    intros H Hin. inversion H. subst ds. destruct Hin as [<-|[]]. cbn [sdir_of_dir parse_directive].
    now rewrite E.
  - destruct (check_balances bs) eqn:E; cbn [mbind]; try discriminate.
    intros H Hin. inversion H. subst ds. destruct Hin as [<-|[]]. cbn [sdir_of_dir parse_directive].
    now rewrite E.
  - destruct (txn_create st) as [ts| |] eqn:E; cbn [mbind]; try discriminate.
    intros H Hin. inversion H. subst ds. apply in_map_iff in Hin. destruct Hin as (t & <- & Ht).
    cbn [sdir_of_dir parse_directive]. now rewrite (txn_print_denotes st ts t E Ht).
  - intros H Hin. inversion H. subst ds. contradiction.
Qed.


Lemma parse_directives_each ss ds :
  parse_directives ss = MOk ds -> forall d, In d ds -> parse_directive (sdir_of_dir d) = MOk [d].
Proof.
  revert ds. induction ss as [|s ss IH]; intros ds H d Hin; cbn [parse_directives] in H.
  - inversion H. subst ds. contradiction.
  - destruct (parse_directive s) as [l1| |] eqn:E1; cbn [mbind] in H; try discriminate.
    destruct (parse_directives ss) as [l2| |] eqn:E2; cbn [mbind] in H; try discriminate.
    inversion H. subst ds. apply in_app_or in Hin. destruct Hin as [Hin|Hin].
    + eapply directive_print_denotes; eassumption.
    + eapply IH; [reflexivity|assumption].
Qed.

Lemma parse_directives_denoted ds :
  (forall d, In d ds -> parse_directive (sdir_of_dir d) = MOk [d]) ->
  parse_directives (map sdir_of_dir ds) = MOk ds.
Proof.
  induction ds as [|d ds IH]; intros H; [reflexivity|].
  cbn [map parse_directives]. rewrite (H d (or_introl eq_refl)). cbn [mbind].
  rewrite IH by (intros x Hx; apply H; now right). reflexivity.
Qed.

(* the directives a journal denotes after knut's model layer: one syntax-level directive per model
   directive, in the same order (accruals expanded, posting pairs normalised, no annotation but
   the performance targets) *)
Definition denote (ss : list sdirective) : list sdirective :=
  match parse_directives ss with MOk ds => map sdir_of_dir ds | _ => [] end.

Theorem denote_fixpoint ss ds :
  parse_directives ss = MOk ds -> parse_directives (denote ss) = MOk ds.
Proof.
  intros H. unfold denote. rewrite H. apply parse_directives_denoted. exact (parse_directives_each ss ds H).
Qed.

Lemma denote_load ss ds : parse_directives ss = MOk ds -> load (denote ss) = load ss.
Proof. intros H. unfold load. now rewrite (denote_fixpoint ss ds H), H. Qed.

(* at the model level: replacing a loadable journal by the directives it denotes changes nothing
   for check, print (either printer) or any balance report -- the same bytes *)
Theorem denote_same_commands ss ds : parse_directives ss = MOk ds ->
  (forall l, check_cmd_current l (denote ss) = check_cmd_current l ss) /\
  (forall l, print_cmd_pinned l (denote ss) = print_cmd_pinned l ss) /\
  (forall l, print_cmd l (denote ss) = print_cmd l ss) /\
  (forall cfg, balance_csv cfg (denote ss) = balance_csv cfg ss) /\
  (forall cfg tc, balance_text cfg tc (denote ss) = balance_text cfg tc ss).
Proof.
  intros H. pose proof (denote_load ss ds H) as HL.
  repeat split; intros.
  - unfold check_cmd_current. now rewrite HL.
  - unfold print_cmd_pinned. now rewrite HL.
  - unfold print_cmd. now rewrite HL.
  - unfold balance_csv, balance_table, balance_report. now rewrite HL.
  - unfold balance_text, balance_table, balance_report. now rewrite HL.
Qed.

(* denote is idempotent: a normal form *)
Theorem denote_idem ss ds : parse_directives ss = MOk ds -> denote (denote ss) = denote ss.
Proof.
  intros H. unfold denote at 1. rewrite (denote_fixpoint ss ds H). unfold denote. now rewrite H.
Qed.

(* an accepted journal loads *)
Lemma accepted_loads l ss : accepted l ss -> exists ds, parse_directives ss = MOk ds.
Proof.
  unfold accepted, check_cmd_current, load. destruct (parse_directives ss) as [ds| |]; cbn; try discriminate.
  intros _. now exists ds.
Qed.

(* ------------------------------------------------------------------ the two printers *)
Fixpoint multi_then_more (l : list (list balance)) : bool :=
  match l with
  | [] => false
  | a :: rest =>
    (match a, rest with
     | [_], _ => false
     | _, [] => false
     | _, _ => true
     end) || multi_then_more rest
  end.

Lemma print_asserts_same dt l : multi_then_more l = false ->
  print_asserts dt l = concat (map (fun a => print_assertion dt a ++ [10]) l).
Proof.
  induction l as [|a rest IH]; intros H; [reflexivity|].
  cbn [multi_then_more] in H. apply orb_false_iff in H. destruct H as [H1 H2].
  cbn [print_asserts map concat]. rewrite <- app_assoc. f_equal. f_equal.
  destruct rest as [|b rest']; [reflexivity|].
  rewrite <- (IH H2).
  destruct a as [|x [|y a']]; try discriminate. reflexivity.
Qed.

Definition no_multi_then_more (days : list day) : Prop :=
  Forall (fun d => multi_then_more (d_asserts d) = false) days.

Lemma print_day_fixed_same pad d : multi_then_more (d_asserts d) = false ->
  print_day pad d = print_day_pinned pad d.
Proof. intros H. unfold print_day, print_day_pinned. now rewrite print_asserts_same. Qed.

Lemma print_journal_fixed_same days : no_multi_then_more days ->
  print_journal days = print_journal_pinned days.
Proof.
  intros H. unfold print_journal, print_journal_pinned. cbv zeta. f_equal.
  apply map_ext_in. intros d Hd. apply print_day_fixed_same.
  unfold sort_days in Hd. apply in_map_iff in Hd. destruct Hd as (d0 & <- & Hd0).
  cbn [set_txns d_asserts]. exact (proj1 (Forall_forall _ _) H d0 Hd0).
Qed.

(* the pinned and the repaired print command agree on every journal in which no multi-balance
   assertion is followed by another assertion of the same day *)
Lemma print_cmd_fixed_same l ds b :
  load ds = COk b -> no_multi_then_more (b_days b) -> print_cmd l ds = print_cmd_pinned l ds.
Proof.
  intros Hl Hn. unfold print_cmd, print_cmd_pinned. rewrite Hl. cbn [cbind].
  destruct (run_stage (check_proc_current l) check_init (b_days b)); cbn [cbind]; try reflexivity.
  now rewrite print_journal_fixed_same.
Qed.

(* print checks first: what is printed was accepted *)
Lemma printed_accepted l ds text : printed (print_cmd_pinned l) ds text -> accepted l ds.
Proof.
  unfold printed, accepted, print_cmd_pinned, check_cmd_current. destruct (load ds); cbn [cbind]; try discriminate.
  destruct (run_stage (check_proc_current l) check_init (b_days a)); cbn [cbind]; try discriminate. reflexivity.
Qed.

Lemma printed_fixed_accepted l ds text : printed (print_cmd l) ds text -> accepted l ds.
Proof.
  unfold printed, accepted, print_cmd, check_cmd_current. destruct (load ds); cbn [cbind]; try discriminate.
  destruct (run_stage (check_proc_current l) check_init (b_days a)); cbn [cbind]; try discriminate. reflexivity.
Qed.

(* ------------------------------------------------------------------ a worked example *)
(* a journal with a Unicode account name, a two-line description, an accrual, performance targets,
   a negative amount (normalised by swapping), trailing zeros, a multi-balance assertion followed by
   another assertion, a close *)
Definition x_bank : account := [s_Assets; [66;195;164;110;107]].          (* Assets:Bänk *)
Definition x_acc : account := [s_Assets; [65;99;99]].
Definition x_rent : account := [s_Expenses; [82;101;110;116]].
Definition x_job : account := [s_Income; [74;111;98]].
Definition x_journal : list sdirective :=
  [ SPrice (of_civil 2019 12 30) [85;83;68] (mkDec 9150 (-4)) w_CHF;
    SOpen (of_civil 2019 12 31) x_bank; SOpen (of_civil 2019 12 31) x_acc;
    SOpen (of_civil 2019 12 31) x_rent; SOpen (of_civil 2019 12 31) x_job;
    STxn (mkStxn (of_civil 2020 1 15) [114;101;110;116;10;50] [mkBooking x_bank x_rent (mkDec 30050 (-2)) w_CHF]
                 (Some [w_CHF; [85;83;68]]) (Some (mkAccrual Monthly (of_civil 2020 1 1) (of_civil 2020 3 31) x_acc)));
    STxn (mkStxn (of_civil 2020 1 20) [112;97;121] [mkBooking x_job x_bank (mkDec (-1010) (-2)) w_CHF] (Some []) None);
    SAssert (of_civil 2020 1 20) [mkBalance x_bank (mkDec (-31060) (-2)) w_CHF; mkBalance x_bank (mkDec (-3106) (-1)) w_CHF];
    SAssert (of_civil 2020 1 20) [mkBalance x_bank (mkDec (-3106) (-1)) w_CHF];
    SAssert (of_civil 2020 3 31) [mkBalance x_acc (mkDec 0 (-2)) w_CHF];
    SClose (of_civil 2020 3 31) x_acc ].

Definition x_text : Str.str := Eval vm_compute in text_of (print_cmd true x_journal).
Definition x_cfg : balance_cfg :=
  mkBalanceCfg 0 (of_civil 2020 12 31) Monthly 0 false false None true [] [] [] [] [] true.

Lemma example_roundtrip :
  accepted true x_journal /\ printed (print_cmd true) x_journal x_text /\
  normal_form_b (print_cmd true) x_text = true /\
  same_report_b x_cfg x_journal x_text = true /\
  normal_form_b (print_cmd_pinned true) (text_of (print_cmd_pinned true x_journal)) = false.
Proof. repeat split; vm_compute; reflexivity. Qed.

(* ------------------------------------------------------------------ leaves through ToModel *)
(* what ToModel extracts from a range whose bytes are what the printer wrote *)
Lemma get_date_printed t r d :
  ext t r = format_date d -> 0 <= year_of d <= 9999 -> get_date t r = MOk d.
Proof. intros H Hy. unfold get_date. now rewrite H, parse_format_date. Qed.

Lemma get_account_printed t a x :
  ext t (SynM.acc_range a) = acc_name x -> x <> [] -> Forall seg_ok x -> valid_account x = true ->
  get_account t a = MOk x.
Proof.
  intros H Hne Hseg Hv. unfold get_account. rewrite H, acc_name_roundtrip by assumption.
  now rewrite (check_account_ok _ Hv).
Qed.

Lemma get_dec_printed t r q :
  ext t r = to_string q -> exists x, get_dec t r = MOk x /\ dec_eqv x q.
Proof.
  intros H. destruct (of_to_string q) as (x & Hx & He). exists x. split; [|exact He].
  unfold get_dec. now rewrite H, Hx.
Qed.

(* ------------------------------------------------------------------ journal level, model side *)
Lemma accepted_denote l ss : accepted l ss -> accepted l (denote ss).
Proof.
  intros H. destruct (accepted_loads l ss H) as [ds Hds].
  unfold accepted. rewrite (proj1 (denote_same_commands ss ds Hds) l). exact H.
Qed.

Lemma printed_denote l ss text :
  (printed (print_cmd_pinned l) ss text -> printed (print_cmd_pinned l) (denote ss) text) /\
  (printed (print_cmd l) ss text -> printed (print_cmd l) (denote ss) text).
Proof.
  split; intros H.
  - destruct (accepted_loads l ss (printed_accepted l ss text H)) as [ds Hds].
    unfold printed. rewrite (proj1 (proj2 (denote_same_commands ss ds Hds)) l). exact H.
  - destruct (accepted_loads l ss (printed_fixed_accepted l ss text H)) as [ds Hds].
    unfold printed. rewrite (proj1 (proj2 (proj2 (denote_same_commands ss ds Hds))) l). exact H.
Qed.

Lemma reports_denote l ss :
  accepted l ss ->
  (forall cfg, balance_csv cfg (denote ss) = balance_csv cfg ss) /\
  (forall cfg tc, balance_text cfg tc (denote ss) = balance_text cfg tc ss).
Proof.
  intros H. destruct (accepted_loads l ss H) as [ds Hds].
  exact (proj2 (proj2 (proj2 (denote_same_commands ss ds Hds)))).
Qed.

Lemma denote_idem_accepted l ss : accepted l ss -> denote (denote ss) = denote ss.
Proof. intros H. destruct (accepted_loads l ss H) as [ds Hds]. exact (denote_idem ss ds Hds). Qed.

Lemma printed_accepted_both l ds text :
  (printed (print_cmd_pinned l) ds text -> accepted l ds) /\
  (printed (print_cmd l) ds text -> accepted l ds).
Proof. split; [apply printed_accepted|apply printed_fixed_accepted]. Qed.
