(* The stable insertion sort of Model/Str.v ([sort_by]) for a comparator that is a strict weak
   order: the result is ordered, a permutation, and keeps every class of equivalent elements
   in its original order; it is the only such list.  Consequences: the result depends only on
   the subsequences of equivalent elements (hence not on the order in which inequivalent
   elements arrive), sorting an ordered list changes nothing, and sorting commutes with
   selecting a part of the list. *)
From Coq Require Import ZArith List Bool Lia Permutation Sorting.Sorted.
From Knut Require Import Model.Str Proofs.StrProofs.
Import ListNotations.

Lemma sort_by_snoc {A} (lt : A -> A -> bool) l x : sort_by lt (l ++ [x]) = insert_sorted lt x (sort_by lt l).
Proof. unfold sort_by. rewrite rev_app_distr. reflexivity. Qed.

Lemma sort_by_nil {A} (lt : A -> A -> bool) : sort_by lt [] = [].
Proof. reflexivity. Qed.

(* a comparator may be replaced by one that agrees with it on the elements of the list *)
Lemma insert_sorted_ext_in {A} (lt lt' : A -> A -> bool) x l :
  (forall y, In y l -> lt x y = lt' x y) -> insert_sorted lt x l = insert_sorted lt' x l.
Proof.
  induction l as [|y l IH]; intros H; cbn; [reflexivity|].
  rewrite <- (H y (or_introl eq_refl)). destruct (lt x y); [reflexivity|].
  f_equal. apply IH. intros z Hz. apply H. right. exact Hz.
Qed.

Lemma sort_by_ext_in {A} (lt lt' : A -> A -> bool) l :
  (forall x y, In x l -> In y l -> lt x y = lt' x y) -> sort_by lt l = sort_by lt' l.
Proof.
  induction l as [|x l IH] using rev_ind; intros H; [reflexivity|].
  rewrite !sort_by_snoc. rewrite IH.
  - apply insert_sorted_ext_in. intros y Hy. apply H.
    + apply in_or_app. right. left. reflexivity.
    + apply in_or_app. left. eapply Permutation_in; [apply sort_by_perm|exact Hy].
  - intros a b Ha Hb. apply H; apply in_or_app; left; assumption.
Qed.

(* equal lists of pairwise equal elements *)
Lemma perm_all_equal {A} (m1 m2 : list A) :
  Permutation m1 m2 -> (forall x y, In x m1 -> In y m1 -> x = y) -> m1 = m2.
Proof.
  intros P. induction P as [|x l l' P IH|x y l|l l' l'' P1 IH1 P2 IH2]; intros H.
  - reflexivity.
  - f_equal. apply IH. intros a b Ha Hb. apply H; right; assumption.
  - rewrite (H x y); [reflexivity|right; left; reflexivity|left; reflexivity].
  - rewrite IH1 by exact H. apply IH2. intros a b Ha Hb.
    apply H; eapply Permutation_in; try (apply Permutation_sym; exact P1); assumption.
Qed.

Lemma perm_filter' {A} (f : A -> bool) l1 l2 : Permutation l1 l2 -> Permutation (filter f l1) (filter f l2).
Proof.
  intros P. induction P as [|x l l' P IH|x y l|l l' l'' P1 IH1 P2 IH2]; cbn.
  - constructor.
  - destruct (f x); [constructor|]; exact IH.
  - destruct (f x), (f y); try reflexivity. apply perm_swap.
  - eapply perm_trans; eassumption.
Qed.

Section StableSort.
  Context {A : Type} (lt : A -> A -> bool).
  Hypothesis lt_irrefl : forall a, lt a a = false.
  Hypothesis lt_trans : forall a b c, lt a b = true -> lt b c = true -> lt a c = true.
  Hypothesis lt_cotrans : forall a b c, lt a b = true -> lt a c = true \/ lt c b = true.

  (* neither is before the other *)
  Definition eqv (a b : A) : bool := negb (lt a b) && negb (lt b a).

  (* no element is before an earlier one *)
  Definition sorted (l : list A) : Prop := StronglySorted (fun x y => lt y x = false) l.

  Lemma lt_asym a b : lt a b = true -> lt b a = false.
  Proof.
    intros H. destruct (lt b a) eqn:E; [|reflexivity].
    pose proof (lt_trans _ _ _ H E) as H1. pose proof (lt_irrefl a) as H2. congruence.
  Qed.

  Lemma eqv_refl a : eqv a a = true.
  Proof. unfold eqv. rewrite lt_irrefl. reflexivity. Qed.

  Lemma eqv_sym a b : eqv a b = eqv b a.
  Proof. unfold eqv. apply andb_comm. Qed.

  Lemma eqv_spec a b : eqv a b = true <-> lt a b = false /\ lt b a = false.
  Proof. unfold eqv. rewrite andb_true_iff, !negb_true_iff. reflexivity. Qed.

  (* a < y and not z < y: a < z *)
  Lemma lt_ge a y z : lt a y = true -> lt z y = false -> lt a z = true.
  Proof. intros H1 H2. destruct (lt_cotrans _ _ z H1) as [H|H]; [exact H|congruence]. Qed.

  Lemma eqv_lt_l a b c : eqv a b = true -> lt a c = lt b c.
  Proof.
    intros H. apply eqv_spec in H. destruct H as [H1 H2].
    destruct (lt a c) eqn:E1; destruct (lt b c) eqn:E2; try reflexivity.
    - destruct (lt_cotrans _ _ b E1) as [H|H]; congruence.
    - destruct (lt_cotrans _ _ a E2) as [H|H]; congruence.
  Qed.

  Lemma eqv_lt_r a b c : eqv a b = true -> lt c a = lt c b.
  Proof.
    intros H. apply eqv_spec in H. destruct H as [H1 H2].
    destruct (lt c a) eqn:E1; destruct (lt c b) eqn:E2; try reflexivity.
    - destruct (lt_cotrans _ _ b E1) as [H|H]; congruence.
    - destruct (lt_cotrans _ _ a E2) as [H|H]; congruence.
  Qed.

  Lemma eqv_trans a b c : eqv a b = true -> eqv b c = true -> eqv a c = true.
  Proof.
    intros H1 H2. unfold eqv. rewrite (eqv_lt_l _ _ c H1), (eqv_lt_r _ _ c H1).
    exact H2.
  Qed.

  (* ---------------------------------------------------------------- ordered *)

  Lemma insert_sorted_sorted x l : sorted l -> sorted (insert_sorted lt x l).
  Proof.
    unfold sorted. induction l as [|y l IH]; intros Hs; cbn.
    - constructor; constructor.
    - inversion Hs as [|? ? Hs' Hall]; subst. destruct (lt x y) eqn:E.
      + constructor; [exact Hs|]. constructor; [apply lt_asym; exact E|].
        rewrite Forall_forall in *. intros z Hz. specialize (Hall z Hz).
        destruct (lt z x) eqn:E2; [|reflexivity].
        rewrite (lt_trans _ _ _ E2 E) in Hall. discriminate.
      + constructor; [apply IH; exact Hs'|].
        eapply Permutation_Forall; [apply Permutation_sym; apply insert_sorted_perm|].
        constructor; assumption.
  Qed.

  Lemma sort_by_sorted l : sorted (sort_by lt l).
  Proof.
    induction l as [|x l IH] using rev_ind; [constructor|].
    rewrite sort_by_snoc. apply insert_sorted_sorted. exact IH.
  Qed.

  (* ---------------------------------------------------------------- stable *)

  Lemma filter_eqv_above a x l :
    Forall (fun z => lt x z = true) l -> eqv a x = true -> filter (eqv a) l = [].
  Proof.
    intros Hall He. induction Hall as [|z l Hz Hall IH]; cbn; [reflexivity|].
    replace (eqv a z) with false; [exact IH|]. symmetry.
    destruct (eqv a z) eqn:E; [|reflexivity].
    rewrite eqv_sym in He. pose proof (eqv_trans _ _ _ He E) as H. apply eqv_spec in H.
    destruct H; congruence.
  Qed.

  Lemma sorted_above x y l : sorted (y :: l) -> lt x y = true -> Forall (fun z => lt x z = true) (y :: l).
  Proof.
    intros Hs E. inversion Hs as [|? ? Hs' Hall]; subst. constructor; [exact E|].
    rewrite Forall_forall in *. intros z Hz. apply (lt_ge _ y); [exact E|apply Hall; exact Hz].
  Qed.

  Lemma insert_sorted_filter a x l :
    sorted l ->
    filter (eqv a) (insert_sorted lt x l) = filter (eqv a) l ++ (if eqv a x then [x] else []).
  Proof.
    induction l as [|y l IH]; intros Hs.
    - cbn. destruct (eqv a x); reflexivity.
    - cbn [insert_sorted]. destruct (lt x y) eqn:E.
      + change (filter (eqv a) (x :: y :: l))
          with (if eqv a x then x :: filter (eqv a) (y :: l) else filter (eqv a) (y :: l)).
        destruct (eqv a x) eqn:Ex.
        * rewrite (filter_eqv_above a x (y :: l)); [reflexivity| |exact Ex].
          apply sorted_above; assumption.
        * rewrite app_nil_r. reflexivity.
      + inversion Hs as [|? ? Hs' Hall]; subst. cbn [filter]. rewrite (IH Hs').
        destruct (eqv a y); reflexivity.
  Qed.

  (* the elements equivalent to [a] come out in the order in which they went in *)
  Lemma sort_by_stable a l : filter (eqv a) (sort_by lt l) = filter (eqv a) l.
  Proof.
    induction l as [|x l IH] using rev_ind; [reflexivity|].
    rewrite sort_by_snoc, insert_sorted_filter by apply sort_by_sorted.
    rewrite IH, filter_app. reflexivity.
  Qed.

  (* ---------------------------------------------------------------- unique *)

  Lemma sorted_head_filter x l : sorted (x :: l) -> forall y, lt y x = true -> filter (eqv y) (x :: l) = [].
  Proof.
    intros Hs y E. apply (filter_eqv_above y y); [|apply eqv_refl].
    apply sorted_above; assumption.
  Qed.

  Lemma sorted_unique l1 : forall l2,
    sorted l1 -> sorted l2 -> (forall a, filter (eqv a) l1 = filter (eqv a) l2) -> l1 = l2.
  Proof.
    induction l1 as [|x t1 IH]; intros [|y t2] S1 S2 H.
    - reflexivity.
    - specialize (H y). cbn in H. rewrite eqv_refl in H. discriminate.
    - specialize (H x). cbn in H. rewrite eqv_refl in H. discriminate.
    - destruct (eqv x y) eqn:Exy.
      + assert (x = y).
        { pose proof (H x) as Hx. cbn in Hx. rewrite eqv_refl, Exy in Hx. congruence. }
        subst y. f_equal. apply IH.
        * inversion S1; assumption.
        * inversion S2; assumption.
        * intros a. specialize (H a). cbn in H. destruct (eqv a x); congruence.
      + exfalso. unfold eqv in Exy. apply andb_false_iff in Exy.
        rewrite !negb_false_iff in Exy. destruct Exy as [E|E].
        * pose proof (H x) as Hx. rewrite (sorted_head_filter y t2 S2 x E) in Hx.
          cbn in Hx. rewrite eqv_refl in Hx. discriminate.
        * pose proof (H y) as Hy. rewrite (sorted_head_filter x t1 S1 y E) in Hy.
          cbn in Hy. rewrite eqv_refl in Hy. discriminate.
  Qed.

  (* the contract of a stable sort has one solution *)
  Theorem sort_by_unique l l' :
    sorted l' -> (forall a, filter (eqv a) l' = filter (eqv a) l) -> l' = sort_by lt l.
  Proof.
    intros Hs H. apply sorted_unique; [exact Hs|apply sort_by_sorted|].
    intros a. rewrite sort_by_stable. apply H.
  Qed.

  (* the result depends on the classes of equivalent elements, each in its order, only *)
  Theorem sort_by_classes l1 l2 :
    (forall a, filter (eqv a) l1 = filter (eqv a) l2) -> sort_by lt l1 = sort_by lt l2.
  Proof.
    intros H. apply sort_by_unique; [apply sort_by_sorted|].
    intros a. rewrite sort_by_stable. apply H.
  Qed.

  Theorem sort_by_sorted_id l : sorted l -> sort_by lt l = l.
  Proof. intros Hs. symmetry. apply sort_by_unique; [exact Hs|reflexivity]. Qed.

  Theorem sort_by_idem l : sort_by lt (sort_by lt l) = sort_by lt l.
  Proof. apply sort_by_sorted_id, sort_by_sorted. Qed.

  Lemma classes_of_perm l1 l2 :
    Permutation l1 l2 ->
    (forall x y, In x l1 -> In y l1 -> eqv x y = true -> x = y) ->
    forall a, filter (eqv a) l1 = filter (eqv a) l2.
  Proof.
    intros P Hinj a. apply perm_all_equal; [apply perm_filter'; exact P|].
    intros x y Hx Hy. apply filter_In in Hx, Hy. destruct Hx as [Hx Ex], Hy as [Hy Ey].
    apply Hinj; try assumption. rewrite eqv_sym in Ex. exact (eqv_trans _ _ _ Ex Ey).
  Qed.

  (* when equivalent elements are equal the result is a function of the multiset *)
  Theorem sort_by_perm_inj l1 l2 :
    Permutation l1 l2 ->
    (forall x y, In x l1 -> In y l1 -> eqv x y = true -> x = y) ->
    sort_by lt l1 = sort_by lt l2.
  Proof. intros P Hinj. apply sort_by_classes. apply classes_of_perm; assumption. Qed.

  (* ---------------------------------------------------------------- selecting a part *)
  Section Select.
    Context {B : Type} (ltB : B -> B -> bool) (g : A -> option B).
    Hypothesis g_lt : forall a a' b b', g a = Some b -> g a' = Some b' -> ltB b b' = lt a a'.

    Definition select (l : list A) : list B :=
      flat_map (fun a => match g a with Some b => [b] | None => [] end) l.

    Lemma select_app l1 l2 : select (l1 ++ l2) = select l1 ++ select l2.
    Proof. apply flat_map_app. Qed.

    Lemma insert_above x l : Forall (fun z => ltB x z = true) l -> insert_sorted ltB x l = x :: l.
    Proof. intros H. destruct H as [|z l Hz _]; cbn; [reflexivity|]. rewrite Hz. reflexivity. Qed.

    Lemma select_above a b l :
      g a = Some b -> Forall (fun z => lt a z = true) l -> Forall (fun z => ltB b z = true) (select l).
    Proof.
      intros Ga H. induction H as [|z l Hz _ IH]; cbn; [constructor|].
      destruct (g z) as [bz|] eqn:Gz; cbn; [|exact IH].
      constructor; [|exact IH]. rewrite (g_lt _ _ _ _ Ga Gz). exact Hz.
    Qed.

    Lemma select_insert a l :
      sorted l ->
      select (insert_sorted lt a l) =
      match g a with Some b => insert_sorted ltB b (select l) | None => select l end.
    Proof.
      induction l as [|y l IH]; intros Hs.
      - cbn. destruct (g a); reflexivity.
      - cbn [insert_sorted]. destruct (lt a y) eqn:E.
        + change (select (a :: y :: l)) with ((match g a with Some b => [b] | None => [] end) ++ select (y :: l)).
          destruct (g a) as [b|] eqn:Ga; [|reflexivity]. cbn [app].
          rewrite insert_above; [reflexivity|].
          apply (select_above a); [exact Ga|]. apply sorted_above; assumption.
        + inversion Hs as [|? ? Hs' Hall]; subst.
          change (select (y :: insert_sorted lt a l)) with
            ((match g y with Some b => [b] | None => [] end) ++ select (insert_sorted lt a l)).
          rewrite (IH Hs').
          change (select (y :: l)) with ((match g y with Some b => [b] | None => [] end) ++ select l).
          destruct (g a) as [b|] eqn:Ga; [|reflexivity].
          destruct (g y) as [by_|] eqn:Gy; [|reflexivity]. cbn [app insert_sorted].
          rewrite (g_lt _ _ _ _ Ga Gy), E. reflexivity.
    Qed.

    (* sorting the whole and selecting = selecting and sorting the part *)
    Theorem select_sort_by l : select (sort_by lt l) = sort_by ltB (select l).
    Proof.
      induction l as [|x l IH] using rev_ind; [reflexivity|].
      rewrite sort_by_snoc, select_insert by apply sort_by_sorted.
      rewrite select_app. cbn [select flat_map]. rewrite app_nil_r.
      destruct (g x) as [b|]; [|rewrite app_nil_r; exact IH].
      rewrite sort_by_snoc, IH. reflexivity.
    Qed.
  End Select.
End StableSort.

(* a comparator that compares keys with a strict total order on the keys *)
Section ByKey.
  Context {A K : Type} (klt : K -> K -> bool) (key : A -> K).
  Hypothesis klt_irrefl : forall a, klt a a = false.
  Hypothesis klt_trans : forall a b c, klt a b = true -> klt b c = true -> klt a c = true.
  Hypothesis klt_total : forall a b, klt a b = false -> klt b a = false -> a = b.

  Definition by_key (x y : A) : bool := klt (key x) (key y).

  Lemma klt_cotrans a b c : klt a b = true -> klt a c = true \/ klt c b = true.
  Proof.
    intros H. destruct (klt a c) eqn:E1; [left; reflexivity|]. right.
    destruct (klt c a) eqn:E2.
    - apply (klt_trans _ _ _ E2 H).
    - rewrite <- (klt_total _ _ E1 E2). exact H.
  Qed.

  Lemma by_key_irrefl x : by_key x x = false.
  Proof. apply klt_irrefl. Qed.
  Lemma by_key_trans x y z : by_key x y = true -> by_key y z = true -> by_key x z = true.
  Proof. apply klt_trans. Qed.
  Lemma by_key_cotrans x y z : by_key x y = true -> by_key x z = true \/ by_key z y = true.
  Proof. apply klt_cotrans. Qed.

  Lemma eqv_by_key x y : eqv by_key x y = true <-> key x = key y.
  Proof.
    unfold eqv, by_key. rewrite andb_true_iff, !negb_true_iff. split.
    - intros [H1 H2]. apply klt_total; assumption.
    - intros ->. rewrite klt_irrefl. split; reflexivity.
  Qed.
End ByKey.

(* a comparator with a tie-break: first [lt1], and between elements that [lt1] does not order,
   [lt2] (Go: `if o := cmp1(a, b); o != Equal { return o }; return cmp2(a, b)`) *)
Section Lex.
  Context {A : Type} (lt1 lt2 : A -> A -> bool).
  Hypothesis lt1_irrefl : forall a, lt1 a a = false.
  Hypothesis lt1_trans : forall a b c, lt1 a b = true -> lt1 b c = true -> lt1 a c = true.
  Hypothesis lt1_cotrans : forall a b c, lt1 a b = true -> lt1 a c = true \/ lt1 c b = true.
  Hypothesis lt2_irrefl : forall a, lt2 a a = false.
  Hypothesis lt2_trans : forall a b c, lt2 a b = true -> lt2 b c = true -> lt2 a c = true.
  Hypothesis lt2_cotrans : forall a b c, lt2 a b = true -> lt2 a c = true \/ lt2 c b = true.

  Definition lex (a b : A) : bool := lt1 a b || (negb (lt1 b a) && lt2 a b).

  Lemma lex_spec a b :
    lex a b = true <-> lt1 a b = true \/ (lt1 a b = false /\ lt1 b a = false /\ lt2 a b = true).
  Proof.
    unfold lex. destruct (lt1 a b) eqn:E1; cbn; [split; auto|].
    rewrite andb_true_iff, negb_true_iff. split.
    - intros [H1 H2]. right. auto.
    - intros [H|[_ [H1 H2]]]; [discriminate|auto].
  Qed.

  Lemma lex_irrefl a : lex a a = false.
  Proof. unfold lex. rewrite lt1_irrefl, lt2_irrefl. reflexivity. Qed.

  Lemma lex_trans a b c : lex a b = true -> lex b c = true -> lex a c = true.
  Proof.
    rewrite !lex_spec. intros [H1|[H1 [H1' H1'']]] [H2|[H2 [H2' H2'']]].
    - left. eapply lt1_trans; eassumption.
    - left. destruct (lt1_cotrans _ _ c H1) as [H|H]; [exact H|congruence].
    - left. destruct (lt1_cotrans _ _ a H2) as [H|H]; [congruence|exact H].
    - destruct (lt1 a c) eqn:E; [left; reflexivity|]. right. split; [reflexivity|]. split.
      + destruct (lt1 c a) eqn:E'; [|reflexivity].
        destruct (lt1_cotrans _ _ b E') as [H|H]; congruence.
      + eapply lt2_trans; eassumption.
  Qed.

  Lemma lex_cotrans a b c : lex a b = true -> lex a c = true \/ lex c b = true.
  Proof.
    rewrite !lex_spec. intros [H|[H1 [H2 H3]]].
    - destruct (lt1_cotrans _ _ c H) as [H'|H']; [left|right]; left; exact H'.
    - destruct (lt1 a c) eqn:Eac; [left; left; reflexivity|].
      destruct (lt1 c b) eqn:Ecb; [right; left; reflexivity|].
      destruct (lt1 c a) eqn:Eca.
      { destruct (lt1_cotrans _ _ b Eca) as [H|H]; congruence. }
      destruct (lt1 b c) eqn:Ebc.
      { destruct (lt1_cotrans _ _ a Ebc) as [H|H]; congruence. }
      destruct (lt2_cotrans _ _ c H3) as [H|H]; [left|right]; right; auto.
  Qed.

  Lemma eqv_lex a b : eqv lex a b = true -> eqv lt1 a b = true /\ eqv lt2 a b = true.
  Proof.
    unfold eqv, lex. rewrite !andb_true_iff, !negb_true_iff, !orb_false_iff.
    intros [[H1 H2] [H3 H4]]. rewrite H1, H3 in *. cbn in *. auto.
  Qed.

  Lemma strongly_sorted_snoc (R : A -> A -> Prop) l x :
    StronglySorted R (l ++ [x]) -> StronglySorted R l /\ Forall (fun y => R y x) l.
  Proof.
    induction l as [|y l IH]; cbn; intros H; [split; constructor|].
    inversion H as [|? ? Hs Hall]; subst. destruct (IH Hs) as [IH1 IH2].
    rewrite Forall_forall in Hall. split.
    - constructor; [exact IH1|]. rewrite Forall_forall. intros z Hz. apply Hall. apply in_or_app. left. exact Hz.
    - constructor; [|exact IH2]. apply Hall. apply in_or_app. right. left. reflexivity.
  Qed.

  (* a stable sort by [lt1] of a list that is in [lt2] order = the sort with the tie-break *)
  Theorem sort_by_tiebreak l :
    StronglySorted (fun a b => lt2 a b = true) l -> sort_by lt1 l = sort_by lex l.
  Proof.
    induction l as [|x l IH] using rev_ind; intros Hs; [reflexivity|].
    apply strongly_sorted_snoc in Hs. destruct Hs as [Hs Hall].
    rewrite !sort_by_snoc, (IH Hs). apply insert_sorted_ext_in.
    intros y Hy. assert (Hy' : In y l) by (eapply Permutation_in; [apply sort_by_perm|exact Hy]).
    rewrite Forall_forall in Hall. specialize (Hall y Hy').
    unfold lex. replace (lt2 x y) with false; [rewrite andb_false_r, orb_false_r; reflexivity|].
    symmetry. destruct (lt2 x y) eqn:E; [|reflexivity].
    pose proof (lt2_trans _ _ _ Hall E) as H. rewrite lt2_irrefl in H. discriminate.
  Qed.
End Lex.

(* Go's string order is a strict total order *)
Open Scope Z_scope.
Lemma str_ltb_irrefl a : str_ltb a a = false.
Proof. unfold str_ltb. rewrite str_cmp_refl. reflexivity. Qed.

Lemma str_ltb_trans a b c : str_ltb a b = true -> str_ltb b c = true -> str_ltb a c = true.
Proof.
  unfold str_ltb. intros H1 H2.
  destruct (str_cmp a b) eqn:E1; try discriminate. destruct (str_cmp b c) eqn:E2; try discriminate.
  rewrite (str_cmp_lt_trans _ _ _ E1 E2). reflexivity.
Qed.

Lemma str_ltb_total a b : str_ltb a b = false -> str_ltb b a = false -> a = b.
Proof.
  unfold str_ltb. intros H1 H2. rewrite (str_cmp_antisym a b) in H2.
  destruct (str_cmp a b) eqn:E; cbn in *; try discriminate.
  apply str_cmp_eq. exact E.
Qed.

Lemma str_eqb_false a b : str_eqb a b = false <-> a <> b.
Proof.
  split.
  - intros H E. apply str_eqb_eq in E. congruence.
  - intros H. destruct (str_eqb a b) eqn:E; [|reflexivity]. apply str_eqb_eq in E. contradiction.
Qed.

