(* C09 (b), reports: Report.Insert, the sort and the renderer of the balance report see the
   VALUES of amounts only.  Report trees with the same shape and keys and pairwise value-equal
   amounts ([report_v]) render to tables that agree in everything but the representation of the
   numbers in their numeric cells ([table_v], [render_report_v]); such tables have the same CSV
   bytes ([render_csv_v]: Decimal.String is a function of the value, [to_string_eqv]). *)
From Coq Require Import ZArith List Bool Lia.
From Knut Require Import Model.Str Model.Dec Model.Date Model.Account Model.Ledger Model.Price Model.Journal
     Model.Check Model.Pipeline Model.Table Model.Report.
From Knut Require Import Spec.TableSpec Proofs.DecProofs Proofs.DecEqProofs Proofs.DecRoundProofs Proofs.DecStringProofs Proofs.DecNormalForm
     Proofs.ReportSum Proofs.OrderProofs Proofs.OrderRender Proofs.TxnOrder Proofs.CheckQuant Proofs.PrintRequant.
Import ListNotations.
Open Scope bool_scope.
Open Scope Z_scope.

Local Ltac Zify.zify_post_hook ::= Z.div_mod_to_equations.

(* ------------------------------------------------------------------ values *)

Lemma eqv_of_deqv a b : deqv a b -> dec_eqv a b.
Proof. unfold deqv, dec_eqv, coef_at. intros H. apply dec_equal_min in H. unfold scale_to, pow10 in H. exact H. Qed.

Lemma deqv_is_neg a b : deqv a b -> is_neg a = is_neg b.
Proof. intros H. unfold is_neg. pose proof (dec_eqv_sign _ _ (eqv_of_deqv _ _ H)). lia. Qed.

Lemma deqv_neg' a b : deqv a b -> deqv (neg a) (neg b).
Proof. apply deqv_neg. Qed.

Lemma deqv_dabs a b : deqv a b -> deqv (dabs a) (dabs b).
Proof.
  intros H. unfold dabs. pose proof (deqv_is_neg a b H) as Hs. unfold is_neg in Hs. rewrite <- Hs.
  destruct (coef a <? 0) eqn:E; [|exact H].
  assert (Ha : mkDec (Z.abs (coef a)) (ex a) = neg a) by (unfold neg; f_equal; lia).
  assert (Hb : mkDec (Z.abs (coef b)) (ex b) = neg b) by (unfold neg; f_equal; lia).
  rewrite Ha, Hb. now apply deqv_neg.
Qed.

Lemma less_than_cmp a b : less_than a b = match dec_cmp a b with Lt => true | _ => false end.
Proof. unfold less_than, dec_cmp, cmp. destruct (rescale_pair a b) as [x y]. destruct (coef x ?= coef y); reflexivity. Qed.

Lemma less_than_deqv a a' b b' : deqv a a' -> deqv b b' -> less_than a b = less_than a' b'.
Proof. intros Ha Hb. rewrite !less_than_cmp, (dec_cmp_eqv_l _ _ _ Ha), (dec_cmp_eqv_r _ _ _ Hb). reflexivity. Qed.

(* ---- Decimal.String is a function of the value ---- *)

(* the record NewFromString makes of a canonical numeral: exponent <= 0, no trailing zero *)
Definition normal_rec (x : dec) : Prop := ex x <= 0 /\ (ex x < 0 -> (coef x) mod 10 <> 0).

Lemma parse_digits_snoc s c acc v : parse_digits (s ++ [c]) acc = Some v ->
  exists w, parse_digits s acc = Some w /\ v = w * 10 + (c - 48) /\ 48 <= c <= 57.
Proof.
  rewrite parse_digits_app. destruct (parse_digits s acc) as [w|]; [|discriminate].
  cbn [parse_digits]. destruct (is_digit c) eqn:Hc; [|discriminate]. intros H. injection H as <-.
  apply is_digit_range in Hc. eauto.
Qed.

Lemma reread_normal q : normal_rec (reread q).
Proof.
  destruct (to_string_canon q) as (ip & fp & v & Hs & Hc & Dip & Dfp & Htr & Hp & Hneg).
  assert (Hipne : ip <> []) by (destruct Hc as [->|[H _]]; [discriminate|exact H]).
  assert (Hr : reread q = mkDec (if coef q <? 0 then - v else v) (- Z.of_nat (length fp))).
  { unfold reread. pose proof (of_string_numeral (coef q <? 0) ip fp v Hipne Dip Dfp Hp) as Hn.
    destruct (of_string (to_string q)) as [x|] eqn:E; rewrite Hs in E; pose proof (eq_trans (eq_sym E) Hn) as Hx;
      [now injection Hx|discriminate]. }
  rewrite Hr. split; cbn [ex coef]; [lia|]. intros Hlt.
  assert (Hfp : fp <> []) by (destruct fp; [cbn [length] in Hlt; lia|discriminate]).
  unfold trimmed in Htr. destruct (rev fp) as [|c r] eqn:E.
  { exfalso. apply Hfp. rewrite <- (rev_involutive fp), E. reflexivity. }
  assert (Efp : fp = rev r ++ [c]) by (rewrite <- (rev_involutive fp), E; reflexivity).
  rewrite Efp, app_assoc in Hp. destruct (parse_digits_snoc _ _ _ _ Hp) as (w & _ & Hv & Hcr).
  assert (Hc48 : c <> 48).
  { intros ->. exact Htr. }
  destruct (coef q <? 0); lia.
Qed.

Lemma normal_rec_unique x y : normal_rec x -> normal_rec y -> dec_eqv x y -> x = y.
Proof.
  intros (Hx1 & Hx2) (Hy1 & Hy2) H. unfold dec_eqv, coef_at in H.
  destruct x as [cx ex_], y as [cy ey]. cbn [coef ex] in *.
  destruct (Z.lt_trichotomy ex_ ey) as [L|[E|G]].
  - exfalso. replace (Z.min ex_ ey) with ex_ in H by lia. rewrite Z.sub_diag in H. change (10 ^ 0) with 1 in H.
    assert (Hp : 10 ^ (ey - ex_) = 10 * 10 ^ (ey - ex_ - 1)) by (rewrite <- Z.pow_succ_r by lia; f_equal; lia).
    specialize (Hx2 ltac:(lia)). rewrite Hp in H. lia.
  - subst ey. rewrite Z.min_id, Z.sub_diag in H. change (10 ^ 0) with 1 in H. f_equal. lia.
  - exfalso. replace (Z.min ex_ ey) with ey in H by lia. rewrite Z.sub_diag in H. change (10 ^ 0) with 1 in H.
    assert (Hp : 10 ^ (ex_ - ey) = 10 * 10 ^ (ex_ - ey - 1)) by (rewrite <- Z.pow_succ_r by lia; f_equal; lia).
    specialize (Hy2 ltac:(lia)). rewrite Hp in H. lia.
Qed.

Lemma dec_eqv_trans' a b c : dec_eqv a b -> dec_eqv b c -> dec_eqv a c.
Proof. intros H1 H2. apply eqv_of_deqv. eapply deqv_trans; apply deqv_of_eqv; eassumption. Qed.

Theorem to_string_eqv a b : deqv a b -> to_string a = to_string b.
Proof.
  intros H. rewrite <- (to_string_reread a), <- (to_string_reread b). f_equal.
  apply normal_rec_unique; try apply reread_normal.
  eapply dec_eqv_trans'; [apply reread_eqv|]. eapply dec_eqv_trans'; [apply eqv_of_deqv; exact H|].
  apply dec_eqv_sym. apply reread_eqv.
Qed.

(* ------------------------------------------------------------------ amounts *)

Lemma Forall2_same {A} (R : A -> A -> Prop) : (forall a, R a a) -> forall l, Forall2 R l l.
Proof. intros H. induction l; constructor; auto. Qed.

Definition ra_v (x y : rkey * dec) : Prop := fst x = fst y /\ deqv (snd x) (snd y).
Definition ras_v (a b : ramounts) : Prop := Forall2 ra_v a b.

Lemma ras_v_refl a : ras_v a a.
Proof. apply Forall2_same. intros x. split; [reflexivity|apply deqv_refl]. Qed.

Lemma ra_add_v a a' k v v' : ras_v a a' -> deqv v v' -> ras_v (ra_add a k v) (ra_add a' k v').
Proof.
  intros H Hv. induction H as [|[k0 x] [k0' x'] a a' (Hk & Hx) Ha IH]; cbn [ra_add].
  - constructor; [|constructor]. split; [reflexivity|]. cbn [snd]. apply deqv_add; [apply deqv_refl|exact Hv].
  - cbn [fst snd] in *. subst k0'. destruct (rkey_eqb k k0).
    + constructor; [|exact Ha]. split; [reflexivity|]. cbn [snd]. now apply deqv_add.
    + constructor; [split; [reflexivity|exact Hx]|exact IH].
Qed.

Lemma ra_get0_v a a' k : ras_v a a' -> deqv (ra_get0 a k) (ra_get0 a' k).
Proof.
  unfold ra_get0. induction 1 as [|[k0 x] [k0' x'] a a' (Hk & Hx) Ha IH]; cbn [ra_get]; [apply deqv_refl|].
  cbn [fst snd] in *. subst k0'. destruct (rkey_eqb k k0); [exact Hx|exact IH].
Qed.

Lemma fold_ra_add_v (g : rkey -> rkey) src src' : ras_v src src' -> forall d d', ras_v d d' ->
  ras_v (fold_left (fun d kv => ra_add d (g (fst kv)) (snd kv)) src d)
        (fold_left (fun d kv => ra_add d (g (fst kv)) (snd kv)) src' d').
Proof.
  induction 1 as [|x y src src' (Hk & Hx) Hs IH]; intros d d' Hd; cbn [fold_left]; [exact Hd|].
  apply IH. rewrite Hk. now apply ra_add_v.
Qed.

Lemma filter_nz_v a a' : ras_v a a' ->
  ras_v (filter (fun kv : rkey * dec => negb (is_zero (snd kv))) a) (filter (fun kv : rkey * dec => negb (is_zero (snd kv))) a').
Proof.
  induction 1 as [|x y a a' (Hk & Hx) Ha IH]; cbn [filter]; [constructor|].
  rewrite (deqv_is_zero _ _ Hx). destruct (negb (is_zero (snd y))); [constructor; [split; assumption|exact IH]|exact IH].
Qed.

Lemma ra_sum_into_v f d d' s s' : ras_v d d' -> ras_v s s' -> ras_v (ra_sum_into d s f) (ra_sum_into d' s' f).
Proof. intros Hd Hs. unfold ra_sum_into. apply filter_nz_v. now apply fold_ra_add_v. Qed.

Lemma ra_plus_v a a' b b' : ras_v a a' -> ras_v b b' -> ras_v (ra_plus a b) (ra_plus a' b').
Proof. intros Ha Hb. unfold ra_plus. now apply (fold_ra_add_v (fun k => k)). Qed.

Lemma ra_commodities_v a a' : ras_v a a' -> ra_commodities a = ra_commodities a'.
Proof.
  intros H. unfold ra_commodities. generalize (@nil (option commodity)).
  induction H as [|x y a a' (Hk & _) Ha IH]; intros l0; cbn [fold_left]; [reflexivity|].
  rewrite IH. f_equal. f_equal. exact (f_equal snd Hk).
Qed.

Lemma ras_v_nil a a' : ras_v a a' -> (a = [] <-> a' = []).
Proof. intros H. inversion H; subst; split; intros E; try reflexivity; discriminate. Qed.

(* ------------------------------------------------------------------ trees *)

Inductive node_v : node -> node -> Prop :=
| NodeV s p hv a a' ch ch' : ras_v a a' -> Forall2 node_v ch ch' -> node_v (Node s p hv a ch) (Node s p hv a' ch').

Lemma node_v_seg n n' : node_v n n' -> n_seg n = n_seg n'.
Proof. intros H. inversion H; reflexivity. Qed.
Lemma node_v_path n n' : node_v n n' -> n_path n = n_path n'.
Proof. intros H. inversion H; reflexivity. Qed.
Lemma node_v_children n n' : node_v n n' -> Forall2 node_v (n_children n) (n_children n').
Proof. intros H. inversion H; subst. assumption. Qed.

Lemma node_v_refl n : node_v n n.
Proof.
  induction n as [s p hv a ch IH] using node_ind_size. constructor; [apply ras_v_refl|].
  induction IH; constructor; assumption.
Qed.

Lemma children_insert_v rec rec' h p l l' :
  (forall c c', node_v c c' -> node_v (rec c) (rec' c')) ->
  Forall2 node_v l l' -> Forall2 node_v (children_insert rec h p l) (children_insert rec' h p l').
Proof.
  intros resp. induction 1 as [|c c' l l' Hc Hl IH]; cbn [children_insert].
  - constructor; [apply resp, node_v_refl|constructor].
  - rewrite <- (node_v_seg c c' Hc). destruct (str_cmp h (n_seg c)).
    + constructor; [apply resp; exact Hc|exact Hl].
    + constructor; [apply resp, node_v_refl|]. constructor; assumption.
    + constructor; assumption.
Qed.

Lemma node_insert_v : forall f pre rest k v v' n n', deqv v v' ->
  node_v n n' -> node_v (node_insert f pre rest k v n) (node_insert f pre rest k v' n').
Proof.
  induction f as [|f IH]; intros pre rest k v v' n n' Hv H; inversion H as [s p hv a a' ch ch' Ha Hch]; subst;
    destruct rest as [|h t]; cbn [node_insert].
  - constructor; [apply ra_add_v|]; assumption.
  - exact H.
  - constructor; [apply ra_add_v|]; assumption.
  - constructor; [assumption|]. apply children_insert_v; [intros; apply IH; assumption|assumption].
Qed.

Definition report_v (r r' : report) : Prop := node_v (r_al r) (r_al r') /\ node_v (r_eie r) (r_eie r').

Lemma report_v_refl r : report_v r r.
Proof. split; apply node_v_refl. Qed.

Lemma report_insert_v r r' d a c v v' : report_v r r' -> deqv v v' ->
  report_v (report_insert r d a c v) (report_insert r' d a c v').
Proof.
  intros [H1 H2] Hv. unfold report_insert. destruct (is_AL a); split; cbn [r_al r_eie]; try assumption; now apply node_insert_v.
Qed.

(* ------------------------------------------------------------------ weights, sorting, totals *)

Lemma fold_add_v (a a' : ramounts) : ras_v a a' -> forall s s', deqv s s' ->
  deqv (fold_left (fun s (kv : rkey * dec) => add s (snd kv)) a s) (fold_left (fun s (kv : rkey * dec) => add s (snd kv)) a' s').
Proof.
  induction 1 as [|x y a a' (_ & Hx) Ha IH]; intros s s' Hs; cbn [fold_left]; [exact Hs|]. apply IH. now apply deqv_add.
Qed.

Lemma node_weight_v valued n : forall n', node_v n n' -> deqv (node_weight valued n) (node_weight valued n').
Proof.
  induction n as [s p hv a ch IH] using node_ind_size. intros n' H.
  inversion H as [? ? ? ? a' ? ch' Ha Hch]; subst. cbn [node_weight].
  assert (E : deqv (neg (dabs (if valued then fold_left (fun s kv => add s (snd kv)) a dec_nil else dec_nil)))
                   (neg (dabs (if valued then fold_left (fun s kv => add s (snd kv)) a' dec_nil else dec_nil)))).
  { apply deqv_neg, deqv_dabs. destruct valued; [|apply deqv_refl]. apply fold_add_v; [exact Ha|apply deqv_refl]. }
  revert E. generalize (neg (dabs (if valued then fold_left (fun s kv => add s (snd kv)) a dec_nil else dec_nil))).
  generalize (neg (dabs (if valued then fold_left (fun s kv => add s (snd kv)) a' dec_nil else dec_nil))).
  clear - IH Hch. revert ch' Hch. induction IH as [|c ch Hc _ IHch]; intros ch' Hch w' w E; inversion Hch; subst; cbn [fold_left]; [exact E|].
  apply IHch; [assumption|]. apply deqv_add; [exact E|]. now apply Hc.
Qed.

Lemma sibling_ltb_v alpha valued x x' y y' :
  node_v x x' -> node_v y y' -> sibling_ltb alpha valued x y = sibling_ltb alpha valued x' y'.
Proof.
  intros Hx Hy. unfold sibling_ltb, top_ltb.
  rewrite (node_v_path _ _ Hx), (node_v_path _ _ Hy), (node_v_seg _ _ Hx), (node_v_seg _ _ Hy).
  rewrite (less_than_deqv _ _ _ _ (node_weight_v valued _ _ Hx) (node_weight_v valued _ _ Hy)). reflexivity.
Qed.

Lemma node_sort_v alpha valued n : forall n', node_v n n' -> node_v (node_sort alpha valued n) (node_sort alpha valued n').
Proof.
  induction n as [s p hv a ch IH] using node_ind_size. intros n' H.
  inversion H as [? ? ? ? a' ? ch' Ha Hch]; subst. cbn [node_sort]. constructor; [exact Ha|].
  apply (sort_by_rel (sibling_ltb alpha valued) node_v).
  - intros; apply sibling_ltb_v; assumption.
  - clear - IH Hch. revert ch' Hch. induction IH as [|c ch Hc _ IHch]; intros ch' Hch; inversion Hch; subst; cbn [map]; constructor; auto.
Qed.

Lemma node_totals_v f n : forall n' acc acc', node_v n n' -> ras_v acc acc' -> ras_v (node_totals f n acc) (node_totals f n' acc').
Proof.
  induction n as [s p hv a ch IH] using node_ind_size. intros n' acc acc' H Hacc.
  inversion H as [? ? ? ? a' ? ch' Ha Hch]; subst. cbn [node_totals].
  apply ra_sum_into_v; [|exact Ha].
  clear - IH Hch Hacc. revert ch' Hch acc acc' Hacc.
  induction IH as [|c ch Hc _ IHch]; intros ch' Hch acc acc' Hacc; inversion Hch; subst; cbn [fold_left]; [exact Hacc|].
  apply IHch; [assumption|]. apply Hc; assumption.
Qed.

(* ------------------------------------------------------------------ tables *)

Definition cell_v (c c' : cell) : Prop :=
  match c, c' with
  | CNum n, CNum n' => deqv n n'
  | CNum _, _ => False
  | _, CNum _ => False
  | _, _ => c = c'
  end.

Definition rows_v (r r' : list (list cell)) : Prop := Forall2 (Forall2 cell_v) r r'.
Definition table_v (t t' : table) : Prop := t_columns t = t_columns t' /\ rows_v (t_rows t) (t_rows t').

Lemma cell_v_refl c : cell_v c c.
Proof. destruct c; cbn; try reflexivity. apply deqv_refl. Qed.
Lemma cells_v_refl l : Forall2 cell_v l l.
Proof. apply Forall2_same, cell_v_refl. Qed.
Lemma table_v_refl t : table_v t t.
Proof. split; [reflexivity|]. apply Forall2_same, cells_v_refl. Qed.

Lemma add_row_v t t' r r' : table_v t t' -> Forall2 cell_v r r' -> table_v (add_row t r) (add_row t' r').
Proof.
  intros [Hc Hr] Hrow. split; [exact Hc|]. unfold add_row. cbn [t_rows]. apply Forall2_app; [exact Hr|].
  constructor; [exact Hrow|constructor].
Qed.

Lemma t_width_v t t' : table_v t t' -> t_width t = t_width t'.
Proof. intros [Hc _]. unfold t_width. now rewrite Hc. Qed.

Lemma add_separator_row_v t t' : table_v t t' -> table_v (add_separator_row t) (add_separator_row t').
Proof. intros H. unfold add_separator_row. rewrite <- (t_width_v _ _ H). apply add_row_v; [exact H|apply cells_v_refl]. Qed.

Lemma add_empty_row_v t t' : table_v t t' -> table_v (add_empty_row t) (add_empty_row t').
Proof. intros H. unfold add_empty_row. rewrite <- (t_width_v _ _ H). apply add_row_v; [exact H|apply cells_v_refl]. Qed.

Lemma row_numbers_v diff neg_ vals vals' c dates : ras_v vals vals' ->
  forall total total', deqv total total' ->
  Forall2 cell_v (row_numbers diff neg_ vals c dates total) (row_numbers diff neg_ vals' c dates total').
Proof.
  intros H. induction dates as [|d rest IH]; intros total total' Ht; cbn [row_numbers]; [constructor|].
  pose proof (ra_get0_v vals vals' (Some d, c) H) as Hv.
  pose proof (deqv_add _ _ _ _ Ht Hv) as Hs.
  constructor; [|now apply IH]. cbn [cell_v].
  destruct diff, neg_; try apply deqv_neg; assumption.
Qed.

Lemma render_rows_v cfg dates indent name neg_ vals vals' coms : ras_v vals vals' ->
  forall first, rows_v (render_rows cfg dates indent name neg_ vals coms first) (render_rows cfg dates indent name neg_ vals' coms first).
Proof.
  intros H. induction coms as [|c rest IH]; intros first; cbn [render_rows]; [constructor|].
  constructor; [|apply IH]. constructor; [apply cell_v_refl|].
  apply Forall2_app; [apply cells_v_refl|]. apply row_numbers_v; [exact H|apply deqv_refl].
Qed.

Lemma fold_add_row_v rows rows' : rows_v rows rows' -> forall t t', table_v t t' ->
  table_v (fold_left add_row rows t) (fold_left add_row rows' t').
Proof.
  induction 1 as [|r r' rows rows' Hr Hrows IH]; intros t t' Ht; cbn [fold_left]; [exact Ht|]. apply IH. now apply add_row_v.
Qed.

Lemma render_amounts_v cfg t t' dates indent name neg_ vals vals' : table_v t t' -> ras_v vals vals' ->
  table_v (render_amounts cfg t dates indent name neg_ vals) (render_amounts cfg t' dates indent name neg_ vals').
Proof.
  intros Ht H. unfold render_amounts.
  pose proof (ras_v_nil _ _ H) as N. pose proof (ra_commodities_v _ _ H) as C.
  destruct vals as [|x r], vals' as [|x' r'].
  - apply add_row_v; [exact Ht|]. unfold fill_empty. rewrite <- (t_width_v _ _ Ht). apply cells_v_refl.
  - destruct N as [N _]. specialize (N eq_refl). discriminate.
  - destruct N as [_ N]. specialize (N eq_refl). discriminate.
  - rewrite C. apply fold_add_row_v; [|exact Ht]. now apply render_rows_v.
Qed.

Lemma render_node_v cfg dates neg_ n : forall n' indent t t',
  node_v n n' -> table_v t t' -> table_v (render_node cfg dates indent neg_ t n) (render_node cfg dates indent neg_ t' n').
Proof.
  induction n as [s p hv a ch IH] using node_ind_size. intros n' indent t t' H Ht.
  inversion H as [? ? ? ? a' ? ch' Ha Hch]; subst. cbn [render_node].
  set (show := match rc_valuation cfg with None => true | Some _ => rxs_match (rc_details cfg) (acc_name p) end).
  assert (V : ras_v (ra_sum_into [] a (collapse_key show)) (ra_sum_into [] a' (collapse_key show))).
  { apply ra_sum_into_v; [constructor|exact Ha]. }
  assert (T1 : table_v (match s with [] => t | _ => render_amounts cfg t dates indent s neg_ (ra_sum_into [] a (collapse_key show)) end)
                       (match s with [] => t' | _ => render_amounts cfg t' dates indent s neg_ (ra_sum_into [] a' (collapse_key show)) end)).
  { destruct s; [exact Ht|]. now apply render_amounts_v. }
  revert T1.
  generalize (match s with [] => t | _ => render_amounts cfg t dates indent s neg_ (ra_sum_into [] a (collapse_key show)) end).
  generalize (match s with [] => t' | _ => render_amounts cfg t' dates indent s neg_ (ra_sum_into [] a' (collapse_key show)) end).
  clear - IH Hch. revert ch' Hch. induction IH as [|c ch Hc _ IHch]; intros ch' Hch t0' t0 T; inversion Hch; subst; cbn [fold_left]; [exact T|].
  apply IHch; [assumption|]. now apply Hc.
Qed.

Lemma fold_render_nodes_v cfg dates neg_ l l' : Forall2 node_v l l' -> forall t t', table_v t t' ->
  table_v (fold_left (fun t n => add_empty_row (render_node cfg dates 0 neg_ t n)) l t)
          (fold_left (fun t n => add_empty_row (render_node cfg dates 0 neg_ t n)) l' t').
Proof.
  induction 1 as [|c c' l l' Hc Hl IH]; intros t t' Ht; cbn [fold_left]; [exact Ht|].
  apply IH. apply add_empty_row_v. now apply render_node_v.
Qed.

Theorem render_report_v cfg r r' dates : report_v r r' -> table_v (render_report cfg r dates) (render_report cfg r' dates).
Proof.
  intros [Hal Heie]. unfold render_report.
  set (valued := match rc_valuation cfg with Some _ => true | None => false end).
  pose proof (node_sort_v (rc_alpha cfg) valued _ _ Hal) as Sal.
  pose proof (node_sort_v (rc_alpha cfg) valued _ _ Heie) as Seie.
  set (al := node_sort (rc_alpha cfg) valued (r_al r)) in *.
  set (al' := node_sort (rc_alpha cfg) valued (r_al r')) in *.
  set (eie := node_sort (rc_alpha cfg) valued (r_eie r)) in *.
  set (eie' := node_sort (rc_alpha cfg) valued (r_eie r')) in *.
  assert (Tal : ras_v (node_totals (collapse_key (negb valued)) al []) (node_totals (collapse_key (negb valued)) al' [])).
  { apply node_totals_v; [exact Sal|constructor]. }
  assert (Teie : ras_v (node_totals (collapse_key (negb valued)) eie []) (node_totals (collapse_key (negb valued)) eie' [])).
  { apply node_totals_v; [exact Seie|constructor]. }
  cbv zeta.
  apply add_separator_row_v. apply render_amounts_v; [|now apply ra_plus_v].
  apply add_separator_row_v. apply render_amounts_v; [|exact Teie].
  apply fold_render_nodes_v; [apply node_v_children; exact Seie|].
  apply add_separator_row_v. apply render_amounts_v; [|exact Tal].
  apply fold_render_nodes_v; [apply node_v_children; exact Sal|].
  apply table_v_refl.
Qed.

(* ------------------------------------------------------------------ CSV *)

Lemma csv_cell_v c c' : cell_v c c' -> csv_cell c = csv_cell c'.
Proof. destruct c, c'; cbn; intros H; try contradiction; try discriminate; try (now inversion H); try reflexivity. now apply to_string_eqv. Qed.

Theorem render_csv_v t t' : table_v t t' -> render_csv t = render_csv t'.
Proof.
  intros [_ H]. unfold render_csv, render_csv_rows. do 3 f_equal.
  induction H as [|r r' rows rows' Hr Hrows IH]; cbn [map]; [reflexivity|]. f_equal; [|exact IH].
  induction Hr as [|c c' l l' Hc Hl IHl]; cbn [map]; [reflexivity|]. f_equal; [now apply csv_cell_v|exact IHl].
Qed.
