(* C16: the verdict of the check on the text the model writes.
   Assembles Proofs/BeancountVerdict.v (the verdict on the model's text is the verdict of the three
   clauses on the erased items), Proofs/TranscodeMtmSum.v (mtm_check finds nothing),
   Proofs/BeancountKnownShape.v (every violation of beancount_check has the known shape F16/F16b),
   Proofs/BeancountComplete.v (complete_check finds nothing) and Proofs/BeancountInputLex.v (the side
   conditions hold of every journal the parser can produce). *)
From Coq Require Import ZArith List Bool Lia.
From Knut Require Import Model.Str Model.Dec Model.Date Model.Account Model.Ledger Model.Journal
     Model.Cli Model.Beancount Model.CliTranscode
     Spec.WellformedSpec Spec.LedgerSyntax Spec.BeancountSpec Spec.BeancountErase Spec.BeancountMtmSpec
     Spec.BeancountLex Spec.BeancountAdjLex
     Proofs.BeancountProofs Proofs.BeancountRead Proofs.BeancountVerdict Proofs.BeancountLexDays
     Proofs.TranscodeMtmSum Proofs.TranscodeAdjust Proofs.BeancountKnownShape Proofs.BeancountComplete
     Proofs.RoundTripBase Proofs.PrintLex Proofs.PrintLexInput Proofs.BeancountInputLex.
Import ListNotations.
Open Scope bool_scope.
Open Scope Z_scope.

(* ================================================================== on the parsed journal *)

Theorem model_violations_known l v sds dl days :
  parse_directives sds = MOk dl -> journal_lex_b dl = true -> journal_adj_lex_b dl = true ->
  transcode_days l v sds = COk days ->
  let es := erase_entries v (transcode_entries days []) in
  Forall known_violation (beancount_check v es ++ complete_check sds es ++ mtm_check dl v es).
Proof.
  intros Hp Hj Hadj H es.
  pose proof (transcode_mtm_check l v sds dl days Hp (journal_adj_lex_syntactic dl Hadj) H) as Hm. fold es in Hm.
  pose proof (complete_check_model l v sds dl days Hp Hadj H) as Hc. fold es in Hc.
  rewrite Hm, Hc. cbn [app]. rewrite app_nil_r. exact (beancount_check_known l v sds dl days Hp Hj Hadj H).
Qed.

(* ================================================================== the verdict *)

Definition known_verdict (s : str) : Prop :=
  s = s_ok \/ exists x, known_violation x /\ s = render_violation x.

Lemma verdict_of_known vs : Forall known_violation vs -> known_verdict (verdict_of vs).
Proof.
  intros H. unfold verdict_of.
  assert (E : filter (fun x => negb (v_known_shape x)) vs = []).
  { induction H as [|x vs (Hx & _) _ IH]; [reflexivity|]. cbn [filter]. rewrite Hx. exact IH. }
  rewrite E. destruct H as [|x vs Hx _]; [left; reflexivity|right]. exists x. split; [exact Hx|reflexivity].
Qed.

Theorem model_verdict_parsed l v sds dl days :
  parse_directives sds = MOk dl -> journal_lex_b dl = true -> journal_adj_lex_b dl = true ->
  commodity_lex_b v = true -> transcode_days l v sds = COk days ->
  known_verdict (c16_verdict_mtm sds v (transcode days v)).
Proof.
  intros Hp Hj Hadj Hv H.
  rewrite (verdict_on_model_text sds v days Hv (transcode_days_entries_lex l v sds dl days Hp Hj H)).
  unfold c16_violations. rewrite Hp. apply verdict_of_known.
  exact (model_violations_known l v sds dl days Hp Hj Hadj H).
Qed.

(* ================================================================== from the input *)

Lemma transcode_days_parsed l v sds days : transcode_days l v sds = COk days -> exists dl, parse_directives sds = MOk dl.
Proof. intros H. destruct (transcode_days_step _ _ _ _ H) as (dl & E & _). exists dl. exact E. Qed.

Theorem model_verdict l v sds days :
  input_lex sds -> commodity_lex_b v = true -> transcode_days l v sds = COk days ->
  known_verdict (c16_verdict_mtm sds v (transcode days v)).
Proof.
  intros HL Hv H. destruct (transcode_days_parsed l v sds days H) as (dl & Hp).
  destruct (input_lex_journal sds dl HL Hp) as [Hj Hadj].
  exact (model_verdict_parsed l v sds dl days Hp Hj Hadj Hv H).
Qed.

(* a valuation commodity of the parser's shape (a non-empty run of letters and digits) can be written
   and read back *)
Lemma com_lex_commodity v : com_lex v -> commodity_lex_b v = true.
Proof.
  intros (Hc & Hne). unfold commodity_lex_b.
  rewrite (alnum_no_byte 10 v ltac:(lia) ualnum_10 Hc), (alnum_no_byte 34 v ltac:(lia) ualnum_34 Hc). cbn [andb].
  inversion Hc as [|c b x Hch Hp Hx E]; [congruence|].
  destruct (chunk_shape c b Hch) as (b0 & bt & -> & Hcont & _).
  cbn [app strip_non_alphanum]. destruct (is_ascii_letter b0); [reflexivity|].
  replace (is_continuation b0) with false by (symmetry; exact Hcont). reflexivity.
Qed.

(* the command: `knut transcode -v V FILE` on a journal and a commodity of the parser's shape *)
Theorem model_verdict_cmd l v sds text :
  input_lex sds -> com_lex v -> transcode_cmd l (Some v) sds = COk text ->
  known_verdict (c16_verdict_mtm sds v text).
Proof.
  intros HL Hv H. pose proof (com_lex_commodity v Hv) as Hvl.
  destruct v as [|c v]; [destruct Hv as (_ & Hv); congruence|].
  unfold transcode_cmd, valuation_flag in H. cbn [valid_commodity cbind] in H.
  destruct (transcode_days l (c :: v) sds) as [days| |] eqn:E; try discriminate. cbn [cbind] in H.
  inversion H. exact (model_verdict l (c :: v) sds days HL Hvl E).
Qed.
