(* C20, part 7: a day on which nothing but deposits and withdrawals touches the portfolio.
   For the repaired `portfolio returns`: on every processed (valued) day all of whose
   transactions are untargeted (t_targets = None: no @performance annotation and no value
   adjustment booked by Valuate, i.e. prices unchanged) the Performance record satisfies
       V1 = V0 + inflow + outflow
   hence (PortfolioProofs.external_flows_zero) a period made of such days reports 0 (or an
   undefined number).  Ingredients:
   - ComputeValues: V1 - V0 of a day is the sum of the values the day books on portfolio
     accounts in filtered commodities (PortfolioValuesFull.values_fold_sum);
   - ComputeFlows on an untargeted transaction: the flows map sums to the bookings between a
     portfolio account and a non-portfolio account; split distributes it over Inflows/Outflows
     without changing the total; internal and portfolio flows stay empty;
   - bookings between two portfolio accounts cancel (PairAccounts.paired2). *)
From Coq Require Import ZArith QArith Qfield List Bool Lia.
From Knut Require Import Model.Str Model.Dec Model.Date Model.Account Model.Ledger Model.Price
     Model.Journal Model.Check Model.Pipeline Model.Cli Model.Perf Model.Weights Model.CliPortfolio
     Spec.PortfolioSpec
     Proofs.DecProofs Proofs.DecValue Proofs.SMapProofs Proofs.PairAccounts Proofs.PortfolioDays
     Proofs.PortfolioReturns Proofs.PortfolioWeights Proofs.PortfolioProofs Proofs.PortfolioAlgebra
     Proofs.PortfolioValuesFull.
Import ListNotations.
Open Scope Q_scope.

(* ------------------------------------------------------------ pairs in the valued days *)

Lemma run_stage_inv {S} (p : processor S) s days r : run_stage p s days = COk r -> process_days p s days = ROk r.
Proof. unfold run_stage. destruct (process_days p s days); cbn [of_presult]; congruence. Qed.

Lemma load_days_ok2 ds b : load ds = COk b -> Forall day2_ok (b_days b).
Proof.
  unfold load. intros H. destruct (parse_directives ds) as [l| |] eqn:E; cbn [of_mresult cbind] in H; try discriminate.
  inversion H; subst. apply builder_of_ok. eapply parse_directives_ok. exact E.
Qed.

Lemma valued_days_ok2 cfg days days' : Forall day2_ok days -> valued_days cfg days = COk days' -> Forall day2_ok days'.
Proof.
  unfold valued_days. intros Hd H. destruct (pc_valuation cfg) as [v|].
  - destruct (run_stage (compute_prices_proc v) _ days) as [[s1 d1]| |] eqn:E1; cbn [cbind snd] in H; try discriminate.
    destruct (run_stage (check_proc _) _ d1) as [[s2 d2]| |] eqn:E2; cbn [cbind snd] in H; try discriminate.
    destruct (run_stage (valuate_proc v) _ d2) as [[s3 d3]| |] eqn:E3; cbn [cbind snd] in H; try discriminate.
    inversion H; subst.
    apply run_stage_inv in E1, E2, E3.
    eapply valuate_stage_ok; [|exact E3]. eapply check_stage_ok; [|exact E2]. eapply prices_stage_ok; [|exact E1]. exact Hd.
  - destruct (run_stage (check_proc _) _ days) as [[s2 d2]| |] eqn:E2; cbn [cbind snd] in H; try discriminate.
    inversion H; subst. apply run_stage_inv in E2. eapply check_stage_ok; [|exact E2]. exact Hd.
Qed.

(* ------------------------------------------------------------ three sums over postings *)

Definition psum (f : posting -> bool) (ps : list posting) : Q :=
  qsum (map (fun p => if f p then dec_q (p_val p) else 0) ps).

(* booked on a portfolio account from/to a non-portfolio account, resp. another portfolio account *)
Definition ext_b (c : calc) (p : posting) : bool := booked c p && negb (is_portfolio c (p_other p)).
Definition int_b (c : calc) (p : posting) : bool := booked c p && is_portfolio c (p_other p).

Lemma psum_app f a b : psum f (a ++ b) == psum f a + psum f b.
Proof. unfold psum. rewrite map_app. apply qsum_app. Qed.

Lemma psum_cons f p ps : psum f (p :: ps) == (if f p then dec_q (p_val p) else 0) + psum f ps.
Proof. reflexivity. Qed.

Lemma psum_booked c ps : psum (booked c) ps == psum (ext_b c) ps + psum (int_b c) ps.
Proof.
  induction ps as [|p ps IH]; [unfold psum, qsum; cbn; ring|]. rewrite !psum_cons, IH.
  unfold ext_b, int_b. destruct (booked c p); destruct (is_portfolio c (p_other p)); cbn [andb negb]; ring.
Qed.

(* bookings between two portfolio accounts cancel *)
Lemma psum_int_paired c ps : paired2 ps -> psum (int_b c) ps == 0.
Proof.
  induction 1 as [|p p' rest Hp Hrest IH]; [reflexivity|]. rewrite !psum_cons, IH.
  destruct Hp as (Hc & _ & Hv & Ha & Ho).
  assert (E : int_b c p = int_b c p').
  { unfold int_b, booked. rewrite Hc, Ha, Ho.
    destruct (ca_com c (p_com p')); destruct (is_portfolio c (p_other p')); destruct (is_portfolio c (p_acc p')); reflexivity. }
  rewrite E, Hv. destruct (int_b c p'); [rewrite dec_q_neg|]; ring.
Qed.

Lemma psum_int_day c x : day2_ok x -> psum (int_b c) (day_postings x) == 0.
Proof.
  unfold day2_ok, day_postings. induction 1 as [|t ts Ht Hts IH]; cbn [flat_map]; [reflexivity|].
  rewrite psum_app, IH, (psum_int_paired c _ Ht). ring.
Qed.

(* ------------------------------------------------------------ ComputeValues, day by day *)

Fixpoint cv_recs (c : calc) (m : vals) (days : list day) : list (Z * (pcv * pcv)) :=
  match days with
  | [] => []
  | x :: r => let m' := fold_left (values_step c) (day_postings x) m in
              (d_date x, (vals_pcv m, vals_pcv m')) :: cv_recs c m' r
  end.

Lemma cv_run_recs c days : forall s, cv_prev s = vals_pcv (cv_values s) ->
  cv_out (cv_run c s days) = cv_out s ++ cv_recs c (cv_values s) days.
Proof.
  induction days as [|x r IH]; intros s Hs.
  - unfold cv_run, pure_days. cbn [fold_left cv_recs]. rewrite app_nil_r. reflexivity.
  - unfold cv_run, pure_days. cbn [fold_left].
    set (s1 := pure_day (Some cv_day_start) None (Some (cv_posting c)) (Some cv_day_end) s x).
    fold (pure_days (Some cv_day_start) None (Some (cv_posting c)) (Some cv_day_end) s1 r). fold (cv_run c s1 r).
    assert (Hv : cv_values s1 = fold_left (values_step c) (day_postings x) (cv_values s)) by apply cv_day_values.
    assert (Hp : cv_prev s1 = vals_pcv (cv_values s1)).
    { unfold s1. rewrite cv_day_prev, cv_txns_values, cv_day_values. reflexivity. }
    rewrite (IH s1 Hp). unfold s1 at 1. rewrite cv_day_out, cv_txns_values. cbn [cv_day_start cv_values].
    rewrite <- app_assoc. cbn [app cv_recs]. rewrite Hs, Hv. reflexivity.
Qed.

Lemma day_values_recs cfg days vs : day_values cfg days = COk vs -> vs = (cv_recs (pf_calc cfg) [] days, days).
Proof.
  unfold day_values, run_stage, compute_values_proc. rewrite pure_proc_days. cbn [of_presult cbind fst snd].
  intros H. inversion H; subst. f_equal.
  fold (cv_run (pf_calc cfg) cv_init days). rewrite cv_run_recs by reflexivity. reflexivity.
Qed.

(* ------------------------------------------------------------ ComputeFlows, day by day *)

Definition cf_run (ff : bool) (c : calc) := pure_days (Some cf_day_start) (Some (cf_txn ff c)) None (Some cf_day_end).

(* the Flows record of a day depends on the day only *)
Definition cf_day_rec (ff : bool) (c : calc) (x : day) : flows_day :=
  cf_cur (cf_day_end (fold_left (cf_txn ff c) (d_txns x) (mkCf 0 flows_zero [])) x).

Lemma cf_txn_out ff c pf cur out t :
  cf_txn ff c (mkCf pf cur out) t =
  mkCf (cf_portfolio (cf_txn ff c (mkCf pf cur []) t)) (cf_cur (cf_txn ff c (mkCf pf cur []) t)) out.
Proof.
  unfold cf_txn. cbn [cf_portfolio cf_cur cf_out].
  destruct (fold_left _ (t_postings t) _) as [[flows intf] pf']. reflexivity.
Qed.

Lemma cf_txns_out ff c ts : forall pf cur out,
  fold_left (cf_txn ff c) ts (mkCf pf cur out) =
  mkCf (cf_portfolio (fold_left (cf_txn ff c) ts (mkCf pf cur []))) (cf_cur (fold_left (cf_txn ff c) ts (mkCf pf cur []))) out.
Proof.
  induction ts as [|t ts IH]; intros pf cur out; cbn [fold_left]; [reflexivity|].
  rewrite cf_txn_out, IH. rewrite (cf_txn_out ff c pf cur []). rewrite (IH _ _ []). reflexivity.
Qed.

Lemma cf_day_step ff c s x :
  pure_day (Some cf_day_start) (Some (cf_txn ff c)) None (Some cf_day_end) s x =
  mkCf (cf_portfolio (cf_day_end (fold_left (cf_txn ff c) (d_txns x) (mkCf 0 flows_zero [])) x))
       (cf_day_rec ff c x) (cf_out s ++ [(d_date x, cf_day_rec ff c x)]).
Proof.
  unfold pure_day, opt_app, pure_txn, opt_app, cf_day_rec, cf_day_start.
  rewrite cf_txns_out. unfold cf_day_end. cbn [cf_portfolio cf_cur cf_out app]. reflexivity.
Qed.

Lemma cf_run_recs ff c days : forall s,
  cf_out (cf_run ff c s days) = cf_out s ++ map (fun x => (d_date x, cf_day_rec ff c x)) days.
Proof.
  unfold cf_run, pure_days. induction days as [|x r IH]; intros s; cbn [fold_left map]; [rewrite app_nil_r; reflexivity|].
  rewrite IH, cf_day_step. cbn [cf_out]. rewrite <- app_assoc. reflexivity.
Qed.

Lemma day_flows_recs fx cfg days fs :
  day_flows fx cfg days = COk fs -> fs = map (fun x => (d_date x, cf_day_rec (fx_flowfilter fx) (pf_calc cfg) x)) days.
Proof.
  unfold day_flows, run_stage, compute_flows_proc. rewrite pure_proc_days. cbn [of_presult cbind fst snd].
  intros H. inversion H; subst.
  fold (cf_run (fx_flowfilter fx) (pf_calc cfg) cf_init days). rewrite cf_run_recs. reflexivity.
Qed.

(* ------------------------------------------------------------ an untargeted transaction *)

Lemma cf_posting_none c flows intf pf p :
  cf_posting true c None (flows, intf, pf) p =
  if ext_b c p then (pcv_add flows (p_com p) (dec_q (p_val p)), intf, pf) else (flows, intf, pf).
Proof.
  unfold cf_posting, ext_b, booked. cbn [andb].
  destruct (ca_com c (p_com p)); destruct (is_portfolio c (p_acc p)); destruct (is_portfolio c (p_other p)); reflexivity.
Qed.

Lemma cf_postings_none c ps : forall flows intf pf, sorted flows ->
  exists flows', fold_left (cf_posting true c None) ps (flows, intf, pf) = (flows', intf, pf) /\
                 sorted flows' /\ pcv_sum flows' == pcv_sum flows + psum (ext_b c) ps.
Proof.
  induction ps as [|p ps IH]; intros flows intf pf Hs; cbn [fold_left].
  - exists flows. split; [reflexivity|]. split; [exact Hs|]. unfold psum, qsum. cbn. ring.
  - rewrite cf_posting_none. pose proof (psum_cons (ext_b c) p ps) as Hc. destruct (ext_b c p).
    + destruct (IH (pcv_add flows (p_com p) (dec_q (p_val p))) intf pf (pcv_add_sorted _ _ _ Hs)) as [f' [H1 [H2 H3]]].
      exists f'. split; [exact H1|]. split; [exact H2|]. rewrite H3, Hc, pcv_add_sum by exact Hs. ring.
    + destruct (IH flows intf pf Hs) as [f' [H1 [H2 H3]]].
      exists f'. split; [exact H1|]. split; [exact H2|]. rewrite H3, Hc. ring.
Qed.

Lemma q_not_pos_neg f : q_is_pos f = false -> q_is_neg f = false -> f == 0.
Proof.
  unfold q_is_pos, q_is_neg. intros H1 H2. apply Z.ltb_ge in H1, H2. unfold Qeq. cbn. lia.
Qed.

(* split moves every entry to one of the two maps (or drops a zero): the total is unchanged *)
Lemma split_flows_sum flows : forall io, sorted (fst io) -> sorted (snd io) ->
  sorted (fst (split_flows flows io)) /\ sorted (snd (split_flows flows io)) /\
  pcv_sum (fst (split_flows flows io)) + pcv_sum (snd (split_flows flows io)) ==
  pcv_sum (fst io) + pcv_sum (snd io) + qsum (map snd flows).
Proof.
  unfold split_flows. induction flows as [|[k f] flows IH]; intros io H1 H2; cbn [fold_left map].
  - split; [exact H1|]. split; [exact H2|]. unfold qsum. cbn [map fold_right]. rewrite Qplus_0_r. reflexivity.
  - rewrite qsum_cons. cbn [snd]. destruct (q_is_pos f) eqn:Ep; [|destruct (q_is_neg f) eqn:En].
    + destruct (IH (pcv_add (fst io) k f, snd io) (pcv_add_sorted _ _ _ H1) H2) as [G1 [G2 G3]].
      split; [exact G1|]. split; [exact G2|]. rewrite G3. cbn [fst snd]. rewrite pcv_add_sum by exact H1. ring.
    + destruct (IH (fst io, pcv_add (snd io) k f) H1 (pcv_add_sorted _ _ _ H2)) as [G1 [G2 G3]].
      split; [exact G1|]. split; [exact G2|]. rewrite G3. cbn [fst snd]. rewrite pcv_add_sum by exact H2. ring.
    + destruct (IH io H1 H2) as [G1 [G2 G3]].
      split; [exact G1|]. split; [exact G2|]. rewrite G3, (q_not_pos_neg f Ep En). ring.
Qed.

(* the invariant of the day's loop over untargeted transactions *)
Record cf_inv (c : calc) (s : cf_state) (total : Q) : Prop := mkCfInv {
  ci_pf : cf_portfolio s = 0;
  ci_in : sorted (fl_in (cf_cur s));
  ci_out : sorted (fl_out (cf_cur s));
  ci_sum : pcv_sum (fl_in (cf_cur s)) + pcv_sum (fl_out (cf_cur s)) == total }.

Lemma cf_txn_untargeted c s t total :
  t_targets t = None -> cf_inv c s total -> cf_inv c (cf_txn true c s t) (total + psum (ext_b c) (t_postings t)).
Proof.
  intros Ht [Hpf Hin Hout Hsum]. unfold cf_txn. rewrite Ht. cbn [pick_targets].
  assert (Hnil : sorted ([] : pcv)) by constructor.
  destruct (cf_postings_none c (t_postings t) [] [] (cf_portfolio s) Hnil) as [flows [Hfl [Hfs Hfsum]]].
  match goal with |- context [fold_left ?f ?l ?a] => remember (fold_left f l a) as r eqn:Er end.
  assert (Hr : r = (flows, [], cf_portfolio s)) by (rewrite Er; exact Hfl). rewrite Hr. clear r Er Hr Hfl.
  destruct (split_flows_sum flows (fl_in (cf_cur s), fl_out (cf_cur s)) Hin Hout) as [G1 [G2 G3]].
  constructor; cbn [cf_portfolio cf_cur fl_in fl_out]; [exact Hpf|exact G1|exact G2|].
  rewrite G3. cbn [fst snd]. rewrite Hsum, <- pcv_sum_spec, Hfsum.
  unfold pcv_sum at 1. cbn [fold_left]. ring.
Qed.

Lemma cf_txns_untargeted c ts : forall s total,
  Forall (fun t => t_targets t = None) ts -> cf_inv c s total ->
  cf_inv c (fold_left (cf_txn true c) ts s) (total + psum (ext_b c) (flat_map t_postings ts)).
Proof.
  induction ts as [|t ts IH]; intros s total Hts Hinv; cbn [fold_left flat_map].
  - destruct Hinv as [H1 H2 H3 H4]. constructor; try assumption. rewrite H4. unfold psum, qsum. cbn. ring.
  - inversion Hts as [|? ? Ht Hrest]; subst.
    pose proof (IH _ _ Hrest (cf_txn_untargeted c s t total Ht Hinv)) as [H1 H2 H3 H4].
    constructor; try assumption. rewrite H4, psum_app. ring.
Qed.

Definition untargeted (x : day) : Prop := Forall (fun t => t_targets t = None) (d_txns x).

(* the Flows record of an untargeted day: no portfolio flows; Inflows + Outflows = the day's
   bookings between portfolio and non-portfolio accounts *)
Lemma cf_day_untargeted c x :
  untargeted x ->
  fl_pin (cf_day_rec true c x) = 0 /\ fl_pout (cf_day_rec true c x) = 0 /\
  pcv_sum (fl_in (cf_day_rec true c x)) + pcv_sum (fl_out (cf_day_rec true c x)) == psum (ext_b c) (day_postings x).
Proof.
  intros Hx. unfold cf_day_rec.
  assert (H0 : cf_inv c (mkCf 0 flows_zero []) 0).
  { constructor; cbn [cf_portfolio cf_cur flows_zero fl_in fl_out]; try constructor. }
  pose proof (cf_txns_untargeted c (d_txns x) _ _ Hx H0) as [H1 H2 H3 H4].
  unfold cf_day_end. cbn [cf_cur fl_pin fl_pout fl_in fl_out]. rewrite H1.
  split; [reflexivity|]. split; [reflexivity|]. rewrite H4. unfold day_postings. ring.
Qed.

(* ------------------------------------------------------------ the Performance records *)

Lemma asc_nodup l : asc l -> NoDup l.
Proof.
  induction l as [|x l IH]; intros H; constructor.
  - intros Hin. pose proof (asc_lt _ _ H x Hin). lia.
  - apply IH. exact (asc_tail _ _ H).
Qed.

Lemma flows_at_map (F : day -> flows_day) days x :
  NoDup (map d_date days) -> In x days -> flows_at (map (fun y => (d_date y, F y)) days) (d_date x) = F x.
Proof.
  induction days as [|y r IH]; intros Hnd Hin; [destruct Hin|].
  cbn [map flows_at]. cbn [map] in Hnd. inversion Hnd as [|? ? Hnotin Hnd']; subst. destruct Hin as [->|Hin].
  - rewrite Z.eqb_refl. reflexivity.
  - replace (d_date x =? d_date y)%Z with false; [exact (IH Hnd' Hin)|].
    symmetry. apply Z.eqb_neq. intros E. apply Hnotin. rewrite <- E. apply in_map. exact Hin.
Qed.

Lemma Forall2_in_r {A B} (R : A -> B -> Prop) l1 l2 :
  Forall2 R l1 l2 -> forall b, In b l2 -> exists a, In a l1 /\ R a b.
Proof.
  induction 1 as [|a b0 l1 l2 Hab Hrest IH]; intros b Hb; [destruct Hb|].
  destruct Hb as [<-|Hb]; [exists a; split; [left; reflexivity|exact Hab]|].
  destruct (IH b Hb) as [a' [Ha' HR]]. exists a'. split; [right; exact Ha'|exact HR].
Qed.

(* what flowed in and out accounts for the whole change in value *)
Definition flows_explain (p : perf) : Prop := p_v1 p == p_v0 p + p_inflow p + p_outflow p.

Lemma untargeted_day_law c m x :
  sorted m -> day2_ok x -> untargeted x ->
  flows_explain (mkPerf (d_date x) (vals_pcv m) (vals_pcv (fold_left (values_step c) (day_postings x) m)) (cf_day_rec true c x)).
Proof.
  intros Hm Hok Hx. unfold flows_explain, p_v1, p_v0, p_inflow, p_outflow. cbn [pf_v0 pf_v1 pf_flows].
  destruct (cf_day_untargeted c x Hx) as [Hpin [Hpout Hsum]]. rewrite Hpin, Hpout.
  rewrite !pcv_sum_vals, values_fold_sum by exact Hm. fold (psum (booked c) (day_postings x)).
  rewrite psum_booked, (psum_int_day c x Hok), <- Hsum. ring.
Qed.

Definition record_of (x : day) (p : perf) : Prop := pf_date p = d_date x /\ (untargeted x -> flows_explain p).

Lemma perf_records_law c days0 :
  NoDup (map d_date days0) -> Forall day2_ok days0 ->
  forall days m, incl days days0 -> sorted m ->
  Forall2 record_of days
          (join_perf (cv_recs c m days) (map (fun x => (d_date x, cf_day_rec true c x)) days0)).
Proof.
  intros Hnd Hok. induction days as [|x r IH]; intros m Hincl Hm; cbn [cv_recs]; [constructor|].
  unfold join_perf. cbn [map fst snd]. fold (join_perf (cv_recs c (fold_left (values_step c) (day_postings x) m) r)
                                                     (map (fun x0 => (d_date x0, cf_day_rec true c x0)) days0)).
  assert (Hx : In x days0) by (apply Hincl; left; reflexivity).
  constructor.
  - split; [reflexivity|]. intros Hu. rewrite (flows_at_map (cf_day_rec true c) days0 x Hnd Hx).
    apply untargeted_day_law; [exact Hm| |exact Hu]. rewrite Forall_forall in Hok. exact (Hok x Hx).
  - apply IH; [|apply values_fold_sorted; exact Hm]. intros y Hy. apply Hincl. right. exact Hy.
Qed.

(* ------------------------------------------------------------ the statement of Properties/C20.v *)

Theorem external_flows_zero_full cfg ds out :
  returns_fixed cfg ds = COk out ->
  exists b part days vs fs,
    (* the intermediate results of returnsRunner.execute *)
    load ds = COk b /\ pf_partition cfg b = COk part /\
    valued_days cfg (b_days (builder_touch b (end_dates part))) = COk days /\
    day_values cfg days = COk vs /\ day_flows repaired cfg (snd vs) = COk fs /\
    out = perf_loop part (end_dates part) (Some 1) (join_perf (fst vs) fs) /\
    map pf_date (join_perf (fst vs) fs) = map d_date days /\
    (* every stretch l ++ [p] of the Performance records whose days are untargeted *)
    forall l p, (exists pre rest, join_perf (fst vs) fs = pre ++ l ++ p :: rest) ->
      (forall x, In x days -> In (d_date x) (map pf_date (l ++ [p])) -> untargeted x) ->
      Forall flows_explain (l ++ [p]) /\ is_or_undef (reported part (end_dates part) l p) 0.
Proof.
  unfold returns_fixed, returns_gen. cbn [fx_wiring repaired]. intros H.
  destruct (check_valuation cfg); cbn [cbind] in H; try discriminate.
  destruct (load ds) as [b| |] eqn:El; cbn [cbind] in H; try discriminate.
  destruct (pf_partition cfg b) as [part| |] eqn:Ep; cbn [cbind] in H; try discriminate.
  destruct (valued_days cfg _) as [days| |] eqn:Ev; cbn [cbind] in H; try discriminate.
  destruct (day_values cfg days) as [vs| |] eqn:Edv; cbn [cbind] in H; try discriminate.
  destruct (day_flows _ cfg (snd vs)) as [fs| |] eqn:Ef; cbn [cbind] in H; try discriminate.
  inversion H; subst out. clear H.
  exists b, part, days, vs, fs.
  split; [reflexivity|]. split; [exact Ep|]. split; [exact Ev|]. split; [exact Edv|]. split; [exact Ef|]. split; [reflexivity|].
  pose proof (day_values_recs _ _ _ Edv) as Hvs. subst vs. cbn [fst snd] in *.
  pose proof (day_flows_recs _ _ _ _ Ef) as Hfs. cbn [fx_flowfilter repaired] in Hfs. subst fs.
  assert (Hasc : asc (map d_date days)) by (eapply command_days_asc; eauto).
  assert (Hok : Forall day2_ok days).
  { eapply valued_days_ok2; [|exact Ev]. apply builder_touch_ok. eapply load_days_ok2. exact El. }
  assert (Hnil : sorted ([] : vals)) by constructor.
  pose proof (perf_records_law (pf_calc cfg) days (asc_nodup _ Hasc) Hok days [] (incl_refl _) Hnil) as Hrec.
  split.
  { rewrite join_perf_dates. clear. generalize ([] : vals). induction days as [|x r IH]; intros m; cbn [cv_recs map fst]; [reflexivity|].
    rewrite IH. reflexivity. }
  intros l p [pre [rest Hsplit]] Hunt.
  assert (Hlaw : Forall flows_explain (l ++ [p])).
  { apply Forall_forall. intros q Hq.
    assert (Hqin : In q (join_perf (cv_recs (pf_calc cfg) [] days)
                                   (map (fun x => (d_date x, cf_day_rec true (pf_calc cfg) x)) days))).
    { rewrite Hsplit. apply in_or_app. right.
      replace (l ++ p :: rest) with ((l ++ [p]) ++ rest) by (rewrite <- app_assoc; reflexivity).
      apply in_or_app. left. exact Hq. }
    destruct (Forall2_in_r _ _ _ Hrec q Hqin) as [x [Hx [Hd Hl]]]. apply Hl. apply (Hunt x Hx).
    rewrite <- Hd. apply in_map. exact Hq. }
  split; [exact Hlaw|]. apply external_flows_zero. exact Hlaw.
Qed.

(* ------------------------------------------------------------ the line the command prints *)

(* after a processed period end the running product starts again at 1 *)
Lemma perf_loop_reset part ends pre q x : forall r,
  partition_contains part (pf_date q) = true -> mem ends (pf_date q) = true ->
  perf_loop part ends r (pre ++ q :: x) = perf_loop part ends r (pre ++ [q]) ++ perf_loop part ends (Some 1) x.
Proof.
  intros r Hc Hm. unfold mem in Hm. revert r. induction pre as [|y pre IH]; intros r; cbn [app perf_loop].
  - rewrite Hc, Hm. cbn [negb app]. reflexivity.
  - destruct (negb (partition_contains part (pf_date y))); [apply IH|].
    destruct (existsb (Z.eqb (pf_date y)) ends); [cbn [app]; f_equal|]; apply IH.
Qed.

(* the records before a period: all before the window, or ending with a processed period end *)
Definition boundary (part : partition) (ends : list Z) (pre : list perf) : Prop :=
  Forall (fun x => partition_contains part (pf_date x) = false) pre \/
  exists pre' q, pre = pre' ++ [q] /\ partition_contains part (pf_date q) = true /\ mem ends (pf_date q) = true.

Lemma perf_loop_boundary part ends pre x :
  boundary part ends pre ->
  perf_loop part ends (Some 1) (pre ++ x) = perf_loop part ends (Some 1) pre ++ perf_loop part ends (Some 1) x.
Proof.
  intros [H|[pre' [q [-> [Hc Hm]]]]].
  - rewrite (perf_loop_skip part ends pre x _ H).
    pose proof (perf_loop_skip part ends pre [] (Some 1) H) as H0. rewrite app_nil_r in H0. rewrite H0. reflexivity.
  - rewrite <- app_assoc. cbn [app]. apply perf_loop_reset; assumption.
Qed.

Theorem external_flows_zero_line cfg ds out :
  returns_fixed cfg ds = COk out ->
  exists part days perfs,
    map pf_date perfs = map d_date days /\ out = perf_loop part (end_dates part) (Some 1) perfs /\
    forall pre l p rest, perfs = pre ++ l ++ p :: rest ->
      boundary part (end_dates part) pre ->
      Forall (fun x => partition_contains part (pf_date x) = true /\ mem (end_dates part) (pf_date x) = false) l ->
      partition_contains part (pf_date p) = true -> mem (end_dates part) (pf_date p) = true ->
      (forall x, In x days -> In (d_date x) (map pf_date (l ++ [p])) -> untargeted x) ->
      exists r, In (pf_date p, r) out /\ is_or_undef r 0.
Proof.
  intros H. destruct (external_flows_zero_full cfg ds out H) as [b [part [days [vs [fs [_ [_ [_ [_ [_ [Hout [Hdates Hlaw]]]]]]]]]]]].
  exists part, days, (join_perf (fst vs) fs). split; [exact Hdates|]. split; [exact Hout|].
  intros pre l p rest Hsplit Hb Hl Hc Hm Hunt.
  destruct (Hlaw l p (ex_intro _ pre (ex_intro _ rest Hsplit)) Hunt) as [_ Hzero].
  exists (reported part (end_dates part) l p). split; [|exact Hzero].
  rewrite Hout, Hsplit, (perf_loop_boundary _ _ _ _ Hb), (period_reported part (end_dates part) l p rest Hl Hc Hm).
  apply in_or_app. right. left. reflexivity.
Qed.
