(* Proofs about Model/AtomicFSConc.v: the interleaving theorem for the concurrent command.
   Route: [agree_on P f f'] (content and handles agree on the paths in P); an operation that
   mentions only paths in P maps states that agree on P to states that agree on P
   ([step_congr]); an operation that mentions no path in P leaves P alone ([step_frame] of
   AtomicFSProofs.v); hence the state restricted to {tmp_i, tgt_i} after ANY prefix of ANY
   interleaving is the state after the projection onto i alone from the one-file directory
   ([restrict_run]); the projection of a prefix is a prefix of the projection ([proj_firstn]);
   then [safe_prefixes] / [protocol_correct] per job.                                          *)
From Coq Require Import List Bool Arith PeanoNat NArith Lia.
From Knut Require Import Model.AtomicFS Model.AtomicFSConc Proofs.AtomicFSProofs.
Import ListNotations.

(* ------------------------------------------------------------------ agreement on a set of paths *)
Definition agree_on (P : path -> bool) (f f' : fs) : Prop :=
  forall q, P q = true -> content f q = content f' q /\ is_open f q = is_open f' q.

Lemma agree_refl : forall P f, agree_on P f f.
Proof. intros P f q _. split; reflexivity. Qed.

Lemma agree_trans : forall P f g h, agree_on P f g -> agree_on P g h -> agree_on P f h.
Proof.
  intros P f g h Hfg Hgh q Hq. destruct (Hfg q Hq) as [A B]. destruct (Hgh q Hq) as [C D].
  rewrite A, B, C, D. split; reflexivity.
Qed.

Lemma fs_run_cons : forall t o tr f, fs_run t (o :: tr) f = fs_run t tr (fs_step t f o).
Proof. reflexivity. Qed.

(* an operation that mentions only paths in P: states that agree on P stay in agreement on P *)
Lemma step_congr : forall P t f f' o,
  agree_on P f f' ->
  (forall q, mentions o t q = true -> P q = true) ->
  agree_on P (fs_step t f o) (fs_step t f' o).
Proof.
  intros P t f f' o Ha Hm q Hq. destruct (Ha q Hq) as [Cq Oq].
  destruct o as [p|p d|p|p|p|p r|p|p|d|]; simpl in Hm; simpl fs_step.
  - (* Create *)
    assert (Hp : P p = true) by (apply Hm; apply Nat.eqb_refl).
    destruct (Ha p Hp) as [Cp Op]. rewrite <- Cp.
    destruct (content f p); simpl; rewrite <- ?Cq, <- ?Oq; auto.
  - (* Write *)
    assert (Hp : P p = true) by (apply Hm; apply Nat.eqb_refl).
    destruct (Ha p Hp) as [Cp Op]. rewrite <- Cp, <- Op.
    destruct (content f p); [destruct (is_open f p)|]; simpl; rewrite <- ?Cq, <- ?Oq; auto.
  - auto.
  - (* Close *) simpl. rewrite <- Cq, <- Oq. auto.
  - auto.
  - (* Rename *)
    assert (Hp : P p = true) by (apply Hm; rewrite Nat.eqb_refl; reflexivity).
    destruct (Ha p Hp) as [Cp Op]. rewrite <- Cp.
    destruct (content f p); [|auto]. destruct (p =? r); [auto|].
    simpl. rewrite <- Cq, <- Oq, <- Op. auto.
  - (* Unlink *) simpl. rewrite <- Cq, <- Oq. auto.
  - (* OpenTrunc *)
    assert (Hp : P p = true) by (apply Hm; apply Nat.eqb_refl).
    destruct (Ha p Hp) as [Cp Op]. rewrite <- Cp.
    destruct (content f p); simpl; rewrite <- ?Cq, <- ?Oq; auto.
  - (* WriteTgt *)
    assert (Hp : P t = true) by (apply Hm; apply Nat.eqb_refl).
    destruct (Ha t Hp) as [Cp Op]. rewrite <- Cp.
    destruct (content f t); simpl; rewrite <- ?Cq, <- ?Oq; auto.
  - auto.
Qed.

(* an operation that mentions no path in P *)
Lemma step_frame_on : forall P t f o,
  (forall q, P q = true -> mentions o t q = false) ->
  agree_on P (fs_step t f o) f.
Proof. intros P t f o Hm q Hq. apply step_frame. apply Hm. assumption. Qed.

(* ------------------------------------------------------------------ projections *)
Lemma proj_cons : forall i l o ltr,
  proj i ((l, o) :: ltr) = if l =? i then o :: proj i ltr else proj i ltr.
Proof. intros. unfold proj. simpl. destruct (l =? i); reflexivity. Qed.

Lemma in_proj : forall l o ltr, In (l, o) ltr -> In o (proj l ltr).
Proof.
  intros l o ltr Hin. unfold proj. apply in_map_iff. exists (l, o). split; [reflexivity|].
  apply filter_In. split; [assumption|]. simpl. apply Nat.eqb_refl.
Qed.

Lemma in_firstn : forall (A : Type) (x : A) k l, In x (firstn k l) -> In x l.
Proof.
  intros A x k l Hin. rewrite <- (firstn_skipn k l). apply in_or_app. left. assumption.
Qed.

(* what goroutine i did during a prefix of the schedule is a prefix of what it does in all *)
Lemma proj_firstn : forall i ltr k, exists k', proj i (firstn k ltr) = firstn k' (proj i ltr).
Proof.
  intros i. induction ltr as [|[l o] ltr IH]; intros k.
  - exists 0. rewrite firstn_nil. reflexivity.
  - destruct k as [|k]; [exists 0; reflexivity|].
    destruct (IH k) as [k' Hk']. rewrite firstn_cons, !proj_cons.
    destruct (l =? i).
    + exists (S k'). rewrite firstn_cons, Hk'. reflexivity.
    + exists k'. assumption.
Qed.

(* the state on P after an interleaved run, when the operations labelled i mention only paths
   in P and all others mention none of them, is the state after the operations labelled i alone *)
Lemma restrict_run : forall P i t ltr,
  (forall o, In (i, o) ltr -> forall q, mentions o t q = true -> P q = true) ->
  (forall l o, In (l, o) ltr -> l <> i -> forall q, P q = true -> mentions o t q = false) ->
  forall f f', agree_on P f f' ->
  agree_on P (fs_run t (map snd ltr) f) (fs_run t (proj i ltr) f').
Proof.
  intros P i t. induction ltr as [|[l o] ltr IH]; intros Hown Hoth f f' Ha.
  - exact Ha.
  - rewrite proj_cons. simpl map. rewrite fs_run_cons.
    assert (Hown' : forall o', In (i, o') ltr -> forall q, mentions o' t q = true -> P q = true)
      by (intros o' Hin; apply Hown; right; assumption).
    assert (Hoth' : forall l' o', In (l', o') ltr -> l' <> i ->
                                  forall q, P q = true -> mentions o' t q = false)
      by (intros l' o' Hin; apply (Hoth l' o'); right; assumption).
    destruct (l =? i) eqn:E.
    + apply Nat.eqb_eq in E. subst l. rewrite fs_run_cons. apply IH; [assumption|assumption|].
      apply step_congr; [assumption|]. apply Hown. left. reflexivity.
    + apply Nat.eqb_neq in E. apply IH; [assumption|assumption|].
      eapply agree_trans; [|exact Ha]. apply step_frame_on.
      apply (Hoth l o); [left; reflexivity|assumption].
Qed.

(* ------------------------------------------------------------------ no protocol trace writes
   through a handle on the target, so the tgt parameter of fs_step (only WriteTgt uses it) is
   irrelevant for them *)
Definition no_wt (o : op) : bool := match o with WriteTgt _ => false | _ => true end.

Lemma step_tgt_irrel : forall t t' f o, no_wt o = true -> fs_step t f o = fs_step t' f o.
Proof. intros t t' f o H. destruct o; try reflexivity. discriminate. Qed.

Lemma mentions_tgt_irrel : forall t t' o q, no_wt o = true -> mentions o t q = mentions o t' q.
Proof. intros t t' o q H. destruct o; try reflexivity. discriminate. Qed.

Lemma run_tgt_irrel : forall t t' tr f, (forall o, In o tr -> no_wt o = true) ->
  fs_run t tr f = fs_run t' tr f.
Proof.
  intros t t'. induction tr as [|o tr IH]; intros f H; [reflexivity|].
  rewrite !fs_run_cons. rewrite (step_tgt_irrel t t' f o) by (apply H; left; reflexivity).
  apply IH. intros o' Hin. apply H. right. assumption.
Qed.

Lemma writes_no_wt : forall tmp splits data o, In o (writes tmp data splits) -> no_wt o = true.
Proof.
  intros tmp. induction splits as [|s r IH]; intros data o Hin; simpl in Hin.
  - destruct data; [contradiction|]. destruct Hin as [<-|[]]. reflexivity.
  - destruct Hin as [<-|Hin]; [reflexivity|]. eapply IH; eassumption.
Qed.

Lemma atomic_write_no_wt : forall tmp tgt new chmod splits flt o,
  In o (atomic_write tmp tgt new chmod splits flt) -> no_wt o = true.
Proof.
  intros tmp tgt new chmod splits flt o Hin.
  destruct flt; unfold atomic_write in Hin; destruct chmod; simpl in Hin;
    repeat (try rewrite in_app_iff in Hin; simpl in Hin;
            match goal with
            | H : _ \/ _ |- _ => destruct H as [H|H]
            | H : False |- _ => contradiction
            | H : _ = o |- _ => subst o; reflexivity
            | H : In _ (writes _ _ _) |- _ => eapply writes_no_wt; eassumption
            end).
Qed.

Lemma job_trace_no_wt : forall j o, In o (job_trace j) -> no_wt o = true.
Proof.
  intros j o Hin. unfold job_trace, format_file in Hin. destruct (j_fmt j); [|contradiction].
  eapply atomic_write_no_wt; eassumption.
Qed.

(* a job mentions only its own two paths, whatever the tgt parameter *)
Lemma job_trace_mentions : forall j o t q, In o (job_trace j) -> q <> j_tmp j -> q <> j_tgt j ->
  mentions o t q = false.
Proof.
  intros j o t q Hin H1 H2.
  rewrite (mentions_tgt_irrel t (j_tgt j) o q) by (eapply job_trace_no_wt; eassumption).
  unfold job_trace, format_file in Hin. destruct (j_fmt j) as [new|]; [|contradiction].
  eapply atomic_write_mentions; eassumption.
Qed.

(* ------------------------------------------------------------------ pairwise distinct paths *)
Fixpoint dbl (i : nat) : nat := match i with 0 => 0 | S i' => S (S (dbl i')) end.

Lemma dbl_spec : forall i, dbl i = 2 * i.
Proof. induction i as [|i IH]; [reflexivity|]. cbn [dbl]. rewrite IH. lia. Qed.

Lemma nth_paths : forall jobs i j, nth_error jobs i = Some j ->
  nth_error (job_paths jobs) (dbl i) = Some (j_tmp j) /\
  nth_error (job_paths jobs) (S (dbl i)) = Some (j_tgt j).
Proof.
  induction jobs as [|j0 r IH]; intros i j H.
  - destruct i; discriminate.
  - destruct i as [|i]; simpl in H.
    + injection H as ->. split; reflexivity.
    + exact (IH i j H).
Qed.

Lemma nodup_pos : forall (l : list path) a b x, NoDup l ->
  nth_error l a = Some x -> nth_error l b = Some x -> a = b.
Proof.
  intros l a b x Hnd Ha Hb. apply (proj1 (NoDup_nth_error l) Hnd).
  - apply nth_error_Some. rewrite Ha. discriminate.
  - rewrite Ha, Hb. reflexivity.
Qed.

Lemma tmp_ne_tgt : forall jobs i j, NoDup (job_paths jobs) -> nth_error jobs i = Some j ->
  j_tmp j <> j_tgt j.
Proof.
  intros jobs i j Hnd H E. destruct (nth_paths jobs i j H) as [A B]. rewrite E in A.
  pose proof (nodup_pos _ _ _ _ Hnd A B) as X. lia.
Qed.

(* own j q: q is one of the two paths of job j *)
Definition own (j : job) (q : path) : bool := (q =? j_tmp j) || (q =? j_tgt j).

Lemma own_cases : forall j q, own j q = true -> q = j_tmp j \/ q = j_tgt j.
Proof.
  intros j q H. unfold own in H. apply orb_true_iff in H.
  destruct H as [H|H]; apply Nat.eqb_eq in H; auto.
Qed.

Lemma own_tmp : forall j, own j (j_tmp j) = true.
Proof. intros. unfold own. rewrite Nat.eqb_refl. reflexivity. Qed.
Lemma own_tgt : forall j, own j (j_tgt j) = true.
Proof. intros. unfold own. rewrite Nat.eqb_refl. apply orb_true_r. Qed.

Lemma own_disjoint : forall jobs i i' j j' q, NoDup (job_paths jobs) ->
  nth_error jobs i = Some j -> nth_error jobs i' = Some j' -> i <> i' ->
  own j q = true -> q <> j_tmp j' /\ q <> j_tgt j'.
Proof.
  intros jobs i i' j j' q Hnd H H' Hne Hq.
  destruct (nth_paths jobs i j H) as [A B]. destruct (nth_paths jobs i' j' H') as [A' B'].
  rewrite !dbl_spec in *.
  destruct (own_cases j q Hq) as [-> | ->]; split; intro E; rewrite <- ?E in *.
  - pose proof (nodup_pos _ _ _ _ Hnd A A'). lia.
  - pose proof (nodup_pos _ _ _ _ Hnd A B'). lia.
  - pose proof (nodup_pos _ _ _ _ Hnd B A'). lia.
  - pose proof (nodup_pos _ _ _ _ Hnd B B'). lia.
Qed.

(* ------------------------------------------------------------------ the initial directory *)
Lemma init_content_none : forall jobs q, (forall j0, In j0 jobs -> q <> j_tgt j0) ->
  init_content jobs q = None.
Proof.
  induction jobs as [|j0 r IH]; intros q H; [reflexivity|]. simpl.
  destruct (q =? j_tgt j0) eqn:E.
  - apply Nat.eqb_eq in E. exfalso. apply (H j0); [left; reflexivity|assumption].
  - apply IH. intros j1 Hin. apply H. right. assumption.
Qed.

Lemma init_content_first : forall jobs i j, nth_error jobs i = Some j ->
  (forall i0 j0, i0 < i -> nth_error jobs i0 = Some j0 -> j_tgt j <> j_tgt j0) ->
  init_content jobs (j_tgt j) = Some (j_old j).
Proof.
  induction jobs as [|j0 r IH]; intros i j H Hlt.
  - destruct i; discriminate.
  - destruct i as [|i]; simpl in H.
    + injection H as ->. simpl. rewrite Nat.eqb_refl. reflexivity.
    + simpl. destruct (j_tgt j =? j_tgt j0) eqn:E.
      * apply Nat.eqb_eq in E. exfalso. apply (Hlt 0 j0); [lia|reflexivity|assumption].
      * apply (IH i j H). intros i0 j1 Hi0 Hj1. apply (Hlt (S i0) j1); [lia|exact Hj1].
Qed.

Lemma init_agree : forall jobs i j, NoDup (job_paths jobs) -> nth_error jobs i = Some j ->
  agree_on (own j) (fs_init_jobs jobs) (fs_init (j_tgt j) (j_old j)).
Proof.
  intros jobs i j Hnd H q Hq. split; [|reflexivity].
  pose proof (tmp_ne_tgt jobs i j Hnd H) as Hne.
  unfold fs_init_jobs, fs_init. cbn [content].
  destruct (own_cases j q Hq) as [-> | ->].
  - replace (j_tmp j =? j_tgt j) with false by (symmetry; apply Nat.eqb_neq; assumption).
    apply init_content_none. intros j0 Hin. destruct (In_nth_error jobs j0 Hin) as [i0 Hi0].
    destruct (Nat.eq_dec i i0) as [<-|Hii].
    + rewrite H in Hi0. injection Hi0 as <-. assumption.
    + apply (own_disjoint jobs i i0 j j0 (j_tmp j) Hnd H Hi0 Hii (own_tmp j)).
  - rewrite Nat.eqb_refl. apply (init_content_first jobs i j H).
    intros i0 j0 Hlt Hj0.
    apply (own_disjoint jobs i i0 j j0 (j_tgt j) Hnd H Hj0 ltac:(lia) (own_tgt j)).
Qed.

(* ------------------------------------------------------------------ the theorem *)
Section Interleave.
  Variable jobs : list job.
  Variable ltr : list (nat * op).
  Variable t0 : path.
  Hypothesis Hnd : NoDup (job_paths jobs).
  Hypothesis Hproj : forall i,
    proj i ltr = match nth_error jobs i with Some j => job_trace j | None => [] end.
  (* the directory before the command: on the two paths of every job it looks like the directory
     that holds only the job's target (other files may exist and may be open) *)
  Variable f0 : fs.
  Hypothesis Hinit : forall i j, nth_error jobs i = Some j ->
    agree_on (own j) f0 (fs_init (j_tgt j) (j_old j)).

  (* operations of goroutine i mention only the two paths of job i *)
  Lemma own_ops : forall i j o, nth_error jobs i = Some j -> In (i, o) ltr ->
    forall q, mentions o t0 q = true -> own j q = true.
  Proof.
    intros i j o H Hin q Hm. apply in_proj in Hin. rewrite Hproj, H in Hin.
    unfold own. destruct (q =? j_tmp j) eqn:E1; [reflexivity|].
    destruct (q =? j_tgt j) eqn:E2; [reflexivity|].
    apply Nat.eqb_neq in E1. apply Nat.eqb_neq in E2.
    rewrite (job_trace_mentions j o t0 q Hin E1 E2) in Hm. discriminate.
  Qed.

  (* operations of the other goroutines mention neither *)
  Lemma other_ops : forall i j l o, nth_error jobs i = Some j -> In (l, o) ltr -> l <> i ->
    forall q, own j q = true -> mentions o t0 q = false.
  Proof.
    intros i j l o H Hin Hne q Hq. apply in_proj in Hin. rewrite Hproj in Hin.
    destruct (nth_error jobs l) as [j'|] eqn:Hl; [|contradiction].
    destruct (own_disjoint jobs i l j j' q Hnd H Hl (fun e => Hne (eq_sym e)) Hq) as [A B].
    apply (job_trace_mentions j' o t0 q Hin A B).
  Qed.

  (* after any prefix of the schedule the two paths of job i are as after a prefix of the
     job's own trace, run alone in the directory that holds only its target *)
  Lemma restricted : forall i j k, nth_error jobs i = Some j ->
    exists k',
      agree_on (own j) (fs_run t0 (map snd (firstn k ltr)) f0)
                       (fs_run (j_tgt j) (firstn k' (job_trace j)) (fs_init (j_tgt j) (j_old j))).
  Proof.
    intros i j k H. destruct (proj_firstn i ltr k) as [k' Hk']. exists k'.
    rewrite (run_tgt_irrel (j_tgt j) t0)
      by (intros o Hin; apply (job_trace_no_wt j); eapply in_firstn; eassumption).
    pose proof (Hproj i) as Hp. rewrite H in Hp. rewrite <- Hp, <- Hk'.
    apply restrict_run.
    - intros o Hin. apply (own_ops i j o H). eapply in_firstn; eassumption.
    - intros l o Hin Hne. apply (other_ops i j l o H); [eapply in_firstn; eassumption|assumption].
    - apply (Hinit i j H).
  Qed.

  Lemma interleaving_prefix : forall k i j, nth_error jobs i = Some j ->
    let f := fs_run t0 (map snd (firstn k ltr)) f0 in
    content f (j_tgt j) = Some (j_old j) \/
    (exists new, j_fmt j = Some new /\ content f (j_tgt j) = Some new).
  Proof.
    intros k i j H f. subst f. destruct (restricted i j k H) as [k' Hk'].
    destruct (Hk' (j_tgt j) (own_tgt j)) as [C _]. rewrite C. clear C Hk'.
    pose proof (tmp_ne_tgt jobs i j Hnd H) as Hne.
    unfold job_trace, format_file. destruct (j_fmt j) as [new|].
    - destruct (protocol_correct (j_tgt j) (j_old j) new (j_tmp j) Hne
                  (j_chmod j) (j_splits j) (j_fault j)) as [Hsafe _].
      destruct (safe_prefixes (j_tgt j) (j_old j) new _ _ Hsafe (init_ok (j_tgt j) (j_old j) new) k')
        as [A|A]; [left; exact A|right; exists new; split; [reflexivity|exact A]].
    - left. rewrite firstn_nil. unfold fs_run, fs_init. simpl. rewrite Nat.eqb_refl. reflexivity.
  Qed.

  Lemma interleaving_final : forall i j, nth_error jobs i = Some j ->
    let f := fs_run t0 (map snd ltr) f0 in
    content f (j_tgt j) = Some (job_final j) /\ content f (j_tmp j) = None.
  Proof.
    intros i j H f. subst f. destruct (restricted i j (length ltr) H) as [k' Hk'].
    rewrite firstn_all in Hk'.
    (* the whole schedule: the projection is the whole trace of the job *)
    assert (Hall : agree_on (own j) (fs_run t0 (map snd ltr) f0)
                     (fs_run (j_tgt j) (job_trace j) (fs_init (j_tgt j) (j_old j)))).
    { rewrite (run_tgt_irrel (j_tgt j) t0) by (apply job_trace_no_wt).
      pose proof (Hproj i) as Hp. rewrite H in Hp. rewrite <- Hp.
      apply restrict_run.
      - intros o Hin. apply (own_ops i j o H Hin).
      - intros l o Hin Hne. apply (other_ops i j l o H Hin Hne).
      - apply (Hinit i j H). }
    clear Hk' k'.
    destruct (Hall (j_tgt j) (own_tgt j)) as [C1 _]. destruct (Hall (j_tmp j) (own_tmp j)) as [C2 _].
    rewrite C1, C2. clear C1 C2 Hall.
    pose proof (tmp_ne_tgt jobs i j Hnd H) as Hne.
    unfold job_final, job_trace, format_file. destruct (j_fmt j) as [new|].
    - destruct (protocol_correct (j_tgt j) (j_old j) new (j_tmp j) Hne
                  (j_chmod j) (j_splits j) (j_fault j)) as (_ & Hc & Hr & Ht).
      cbv zeta in Hc, Hr, Ht. rewrite Hc, Ht. split; [|reflexivity].
      destruct (renamed_to (j_tgt j) _) eqn:R.
      + rewrite (proj1 Hr eq_refl). reflexivity.
      + destruct (j_fault j); try reflexivity. destruct Hr as [_ Hr]. discriminate (Hr eq_refl).
    - unfold fs_run, fs_init. simpl. rewrite Nat.eqb_refl.
      replace (j_tmp j =? j_tgt j) with false by (symmetry; apply Nat.eqb_neq; assumption).
      split; reflexivity.
  Qed.

  (* a path that belongs to no job (another journal, the training file of `infer`) is never
     touched, at any point of any schedule *)
  Lemma interleaving_others : forall k q, ~ In q (job_paths jobs) ->
    let f := fs_run t0 (map snd (firstn k ltr)) f0 in
    content f q = content f0 q /\ is_open f q = is_open f0 q.
  Proof.
    intros k q Hq f. subst f. apply run_frame. apply forallb_forall. intros o Hin.
    apply negb_true_iff. apply in_map_iff in Hin. destruct Hin as [[l o'] [E Hin]].
    simpl in E. subst o'. apply in_firstn in Hin. apply in_proj in Hin. rewrite Hproj in Hin.
    destruct (nth_error jobs l) as [j'|] eqn:Hl; [|contradiction].
    destruct (nth_paths jobs l j' Hl) as [A B].
    apply (job_trace_mentions j' o t0 q Hin); intro E; apply Hq; subst q;
      eapply nth_error_In; eassumption.
  Qed.
End Interleave.

(* the statement for a directory that may hold other files as well *)
Theorem interleaving_any_dir : forall (jobs : list job) (ltr : list (nat * op)) (t0 : path) (f0 : fs),
  NoDup (job_paths jobs) ->
  (forall i, proj i ltr = match nth_error jobs i with Some j => job_trace j | None => [] end) ->
  (forall i j, nth_error jobs i = Some j ->
     content f0 (j_tgt j) = Some (j_old j) /\ content f0 (j_tmp j) = None /\
     is_open f0 (j_tgt j) = false /\ is_open f0 (j_tmp j) = false) ->
  (forall k i j, nth_error jobs i = Some j ->
     let f := fs_run t0 (map snd (firstn k ltr)) f0 in
     content f (j_tgt j) = Some (j_old j) \/
     (exists new, j_fmt j = Some new /\ content f (j_tgt j) = Some new)) /\
  (forall i j, nth_error jobs i = Some j ->
     let f := fs_run t0 (map snd ltr) f0 in
     content f (j_tgt j) = Some (job_final j) /\ content f (j_tmp j) = None) /\
  (forall k q, ~ In q (job_paths jobs) ->
     let f := fs_run t0 (map snd (firstn k ltr)) f0 in
     content f q = content f0 q /\ is_open f q = is_open f0 q).
Proof.
  intros jobs ltr t0 f0 Hnd Hproj H0.
  assert (Hinit : forall i j, nth_error jobs i = Some j ->
                    agree_on (own j) f0 (fs_init (j_tgt j) (j_old j))).
  { intros i j H q Hq. destruct (H0 i j H) as (A & B & C & D).
    pose proof (tmp_ne_tgt jobs i j Hnd H) as Hne.
    unfold fs_init. cbn [content is_open].
    destruct (own_cases j q Hq) as [-> | ->].
    - replace (j_tmp j =? j_tgt j) with false by (symmetry; apply Nat.eqb_neq; assumption). auto.
    - rewrite Nat.eqb_refl. auto. }
  split; [|split].
  - intros k i j H. exact (interleaving_prefix jobs ltr t0 Hnd Hproj f0 Hinit k i j H).
  - intros i j H. exact (interleaving_final jobs ltr t0 Hnd Hproj f0 Hinit i j H).
  - intros k q Hq. exact (interleaving_others jobs ltr t0 Hproj f0 k q Hq).
Qed.

Theorem interleaving : forall (jobs : list job) (ltr : list (nat * op)) (t0 : path),
  NoDup (job_paths jobs) ->
  (forall i, proj i ltr = match nth_error jobs i with Some j => job_trace j | None => [] end) ->
  (forall k i j, nth_error jobs i = Some j ->
     let f := fs_run t0 (map snd (firstn k ltr)) (fs_init_jobs jobs) in
     content f (j_tgt j) = Some (j_old j) \/
     (exists new, j_fmt j = Some new /\ content f (j_tgt j) = Some new)) /\
  (forall i j, nth_error jobs i = Some j ->
     let f := fs_run t0 (map snd ltr) (fs_init_jobs jobs) in
     content f (j_tgt j) = Some (job_final j) /\ content f (j_tmp j) = None).
Proof.
  intros jobs ltr t0 Hnd Hproj.
  pose proof (fun i j H => init_agree jobs i j Hnd H) as Hinit. split.
  - intros k i j H. exact (interleaving_prefix jobs ltr t0 Hnd Hproj _ Hinit k i j H).
  - intros i j H. exact (interleaving_final jobs ltr t0 Hnd Hproj _ Hinit i j H).
Qed.
