(* C20, part 2: the return laws, over rationals.
   - performance of a day whose value change equals its flows is 1 (or undefined: zero
     denominator); performance of a day without flows is V1 / V0;
   - the records ComputeValues emits chain: V0 of a day is V1 of the day processed before;
   - the running product over the days of a period: stays 1 under the first law, telescopes
     to V1(last) / V0(first) under the second;
   - perf_loop reports, for a period end, the running product over the processed days of the
     window since the previous reported period end. *)
From Coq Require Import ZArith QArith Qabs Qfield List Bool Lia.
From Knut Require Import Model.Str Model.Dec Model.Date Model.Account Model.Ledger Model.Price
     Model.Journal Model.Perf Model.Weights Model.CliPortfolio Proofs.PortfolioDays.
Import ListNotations.
Open Scope Q_scope.

(* ------------------------------------------------------------ the reduced operations *)

Lemma qadd_eq a b : qadd a b == a + b.
Proof. unfold qadd. apply Qred_correct. Qed.
Lemma qsub_eq a b : qsub a b == a - b.
Proof. unfold qsub. apply Qred_correct. Qed.
Lemma qmul_eq a b : qmul a b == a * b.
Proof. unfold qmul. apply Qred_correct. Qed.

Lemma q_is_zero_iff a : q_is_zero a = true <-> a == 0.
Proof. unfold q_is_zero, Qeq. cbn. rewrite Z.eqb_eq. lia. Qed.

Lemma qdiv_none a b : qdiv a b = None <-> b == 0.
Proof. unfold qdiv. rewrite <- q_is_zero_iff. destruct (q_is_zero b); split; congruence. Qed.

Lemma qdiv_some a b q : qdiv a b = Some q -> ~ b == 0 /\ q == a / b.
Proof.
  unfold qdiv. destruct (q_is_zero b) eqn:E; [discriminate|]. intros H. split.
  - intros Hb. apply q_is_zero_iff in Hb. congruence.
  - replace q with (Qred (a / b)) by congruence. apply Qred_correct.
Qed.

Lemma q_eqb_iff a b : q_eqb a b = true <-> a == b.
Proof. apply Qeq_bool_iff. Qed.

(* ------------------------------------------------------------ one day *)

(* the four sums Performance takes *)
Definition p_v0 (p : perf) : Q := pcv_sum (pf_v0 p).
Definition p_v1 (p : perf) : Q := pcv_sum (pf_v1 p).
Definition p_inflow (p : perf) : Q := fl_pin (pf_flows p) + pcv_sum (fl_in (pf_flows p)).
Definition p_outflow (p : perf) : Q := fl_pout (pf_flows p) + pcv_sum (fl_out (pf_flows p)).

(* a rational result that is "1", "x", ... up to ==, or undefined *)
Definition is_or_undef (r : option Q) (x : Q) : Prop := r = None \/ exists q, r = Some q /\ q == x.

(* what flowed in or out accounts for the whole change in value: the day's return is 1
   (0%), or undefined when V0 + inflow = 0 *)
Lemma performance_external p :
  p_v1 p == p_v0 p + p_inflow p + p_outflow p -> is_or_undef (performance p) 1.
Proof.
  unfold p_v0, p_v1, p_inflow, p_outflow, performance. intros H.
  set (v0 := pcv_sum (pf_v0 p)) in *. set (v1 := pcv_sum (pf_v1 p)) in *.
  destruct (q_eqb v0 v1 && q_is_zero _ && q_is_zero _).
  - right. exists 1. split; reflexivity.
  - destruct (qdiv _ _) as [q|] eqn:E; [|left; reflexivity]. right. exists q. split; [reflexivity|].
    destruct (qdiv_some _ _ _ E) as [Hnz Hq]. rewrite Hq. rewrite qsub_eq, !qadd_eq in *. rewrite H.
    field. exact Hnz.
Qed.

(* no flows: the day's return is V1 / V0 *)
Lemma performance_no_flow p :
  p_inflow p == 0 -> p_outflow p == 0 -> ~ p_v0 p == 0 ->
  exists q, performance p = Some q /\ q == p_v1 p / p_v0 p.
Proof.
  unfold p_v0, p_v1, p_inflow, p_outflow, performance. intros Hi Ho Hnz.
  set (v0 := pcv_sum (pf_v0 p)) in *. set (v1 := pcv_sum (pf_v1 p)) in *.
  destruct (q_eqb v0 v1 && q_is_zero _ && q_is_zero _) eqn:E.
  - exists 1. split; [reflexivity|]. apply andb_true_iff in E. destruct E as [E _]. apply andb_true_iff in E.
    destruct E as [E _]. apply q_eqb_iff in E. rewrite <- E. field. exact Hnz.
  - destruct (qdiv _ _) as [q|] eqn:Eq.
    + exists q. split; [reflexivity|]. destruct (qdiv_some _ _ _ Eq) as [_ Hq]. rewrite Hq, qsub_eq, !qadd_eq, Hi, Ho.
      field. exact Hnz.
    + exfalso. apply qdiv_none in Eq. rewrite !qadd_eq, Hi in Eq. apply Hnz. rewrite <- Eq. ring.
Qed.

(* ------------------------------------------------------------ the running product *)

Definition run (l : list perf) (r : option Q) : option Q := fold_left (fun r p => omul r (performance p)) l r.

Lemma run_none l : run l None = None.
Proof. induction l as [|p l IH]; cbn; [reflexivity|exact IH]. Qed.

(* every day of the period has return 1 or undefined: so has the period *)
Lemma run_ones l : forall r x,
  Forall (fun p => is_or_undef (performance p) 1) l -> is_or_undef r x -> is_or_undef (run l r) x.
Proof.
  induction l as [|p l IH]; intros r x Hl Hr; cbn [run fold_left]; [exact Hr|].
  inversion Hl as [|? ? Hp Hrest]; subst. apply IH; [exact Hrest|].
  destruct Hr as [->|[q [-> Hq]]]; [left; reflexivity|].
  destruct Hp as [Hp|[q1 [Hp Hq1]]]; rewrite Hp; cbn [omul]; [left; reflexivity|].
  right. exists (qmul q q1). split; [reflexivity|]. rewrite qmul_eq, Hq, Hq1. ring.
Qed.

(* consecutive records: the start value of each day is the end value of the day before *)
Fixpoint chained (v : Q) (l : list perf) : Prop :=
  match l with
  | [] => True
  | p :: rest => p_v0 p == v /\ chained (p_v1 p) rest
  end.

Definition last_v1 (v : Q) (l : list perf) : Q := fold_left (fun _ p => p_v1 p) l v.

(* no flows on any day, no zero start value: the product telescopes *)
Lemma run_telescopes l : forall v r,
  chained v l ->
  Forall (fun p => p_inflow p == 0 /\ p_outflow p == 0 /\ ~ p_v0 p == 0) l ->
  ~ v == 0 ->
  exists q, run l (Some r) = Some q /\ q == r * (last_v1 v l / v).
Proof.
  induction l as [|p l IH]; intros v r Hc Hl Hv; cbn [run fold_left last_v1].
  - exists r. split; [reflexivity|]. field. exact Hv.
  - destruct Hc as [H0 Hc]. inversion Hl as [|? ? [Hi [Ho Hnz]] Hrest]; subst.
    destruct (performance_no_flow p Hi Ho Hnz) as [q1 [Hp Hq1]]. rewrite Hp. cbn [omul].
    destruct l as [|p2 l'].
    + cbn [fold_left]. exists (qmul r q1). split; [reflexivity|]. rewrite qmul_eq, Hq1, H0. reflexivity.
    + assert (Hv1 : ~ p_v1 p == 0).
      { destruct Hc as [H2 _]. inversion Hrest as [|? ? [_ [_ Hnz2]] _]; subst. rewrite <- H2. exact Hnz2. }
      destruct (IH (p_v1 p) (qmul r q1) Hc Hrest Hv1) as [q [Hr Hq]].
      exists q. split; [exact Hr|]. rewrite Hq, qmul_eq, Hq1, H0. unfold last_v1. field. split; assumption.
Qed.

(* ------------------------------------------------------------ what perf_loop reports *)

(* a period's processed days: inside the window, none but the last is a period end *)
Lemma perf_loop_period part ends l p rest : forall running,
  Forall (fun x => partition_contains part (pf_date x) = true /\ mem ends (pf_date x) = false) l ->
  partition_contains part (pf_date p) = true -> mem ends (pf_date p) = true ->
  perf_loop part ends running (l ++ p :: rest) =
  (pf_date p, match run (l ++ [p]) running with Some x => Some (qsub x 1) | None => None end)
    :: perf_loop part ends (Some 1) rest.
Proof.
  induction l as [|x l IH]; intros running Hl Hc Hm; cbn [app perf_loop run fold_left].
  - rewrite Hc. unfold mem in Hm. rewrite Hm. cbn [negb]. reflexivity.
  - inversion Hl as [|? ? [Hxc Hxm] Hrest]; subst. rewrite Hxc. unfold mem in Hxm. rewrite Hxm. cbn [negb].
    rewrite (IH _ Hrest Hc Hm). reflexivity.
Qed.

(* days before the window are skipped *)
Lemma perf_loop_skip part ends l rest : forall running,
  Forall (fun x => partition_contains part (pf_date x) = false) l ->
  perf_loop part ends running (l ++ rest) = perf_loop part ends running rest.
Proof.
  induction l as [|x l IH]; intros running Hl; cbn [app perf_loop]; [reflexivity|].
  inversion Hl; subst. rewrite H1. cbn [negb]. apply IH. assumption.
Qed.

(* ------------------------------------------------------------ ComputeValues chains the days *)

Definition cv_run (c : calc) := pure_days (Some cv_day_start) None (Some (cv_posting c)) (Some cv_day_end).

Lemma cv_day_prev c s d :
  cv_prev (pure_day (Some cv_day_start) None (Some (cv_posting c)) (Some cv_day_end) s d) =
  vals_pcv (cv_values (fold_left (pure_txn None (Some (cv_posting c))) (d_txns d) (cv_day_start s d))).
Proof. unfold pure_day, opt_app, cv_day_end. reflexivity. Qed.

(* in the list of (V0, V1) records, V0 of each record is V1 of its predecessor *)
Fixpoint records_chain (prev : pcv) (l : list (Z * (pcv * pcv))) : Prop :=
  match l with
  | [] => True
  | (_, (v0, v1)) :: rest => v0 = prev /\ records_chain v1 rest
  end.

Lemma cv_records_chain c days : forall s,
  exists tail, cv_out (cv_run c s days) = cv_out s ++ tail /\ records_chain (cv_prev s) tail.
Proof.
  unfold cv_run, pure_days. induction days as [|d days IH]; intros s; cbn [fold_left].
  - exists []. rewrite app_nil_r. split; [reflexivity|exact I].
  - destruct (IH (pure_day (Some cv_day_start) None (Some (cv_posting c)) (Some cv_day_end) s d)) as [tail [Ht Hc]].
    exists ((d_date d, (cv_prev s, cv_prev (pure_day (Some cv_day_start) None (Some (cv_posting c)) (Some cv_day_end) s d))) :: tail).
    split.
    + rewrite Ht, cv_day_out, <- app_assoc, cv_day_prev. reflexivity.
    + split; [reflexivity|exact Hc].
Qed.

(* from the initial state: the first V0 is empty, and the records chain *)
Lemma cv_init_chain c days : records_chain [] (cv_out (cv_run c cv_init days)).
Proof. destruct (cv_records_chain c days cv_init) as [tail [Ht Hc]]. rewrite Ht. exact Hc. Qed.
