(* C06, infer: the candidate list handed to inferAccount (Model/Bayes.v [candidates], the keys
   of the countByAccount map, sorted since e8bd689) is a function of the SET of trained
   accounts: it does not depend on the order in which the map yields its keys, nor on how
   often or in which order the training file mentions an account. *)
From Coq Require Import ZArith List Bool Lia Sorting.Sorted.
From Knut Require Import Model.Bytes Model.Bayes Spec.FormatSpec Proofs.InferProofs.
Import ListNotations.
Open Scope bool_scope.
Open Scope Z_scope.

Lemma bstr_ltb_irrefl a : str_ltb a a = false.
Proof. induction a as [|x a IH]; cbn; [reflexivity|]. rewrite Z.ltb_irrefl, Z.eqb_refl, IH. reflexivity. Qed.

Lemma bstr_ltb_trans a : forall b c, str_ltb a b = true -> str_ltb b c = true -> str_ltb a c = true.
Proof.
  induction a as [|x a IH]; intros [|y b] [|z c]; cbn; try discriminate; try reflexivity.
  rewrite !orb_true_iff, !andb_true_iff, !Z.ltb_lt, !Z.eqb_eq.
  intros [H1|[H1 H1']] [H2|[H2 H2']].
  - left. lia.
  - left. lia.
  - left. lia.
  - right. split; [lia|]. eapply IH; eassumption.
Qed.

Lemma bstr_ltb_total a : forall b, str_ltb a b = false -> str_ltb b a = false -> a = b.
Proof.
  induction a as [|x a IH]; intros [|y b]; cbn; try discriminate; [reflexivity|].
  rewrite !orb_false_iff, !andb_false_iff, !Z.ltb_ge, !Z.eqb_neq.
  intros [H1 H1'] [H2 H2']. assert (x = y) by lia. subst y. f_equal. apply IH.
  - destruct H1' as [H|H]; [congruence|exact H].
  - destruct H2' as [H|H]; [congruence|exact H].
Qed.

Definition bstr_lt (a b : str) : Prop := str_ltb a b = true.

Lemma insert_sorted_ssorted x l : StronglySorted bstr_lt l -> StronglySorted bstr_lt (insert_sorted x l).
Proof.
  induction l as [|y l IH]; intros Hs; cbn [insert_sorted].
  - constructor; constructor.
  - inversion Hs as [|? ? Hs' Hall]; subst. destruct (str_eqb x y) eqn:E1; [exact Hs|].
    destruct (str_ltb x y) eqn:E2.
    + constructor; [exact Hs|]. constructor; [exact E2|].
      rewrite Forall_forall in *. intros z Hz. exact (bstr_ltb_trans _ _ _ E2 (Hall z Hz)).
    + constructor; [apply IH; exact Hs'|].
      rewrite Forall_forall in *. intros z Hz. apply insert_sorted_in in Hz. destruct Hz as [Hz|Hz].
      * subst z. unfold bstr_lt. destruct (str_ltb y x) eqn:E3; [reflexivity|].
        apply str_eqb_false in E1. exfalso. apply E1. apply bstr_ltb_total; assumption.
      * apply Hall. exact Hz.
Qed.

Lemma sort_dedup_ssorted l : StronglySorted bstr_lt (sort_dedup l).
Proof.
  unfold sort_dedup. induction l as [|x l IH]; cbn [fold_right]; [constructor|].
  apply insert_sorted_ssorted. exact IH.
Qed.

Lemma ssorted_unique (l1 : list str) : forall l2,
  StronglySorted bstr_lt l1 -> StronglySorted bstr_lt l2 -> (forall x, In x l1 <-> In x l2) -> l1 = l2.
Proof.
  induction l1 as [|a l1 IH]; intros [|b l2] S1 S2 H.
  - reflexivity.
  - exfalso. apply (H b). left. reflexivity.
  - exfalso. apply (H a). left. reflexivity.
  - inversion S1 as [|? ? S1' A1]; inversion S2 as [|? ? S2' A2]; subst.
    rewrite Forall_forall in A1, A2.
    assert (Hasym : forall u w, bstr_lt u w -> bstr_lt w u -> False).
    { intros u w H1 H2. pose proof (bstr_ltb_trans _ _ _ H1 H2) as H3. rewrite bstr_ltb_irrefl in H3. discriminate. }
    assert (a = b).
    { destruct (proj1 (H a) (or_introl eq_refl)) as [E|E]; [symmetry; exact E|].
      destruct (proj2 (H b) (or_introl eq_refl)) as [E'|E']; [exact E'|].
      exfalso. exact (Hasym _ _ (A1 _ E') (A2 _ E)). }
    subst b. f_equal. apply IH; try assumption.
    intros x. split; intros Hx.
    + destruct (proj1 (H x) (or_intror Hx)) as [E|E]; [|exact E]. subst x.
      pose proof (A1 _ Hx) as H1. unfold bstr_lt in H1. rewrite bstr_ltb_irrefl in H1. discriminate.
    + destruct (proj2 (H x) (or_intror Hx)) as [E|E]; [|exact E]. subst x.
      pose proof (A2 _ Hx) as H1. unfold bstr_lt in H1. rewrite bstr_ltb_irrefl in H1. discriminate.
Qed.

(* sorted keys of a map: a function of the key set *)
Theorem sort_dedup_set l1 l2 : (forall x, In x l1 <-> In x l2) -> sort_dedup l1 = sort_dedup l2.
Proof.
  intros H. apply ssorted_unique; try apply sort_dedup_ssorted.
  intros x. rewrite !sort_dedup_in. apply H.
Qed.

(* two training files that mention the same accounts (in any order, any number of times)
   offer the same candidates, in the same order *)
Theorem candidates_set ph tr1 tr2 :
  (forall x, In x (trained_accounts ph tr1) <-> In x (trained_accounts ph tr2)) ->
  candidates ph tr1 = candidates ph tr2.
Proof. apply sort_dedup_set. Qed.

(* hence the whole inference, for any choice function (the scores) *)
Theorem infer_sems_candidates_set ph v choose tr1 tr2 k target :
  (forall x, In x (trained_accounts ph tr1) <-> In x (trained_accounts ph tr2)) ->
  infer_sems ph v choose (candidates ph tr1) k target = infer_sems ph v choose (candidates ph tr2) k target.
Proof. intros H. rewrite (candidates_set ph tr1 tr2 H). reflexivity. Qed.
