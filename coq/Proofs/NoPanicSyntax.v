(* C14 for the syntax-level commands `knut format` and `knut infer`: the command-level restatement
   of C07_fuel (the parser's seven fuel-bounded loops are never exhausted), C08_cmd_total (Format has
   no slice-bounds panic on a parsed file) and C15_total (the repaired infer prints a text whenever both
   files parse).  The commands end in one of their proper results - output / file rewritten, or a
   parse error - and never in the distinguished CmdPanic / CmdOutOfFuel / InferBad. *)
From Coq Require Import ZArith List Bool Lia.
From Knut Require Import Model.Bytes Model.Utf8 Model.Scanner Model.Parser Model.SynPrinter
  Spec.FormatSpec Model.SynRender Model.Bayes Model.BayesScore Spec.InferSpec
  Proofs.ParserProofs Proofs.FormatProofs Proofs.InferProofs Proofs.InferRoundTrip Proofs.InferChoice.
Import ListNotations.

(* knut format FILE: for every predicate pair of the scanner and every byte string *)
Theorem format_cmd_clean letter digit t :
  format_cmd letter digit t <> CmdPanic /\ format_cmd letter digit t <> CmdOutOfFuel /\
  ((exists n, format_cmd letter digit t = Rewritten n) <-> (exists f, parse_text letter digit t = ParseOk f)) /\
  (format_cmd letter digit t = Untouched <-> (exists e, parse_text letter digit t = ParseErr e)).
Proof.
  pose proof (format_cmd_total letter digit t) as H.
  destruct (format_cmd letter digit t) as [n| | |] eqn:E; try contradiction.
  - destruct H as (f & Hp & _).
    split; [discriminate|]. split; [discriminate|]. split.
    + split; intros _; eauto.
    + split; [discriminate|]. intros (e & He). congruence.
  - destruct H as (e & He).
    split; [discriminate|]. split; [discriminate|]. split.
    + split; [intros (n & Hn); discriminate|]. intros (f & Hf). congruence.
    + split; intros _; eauto.
Qed.

(* knut infer with an arbitrary valid choice function *)
Theorem infer_with_clean ph letter digit choose training target :
  valid_choose choose ->
  infer_with ph Fixed letter digit choose training target <> InferBad /\
  ((exists out, infer_with ph Fixed letter digit choose training target = InferOut out) <->
   (exists ftr ftg, parse_text letter digit training = ParseOk ftr /\ parse_text letter digit target = ParseOk ftg)) /\
  (infer_with ph Fixed letter digit choose training target = InferErr <->
   ((exists e, parse_text letter digit training = ParseErr e) \/ (exists e, parse_text letter digit target = ParseErr e))).
Proof.
  intros Hch. pose proof (infer_with_total ph Fixed letter digit choose training target) as H.
  destruct (infer_with ph Fixed letter digit choose training target) as [out| |] eqn:E.
  - destruct H as (ftr & ftg & Htr & Htg).
    split; [discriminate|]. split.
    + split; intros _; eauto.
    + split; [discriminate|]. intros [(e & He)|(e & He)]; congruence.
  - split; [discriminate|]. split.
    + split; [intros (o & Ho); discriminate|]. intros (ftr & ftg & Htr & Htg).
      destruct H as [(e & He)|(e & He)]; congruence.
    + split; intros _; [exact H|reflexivity].
  - exfalso. destruct H as (ftr & ftg & sems & k & Htr & Htg & _).
    destruct (infer_total ph letter digit choose training target ftr ftg Hch Htr Htg) as (out & Ho). congruence.
Qed.

(* knut infer as it is: the choice is the model of bayes.Model.Infer over any float arithmetic *)
Theorem infer_scored_clean F flog fadd fgt fields lower ph letter digit training target :
  infer_scored F flog fadd fgt fields lower ph letter digit training target <> InferBad /\
  ((exists out, infer_scored F flog fadd fgt fields lower ph letter digit training target = InferOut out) <->
   (exists ftr ftg, parse_text letter digit training = ParseOk ftr /\ parse_text letter digit target = ParseOk ftg)) /\
  (infer_scored F flog fadd fgt fields lower ph letter digit training target = InferErr <->
   ((exists e, parse_text letter digit training = ParseErr e) \/ (exists e, parse_text letter digit target = ParseErr e))).
Proof.
  destruct (infer_scored_is_infer_with F flog fadd fgt fields lower ph letter digit training target) as (choose & Hch & ->).
  exact (infer_with_clean ph letter digit choose training target Hch).
Qed.

(* the two parse errors exclude each other with success, and nothing else exists: the exit
   class of both commands is a function of "do the files parse" *)
Lemma parse_text_cases letter digit t :
  (exists f, parse_text letter digit t = ParseOk f) \/ (exists e, parse_text letter digit t = ParseErr e).
Proof.
  pose proof (parse_text_fuel letter digit t) as H.
  destruct (parse_text letter digit t) as [f|e|]; [left; eauto|right; eauto|congruence].
Qed.
