(* C01: the Delta rows of a complete balance report are zero.
   PairProofs (every transaction reaching the query is a list of cancelling pairs)
   + ReportSum (value sums over the report trees) + the renderer. *)
From Coq Require Import ZArith QArith List Bool Lia Permutation.
From Knut Require Import Model.Str Model.Dec Model.Date Model.Account Model.Ledger Model.Price
     Model.Journal Model.Check Model.Pipeline Model.Table Model.Report Model.Cli
     Spec.BalanceSpec
     Proofs.DecProofs Proofs.DecValue Proofs.StrProofs Proofs.PairProofs Proofs.ReportSum.
Import ListNotations.
Open Scope Q_scope.

(* ------------------------------------------------------------ the query stage *)

Section QueryStage.
  Variable q : query.
  Variable f : rkey -> rkey.
  Hypothesis Hwhere : forall a c, q_where q a c = true.
  Hypothesis Hvisible : forall a, q_account q a <> ShHidden.

  Definition balanced_report (r : report) : Prop := forall k', rsum f k' r == 0.

  Lemma contrib_neg k' k v : contrib f k' k (neg v) == - contrib f k' k v.
  Proof. unfold contrib. destruct (rkey_eqb (f k) k'); [apply dvalue_neg|ring]. Qed.

  Lemma query_stage_balanced r ds r' ds' :
    balanced_report r -> Forall day_ok ds ->
    process_days (query_proc q report_insert) r ds = ROk (r', ds') -> balanced_report r'.
  Proof.
    intros Hr Hds H.
    refine (proj1 (process_days_ok (query_proc q report_insert) balanced_report _ _ _ _ _ _ _ _ ds r r' ds' Hr Hds H));
      cbn [query_proc pr_day_start pr_price pr_open pr_txn pr_posting pr_balance pr_close pr_day_end];
      try discriminate.
    intros g s t x y s1 x' s2 y' Hg Hs Hxy H1 H2. injection Hg as <-.
    destruct Hxy as (Hc & Hq & Hv).
    unfold query_posting in H1, H2. rewrite Hwhere in H1, H2.
    destruct (q_account q (p_acc x)) as [a1| |] eqn:E1; try discriminate; [|exfalso; eapply Hvisible; eauto].
    destruct (q_account q (p_acc y)) as [a2| |] eqn:E2; try discriminate; [|exfalso; eapply Hvisible; eauto].
    inversion H1; inversion H2; subst. split; [|repeat split; assumption].
    intros k'. rewrite !rsum_insert. pose proof (Hs k') as Hk. rewrite Hk. rewrite Hc.
    destruct (q_valued q).
    - rewrite Hv, contrib_neg. ring.
    - rewrite Hq, contrib_neg. ring.
  Qed.
End QueryStage.

(* ------------------------------------------------------------ unique keys *)

Definition key_absent (k : rkey) (m : ramounts) : Prop := Forall (fun kv => fst kv <> k) m.

Inductive ra_unique : ramounts -> Prop :=
| ra_unique_nil : ra_unique []
| ra_unique_cons k v m : key_absent k m -> ra_unique m -> ra_unique ((k, v) :: m).

Lemma key_absent_ra_add k m k0 v : key_absent k m -> k0 <> k -> key_absent k (ra_add m k0 v).
Proof.
  intros Ha Hne. induction Ha as [|[k1 v1] m H1 Hm IH]; cbn [ra_add].
  - constructor; [cbn [fst]; exact Hne|constructor].
  - cbn [fst] in H1. destruct (rkey_eqb k0 k1); constructor; cbn [fst]; assumption.
Qed.

Lemma ra_add_unique m k v : ra_unique m -> ra_unique (ra_add m k v).
Proof.
  induction 1 as [|k0 v0 m Ha Hu IH]; cbn [ra_add].
  - repeat constructor.
  - destruct (rkey_eqb k k0) eqn:E.
    + constructor; assumption.
    + constructor; [|exact IH]. apply key_absent_ra_add; [exact Ha|].
      intros ->. rewrite rkey_eqb_refl in E. discriminate.
Qed.

Lemma filter_unique (p : rkey * dec -> bool) m : ra_unique m -> ra_unique (filter p m).
Proof.
  induction 1 as [|k v m Ha Hu IH]; cbn [filter]; [constructor|].
  destruct (p (k, v)); [|exact IH]. constructor; [|exact IH].
  clear - Ha. induction Ha as [|kv m H _ IH]; cbn [filter]; [constructor|].
  destruct (p kv); [constructor; assumption|exact IH].
Qed.

Lemma fold_add_unique (g : rkey -> rkey) src : forall dest, ra_unique dest ->
  ra_unique (fold_left (fun d kv => ra_add d (g (fst kv)) (snd kv)) src dest).
Proof.
  induction src as [|kv src IH]; intros dest Hd; cbn [fold_left]; [exact Hd|].
  apply IH. apply ra_add_unique. exact Hd.
Qed.

Lemma sum_into_unique dest src g : ra_unique dest -> ra_unique (ra_sum_into dest src g).
Proof. intros H. unfold ra_sum_into. apply filter_unique, fold_add_unique, H. Qed.

Lemma node_totals_unique g n : forall acc, ra_unique acc -> ra_unique (node_totals g n acc).
Proof.
  induction n as [s p hv a ch IH] using node_ind_size. intros acc Hacc.
  cbn [node_totals]. apply sum_into_unique.
  revert acc Hacc. induction IH as [|c ch Hc _ IHch]; intros acc Hacc; cbn [fold_left]; [exact Hacc|].
  apply IHch, Hc, Hacc.
Qed.

Lemma ra_plus_unique a b : ra_unique a -> ra_unique (ra_plus a b).
Proof. intros H. unfold ra_plus. apply (fold_add_unique (fun k => k)), H. Qed.

Definition idk (k : rkey) : rkey := k.

Lemma esum_absent k m : key_absent k m -> esum idk k m == 0.
Proof.
  induction 1 as [|[k0 v0] m H _ IH]; cbn [esum]; [reflexivity|].
  rewrite IH. unfold contrib. change (idk k0) with k0. cbn [fst] in H.
  destruct (rkey_eqb k0 k) eqn:E; [apply rkey_eqb_eq in E; contradiction|ring].
Qed.

Lemma ra_get0_esum m k : ra_unique m -> dvalue (ra_get0 m k) == esum idk k m.
Proof.
  unfold ra_get0. induction 1 as [|k0 v0 m Ha Hu IH]; cbn [ra_get esum]; [reflexivity|].
  unfold contrib. change (idk k0) with k0. destruct (rkey_eqb k k0) eqn:E.
  - apply rkey_eqb_eq in E. subst k0. rewrite rkey_eqb_refl, (esum_absent _ _ Ha). ring.
  - assert (E' : rkey_eqb k0 k = false).
    { destruct (rkey_eqb k0 k) eqn:E2; [|reflexivity]. apply rkey_eqb_eq in E2. subst. rewrite rkey_eqb_refl in E. discriminate. }
    rewrite E', IH. ring.
Qed.

(* ------------------------------------------------------------ rendering of an all-zero block *)

Definition zero_cell (c : cell) : Prop := match c with CNum n => is_zero n = true | _ => True end.

Lemma row_numbers_zero diff vals c dates : forall total,
  (forall k, dvalue (ra_get0 vals k) == 0) -> dvalue total == 0 ->
  Forall zero_cell (row_numbers diff false vals c dates total).
Proof.
  induction dates as [|d rest IH]; intros total Hv Ht; cbn [row_numbers]; constructor.
  - cbn [zero_cell]. apply is_zero_value. destruct diff; [apply Hv|].
    rewrite dvalue_add, Ht, Hv. ring.
  - apply IH; [exact Hv|]. rewrite dvalue_add, Ht, Hv. ring.
Qed.

Lemma render_rows_zero cfg dates indent name vals coms : forall first,
  (forall k, dvalue (ra_get0 vals k) == 0) ->
  Forall (Forall zero_cell) (render_rows cfg dates indent name false vals coms first).
Proof.
  induction coms as [|c rest IH]; intros first Hv; cbn [render_rows]; constructor.
  - constructor; [destruct first; exact I|].
    apply Forall_app. split.
    + destruct (draw_comms cfg); [|constructor]. constructor; [|constructor].
      destruct c; [exact I|]. destruct (rc_valuation cfg); exact I.
    + apply row_numbers_zero; [exact Hv|reflexivity].
  - apply IH. exact Hv.
Qed.

(* the rows that render_amounts appends *)
Definition appended_rows (t t' : table) : list (list cell) := skipn (length (t_rows t)) (t_rows t').

Lemma fold_add_row_rows rows : forall t, t_rows (fold_left add_row rows t) = t_rows t ++ rows.
Proof.
  induction rows as [|r rows IH]; intros t; cbn [fold_left]; [rewrite app_nil_r; reflexivity|].
  rewrite IH. unfold add_row. cbn [t_rows]. rewrite <- app_assoc. reflexivity.
Qed.

Lemma render_amounts_rows cfg t dates indent name vals :
  (forall k, dvalue (ra_get0 vals k) == 0) ->
  exists rows, t_rows (render_amounts cfg t dates indent name false vals) = t_rows t ++ rows
               /\ Forall (Forall zero_cell) rows.
Proof.
  intros Hv. unfold render_amounts. destruct vals as [|kv vals'].
  - eexists. split; [unfold add_row; cbn [t_rows]; reflexivity|].
    constructor; [|constructor]. unfold fill_empty. apply Forall_app. split.
    + repeat constructor.
    + apply Forall_forall. intros x Hx. apply repeat_spec in Hx. subst. exact I.
  - eexists. split; [apply fold_add_row_rows|]. apply render_rows_zero. exact Hv.
Qed.

(* ------------------------------------------------------------ complete configurations *)

Lemma mapping_level_nonzero m s l sfx :
  forallb (fun r => negb (r_level r =? 0)%Z) m = true -> mapping_level m s = Some (l, sfx) -> l <> 0%Z.
Proof.
  induction m as [|r m IH]; cbn [forallb mapping_level]; [discriminate|].
  rewrite andb_true_iff. intros [Hr Hm] H.
  unfold rule_match in H. destruct (r_rx r) as [x|].
  - destruct (rx_match x s).
    + inversion H; subst. apply negb_true_iff, Z.eqb_neq in Hr. exact Hr.
    + apply IH; assumption.
  - inversion H; subst. apply negb_true_iff, Z.eqb_neq in Hr. exact Hr.
Qed.

Lemma shorten_visible m a :
  forallb (fun r => negb (r_level r =? 0)%Z) m = true -> shorten m a <> ShHidden.
Proof.
  intros Hm. unfold shorten. destruct m as [|r m']; [discriminate|].
  destruct (mapping_level (r :: m') (acc_name a)) as [[l sfx]|] eqn:E; [|discriminate].
  pose proof (mapping_level_nonzero _ _ _ _ Hm E) as Hl.
  replace (l =? 0)%Z with false by (symmetry; apply Z.eqb_neq; exact Hl).
  destruct (acc_level a <=? sfx)%Z; [discriminate|].
  destruct (acc_level a - sfx <? l)%Z; [discriminate|].
  destruct ((l <? 0)%Z || (sfx <? 0)%Z); discriminate.
Qed.

(* ------------------------------------------------------------ the theorem *)

Definition render_cfg_of (cfg : balance_cfg) : render_cfg :=
  mkRenderCfg (bc_valuation cfg) (bc_details cfg) (bc_alpha cfg) (bc_diff cfg).

Theorem delta_zero cfg ds t :
  complete_cfg cfg = true ->
  balance_table cfg ds = COk t ->
  exists rows0 delta_rows sep,
    t_rows t = rows0 ++ delta_rows ++ [sep] /\
    Forall (Forall zero_cell) delta_rows /\
    (exists r rest, delta_rows = (CText s_Delta ALeft 0 :: r) :: rest).
Proof.
  intros Hc H. unfold balance_table in H.
  destruct (balance_report cfg ds) as [[r part]| |] eqn:Er; try discriminate. cbn [cbind fst snd] in H.
  inversion H as [Ht]. clear H.
  (* the report is balanced *)
  assert (Hbal : balanced_report (collapse_key (negb (match bc_valuation cfg with Some _ => true | None => false end))) r).
  { unfold balance_report in Er.
    destruct (match bc_valuation cfg with Some v => if valid_commodity v then COk tt else CErr k_valuation v | None => COk tt end); try discriminate.
    cbn [cbind] in Er.
    unfold load in Er. destruct (parse_directives ds) as [l| |] eqn:Ep; try discriminate. cbn [cbind of_mresult] in Er.
    pose proof (builder_of_ok l (parse_directives_ok _ _ Ep)) as Hb.
    destruct (cfg_partition cfg (builder_of l)) as [part0| |]; try discriminate. cbn [cbind] in Er.
    set (b := if bc_close cfg then builder_touch (builder_of l) (start_dates part0) else builder_of l) in *.
    assert (Hdays : Forall day_ok (b_days b)).
    { unfold b. destruct (bc_close cfg); [apply builder_touch_ok|]; exact Hb. }
    unfold run_stage in Er.
    destruct (process_days (check_proc_current (bc_lenient cfg)) check_init (b_days b)) as [[s1 d1]| |] eqn:E1; try discriminate.
    cbn [cbind of_presult fst snd] in Er.
    assert (Hd1 : Forall day_ok d1).
    { unfold check_proc_current in E1. destruct (bc_lenient cfg);
        [eapply check_fixed_stage_ok; eauto|eapply check_stage_ok; eauto]. }
    assert (Hval : exists d3, Forall day_ok d3 /\
      cbind (cbind (of_presult (process_days (filter_proc (span part0)) tt d3)) (fun r4 =>
             cbind (if bc_close cfg then cbind (of_presult (process_days (close_proc (start_dates part0)) (mkClose [] []) (snd r4))) (fun r5 => COk (snd r5)) else COk (snd r4)) (fun days =>
             cbind (of_presult (process_days (query_proc (balance_query cfg part0) report_insert) new_report days)) (fun r6 => COk (fst r6, part0))))) (fun x => COk x) = COk (r, part)).
    { destruct (bc_valuation cfg) as [v|].
      - destruct (process_days (compute_prices_proc v) (mkCp [] None) d1) as [[s2 d2]| |] eqn:E2; try discriminate.
        cbn [cbind of_presult fst snd] in Er.
        pose proof (prices_stage_ok _ _ _ _ _ Hd1 E2) as Hd2.
        destruct (process_days (valuate_proc v) (mkVal None None []) d2) as [[s3 d3]| |] eqn:E3; try discriminate.
        cbn [cbind of_presult fst snd] in Er.
        pose proof (valuate_stage_ok _ _ _ _ _ Hd2 E3) as Hd3.
        exists d3. split; [exact Hd3|].
        destruct (cbind (of_presult (process_days (filter_proc (span part0)) tt d3)) _); try discriminate; exact Er.
      - cbn [cbind] in Er. exists d1. split; [exact Hd1|].
        destruct (cbind (of_presult (process_days (filter_proc (span part0)) tt d1)) _); try discriminate; exact Er. }
    destruct Hval as (d3 & Hd3 & Er2). clear Er.
    destruct (process_days (filter_proc (span part0)) tt d3) as [[s4 d4]| |] eqn:E4; try discriminate.
    cbn [cbind of_presult fst snd] in Er2.
    pose proof (filter_stage_ok _ _ _ _ _ Hd3 E4) as Hd4.
    assert (Hclose : exists d5, Forall day_ok d5 /\
      cbind (of_presult (process_days (query_proc (balance_query cfg part0) report_insert) new_report d5)) (fun r6 => COk (fst r6, part0)) = COk (r, part)).
    { destruct (bc_close cfg).
      - destruct (process_days (close_proc (start_dates part0)) (mkClose [] []) d4) as [[s5 d5]| |] eqn:E5; try discriminate.
        cbn [cbind of_presult fst snd] in Er2.
        exists d5. split; [eapply close_stage_ok; eauto|].
        destruct (cbind (of_presult (process_days (query_proc (balance_query cfg part0) report_insert) new_report d5)) _); try discriminate; exact Er2.
      - cbn [cbind] in Er2. exists d4. split; [exact Hd4|].
        destruct (cbind (of_presult (process_days (query_proc (balance_query cfg part0) report_insert) new_report d4)) _); try discriminate; exact Er2. }
    destruct Hclose as (d5 & Hd5 & Er3).
    destruct (process_days (query_proc (balance_query cfg part0) report_insert) new_report d5) as [[r6 d6]| |] eqn:E6; try discriminate.
    cbn [cbind of_presult fst snd] in Er3. inversion Er3; subst r6 part0.
    unfold complete_cfg in Hc.
    destruct (bc_accounts cfg) eqn:Ea; try discriminate. destruct (bc_commodities cfg) eqn:Eco; try discriminate.
    eapply (query_stage_balanced (balance_query cfg part)); [| | |exact Hd5|exact E6].
    - intros a0 c0. unfold balance_query. cbn [q_where]. rewrite Ea, Eco. reflexivity.
    - intros a0. unfold balance_query. cbn [q_account]. apply shorten_visible. exact Hc.
    - intros k'. apply rsum_new. }
  (* the renderer *)
  unfold render_report in Ht.
  set (valued := match bc_valuation cfg with Some _ => true | None => false end) in *.
  cbn [rc_valuation rc_alpha] in Ht. fold valued in Ht.
  set (al := node_sort (bc_alpha cfg) valued (r_al r)) in *.
  set (eie := node_sort (bc_alpha cfg) valued (r_eie r)) in *.
  set (tk := collapse_key (negb valued)) in *.
  set (total_al := node_totals tk al []) in *.
  set (total_eie := node_totals tk eie []) in *.
  match type of Ht with add_separator_row (render_amounts ?rc ?t0 ?dates _ _ _ ?vals) = _ =>
    set (T0 := t0) in *; set (RC := rc) in *; set (VALS := vals) in *;
    destruct (render_amounts_rows RC T0 dates 0%Z s_Delta VALS) as (rows & Hrows & Hz) end.
  { intros k. unfold VALS. rewrite ra_get0_esum by (apply ra_plus_unique, node_totals_unique; constructor).
    rewrite esum_plus. unfold total_al, total_eie.
    rewrite !esum_node_totals. cbn [esum]. unfold al, eie. rewrite !tsum_node_sort.
    specialize (Hbal k). unfold rsum in Hbal.
    change (fun k0 : rkey => idk (tk k0)) with tk.
    transitivity (tsum tk k (r_al r) + tsum tk k (r_eie r)); [ring|exact Hbal]. }
  match goal with |- context [t_rows ?X] =>
    change X with (add_separator_row (render_amounts RC T0 (end_dates part) 0%Z s_Delta false VALS)) end.
  unfold add_separator_row at 1. unfold add_row at 1. cbn [t_rows]. rewrite Hrows.
  eexists _, rows, _. split; [rewrite <- app_assoc; reflexivity|]. split; [exact Hz|].
  (* the block starts with the Delta label *)
  clear - Hrows. unfold render_amounts in Hrows. clearbody T0 VALS.
  match type of Hrows with context [match ?v with [] => _ | _ => _ end] => destruct v as [|kv vals'] eqn:Ev end.
  - unfold add_row in Hrows. cbn [t_rows] in Hrows. apply app_inv_head in Hrows. subst rows.
    unfold fill_empty. cbn [app]. eauto.
  - rewrite fold_add_row_rows in Hrows. apply app_inv_head in Hrows. subst rows.
    destruct (ra_commodities (kv :: vals')) as [|c cs] eqn:Ec.
    + exfalso. unfold ra_commodities in Ec. cbn [fold_left] in Ec.
      assert (Hne : forall l acc, acc <> [] -> fold_left (fun (l : list (option commodity)) (kv : rkey * dec) => insert_ocom (snd (fst kv)) l) l acc <> []).
      { induction l as [|x l IH]; intros acc Hacc; cbn [fold_left]; [exact Hacc|]. apply IH.
        destruct acc; [congruence|]. cbn [insert_ocom]. destruct (snd (fst x)), o; try discriminate; destruct (str_cmp _ _); discriminate. }
      eapply Hne; [|exact Ec]. cbn. destruct (snd (fst kv)); discriminate.
    + cbn [render_rows]. eauto.
Qed.
