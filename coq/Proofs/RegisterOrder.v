(* `knut register` (Model/Register.v) and the order of the directives: the report is the same
   association list, the table and the bytes are equal, for every permutation of the syntax-level
   directives (the C05/C06 statement of `balance`, Proofs/OrderCmd.v, for this command). *)
From Coq Require Import ZArith List Bool Lia Permutation.
From Knut Require Import Model.Str Model.Dec Model.Date Model.Account Model.Ledger Model.Price Model.Journal
     Model.Check Model.Pipeline Model.Table Model.Report Model.Cli Model.Loader Model.CliSafe Model.Register
     Spec.WellformedSpec Proofs.DecProofs Proofs.StrProofs Proofs.SMapProofs Proofs.CheckLemmas Proofs.BuilderProofs
     Proofs.CheckPerm Proofs.OrderProofs Proofs.OrderSMap Proofs.OrderStages Proofs.OrderPipeline Proofs.OrderCmd
     Proofs.NoPanic.
Import ListNotations.
Open Scope bool_scope.
Open Scope Z_scope.

(* ------------------------------------------------------------------ the key encoding is injective *)

Lemma app_same_length {A} (a b x y : list A) : length a = length b -> a ++ x = b ++ y -> a = b /\ x = y.
Proof.
  revert b. induction a as [|h a IH]; intros [|h' b] HL H; cbn in *; try discriminate.
  - split; [reflexivity|exact H].
  - injection H as -> H. injection HL as HL. destruct (IH b HL H) as [-> ->]. split; reflexivity.
Qed.

Lemma enc_str_inj a b x y : enc_str a ++ x = enc_str b ++ y -> a = b /\ x = y.
Proof.
  unfold enc_str. cbn [app]. intros H. injection H as HL H. apply Nat2Z.inj in HL.
  apply app_same_length; assumption.
Qed.

Lemma enc_segs_inj a : forall b x y, length a = length b ->
  concat (map enc_str a) ++ x = concat (map enc_str b) ++ y -> a = b /\ x = y.
Proof.
  induction a as [|s a IH]; intros [|s' b] x y HL H; cbn [length map concat app] in *; try discriminate.
  - split; [reflexivity|exact H].
  - rewrite <- !app_assoc in H. apply enc_str_inj in H. destruct H as [-> H].
    injection HL as HL. destruct (IH b x y HL H) as [-> ->]. split; reflexivity.
Qed.

Lemma enc_acc_inj a b x y : enc_acc a ++ x = enc_acc b ++ y -> a = b /\ x = y.
Proof.
  unfold enc_acc. cbn [app]. intros H. injection H as HL H. apply Nat2Z.inj in HL.
  apply enc_segs_inj; assumption.
Qed.

Lemma enc_oacc_inj a b x y : enc_oacc a ++ x = enc_oacc b ++ y -> a = b /\ x = y.
Proof.
  destruct a as [a|], b as [b|]; cbn [enc_oacc app]; intros H; try discriminate.
  - apply (f_equal (@tl Z)) in H. cbn [tl] in H. apply enc_acc_inj in H. destruct H as [-> ->]. split; reflexivity.
  - apply (f_equal (@tl Z)) in H. cbn [tl] in H. split; [reflexivity|exact H].
Qed.

Lemma enc_ostr_inj a b x y : enc_ostr a ++ x = enc_ostr b ++ y -> a = b /\ x = y.
Proof.
  destruct a as [a|], b as [b|]; cbn [enc_ostr app]; intros H; try discriminate.
  - apply (f_equal (@tl Z)) in H. cbn [tl] in H. apply enc_str_inj in H. destruct H as [-> ->]. split; reflexivity.
  - apply (f_equal (@tl Z)) in H. cbn [tl] in H. split; [reflexivity|exact H].
Qed.

Theorem rk_enc_inj k1 k2 : rk_enc k1 = rk_enc k2 -> k1 = k2.
Proof.
  destruct k1 as [d1 a1 o1 c1 s1], k2 as [d2 a2 o2 c2 s2]. unfold rk_enc. cbn [rk_date rk_account rk_other rk_com rk_desc].
  intros H. injection H as -> H.
  apply enc_oacc_inj in H. destruct H as [-> H].
  apply enc_oacc_inj in H. destruct H as [-> H].
  apply enc_ostr_inj in H. destruct H as [-> ->]. reflexivity.
Qed.

(* ------------------------------------------------------------------ Report.Insert commutes *)

Lemma reg_add_comm r k1 v1 k2 v2 :
  reg_add (reg_add r k1 v1) k2 v2 = reg_add (reg_add r k2 v2) k1 v1.
Proof.
  unfold reg_add, reg_get.
  destruct (WellformedSpec.str_eq_dec (rk_enc k1) (rk_enc k2)) as [E|N].
  - pose proof (rk_enc_inj _ _ E) as ->.
    rewrite !CheckLemmas.sm_get_put_same, !sm_put_put_same.
    f_equal. f_equal. rewrite !add_assoc. f_equal. apply add_comm.
  - rewrite (CheckLemmas.sm_get_put_other r (rk_enc k1) _ (rk_enc k2)) by congruence.
    rewrite (CheckLemmas.sm_get_put_other r (rk_enc k2) _ (rk_enc k1)) by congruence.
    apply sm_put_comm. exact N.
Qed.

(* ------------------------------------------------------------------ Query.Into(register report) *)

Inductive raction := RaPanic | RaSkip | RaInsert (k : rkey) (v : dec).

Definition ract (q : reg_query) (tp : txn * posting) : raction :=
  let t := fst tp in let p := snd tp in
  if rq_where q p then
    match rq_other q (p_other p) with
    | ShPanic => RaPanic
    | o => RaInsert (mkRKey (rq_date q (t_date t)) (rq_account q (p_acc p))
                            (match o with ShAcc a => Some a | _ => None end)
                            (rq_com q (p_com p)) (rq_desc q (t_desc t)))
                    (if rq_valued q then p_val p else p_qty p)
    end
  else RaSkip.

Lemma reg_pstep_eq q r tp :
  pstep (reg_query_posting q) r tp =
  match ract q tp with
  | RaPanic => RPanic k_shorten
  | RaSkip => ROk r
  | RaInsert k v => ROk (reg_add r k v)
  end.
Proof.
  unfold pstep, reg_query_posting, ract. destruct (rq_where q (snd tp)); [|reflexivity].
  destruct (rq_other q (p_other (snd tp))); reflexivity.
Qed.

Lemma reg_query_txns_rel q r ts1 ts2 :
  Permutation ts1 ts2 ->
  req (fun a b => fst a = fst b /\ snd a = ts1 /\ snd b = ts2)
      (fold_txns (reg_query_proc q) r ts1) (fold_txns (reg_query_proc q) r ts2).
Proof.
  intros P.
  assert (Hout : forall r ts s' ts', fold_txns (reg_query_proc q) r ts = ROk (s', ts') -> ts' = ts).
  { intros r0 ts s' ts' E.
    destruct (fold_txns_out (reg_query_proc q) (reg_query_posting q) (fun _ => True) (fun x => x) eq_refl eq_refl)
      with (ts := ts) (s := r0) (s' := s') (ts' := ts') as [-> _]; auto.
    - intros s t x s0 x' _ H. unfold reg_query_posting in H.
      destruct (rq_where q x); [|inversion H; auto].
      destruct (rq_other q (p_other x)); inversion H; auto.
    - apply map_txn_map_id. }
  apply (req_from_rfst eq (fun t => t = ts1) (fun t => t = ts2)).
  - rewrite !(fold_txns_state (reg_query_proc q) (reg_query_posting q)) by reflexivity.
    apply (fold_res_perm eq (pstep (reg_query_posting q)) (fun _ => True)).
    + intros a b c -> ->. reflexivity.
    + intros s s' a _ <-. apply req_refl. reflexivity.
    + intros s a b _ _ _. rewrite !reg_pstep_eq.
      destruct (ract q a) as [| |k1 v1] eqn:Ea, (ract q b) as [| |k2 v2] eqn:Eb; cbn [rbind];
        rewrite ?reg_pstep_eq, ?Ea, ?Eb; cbn [req]; try exact I; try reflexivity.
      apply reg_add_comm.
    + apply items_perm. exact P.
    + apply Forall_forall. intros; exact I.
    + reflexivity.
    + reflexivity.
  - intros [s' ts'] E. cbn [snd]. eapply Hout. exact E.
  - intros [s' ts'] E. cbn [snd]. eapply Hout. exact E.
Qed.

Lemma reg_query_day_rel q r1 r2 d1 d2 :
  r1 = r2 -> day_equiv d1 d2 ->
  req (fun a b => fst a = fst b /\ True)
      (process_day (reg_query_proc q) r1 d1) (process_day (reg_query_proc q) r2 d2).
Proof.
  intros <- (E0 & E1 & E2 & E3 & E4 & E5 & E6).
  unfold process_day. cbn [reg_query_proc pr_day_start pr_price pr_open pr_close pr_day_end rbind fst snd].
  eapply req_bind; [apply reg_query_txns_rel; exact E3|].
  intros [a1 t1] [a2 t2] (Ha & _ & _). cbn [fst snd] in *. subst a2.
  rewrite !fold_asserts_none by reflexivity. cbn [rbind req fst snd]. split; [reflexivity|exact I].
Qed.

Theorem reg_query_stage_rel q l1 l2 :
  Forall2 day_equiv l1 l2 ->
  req (fun a b => fst a = fst b)
      (process_days (reg_query_proc q) new_reg_report l1) (process_days (reg_query_proc q) new_reg_report l2).
Proof.
  intros HF.
  eapply req_impl; [|apply (process_days_rel (reg_query_proc q) eq day_equiv (fun _ _ => True));
                     [intros; apply reg_query_day_rel; assumption|exact HF|reflexivity]].
  intros a b [H _]. exact H.
Qed.

(* ------------------------------------------------------------------ Sort *)

Lemma sort_day_rel (s1 s2 : unit) d1 d2 :
  s1 = s2 -> DIok d1 d2 ->
  req (fun a b => fst a = fst b /\ DIok (snd a) (snd b))
      (process_day sort_proc s1 d1) (process_day sort_proc s2 d2).
Proof.
  intros <- [De Hok]. pose proof De as (E0 & _ & _ & E3 & _).
  unfold process_day. cbn [sort_proc pr_day_start pr_price pr_open pr_txn pr_posting pr_balance pr_close pr_day_end].
  cbn [rbind fst snd].
  rewrite !fold_txns_none by reflexivity. cbn [rbind fst snd].
  rewrite !fold_asserts_none by reflexivity. cbn [rbind]. rewrite !day_eta.
  cbn [req fst snd]. split; [reflexivity|].
  assert (P : Permutation (sort_by txn_ltb (d_txns d1)) (sort_by txn_ltb (d_txns d2))).
  { eapply Permutation_trans; [apply sort_by_perm|].
    eapply Permutation_trans; [exact E3|]. apply Permutation_sym. apply sort_by_perm. }
  split; [apply set_txns_equiv; [exact De|exact P]|].
  unfold day_accs_ok. cbn [set_txns d_txns].
  eapply txns_accs_ok_perm; [apply Permutation_sym; apply sort_by_perm|exact Hok].
Qed.

Theorem sort_stage_rel s l1 l2 :
  Forall2 DIok l1 l2 ->
  req (fun a b => fst a = fst b /\ Forall2 DIok (snd a) (snd b))
      (process_days sort_proc s l1) (process_days sort_proc s l2).
Proof.
  intros HF. apply (process_days_rel sort_proc eq DIok DIok); [|exact HF|reflexivity].
  intros; apply sort_day_rel; assumption.
Qed.

(* prices of a day are not touched by Sort *)
Lemma sort_day_prices (s : unit) d s' d' :
  process_day sort_proc s d = ROk (s', d') -> d_prices d' = d_prices d.
Proof.
  unfold process_day. cbn [sort_proc pr_day_start pr_price pr_open pr_txn pr_posting pr_balance pr_close pr_day_end].
  cbn [rbind fst snd].
  rewrite !fold_txns_none by reflexivity. cbn [rbind fst snd].
  rewrite !fold_asserts_none by reflexivity. cbn [rbind]. rewrite !day_eta.
  intros H. inversion H; subst. reflexivity.
Qed.

Lemma sort_stage_prices l : forall (s s' : unit) l',
  process_days sort_proc s l = ROk (s', l') ->
  Forall (fun x => prices_consistent (d_prices x)) l -> Forall (fun x => prices_consistent (d_prices x)) l'.
Proof.
  induction l as [|d l IH]; intros s s' l' H HF; cbn [process_days] in H.
  - inversion H; subst. constructor.
  - destruct (process_day sort_proc s d) as [[s1 d1]| |] eqn:E; cbn [rbind fst snd] in H; try discriminate.
    destruct (process_days sort_proc s1 l) as [[s2 r]| |] eqn:E2; cbn [rbind fst snd] in H; try discriminate.
    inversion H; subst. inversion HF as [|? ? Hd Hl]; subst.
    constructor; [rewrite (sort_day_prices _ _ _ _ E); exact Hd|eapply IH; eassumption].
Qed.

(* ------------------------------------------------------------------ load_safe *)

Lemma load_safe_eq ds : load_safe ds = cbind (of_mresult (depanic (parse_directives ds))) (fun l => COk (builder_of l)).
Proof. unfold load_safe. rewrite parse_directives_safe_eq. reflexivity. Qed.

Theorem load_safe_perm sds1 sds2 :
  Permutation sds1 sds2 -> sd_syntactic sds1 -> no_conflicting_prices sds1 ->
  ceq (fun b1 b2 => builders_equiv b1 b2 /\ Forall (fun x => prices_consistent (d_prices x)) (b_days b1))
      (load_safe sds1) (load_safe sds2).
Proof.
  intros P Hs Hn. pose proof (load_perm sds1 sds2 P Hs) as H. rewrite !load_safe_eq. unfold Cli.load in H.
  destruct (parse_directives sds1) as [ds1| |] eqn:E1, (parse_directives sds2) as [ds2| |]; cbn in *; try tauto.
  split; [exact H|]. eapply builder_prices_consistent; eassumption.
Qed.

Lemma rg_partition_equiv cfg b1 b2 : b_min b1 = b_min b2 -> b_max b1 = b_max b2 -> rg_partition cfg b1 = rg_partition cfg b2.
Proof. intros H1 H2. unfold rg_partition, cfg_partition_safe, builder_period. rewrite H1, H2. reflexivity. Qed.

(* ------------------------------------------------------------------ the command *)

Theorem register_days_of_perm cfg b1 b2 :
  builders_equiv b1 b2 -> Forall (fun x => prices_consistent (d_prices x)) (b_days b1) ->
  ceq (fun a b => Forall2 DIok (fst a) (fst b) /\ snd a = snd b) (register_days_of cfg b1) (register_days_of cfg b2).
Proof.
  intros (HF & Hmin & Hmax) Hpc. unfold register_days_of.
  rewrite (rg_partition_equiv cfg b1 b2 Hmin Hmax).
  destruct (rg_partition cfg b2) as [part| |]; cbn [cbind ceq]; try exact I.
  eapply ceq_bind.
  { instantiate (1 := fun a b => Forall2 DIcp (snd a) (snd b)).
    unfold run_stage.
    pose proof (sort_stage_rel tt _ _ HF) as H.
    destruct (process_days sort_proc tt (b_days b1)) as [[s1 l1]| |] eqn:E1,
             (process_days sort_proc tt (b_days b2)) as [[s2 l2]| |] eqn:E2; cbn in *; try tauto.
    destruct H as [_ H]. apply Forall2_and_l; [exact H|]. eapply sort_stage_prices; eassumption. }
  intros [s1 l1] [s2 l2] H0. cbn [fst snd] in H0.
  assert (H0' : Forall2 DIok l1 l2).
  { clear -H0. induction H0 as [|a b la lb [Hab _] _ IH]; constructor; assumption. }
  eapply ceq_bind.
  { instantiate (1 := fun la lb => Forall2 DIok la lb). cbn [snd].
    destruct (rg_valuation cfg) as [v|]; [|exact H0'].
    eapply ceq_bind.
    - unfold run_stage. apply ceq_of_presult. apply cp_stage_rel. exact H0.
    - intros [u1 q1] [u2 q2] [_ Hq]. cbn [fst snd ceq] in *. exact Hq. }
  intros l3 l4 H34. eapply ceq_bind; [apply check_stage_current; exact H34|].
  intros [c1 r1] [c2 r2] [E1 E2]. cbn [fst snd] in *. subst r1 r2.
  eapply ceq_bind.
  { instantiate (1 := fun la lb => Forall2 DIok la lb).
    destruct (rg_valuation cfg) as [v|]; [|exact H34].
    eapply ceq_bind.
    - unfold run_stage. apply ceq_of_presult. apply val_stage_rel; [intros k0 a0 c0 q0 []|exact H34].
    - intros [w1 z1] [w2 z2] [_ Hz]. cbn [fst snd ceq] in *. exact Hz. }
  intros l5 l6 H56. eapply ceq_bind.
  { unfold run_stage. apply ceq_of_presult. apply filter_stage_rel. exact H56. }
  intros [u1 q1] [u2 q2] [_ Hq]. cbn [fst snd ceq] in *. split; [exact Hq|reflexivity].
Qed.

Theorem register_report_of_perm cfg b1 b2 :
  builders_equiv b1 b2 -> Forall (fun x => prices_consistent (d_prices x)) (b_days b1) ->
  ceq eq (register_report_of cfg b1) (register_report_of cfg b2).
Proof.
  intros HB Hpc. unfold register_report_of.
  eapply ceq_bind; [apply register_days_of_perm; assumption|].
  intros [l1 p1] [l2 p2] [HF E]. cbn [fst snd] in *. subst p2.
  eapply ceq_bind.
  - unfold run_stage. apply ceq_of_presult. apply reg_query_stage_rel. apply Forall2_DIok_equiv. exact HF.
  - intros [r1 x1] [r2 x2] H. cbn [ceq fst snd] in *. exact H.
Qed.

Lemma ceq_eq_bind {A B} (x y : cresult A) (f : A -> cresult B) : ceq eq x y -> ceq eq (cbind x f) (cbind y f).
Proof.
  intros H. eapply ceq_bind; [exact H|]. intros a b <-. destruct (f a); cbn; auto.
Qed.

Theorem register_text_of_perm cfg tc b1 b2 :
  builders_equiv b1 b2 -> Forall (fun x => prices_consistent (d_prices x)) (b_days b1) ->
  ceq eq (register_table_of cfg b1) (register_table_of cfg b2) /\
  ceq eq (register_text_of cfg tc b1) (register_text_of cfg tc b2).
Proof.
  intros HB Hpc.
  assert (T : ceq eq (register_table_of cfg b1) (register_table_of cfg b2)).
  { unfold register_table_of. apply ceq_eq_bind. apply register_report_of_perm; assumption. }
  split; [exact T|]. unfold register_text_of. apply ceq_eq_bind. exact T.
Qed.

Lemma register_with_perm {R} cfg (k : builder -> cresult R) sds1 sds2 :
  Permutation sds1 sds2 -> sd_syntactic sds1 -> no_conflicting_prices sds1 ->
  (forall b1 b2, builders_equiv b1 b2 -> Forall (fun x => prices_consistent (d_prices x)) (b_days b1) ->
                 ceq eq (k b1) (k b2)) ->
  ceq eq (register_with cfg k sds1) (register_with cfg k sds2).
Proof.
  intros P Hs Hn Hk. unfold register_with.
  destruct (register_flags cfg); cbn [cbind ceq]; try exact I.
  eapply ceq_bind; [apply load_safe_perm; eassumption|].
  intros b1 b2 [HB Hpc]. apply Hk; assumption.
Qed.

(* both runs fail, or both print the same bytes (and build the same table) *)
Theorem register_bytes_perm cfg tc sds1 sds2 :
  Permutation sds1 sds2 -> sd_syntactic sds1 -> no_conflicting_prices sds1 ->
  ceq eq (register_table cfg sds1) (register_table cfg sds2) /\
  ceq eq (register_text cfg tc sds1) (register_text cfg tc sds2).
Proof.
  intros P Hs Hn. split; apply register_with_perm; try assumption; intros b1 b2 HB Hpc;
    apply (register_text_of_perm cfg tc b1 b2 HB Hpc).
Qed.
