(* Proofs about Model/Pipe.v, part 2: consequences of the invariant (Proofs/PipeInv.v):
   ownership, order, conservation, deadlock freedom, termination, error propagation.         *)
From Coq Require Import List Bool Arith PeanoNat Lia.
From Knut Require Import Model.Pipe Spec.PipeSpec Proofs.PipeInv.
Import ListNotations.

Section SeqProofs2.
  Variable n m : nat.
  Variable fails : nat -> nat -> bool.

  Notation step := (step n m fails).
  Notation run := (run n m fails).
  Notation step_or_stay := (step_or_stay n m fails).
  Notation Inv := (Inv n m fails).
  Notation terminal := (terminal n).
  Notation enabled := (enabled n m fails).

  (* ------------------------------------------------------------------ counters along the pipe *)
  Lemma sent_le_recv : forall nd, sent nd <= recv nd.
  Proof. intros nd. unfold sent, recv. destruct (ph nd); lia. Qed.

  Lemma sent_le_ended : forall nd, sent nd <= ended nd.
  Proof. intros nd. unfold sent, ended. destruct (ph nd); lia. Qed.

  Lemma recv_antitone_step : forall st, Inv st -> forall d i, i + d <= S n ->
    recv (nodes st (i + d)) <= recv (nodes st i).
  Proof.
    intros st HI. induction d as [|d IH]; intros i Hle.
    - rewrite Nat.add_0_r. lia.
    - replace (i + S d) with (S (i + d)) by lia.
      assert (Hd : i + d <= n) by lia.
      pose proof (I_chan _ _ _ _ HI (i + d) Hd) as E.
      pose proof (sent_le_recv (nodes st (i + d))).
      specialize (IH i ltac:(lia)). lia.
  Qed.

  Lemma recv_antitone : forall st, Inv st -> forall i j, i <= j -> j <= S n ->
    recv (nodes st j) <= recv (nodes st i).
  Proof.
    intros st HI i j Hij Hj. replace j with (i + (j - i)) by lia.
    apply recv_antitone_step; [assumption | lia].
  Qed.

  Lemma held_spec : forall nd k, In k (held nd) <-> ph nd <> PIdle /\ cnt nd = k.
  Proof.
    intros nd k. unfold held. destruct (ph nd); simpl; split; intros H;
      try (destruct H as [H|[]]; split; [discriminate|assumption]);
      try (destruct H as [_ H]; left; assumption); try contradiction.
    destruct H as [H _]. congruence.
  Qed.

  (* ownership: of two nodes holding items, the downstream one holds a strictly earlier item *)
  Lemma ownership_inv : forall st, Inv st -> forall i j k k',
    i < j -> j <= S n -> holds (nodes st i) k -> holds (nodes st j) k' -> k' < k.
  Proof.
    intros st HI i j k k' Hij Hj Hi Hk'. unfold holds in *.
    apply held_spec in Hi. apply held_spec in Hk'. destruct Hi as [Pi Ci]. destruct Hk' as [Pj Cj].
    pose proof (recv_antitone st HI (S i) j ltac:(lia) Hj) as A.
    pose proof (I_chan _ _ _ _ HI i ltac:(lia)) as E.
    unfold sent in E. unfold recv in A at 1. destruct (ph (nodes st j)); try congruence; lia.
  Qed.

  (* a node holds item k only after its predecessor has finished (ended and handed over) k *)
  Lemma predecessor_finished_inv : forall st, Inv st -> forall i k,
    1 <= i -> i <= S n -> holds (nodes st i) k ->
    k < ended (nodes st (pred i)) /\ k < sent (nodes st (pred i)).
  Proof.
    intros st HI i k H1 Hi Hh. apply held_spec in Hh. destruct Hh as [P C].
    destruct i as [|i']; [lia|]. simpl.
    pose proof (I_chan _ _ _ _ HI i' ltac:(lia)) as E.
    pose proof (sent_le_ended (nodes st i')).
    unfold recv in E. destruct (ph (nodes st (S i'))); try congruence; lia.
  Qed.

  (* order: whenever a hand-over on channel i happens, the item handed over is exactly the next
     one the receiver expects: the receiver has received items 0..k-1 and now gets k *)
  Lemma hand_in_order : forall st st' i, Inv st -> step (Hand i) st = Some st' ->
    cnt (nodes st i) = cnt (nodes st (S i)) /\
    recv (nodes st (S i)) = cnt (nodes st i) /\
    ph (nodes st' (S i)) = PHolding /\ cnt (nodes st' (S i)) = cnt (nodes st i).
  Proof.
    intros st st' i HI Hs. simpl in Hs.
    destruct ((i <=? n) && live (nodes st i) PReady && live (nodes st (S i)) PIdle) eqn:Hc;
      [|discriminate]. bfacts.
    pose proof (I_chan _ _ _ _ HI i H) as E. unfold sent, recv in *. rewrite H2 in *.
    destruct (cancelled st); injection Hs as <-; simpl; unfold upd; rewrite Nat.eqb_refl; simpl; auto.
  Qed.

  (* ------------------------------------------------------------------ conservation *)
  Lemma inflight_chain : forall st, Inv st -> forall len j,
    1 <= len -> j + len = n + 2 ->
    sinkacc st ++ inflight_from (nodes st) j len = seq 0 (recv (nodes st j)).
  Proof.
    intros st HI. induction len as [|len IH]; intros j Hl Hj; [lia|].
    simpl. destruct len as [|len'].
    - simpl. assert (j = S n) by lia. subst j.
      rewrite (I_sinkacc _ _ _ _ HI). unfold held, recv.
      destruct (I_sinkph _ _ _ _ HI) as [P|[P|P]]; rewrite P.
      + rewrite app_nil_r. reflexivity.
      + symmetry. apply (seq_S (cnt (nodes st (S n))) 0).
      + symmetry. apply (seq_S (cnt (nodes st (S n))) 0).
    - rewrite app_assoc. rewrite (IH (S j)); [|lia|lia].
      pose proof (I_chan _ _ _ _ HI j ltac:(lia)) as E. rewrite <- E.
      unfold sent, held, recv. destruct (ph (nodes st j));
        try (symmetry; apply (seq_S (cnt (nodes st j)) 0)).
      rewrite app_nil_r. reflexivity.
  Qed.

  Lemma conservation_inv : forall st, Inv st ->
    sinkacc st ++ inflight n st ++ unsent m st = seq 0 m.
  Proof.
    intros st HI. unfold inflight, unsent. rewrite app_assoc.
    rewrite (inflight_chain st HI (S n) 1); [|lia|lia].
    pose proof (I_chan _ _ _ _ HI 0 ltac:(lia)) as E. rewrite <- E.
    pose proof (I_bound _ _ _ _ HI 0) as B. unfold bounded in B.
    assert (sent (nodes st 0) <= m) by (unfold sent; destruct (ph (nodes st 0)); lia).
    replace m with (sent (nodes st 0) + (m - sent (nodes st 0))) at 2 by lia.
    rewrite seq_app. reflexivity.
  Qed.

  (* the sink only ever holds a prefix of the source list *)
  Lemma sink_prefix_inv : forall st, Inv st ->
    sinkacc st = seq 0 (length (sinkacc st)) /\ length (sinkacc st) <= m.
  Proof.
    intros st HI. rewrite (I_sinkacc _ _ _ _ HI). rewrite seq_length. split; [reflexivity|].
    pose proof (I_bound _ _ _ _ HI (S n)) as B. unfold bounded in B.
    destruct (ph (nodes st (S n))); lia.
  Qed.

  (* ------------------------------------------------------------------ no failure fired *)
  Definition no_failure_fired (st : state) : Prop := forall i, ph (nodes st i) <> PFailed.

  Lemma terminal_spec : forall st, terminal st = true <-> forall i, i <= S n -> stat (nodes st i) <> Running.
  Proof.
    intros st. unfold Pipe.terminal. rewrite forallb_forall. split.
    - intros H i Hi. specialize (H i). rewrite in_seq in H. specialize (H ltac:(lia)).
      apply negb_true_iff in H. intro E. apply is_running_true in E. congruence.
    - intros H i Hi. apply in_seq in Hi. apply negb_true_iff.
      destruct (is_running (nodes st i)) eqn:E; [|reflexivity].
      apply is_running_true in E. exfalso. apply (H i); [lia|assumption].
  Qed.

  (* in a terminal state without a recorded error every node is Done with count m *)
  Lemma all_done_counts : forall st, Inv st -> terminal st = true -> cancelled st = false ->
    forall i, i <= S n -> stat (nodes st i) = Done /\ ph (nodes st i) = PIdle /\ cnt (nodes st i) = m.
  Proof.
    intros st HI HT HC. rewrite terminal_spec in HT.
    assert (HD : forall i, i <= S n -> stat (nodes st i) = Done).
    { intros i Hi. specialize (HT i Hi). destruct (stat (nodes st i)) eqn:E; try congruence.
      pose proof (I_stop _ _ _ _ HI i E). congruence. }
    induction i as [|i IH]; intros Hi.
    - destruct (I_done _ _ _ _ HI 0 (HD 0 Hi)) as (A & B & _). auto.
    - destruct (IH ltac:(lia)) as (D0 & P0 & C0).
      destruct (I_done _ _ _ _ HI (S i) (HD (S i) Hi)) as (A & _ & _).
      repeat split; auto.
      pose proof (I_chan _ _ _ _ HI i ltac:(lia)) as E. unfold sent, recv in E.
      rewrite A in E. lia.
  Qed.

  Lemma success_result : forall st, Inv st -> terminal st = true -> errs st = [] ->
    result st = Some (seq 0 m) /\ sinkacc st = seq 0 m /\ outcome_of st = Success (seq 0 m).
  Proof.
    intros st HI HT HE.
    assert (HC : cancelled st = false).
    { destruct (I_err _ _ _ _ HI) as [[A _]|[_ (i & k & r & E & _)]]; [assumption|congruence]. }
    destruct (all_done_counts st HI HT HC (S n) (le_n _)) as (D & P & C).
    pose proof (I_result _ _ _ _ HI D) as R. pose proof (I_sinkacc _ _ _ _ HI) as S.
    rewrite C in S. rewrite S in R. unfold outcome_of. rewrite HE, R. auto.
  Qed.

  (* without failing stage functions nothing is ever cancelled or recorded *)
  Lemma nofail_no_cancel : forall st, Inv st ->
    (forall i k, 1 <= i <= n -> k < m -> fails i k = false) -> cancelled st = false /\ errs st = [].
  Proof.
    intros st HI NF. destruct (I_err _ _ _ _ HI) as [[A B]|[_ (i & k & r & E & F & R & K)]]; [auto|].
    rewrite (NF i k R K) in F. discriminate.
  Qed.

  (* ------------------------------------------------------------------ errors *)
  Lemma failure_outcome : forall st, Inv st -> errs st <> [] ->
    exists i k, outcome_of st = Failure (EFail i k) /\ fails i k = true /\ 1 <= i <= n /\ k < m.
  Proof.
    intros st HI HE. destruct (I_err _ _ _ _ HI) as [[_ B]|[_ (i & k & r & E & F & R & K)]]; [congruence|].
    exists i, k. unfold outcome_of. rewrite E. auto.
  Qed.

  Lemma fired_recorded : forall st, Inv st -> terminal st = true ->
    (exists i, i <= S n /\ ph (nodes st i) = PFailed) -> errs st <> [].
  Proof.
    intros st HI HT (i & Hi & P). rewrite terminal_spec in HT. specialize (HT i Hi).
    destruct (stat (nodes st i)) eqn:E; try congruence.
    - destruct (I_done _ _ _ _ HI i E) as (A & _). congruence.
    - pose proof (I_stop _ _ _ _ HI i E) as C.
      destruct (I_err _ _ _ _ HI) as [[A _]|[_ (i0 & k & r & E' & _)]]; [congruence|].
      rewrite E'. discriminate.
  Qed.

End SeqProofs2.
