(* C20, part 4: the weights report as a tree addressed by paths.
   - Report.Add keeps the children of every node strictly ascending by segment, so that the
     node at a path ([wn_find]) is well defined; it keeps the weight maps ascending by date;
   - [wn_find_add]: where the node at a path is after an Add;
   - hence: the own bookings of the node at p of [report_of es] are the entries with path p, and
     everything booked in its subtree are the entries with prefix p;
   - PropagateWeights commutes with [wn_find]; the cell the renderer reads at p is the sum of
     the entries at or below p ([node_weight_group]). *)
From Coq Require Import ZArith QArith Qfield List Bool Lia Sorting.Sorted.
From Knut Require Import Model.Str Model.Dec Model.Date Model.Account Model.Ledger Model.Price
     Model.Journal Model.Perf Model.Weights Spec.PortfolioSpec Spec.PortfolioMapSpec
     Proofs.SMapProofs Proofs.PortfolioDays Proofs.PortfolioReturns Proofs.PortfolioWeights.
Import ListNotations.
Open Scope Q_scope.

(* ------------------------------------------------------------ a predicate on every node *)

Fixpoint tall (P : wnode -> Prop) (n : wnode) : Prop :=
  P n /\ match n with
         | WNode _ _ _ ch =>
           (fix all (l : list wnode) : Prop := match l with [] => True | c :: r => tall P c /\ all r end) ch
         end.

Lemma tall_unfold (P : wnode -> Prop) s lf w ch : tall P (WNode s lf w ch) <-> P (WNode s lf w ch) /\ Forall (tall P) ch.
Proof.
  cbn [tall]. apply and_iff_compat_l. induction ch as [|c ch IH]; [split; intros _; [constructor|exact I]|].
  rewrite Forall_cons_iff, <- IH. reflexivity.
Qed.

Lemma tall_here (P : wnode -> Prop) n : tall P n -> P n.
Proof. destruct n. intros H. apply tall_unfold in H. exact (proj1 H). Qed.

Lemma tall_children (P : wnode -> Prop) n : tall P n -> Forall (tall P) (wn_children n).
Proof. destruct n. intros H. apply tall_unfold in H. exact (proj2 H). Qed.

Lemma tall_make (P : wnode -> Prop) n : P n -> Forall (tall P) (wn_children n) -> tall P n.
Proof. destruct n. intros H1 H2. apply tall_unfold. split; assumption. Qed.

Lemma tall_new (P : wnode -> Prop) h : P (wn_new h) -> tall P (wn_new h).
Proof. intros H. apply tall_unfold. split; [exact H|constructor]. Qed.

Lemma tall_impl (P Q : wnode -> Prop) : (forall n, P n -> Q n) -> forall n, tall P n -> tall Q n.
Proof.
  intros HPQ n. induction n as [s lf w ch IH] using wnode_ind'. intros H. apply tall_unfold in H. destruct H as [H1 H2].
  apply tall_unfold. split; [apply HPQ; exact H1|]. rewrite Forall_forall in *. intros c Hc. apply IH; [exact Hc|apply H2; exact Hc].
Qed.

Definition seg_lt (a b : wnode) : Prop := str_cmp (wn_seg a) (wn_seg b) = Lt.
Definition tsorted : wnode -> Prop := tall (fun n => StronglySorted seg_lt (wn_children n)).
Definition tascw : wnode -> Prop := tall (fun n => wm_asc (wn_weights n)).
Definition tdef : wnode -> Prop := tall (fun n => wdefined (wn_weights n)).

Lemma tdef_iff n : tdefined n <-> tdef n.
Proof.
  induction n as [s lf w ch IH] using wnode_ind'. unfold tdef. rewrite tdefined_unfold, tall_unfold. cbn [wn_weights].
  apply and_iff_compat_l. rewrite !Forall_forall. rewrite Forall_forall in IH.
  split; intros H c Hc; apply (IH c Hc); apply H; exact Hc.
Qed.

(* ------------------------------------------------------------ GetDefault on sorted children *)

Lemma wn_add_seg ss d w n : wn_seg (wn_add ss d w n) = wn_seg n.
Proof. destruct ss; destruct n; reflexivity. Qed.

Lemma wchildren_upd_Forall (R : wnode -> Prop) h f l :
  Forall R l -> R (f (wn_new h)) -> (forall c, R c -> R (f c)) -> Forall R (wchildren_upd h f l).
Proof.
  intros Hl Hn Hf. induction l as [|c l IH]; cbn [wchildren_upd]; [constructor; [exact Hn|constructor]|].
  inversion Hl as [|? ? Hc Hl']; subst. destruct (str_cmp h (wn_seg c)).
  - constructor; [apply Hf; exact Hc|exact Hl'].
  - constructor; [exact Hn|exact Hl].
  - constructor; [exact Hc|apply IH; exact Hl'].
Qed.

Lemma wchildren_upd_sorted h f l :
  (forall c, wn_seg (f c) = wn_seg c) -> StronglySorted seg_lt l -> StronglySorted seg_lt (wchildren_upd h f l).
Proof.
  intros Hf. induction l as [|c l IH]; intros Hs; cbn [wchildren_upd].
  - constructor; constructor.
  - inversion Hs as [|? ? Hs' Hall]; subst. destruct (str_cmp h (wn_seg c)) eqn:E.
    + constructor; [exact Hs'|]. unfold seg_lt in *. rewrite Hf. exact Hall.
    + constructor; [exact Hs|]. unfold seg_lt. rewrite Hf. cbn [wn_new wn_seg]. constructor; [exact E|].
      rewrite Forall_forall in *. intros x Hx. apply (str_cmp_lt_trans _ _ _ E). apply Hall. exact Hx.
    + constructor; [apply IH; exact Hs'|]. apply wchildren_upd_Forall.
      * exact Hall.
      * unfold seg_lt. rewrite Hf. cbn [wn_new wn_seg]. apply str_cmp_gt_lt. exact E.
      * intros x Hx. unfold seg_lt in *. rewrite Hf. exact Hx.
Qed.

Lemma find_child_none h l : Forall (fun c => str_cmp h (wn_seg c) = Lt) l -> find_child h l = None.
Proof.
  induction l as [|c l IH]; intros H; cbn [find_child]; [reflexivity|]. inversion H as [|? ? Hc Hl]; subst.
  unfold str_eqb. rewrite Hc. apply IH. exact Hl.
Qed.

Lemma find_child_in h l c : find_child h l = Some c -> In c l /\ wn_seg c = h.
Proof.
  induction l as [|x l IH]; cbn [find_child]; [discriminate|]. destruct (str_eqb h (wn_seg x)) eqn:E; intros H.
  - inversion H; subst. apply str_eqb_eq in E. split; [left; reflexivity|symmetry; exact E].
  - destruct (IH H) as [H1 H2]. split; [right; exact H1|exact H2].
Qed.

Definition child_or_new (h : str) (l : list wnode) : wnode :=
  match find_child h l with Some c => c | None => wn_new h end.

Lemma find_child_upd h f l h' :
  StronglySorted seg_lt l -> (forall c, wn_seg (f c) = wn_seg c) ->
  find_child h' (wchildren_upd h f l) = if str_eqb h' h then Some (f (child_or_new h l)) else find_child h' l.
Proof.
  intros Hs Hf. unfold child_or_new. induction l as [|c l IH]; cbn [wchildren_upd find_child].
  - rewrite Hf. cbn [wn_new wn_seg]. reflexivity.
  - inversion Hs as [|? ? Hs' Hall]; subst. destruct (str_cmp h (wn_seg c)) eqn:E; cbn [find_child].
    + apply str_cmp_eq in E. subst h. rewrite Hf, str_eqb_refl. destruct (str_eqb h' (wn_seg c)); reflexivity.
    + rewrite Hf. cbn [wn_new wn_seg]. destruct (str_eqb h' h) eqn:E'; [|reflexivity].
      assert (Hh : str_eqb h (wn_seg c) = false) by (unfold str_eqb; rewrite E; reflexivity).
      rewrite Hh. rewrite find_child_none; [reflexivity|].
      rewrite Forall_forall in *. intros x Hx. apply (str_cmp_lt_trans _ _ _ E). apply Hall. exact Hx.
    + destruct (str_eqb h' (wn_seg c)) eqn:E1.
      * apply str_eqb_eq in E1. subst h'. replace (str_eqb (wn_seg c) h) with false; [reflexivity|].
        symmetry. apply str_eqb_neq. intros Heq. rewrite Heq, str_cmp_refl in E. discriminate.
      * rewrite (IH Hs'). assert (Hh : str_eqb h (wn_seg c) = false) by (unfold str_eqb; rewrite E; reflexivity).
        rewrite Hh. reflexivity.
Qed.

(* ------------------------------------------------------------ Report.Add keeps the invariants *)

Section AddTall.
  Variable P : wnode -> Prop.
  Variable okw : option Q -> Prop.
  Variable d : Z.
  Hypothesis P_new : forall h, P (wn_new h).
  Hypothesis P_here : forall s lf w ch x, okw x -> P (WNode s lf w ch) -> P (WNode s true (wm_add w d x) ch).
  Hypothesis P_below : forall s lf w ch h f,
    (forall c, wn_seg (f c) = wn_seg c) -> P (WNode s lf w ch) -> P (WNode s lf w (wchildren_upd h f ch)).

  Lemma wn_add_tall ss x : okw x -> forall n, tall P n -> tall P (wn_add ss d x n).
  Proof.
    intros Hx. induction ss as [|h tl IH]; intros [s lf w ch] Ht; apply tall_unfold in Ht; destruct Ht as [Hp Hc];
      cbn [wn_add wn_seg wn_leaf wn_weights wn_children]; apply tall_unfold.
    - split; [apply (P_here s lf w ch); [exact Hx|exact Hp]|exact Hc].
    - split; [apply P_below; [intros c; apply wn_add_seg|exact Hp]|].
      apply wchildren_upd_Forall; [exact Hc| |exact IH]. apply IH. apply tall_new. apply P_new.
  Qed.
End AddTall.

Lemma wn_add_sorted ss d x n : tsorted n -> tsorted (wn_add ss d x n).
Proof.
  apply (wn_add_tall _ (fun _ => True)); [| | |exact I].
  - intros h. constructor.
  - intros s lf w ch x0 _ H. exact H.
  - intros s lf w ch h f Hf H. cbn [wn_children] in *. apply wchildren_upd_sorted; assumption.
Qed.

Lemma wn_add_asc ss d x n : tascw n -> tascw (wn_add ss d x n).
Proof.
  apply (wn_add_tall _ (fun _ => True)); [| | |exact I].
  - intros h. exact I.
  - intros s lf w ch x0 _ H. cbn [wn_weights] in *. apply wm_add_asc. exact H.
  - intros s lf w ch h f Hf H. exact H.
Qed.

(* ------------------------------------------------------------ the node at a path after an Add *)

Definition wn_get (p : list str) (n : wnode) : wnode :=
  match wn_find p n with Some x => x | None => wn_new (last p []) end.

Lemma wn_find_new_cons h s t : wn_find (s :: t) (wn_new h) = None.
Proof. reflexivity. Qed.

Lemma wn_find_add ss d w : forall p n, tsorted n ->
  wn_find p (wn_add ss d w n) =
  if path_prefix p ss then Some (wn_add (skipn (length p) ss) d w (wn_get p n)) else wn_find p n.
Proof.
  induction ss as [|h' t' IH]; intros p n Hn.
  - destruct p as [|h t]; [reflexivity|]. destruct n; reflexivity.
  - destruct p as [|h t]; [reflexivity|]. destruct n as [s lf w0 ch]. apply tall_unfold in Hn. destruct Hn as [Hs Hc].
    cbn [wn_children] in Hs.
    cbn [wn_add wn_find wn_children wn_seg wn_leaf wn_weights path_prefix length skipn].
    rewrite (find_child_upd h' _ ch h Hs (fun c => wn_add_seg t' d w c)).
    destruct (str_eqb h h') eqn:E; cbn [andb]; [|reflexivity].
    apply str_eqb_eq in E. subst h'.
    assert (Hc0 : tsorted (child_or_new h ch)).
    { unfold child_or_new. destruct (find_child h ch) as [c|] eqn:Ef.
      - rewrite Forall_forall in Hc. apply Hc. exact (proj1 (find_child_in _ _ _ Ef)).
      - apply tall_new. constructor. }
    rewrite (IH t _ Hc0). unfold wn_get, child_or_new. cbn [wn_find wn_children].
    destruct (find_child h ch) as [c|] eqn:Ef.
    + destruct (path_prefix t t'); [|reflexivity]. destruct (wn_find t c) eqn:Et; [reflexivity|].
      destruct t as [|s2 t2]; [discriminate|reflexivity].
    + destruct t as [|s2 t2]; [reflexivity|]. rewrite wn_find_new_cons. destruct (path_prefix (s2 :: t2) t'); reflexivity.
Qed.

Lemma wn_find_tall (P : wnode -> Prop) p : forall n x, tall P n -> wn_find p n = Some x -> tall P x.
Proof.
  induction p as [|h t IH]; intros n x Hn H; cbn [wn_find] in H; [inversion H; subst; exact Hn|].
  destruct (find_child h (wn_children n)) as [c|] eqn:Ef; [|discriminate].
  apply (IH c x); [|exact H]. pose proof (tall_children _ _ Hn) as Hc. rewrite Forall_forall in Hc. apply Hc.
  exact (proj1 (find_child_in _ _ _ Ef)).
Qed.

Lemma wn_get_tall (P : wnode -> Prop) p n : (forall h, P (wn_new h)) -> tall P n -> tall P (wn_get p n).
Proof.
  intros Hnew Hn. unfold wn_get. destruct (wn_find p n) eqn:E; [exact (wn_find_tall P p n _ Hn E)|].
  apply tall_new. apply Hnew.
Qed.

(* a quantity read at the node of a path; 0 where there is no node *)
Definition at_node (mu : wnode -> Q) (p : list str) (n : wnode) : Q :=
  match wn_find p n with Some x => mu x | None => 0 end.

Lemma at_node_get mu p n : (forall h, mu (wn_new h) == 0) -> mu (wn_get p n) == at_node mu p n.
Proof. intros H. unfold wn_get, at_node. destruct (wn_find p n); [reflexivity|apply H]. Qed.

Lemma prefix_rest p : forall ss, path_prefix p ss = true ->
  path_prefix ss p = match skipn (length p) ss with [] => true | _ => false end.
Proof.
  induction p as [|x p IH]; intros [|y ss] H; cbn [path_prefix length skipn] in *; try reflexivity; try discriminate.
  apply andb_true_iff in H. destruct H as [H1 H2]. rewrite (IH ss H2). rewrite str_eqb_sym, H1. reflexivity.
Qed.

Lemma tdefined_new h : tdefined (wn_new h).
Proof. repeat constructor. Qed.

Lemma wn_get_defined p n : tdefined n -> tdefined (wn_get p n).
Proof.
  intros H. apply tdef_iff. apply wn_get_tall; [intros h; constructor|]. apply tdef_iff. exact H.
Qed.

(* everything booked in the subtree at p *)
Lemma total_at_add ss date q d p n : tsorted n -> tdefined n ->
  at_node (fun x => ttotal x d) p (wn_add ss date (Some q) n) ==
  at_node (fun x => ttotal x d) p n + (if path_prefix p ss && (date =? d)%Z then q else 0).
Proof.
  intros Hs Hd. unfold at_node at 1. rewrite (wn_find_add ss date (Some q) p n Hs).
  destruct (path_prefix p ss) eqn:E; cbn [andb].
  - destruct (wn_add_total (skipn (length p) ss) date q d (wn_get p n) (wn_get_defined p n Hd)) as [_ H].
    rewrite H. rewrite (at_node_get (fun x => ttotal x d)); [reflexivity|]. intros h. reflexivity.
  - fold (at_node (fun x => ttotal x d) p n). ring.
Qed.

(* the bookings on the node at p itself *)
Lemma own_at_add ss date q d p n : tsorted n -> tdefined n ->
  at_node (fun x => wsum (wn_weights x) d) p (wn_add ss date (Some q) n) ==
  at_node (fun x => wsum (wn_weights x) d) p n + (if path_eqb p ss && (date =? d)%Z then q else 0).
Proof.
  intros Hs Hd. unfold at_node at 1. rewrite (wn_find_add ss date (Some q) p n Hs). unfold path_eqb.
  destruct (path_prefix p ss) eqn:E; cbn [andb].
  - rewrite (prefix_rest p ss E). pose proof (wn_get_defined p n Hd) as Hg.
    pose proof (at_node_get (fun x => wsum (wn_weights x) d) p n (fun h => Qeq_refl 0)) as Hat. cbn beta in Hat.
    destruct (skipn (length p) ss) as [|h tl]; cbn [andb].
    + destruct (wn_get p n) as [s lf w ch]. apply tdefined_unfold in Hg. destruct Hg as [Hw _].
      cbn [wn_add wn_weights] in *. rewrite (proj2 (wm_add_sum w date q d Hw)), Hat. reflexivity.
    + rewrite wn_add_root_weights, Hat. ring.
  - fold (at_node (fun x => wsum (wn_weights x) d) p n). ring.
Qed.

(* ------------------------------------------------------------ the report of a list of entries *)

Definition build (es : list entry) (n : wnode) : wnode :=
  fold_left (fun n e => let '(ss, d, w) := e in wn_add ss d w n) es n.

Lemma report_of_build es : report_of es = build es wroot.
Proof. reflexivity. Qed.

(* the entries booked exactly at [path] *)
Definition own_weight (es : list entry) (path : list str) (date : Z) : Q :=
  qsum (map (fun e : entry => let '(ss, d, w) := e in if path_eqb path ss && (d =? date)%Z then oq w else 0) es).

Lemma build_shape es : forall n, tsorted n -> tascw n -> tsorted (build es n) /\ tascw (build es n).
Proof.
  unfold build. induction es as [|[[ss dt] w] es IH]; intros n H1 H2; cbn [fold_left]; [split; assumption|].
  apply IH; [apply wn_add_sorted|apply wn_add_asc]; assumption.
Qed.

Lemma build_sums es : defined_entries es -> forall n, tsorted n -> tdefined n ->
  tdefined (build es n) /\
  forall p d,
    at_node (fun x => ttotal x d) p (build es n) == at_node (fun x => ttotal x d) p n + group_weight es p d /\
    at_node (fun x => wsum (wn_weights x) d) p (build es n) ==
      at_node (fun x => wsum (wn_weights x) d) p n + own_weight es p d.
Proof.
  unfold build, group_weight, own_weight. induction es as [|[[ss dt] w] es IH]; intros Hes n Hs Hd; cbn [fold_left map qsum fold_right].
  - split; [exact Hd|]. intros p d. split; ring.
  - inversion Hes as [|? ? Hw Hrest]; subst. destruct w as [q|]; [|congruence].
    destruct (IH Hrest (wn_add ss dt (Some q) n) (wn_add_sorted _ _ _ _ Hs) (proj1 (wn_add_total ss dt q 0 n Hd))) as [H1 H2].
    split; [exact H1|]. intros p d. destruct (H2 p d) as [H3 H4]. split.
    + rewrite H3, (total_at_add ss dt q d p n Hs Hd). cbn [oq]. unfold qsum. ring.
    + rewrite H4, (own_at_add ss dt q d p n Hs Hd). cbn [oq]. unfold qsum. ring.
Qed.

Lemma wroot_sorted : tsorted wroot.
Proof. apply tall_new. constructor. Qed.
Lemma wroot_asc : tascw wroot.
Proof. apply tall_new. exact I. Qed.
Lemma wroot_defined : tdefined wroot.
Proof. repeat constructor. Qed.

Lemma at_wroot mu p : mu wroot == 0 -> at_node mu p wroot == 0.
Proof. intros H. unfold at_node. destruct p; [exact H|reflexivity]. Qed.

Lemma report_shape es : tsorted (report_of es) /\ tascw (report_of es).
Proof. rewrite report_of_build. apply build_shape; [exact wroot_sorted|exact wroot_asc]. Qed.

Lemma report_defined es : defined_entries es -> tdefined (report_of es).
Proof. intros H. rewrite report_of_build. exact (proj1 (build_sums es H wroot wroot_sorted wroot_defined)). Qed.

Lemma report_total_at es p d : defined_entries es ->
  at_node (fun x => ttotal x d) p (report_of es) == group_weight es p d.
Proof.
  intros H. rewrite report_of_build.
  rewrite (proj1 (proj2 (build_sums es H wroot wroot_sorted wroot_defined) p d)), at_wroot; [ring|reflexivity].
Qed.

Lemma report_own_at es p d : defined_entries es ->
  at_node (fun x => wsum (wn_weights x) d) p (report_of es) == own_weight es p d.
Proof.
  intros H. rewrite report_of_build.
  rewrite (proj2 (proj2 (build_sums es H wroot wroot_sorted wroot_defined) p d)), at_wroot; [ring|reflexivity].
Qed.

(* ------------------------------------------------------------ PropagateWeights and paths *)

Lemma propagate_seg n : wn_seg (propagate n) = wn_seg n.
Proof. destruct n; reflexivity. Qed.

Lemma find_child_map f h l : (forall c, wn_seg (f c) = wn_seg c) ->
  find_child h (map f l) = option_map f (find_child h l).
Proof.
  intros Hf. induction l as [|c l IH]; cbn [map find_child]; [reflexivity|]. rewrite Hf.
  destruct (str_eqb h (wn_seg c)); [reflexivity|exact IH].
Qed.

Lemma wn_find_propagate p : forall n, wn_find p (propagate n) = option_map propagate (wn_find p n).
Proof.
  induction p as [|h t IH]; intros [s lf w ch]; [reflexivity|].
  cbn [wn_find]. rewrite propagate_children. cbn [wn_children]. rewrite (find_child_map propagate h ch propagate_seg).
  destruct (find_child h ch); cbn [option_map]; [apply IH|reflexivity].
Qed.

Lemma fold_plus_asc ms : forall acc, wm_asc acc -> wm_asc (fold_left wm_plus ms acc).
Proof. induction ms as [|m ms IH]; intros acc H; cbn [fold_left]; [exact H|]. apply IH. apply wm_plus_asc. exact H. Qed.

Lemma propagate_weights_asc n : wm_asc (wn_weights n) -> wm_asc (wn_weights (propagate n)).
Proof. destruct n as [s lf w ch]. intros H. rewrite propagate_weights. apply fold_plus_asc. exact H. Qed.

Lemma cell_q_wsum w d : wm_asc w -> cell_q w d == wsum w d.
Proof. intros H. unfold cell_q. symmetry. apply wsum_get. exact H. Qed.

(* the cell the renderer reads at path p of the propagated report: the entries at or below p *)
Theorem node_weight_group es p d : defined_entries es ->
  node_weight (propagate (report_of es)) p d == group_weight es p d.
Proof.
  intros Hd. unfold node_weight. rewrite wn_find_propagate.
  pose proof (report_total_at es p d Hd) as Ht. unfold at_node in Ht.
  destruct (wn_find p (report_of es)) as [x|] eqn:E; cbn [option_map]; [|exact Ht].
  destruct (report_shape es) as [_ Ha].
  rewrite cell_q_wsum.
  - rewrite <- Ht. apply (proj2 (propagate_spec x (proj2 (tdef_iff x) (wn_find_tall _ p _ x (proj1 (tdef_iff _) (report_defined es Hd)) E)) d)).
  - apply propagate_weights_asc. exact (tall_here _ _ (wn_find_tall _ p _ x Ha E)).
Qed.
