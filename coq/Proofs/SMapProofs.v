(* Lemmas about byte-string comparison and the sorted association lists of Model/Price.v
   (sm_get / sm_put): get-after-put, key sets, sortedness is preserved by sm_put, and two
   sorted maps with the same bindings are equal (extensionality). *)
From Coq Require Import ZArith List Bool Lia.
From Knut Require Import Model.Str Model.Price.
Import ListNotations.
Open Scope Z_scope.

(* ---------------------------------------------------------------- str_cmp is a total order *)
Lemma str_cmp_refl a : str_cmp a a = Eq.
Proof.
  induction a as [|x a IH]; cbn [str_cmp]; [reflexivity|].
  rewrite Z.compare_refl. exact IH.
Qed.

Lemma str_cmp_eq a : forall b, str_cmp a b = Eq -> a = b.
Proof.
  induction a as [|x a IH]; intros [|y b] H; cbn [str_cmp] in H; try discriminate; [reflexivity|].
  destruct (x ?= y) eqn:E; try discriminate.
  apply Z.compare_eq in E. subst. f_equal. auto.
Qed.

Lemma str_cmp_antisym a : forall b, str_cmp b a = CompOpp (str_cmp a b).
Proof.
  induction a as [|x a IH]; intros [|y b]; cbn [str_cmp]; try reflexivity.
  rewrite (Z.compare_antisym x y). destruct (x ?= y); cbn [CompOpp]; auto.
Qed.

Lemma str_cmp_lt_trans a : forall b c, str_cmp a b = Lt -> str_cmp b c = Lt -> str_cmp a c = Lt.
Proof.
  induction a as [|x a IH]; intros [|y b] [|z c] H1 H2; cbn [str_cmp] in *;
    try discriminate; try reflexivity.
  destruct (x ?= y) eqn:E1; try discriminate; destruct (y ?= z) eqn:E2; try discriminate.
  - apply Z.compare_eq in E1. apply Z.compare_eq in E2. subst. rewrite Z.compare_refl. eauto.
  - apply Z.compare_eq in E1. subst. rewrite E2. reflexivity.
  - apply Z.compare_eq in E2. subst. rewrite E1. reflexivity.
  - assert (x ?= z = Lt) as Hxz.
    { rewrite Z.compare_lt_iff in *. lia. }
    rewrite Hxz. reflexivity.
Qed.

Lemma str_cmp_gt_lt a b : str_cmp a b = Gt -> str_cmp b a = Lt.
Proof. intros H. rewrite (str_cmp_antisym a b), H. reflexivity. Qed.

Lemma str_cmp_lt_neq a b : str_cmp a b = Lt -> a <> b.
Proof. intros H E. subst. rewrite str_cmp_refl in H. discriminate. Qed.

Lemma str_eqb_refl a : str_eqb a a = true.
Proof. unfold str_eqb. rewrite str_cmp_refl. reflexivity. Qed.

Lemma str_eqb_eq a b : str_eqb a b = true <-> a = b.
Proof.
  unfold str_eqb. split.
  - destruct (str_cmp a b) eqn:E; try discriminate. intros _. apply str_cmp_eq. exact E.
  - intros ->. rewrite str_cmp_refl. reflexivity.
Qed.

Lemma str_eqb_neq a b : str_eqb a b = false <-> a <> b.
Proof.
  split.
  - intros H E. apply str_eqb_eq in E. congruence.
  - intros H. destruct (str_eqb a b) eqn:E; [|reflexivity]. apply str_eqb_eq in E. contradiction.
Qed.

Lemma str_eqb_sym a b : str_eqb a b = str_eqb b a.
Proof.
  destruct (str_eqb a b) eqn:E.
  - apply str_eqb_eq in E. subst. symmetry. apply str_eqb_refl.
  - symmetry. apply str_eqb_neq. apply str_eqb_neq in E. congruence.
Qed.

Lemma str_eq_dec (a b : str) : {a = b} + {a <> b}.
Proof.
  destruct (str_eqb a b) eqn:E.
  - left. apply str_eqb_eq. exact E.
  - right. apply str_eqb_neq. exact E.
Qed.

(* ---------------------------------------------------------------- sm_get / sm_put *)
Section SMapLemmas.
  Context {V : Type}.
  Implicit Types (m : smap V) (k : str) (v : V).

  Definition keys m : list str := map fst m.

  Lemma sm_get_put_same m k v : sm_get (sm_put m k v) k = Some v.
  Proof.
    induction m as [|[k' v'] m IH]; cbn [sm_put sm_get].
    - rewrite str_eqb_refl. reflexivity.
    - destruct (str_cmp k k') eqn:E; cbn [sm_get].
      + rewrite str_eqb_refl. reflexivity.
      + rewrite str_eqb_refl. reflexivity.
      + unfold str_eqb. rewrite E. exact IH.
  Qed.

  Lemma sm_get_put_other m k v k' : k' <> k -> sm_get (sm_put m k v) k' = sm_get m k'.
  Proof.
    intros Hne. apply str_eqb_neq in Hne.
    induction m as [|[k0 v0] m IH]; cbn [sm_put sm_get].
    - rewrite Hne. reflexivity.
    - destruct (str_cmp k k0) eqn:E; cbn [sm_get].
      + apply str_cmp_eq in E. subst k0. rewrite Hne. reflexivity.
      + rewrite Hne. reflexivity.
      + destruct (str_eqb k' k0); [reflexivity | exact IH].
  Qed.

  Lemma sm_get_put m k v k' :
    sm_get (sm_put m k v) k' = if str_eqb k' k then Some v else sm_get m k'.
  Proof.
    destruct (str_eqb k' k) eqn:E.
    - apply str_eqb_eq in E. subst. apply sm_get_put_same.
    - apply str_eqb_neq in E. apply sm_get_put_other. exact E.
  Qed.

  Lemma sm_has_put m k v k' : sm_has (sm_put m k v) k' = str_eqb k' k || sm_has m k'.
  Proof.
    unfold sm_has. rewrite sm_get_put. destruct (str_eqb k' k); reflexivity.
  Qed.

  Lemma sm_get_in m k v : sm_get m k = Some v -> In (k, v) m.
  Proof.
    induction m as [|[k' v'] m IH]; cbn [sm_get]; [discriminate|].
    destruct (str_eqb k k') eqn:E.
    - apply str_eqb_eq in E. subst. intros H. injection H as ->. left. reflexivity.
    - intros H. right. auto.
  Qed.

  Lemma sm_get_in_keys m k v : sm_get m k = Some v -> In k (keys m).
  Proof. intros H. apply sm_get_in in H. apply (in_map fst) in H. exact H. Qed.

  Lemma sm_get_none m k : sm_get m k = None <-> ~ In k (keys m).
  Proof.
    induction m as [|[k' v'] m IH]; cbn [sm_get keys map fst].
    - split; auto.
    - destruct (str_eqb k k') eqn:E.
      + apply str_eqb_eq in E. subst. split; [discriminate|]. intros H. exfalso. apply H. left. reflexivity.
      + apply str_eqb_neq in E. rewrite IH. unfold keys. split.
        * intros H [H1|H1]; [congruence | contradiction].
        * intros H H1. apply H. right. exact H1.
  Qed.

  Lemma sm_has_true m k : sm_has m k = true <-> In k (keys m).
  Proof.
    unfold sm_has. destruct (sm_get m k) eqn:E.
    - split; [intros _ | reflexivity]. eapply sm_get_in_keys. exact E.
    - split; [discriminate|]. intros H. apply sm_get_none in E. contradiction.
  Qed.

  Lemma sm_has_false m k : sm_has m k = false <-> ~ In k (keys m).
  Proof.
    rewrite <- sm_has_true. destruct (sm_has m k); split; congruence.
  Qed.

  Lemma keys_put m k v k' : In k' (keys (sm_put m k v)) <-> k' = k \/ In k' (keys m).
  Proof.
    rewrite <- !sm_has_true, sm_has_put, orb_true_iff, str_eqb_eq. reflexivity.
  Qed.

  (* the first binding of a key in an association list is the one sm_get returns *)
  Lemma sm_get_split m k v :
    sm_get m k = Some v -> exists m1 m2, m = m1 ++ (k, v) :: m2 /\ ~ In k (keys m1).
  Proof.
    induction m as [|[k' v'] m IH]; cbn [sm_get]; [discriminate|].
    destruct (str_eqb k k') eqn:E.
    - apply str_eqb_eq in E. subst. intros H. injection H as ->.
      exists [], m. split; [reflexivity | intros []].
    - intros H. destruct (IH H) as (m1 & m2 & -> & Hn).
      exists ((k', v') :: m1), m2. split; [reflexivity|].
      cbn [keys map fst]. intros [H1|H1]; [|contradiction].
      apply str_eqb_neq in E. congruence.
  Qed.

  (* ---- sortedness: keys strictly ascending *)
  Inductive sorted : smap V -> Prop :=
  | sorted_nil : sorted []
  | sorted_cons k v m :
      sorted m -> (forall k', In k' (keys m) -> str_cmp k k' = Lt) -> sorted ((k, v) :: m).

  Lemma sorted_put m k v : sorted m -> sorted (sm_put m k v).
  Proof.
    induction 1 as [|k0 v0 m Hs IH Hlt]; cbn [sm_put].
    - constructor; [constructor | intros k' []].
    - destruct (str_cmp k k0) eqn:E.
      + apply str_cmp_eq in E. subst. constructor; assumption.
      + constructor.
        * constructor; assumption.
        * cbn [keys map fst]. intros k' [<-|H]; [exact E|].
          eapply str_cmp_lt_trans; [exact E | auto].
      + constructor; [exact IH|].
        intros k' H. apply keys_put in H. destruct H as [->|H]; [|auto].
        apply str_cmp_gt_lt. exact E.
  Qed.

  Lemma sorted_head_notin k v m : sorted ((k, v) :: m) -> ~ In k (keys m).
  Proof.
    intros H Hin. inversion H as [|k0 v0 m0 Hs Hlt]; subst.
    specialize (Hlt k Hin). rewrite str_cmp_refl in Hlt. discriminate.
  Qed.

  Lemma sorted_nodup m : sorted m -> NoDup (keys m).
  Proof.
    induction 1 as [|k v m Hs IH Hlt]; cbn [keys map fst]; constructor; [|exact IH].
    intros Hin. specialize (Hlt k Hin). rewrite str_cmp_refl in Hlt. discriminate.
  Qed.

  (* extensionality: sorted maps with the same bindings are equal *)
  Lemma sorted_ext m1 : forall m2,
    sorted m1 -> sorted m2 -> (forall k, sm_get m1 k = sm_get m2 k) -> m1 = m2.
  Proof.
    induction m1 as [|[k1 v1] m1 IH]; intros [|[k2 v2] m2] S1 S2 Hext.
    - reflexivity.
    - specialize (Hext k2). cbn [sm_get] in Hext. rewrite str_eqb_refl in Hext. discriminate.
    - specialize (Hext k1). cbn [sm_get] in Hext. rewrite str_eqb_refl in Hext. discriminate.
    - pose proof (sorted_head_notin _ _ _ S1) as N1.
      pose proof (sorted_head_notin _ _ _ S2) as N2.
      inversion S1 as [|? ? ? S1' L1]; subst. inversion S2 as [|? ? ? S2' L2]; subst.
      assert (k1 = k2) as ->.
      { destruct (str_cmp k1 k2) eqn:E.
        - apply str_cmp_eq. exact E.
        - exfalso. pose proof (Hext k1) as H. cbn [sm_get] in H.
          rewrite str_eqb_refl in H. unfold str_eqb at 1 in H. rewrite E in H.
          symmetry in H. apply sm_get_in_keys in H. apply L2 in H.
          pose proof (str_cmp_lt_trans _ _ _ E H) as C. rewrite str_cmp_refl in C. discriminate.
        - exfalso. apply str_cmp_gt_lt in E. pose proof (Hext k2) as H. cbn [sm_get] in H.
          rewrite str_eqb_refl in H. unfold str_eqb at 1 in H. rewrite E in H.
          apply sm_get_in_keys in H. apply L1 in H.
          pose proof (str_cmp_lt_trans _ _ _ E H) as C. rewrite str_cmp_refl in C. discriminate. }
      assert (v1 = v2) as ->.
      { pose proof (Hext k2) as H. cbn [sm_get] in H. rewrite str_eqb_refl in H. congruence. }
      f_equal. apply IH; try assumption.
      intros k. destruct (str_eq_dec k k2) as [->|Hne].
      + apply sm_get_none in N1. apply sm_get_none in N2. congruence.
      + pose proof (Hext k) as H. cbn [sm_get] in H.
        apply str_eqb_neq in Hne. rewrite Hne in H. exact H.
  Qed.
End SMapLemmas.

Section SMapMore.
  Context {V : Type}.

  (* in a sorted map every listed binding is the one sm_get returns *)
  Lemma sorted_in_get (m : smap V) k v : sorted m -> In (k, v) m -> sm_get m k = Some v.
  Proof.
    induction 1 as [|k0 v0 m Hs IH Hlt]; intros Hin; [destruct Hin|].
    cbn [sm_get]. destruct Hin as [E|Hin].
    - injection E as -> ->. rewrite str_eqb_refl. reflexivity.
    - assert (str_eqb k k0 = false) as ->.
      { apply str_eqb_neq. intros ->. apply (in_map fst) in Hin.
        specialize (Hlt _ Hin). rewrite str_cmp_refl in Hlt. discriminate. }
      auto.
  Qed.

  Lemma keys_length (m : smap V) : length (keys m) = length m.
  Proof. apply map_length. Qed.
End SMapMore.
