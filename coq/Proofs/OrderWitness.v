(* C05 witnesses: a journal with same-day transactions, prices, a valuation and closing; a
   permutation of it; the hypotheses of the theorems hold and the tables are equal
   (vm_compute).  And: the error of a failing run depends on the order. *)
From Coq Require Import ZArith List Bool Permutation.
From Knut Require Import Model.Str Model.Dec Model.Date Model.Account Model.Ledger Model.Journal Model.Check
     Model.Pipeline Model.Table Model.Report Model.Cli Spec.WellformedSpec Proofs.CheckMain
     Proofs.OrderProofs Proofs.OrderStages Proofs.OrderPipeline Proofs.OrderCmd.
Import ListNotations.
Open Scope Z_scope.

Definition w_A : account := acc_of_name [65;115;115;101;116;115;58;66].          (* Assets:B *)
Definition w_E : account := acc_of_name [69;120;112;101;110;115;101;115;58;82].  (* Expenses:R *)
Definition w_I : account := acc_of_name [73;110;99;111;109;101;58;83].           (* Income:S *)
Definition w_chf : commodity := [67;72;70].
Definition w_usd : commodity := [85;83;68].
Definition w_d0 : Z := Eval vm_compute in Date.of_civil 2020 1 5.

Definition w_o1 := SOpen w_d0 w_A.
Definition w_o2 := SOpen w_d0 w_E.
Definition w_o3 := SOpen w_d0 w_I.
Definition w_p1 := SPrice w_d0 w_usd (mkDec 95 (-2)) w_chf.
Definition w_p2 := SPrice (w_d0 + 40) w_usd (mkDec 91 (-2)) w_chf.
Definition w_t1 := STxn (mkStxn (w_d0 + 1) [49] [mkBooking w_A w_E (mkDec 1234 (-2)) w_usd] None None).
Definition w_t2 := STxn (mkStxn (w_d0 + 1) [50] [mkBooking w_I w_A (mkDec 500 0) w_chf] None None).
Definition w_t3 := STxn (mkStxn (w_d0 + 1) [51] [mkBooking w_I w_A (mkDec 77 (-1)) w_usd] None None).
Definition w_t4 := STxn (mkStxn (w_d0 + 50) [] [mkBooking w_E w_A (mkDec (-7) 0) w_chf] None None).
Definition w_a1 := SAssert (w_d0 + 1) [mkBalance w_A (mkDec 500 0) w_chf].

Definition w_journal : list sdirective := [w_o1; w_o2; w_o3; w_p1; w_p2; w_t1; w_t2; w_t3; w_t4; w_a1].
Definition w_permuted : list sdirective := [w_t3; w_a1; w_p2; w_t2; w_o3; w_t4; w_t1; w_o2; w_p1; w_o1].

Definition w_cfg : balance_cfg :=
  mkBalanceCfg 0 (w_d0 + 90) Monthly 0 false true (Some w_chf) true [] [] [] [] [] true.
Definition w_cfg_plain : balance_cfg :=
  mkBalanceCfg 0 (w_d0 + 90) Monthly 0 false false None false [] [] [] [] [] true.

Lemma w_perm : Permutation w_journal w_permuted.
Proof.
  unfold w_journal, w_permuted.
  apply NoDup_Permutation.
  - repeat constructor; cbn [In]; intros H; repeat (destruct H as [H|H]; [discriminate H|]); exact H.
  - repeat constructor; cbn [In]; intros H; repeat (destruct H as [H|H]; [discriminate H|]); exact H.
  - intros x. cbn [In]. tauto.
Qed.

Lemma w_syntactic : sd_syntactic w_journal.
Proof.
  intros ds H. apply syntactic_b_spec. vm_compute in H. inversion H. vm_compute. reflexivity.
Qed.

Lemma w_prices : no_conflicting_prices w_journal.
Proof.
  intros d c p t c' p' t' H1 H2 _. unfold w_journal in *. cbn [In] in H1, H2.
  repeat (destruct H1 as [H1|H1]; [try discriminate H1|]); try contradiction;
    repeat (destruct H2 as [H2|H2]; [try discriminate H2|]); try contradiction;
    inversion H1; inversion H2; subst; try reflexivity; discriminate.
Qed.

(* same-day transactions, two commodities, valuation, closing: equal tables *)
Lemma w_tables_equal :
  balance_table w_cfg w_journal = balance_table w_cfg w_permuted /\
  balance_table w_cfg_plain w_journal = balance_table w_cfg_plain w_permuted /\
  (exists t, balance_table w_cfg w_journal = COk t) /\
  check_cmd_fixed w_journal = COk tt /\ check_cmd_fixed w_permuted = COk tt.
Proof. vm_compute. repeat split; try reflexivity. eexists. reflexivity. Qed.

(* the error is not invariant: two assertions of one day, one on an account that is not open,
   one with a wrong amount; whichever comes first is reported *)
Definition w_bad1 := SAssert (w_d0 + 2) [mkBalance w_A (mkDec 1 0) w_chf].        (* wrong amount *)
Definition w_bad2 := SAssert (w_d0 + 2) [mkBalance [s_Assets; [90]] (mkDec 0 0) w_chf].  (* Assets:Z not open *)

Lemma w_error_depends_on_order :
  Permutation (w_journal ++ [w_bad1; w_bad2]) (w_journal ++ [w_bad2; w_bad1]) /\
  sd_syntactic (w_journal ++ [w_bad1; w_bad2]) /\
  (exists d, check_cmd_fixed (w_journal ++ [w_bad1; w_bad2]) = CErr k_assertion d) /\
  (exists d, check_cmd_fixed (w_journal ++ [w_bad2; w_bad1]) = CErr k_not_open d).
Proof.
  split; [apply Permutation_app_head; apply perm_swap|].
  split; [intros ds H; apply syntactic_b_spec; vm_compute in H; inversion H; vm_compute; reflexivity|].
  split; vm_compute; eexists; reflexivity.
Qed.
