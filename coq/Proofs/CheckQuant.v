(* C09 (b): the checker sees the VALUES of quantities only.
   Two day lists that agree in everything but the representation of posting and assertion
   quantities (same value, [dec_equal]) get the same verdict from every variant of the checker
   ([check_days_q]): the running positions stay pairwise value-equal ([Rq]), Amounts.Add respects
   value equality (DecEqProofs.deqv_add_l), and assertions and closes compare values. *)
From Coq Require Import ZArith List Bool Lia.
From Knut Require Import Model.Str Model.Dec Model.Date Model.Account Model.Ledger Model.Price Model.Journal
     Model.Check Model.Cli.
From Knut Require Import Proofs.DecProofs Proofs.DecEqProofs Proofs.OrderProofs.
Import ListNotations.
Open Scope bool_scope.
Open Scope Z_scope.

(* ------------------------------------------------------------------ relations *)

Definition posting_q (p p' : posting) : Prop :=
  p_acc p = p_acc p' /\ p_com p = p_com p' /\ deqv (p_qty p) (p_qty p').
Definition txn_q (t t' : txn) : Prop := Forall2 posting_q (t_postings t) (t_postings t').
Definition bal_q (b b' : balance) : Prop :=
  bal_acc b = bal_acc b' /\ bal_com b = bal_com b' /\ deqv (bal_qty b) (bal_qty b').
Definition day_q (d d' : day) : Prop :=
  d_opens d = d_opens d' /\ Forall2 txn_q (d_txns d) (d_txns d') /\
  Forall2 (Forall2 bal_q) (d_asserts d) (d_asserts d') /\ d_closes d = d_closes d'.

Definition ent_q (x y : str * (account * commodity * dec)) : Prop :=
  fst x = fst y /\ fst (fst (snd x)) = fst (fst (snd y)) /\ snd (fst (snd x)) = snd (fst (snd y)) /\
  deqv (snd (snd x)) (snd (snd y)).
Definition Rq (s s' : check_state) : Prop := ck_open s = ck_open s' /\ Forall2 ent_q (ck_qty s) (ck_qty s').

Lemma Rq_refl s : Rq s s.
Proof.
  split; [reflexivity|]. induction (ck_qty s) as [|x m IH]; constructor; [|exact IH].
  repeat split; apply deqv_refl.
Qed.

Lemma deqv_add a a' b b' : deqv a a' -> deqv b b' -> deqv (add a b) (add a' b').
Proof.
  intros Ha Hb. eapply deqv_trans; [apply deqv_add_l; exact Ha|].
  rewrite (add_comm a' b), (add_comm a' b'). apply deqv_add_l. exact Hb.
Qed.

(* ------------------------------------------------------------------ positions *)

Lemma pos_get_q m m' a c : Forall2 ent_q m m' ->
  match pos_get m a c, pos_get m' a c with
  | Some q, Some q' => deqv q q'
  | None, None => True
  | _, _ => False
  end.
Proof.
  unfold pos_get. induction 1 as [|[k [[a1 c1] q1]] [k' [[a2 c2] q2]] m m' (Hk & _ & _ & Hq) Hm IH]; cbn [sm_get]; [exact I|].
  cbn [fst snd] in *. subst k'. destruct (str_eqb (pos_key a c) k); [exact Hq|exact IH].
Qed.

Lemma sm_put_q m m' k a c q q' : Forall2 ent_q m m' -> deqv q q' ->
  Forall2 ent_q (sm_put m k (a, c, q)) (sm_put m' k (a, c, q')).
Proof.
  intros Hm Hq. induction Hm as [|[k1 v1] [k2 v2] m m' Hx Hm IH]; cbn [sm_put].
  - constructor; [repeat split; assumption|constructor].
  - pose proof Hx as (Hk & _). cbn [fst] in Hk. subst k2.
    destruct (str_cmp k k1).
    + constructor; [repeat split; assumption|exact Hm].
    + constructor; [repeat split; assumption|constructor; assumption].
    + constructor; [exact Hx|exact IH].
Qed.

Lemma pos_add_q m m' a c q q' : Forall2 ent_q m m' -> deqv q q' ->
  Forall2 ent_q (pos_add m a c q) (pos_add m' a c q').
Proof.
  intros Hm Hq. unfold pos_add. apply sm_put_q; [exact Hm|].
  pose proof (pos_get_q m m' a c Hm) as Hg.
  destruct (pos_get m a c), (pos_get m' a c); try contradiction.
  - now apply deqv_add.
  - apply deqv_add; [apply deqv_refl|exact Hq].
Qed.

Lemma close_positions_q m m' a : Forall2 ent_q m m' ->
  match close_positions m a, close_positions m' a with
  | Some r, Some r' => Forall2 ent_q r r'
  | None, None => True
  | _, _ => False
  end.
Proof.
  induction 1 as [|[k [[a1 c1] q1]] [k' [[a2 c2] q2]] m m' Hx Hm IH]; cbn [close_positions]; [constructor|].
  pose proof Hx as (Hk & Ha & Hc & Hq). cbn [fst snd] in *. subst k' a2 c2.
  destruct (acc_eqb a a1).
  - rewrite (deqv_is_zero _ _ Hq). destruct (is_zero q2); [exact IH|exact I].
  - destruct (close_positions m a), (close_positions m' a); try contradiction; [|exact I].
    constructor; [exact Hx|exact IH].
Qed.

(* ------------------------------------------------------------------ callbacks *)

Lemma is_open_q s s' a : Rq s s' -> is_open s a = is_open s' a.
Proof. intros [H _]. unfold is_open. now rewrite H. Qed.

Lemma ck_open_q s s' a : Rq s s' -> req Rq (ck_open_cb s a) (ck_open_cb s' a).
Proof.
  intros H. unfold ck_open_cb. rewrite (is_open_q s s' a H).
  destruct (is_open s' a); cbn [req]; [exact I|]. destruct H as [Ho Hm]. split; cbn [ck_open ck_qty]; [now rewrite Ho|exact Hm].
Qed.

Definition R1 {A} (x y : check_state * A) : Prop := Rq (fst x) (fst y).

Lemma ck_posting_q s s' t t' p p' : Rq s s' -> posting_q p p' ->
  req R1 (ck_posting_cb s t p) (ck_posting_cb s' t' p').
Proof.
  intros H (Ha & Hc & Hq). unfold ck_posting_cb. rewrite <- Ha, <- Hc, (is_open_q s s' _ H).
  destruct (negb (is_open s' (p_acc p))); cbn [req]; [exact I|].
  destruct (is_AL (p_acc p)); cbn [req]; unfold R1; cbn [fst]; [|exact H].
  destruct H as [Ho Hm]. split; cbn [ck_open ck_qty]; [exact Ho|now apply pos_add_q].
Qed.

Lemma ck_balance_cb_q l s s' a a' b b' : Rq s s' -> bal_q b b' ->
  req Rq (ck_balance_cb l s a b) (ck_balance_cb l s' a' b').
Proof.
  intros H (Ha & Hc & Hq). unfold ck_balance_cb. rewrite <- Ha, <- Hc, (is_open_q s s' _ H).
  destruct (negb (is_open s' (bal_acc b))); cbn [req]; [exact I|].
  pose proof (pos_get_q (ck_qty s) (ck_qty s') (bal_acc b) (bal_com b) (proj2 H)) as Hg.
  destruct (pos_get (ck_qty s) (bal_acc b) (bal_com b)) as [q|], (pos_get (ck_qty s') (bal_acc b) (bal_com b)) as [q'|];
    try contradiction.
  - assert (E : dec_equal q (bal_qty b) = dec_equal q' (bal_qty b')).
    { rewrite (deqv_equal_l q q' (bal_qty b) Hg).
      destruct (dec_equal q' (bal_qty b)) eqn:E1, (dec_equal q' (bal_qty b')) eqn:E2; try reflexivity.
      - assert (deqv q' (bal_qty b')) by (eapply deqv_trans; [exact E1|exact Hq]). unfold deqv in *. congruence.
      - assert (deqv q' (bal_qty b)) by (eapply deqv_trans; [exact E2|apply deqv_sym; exact Hq]). unfold deqv in *. congruence. }
    rewrite E. destruct (dec_equal q' (bal_qty b')); cbn [req]; [exact H|exact I].
  - assert (E : dec_equal dec_nil (bal_qty b) = dec_equal dec_nil (bal_qty b')).
    { destruct (dec_equal dec_nil (bal_qty b)) eqn:E1, (dec_equal dec_nil (bal_qty b')) eqn:E2; try reflexivity.
      - assert (deqv dec_nil (bal_qty b')) by (eapply deqv_trans; [exact E1|exact Hq]). unfold deqv in *. congruence.
      - assert (deqv dec_nil (bal_qty b)) by (eapply deqv_trans; [exact E2|apply deqv_sym; exact Hq]). unfold deqv in *. congruence. }
    rewrite E. destruct (l && dec_equal dec_nil (bal_qty b')); cbn [req]; [exact H|exact I].
Qed.

Lemma ck_balance_fixed_q s s' a a' b b' : Rq s s' -> bal_q b b' ->
  req Rq (ck_balance_fixed s a b) (ck_balance_fixed s' a' b').
Proof.
  intros H Hb. pose proof Hb as (Ha & _). unfold ck_balance_fixed. rewrite <- Ha, (is_open_q s s' _ H).
  destruct (negb (is_open s' (bal_acc b))); cbn [req]; [exact I|].
  destruct (negb (is_AL (bal_acc b))); cbn [req]; [exact H|now apply ck_balance_cb_q].
Qed.

Lemma ck_close_q s s' a : Rq s s' -> req Rq (ck_close_cb s a) (ck_close_cb s' a).
Proof.
  intros H. unfold ck_close_cb. pose proof (close_positions_q (ck_qty s) (ck_qty s') a (proj2 H)) as Hc.
  destruct (close_positions (ck_qty s) a) as [r|], (close_positions (ck_qty s') a) as [r'|]; try contradiction; cbn [req]; [|exact I].
  rewrite (is_open_q s s' a H). destruct (negb (is_open s' a)); cbn [req]; [exact I|].
  split; cbn [ck_open ck_qty]; [now rewrite (proj1 H)|exact Hc].
Qed.

(* ------------------------------------------------------------------ the processor *)

Section Proc.
  Variable fb : check_state -> list balance -> balance -> presult check_state.
  Hypothesis fb_q : forall s s' a a' b b', Rq s s' -> bal_q b b' -> req Rq (fb s a b) (fb s' a' b').

  Let p := mkProc None None (Some ck_open_cb) None (Some ck_posting_cb) (Some fb) (Some ck_close_cb) None.

  Lemma fold_res_q (f : check_state -> account -> presult check_state) l :
    (forall s s' a, Rq s s' -> req Rq (f s a) (f s' a)) ->
    forall s s', Rq s s' -> req Rq (fold_res f s l) (fold_res f s' l).
  Proof.
    intros Hf. induction l as [|a l IH]; intros s s' H; cbn [fold_res]; [exact H|].
    eapply req_bind; [apply Hf; exact H|]. intros a0 b0 H0. now apply IH.
  Qed.

  Lemma fold_postings_q t t' ps ps' : Forall2 posting_q ps ps' ->
    forall s s', Rq s s' -> req R1 (fold_postings ck_posting_cb t s ps) (fold_postings ck_posting_cb t' s' ps').
  Proof.
    induction 1 as [|x y ps ps' Hxy Hps IH]; intros s s' H; cbn [fold_postings]; [exact H|].
    eapply (req_bind (@R1 posting) (@R1 (list posting))); [apply ck_posting_q; eassumption|]. intros a b Hab.
    eapply (req_bind (@R1 (list posting)) (@R1 (list posting))); [apply IH; exact Hab|]. intros a1 b1 H1. exact H1.
  Qed.

  Lemma fold_txns_q ts ts' : Forall2 txn_q ts ts' ->
    forall s s', Rq s s' -> req R1 (fold_txns p s ts) (fold_txns p s' ts').
  Proof.
    induction 1 as [|t t' ts ts' Ht Hts IH]; intros s s' H; cbn [fold_txns]; [exact H|].
    unfold p at 1 3. cbn [pr_txn pr_posting rbind].
    eapply (req_bind (@R1 txn) (@R1 (list txn))).
    { eapply (req_bind (@R1 (list posting)) (@R1 txn)); [apply fold_postings_q; [exact Ht|exact H]|].
      intros a b Hab. exact Hab. }
    intros a b Hab. eapply (req_bind (@R1 (list txn)) (@R1 (list txn))); [apply IH; exact Hab|]. intros a1 b1 H1. exact H1.
  Qed.

  Lemma fold_balances_q a a' bs bs' : Forall2 bal_q bs bs' ->
    forall s s', Rq s s' -> req Rq (fold_res (fun s b => fb s a b) s bs) (fold_res (fun s b => fb s a' b) s' bs').
  Proof.
    induction 1 as [|b b' bs bs' Hb Hbs IH]; intros s s' H; cbn [fold_res]; [exact H|].
    eapply req_bind; [apply fb_q; eassumption|]. intros x y Hxy. now apply IH.
  Qed.

  Lemma fold_asserts_q l l' : Forall2 (Forall2 bal_q) l l' ->
    forall s s', Rq s s' -> req Rq (fold_asserts p s l) (fold_asserts p s' l').
  Proof.
    induction 1 as [|a a' l l' Ha Hl IH]; intros s s' H; cbn [fold_asserts]; [exact H|].
    unfold p at 1 3. cbn [pr_balance].
    eapply req_bind; [apply fold_balances_q; eassumption|]. intros x y Hxy. now apply IH.
  Qed.

  Lemma process_day_q d d' s s' : day_q d d' -> Rq s s' -> req R1 (process_day p s d) (process_day p s' d').
  Proof.
    intros (Ho & Ht & Ha & Hc) H. unfold process_day, p.
    cbn [pr_day_start pr_price pr_open pr_close pr_day_end rbind fst snd].
    rewrite <- Ho, <- Hc.
    eapply (req_bind Rq (@R1 day)); [apply fold_res_q; [apply ck_open_q|exact H]|]. intros s1 s1' H1.
    eapply (req_bind (@R1 (list txn)) (@R1 day)); [apply (fold_txns_q _ _ Ht _ _ H1)|]. intros st st' H2.
    cbn [d_asserts d_closes].
    eapply (req_bind Rq (@R1 day)); [apply (fold_asserts_q _ _ Ha _ _ H2)|]. intros s3 s3' H3.
    eapply (req_bind Rq (@R1 day)); [apply fold_res_q; [apply ck_close_q|exact H3]|]. intros s4 s4' H4. exact H4.
  Qed.

  Lemma process_days_q D D' : Forall2 day_q D D' ->
    forall s s', Rq s s' -> req R1 (process_days p s D) (process_days p s' D').
  Proof.
    induction 1 as [|d d' D D' Hd HD IH]; intros s s' H; cbn [process_days]; [exact H|].
    eapply (req_bind (@R1 day) (@R1 (list day))); [apply process_day_q; eassumption|]. intros a b Hab.
    eapply (req_bind (@R1 (list day)) (@R1 (list day))); [apply IH; exact Hab|]. intros a1 b1 H1. exact H1.
  Qed.
End Proc.

(* every variant of the checker: both accept or both reject *)
Theorem check_days_q r D D' : Forall2 day_q D D' ->
  ((exists x, run_stage (check_proc_current r) check_init D = COk x) <->
   (exists x, run_stage (check_proc_current r) check_init D' = COk x)).
Proof.
  intros H. unfold run_stage.
  assert (Hr : req R1 (process_days (check_proc_current r) check_init D) (process_days (check_proc_current r) check_init D')).
  { destruct r; cbn [check_proc_current].
    - apply (process_days_q ck_balance_fixed ck_balance_fixed_q D D' H). apply Rq_refl.
    - apply (process_days_q (ck_balance_cb false) (ck_balance_cb_q false) D D' H). apply Rq_refl. }
  destruct (process_days (check_proc_current r) check_init D), (process_days (check_proc_current r) check_init D');
    cbn [req of_presult] in *; try contradiction; split; intros [x Hx]; try discriminate; eauto.
Qed.
