(* C12  Derived prices are consistent with declared prices.
   Theorem statements only; each is closed by [exact <lemma>] and followed by Print Assumptions.
   Vocabulary: Spec/PriceSpec.v (decl, build, latest, recip, stored, path_value, is_path,
   connected, valid_price_b).  Model: Model/Price.v (prices_insert, normalize = the breadth-first,
   name-ordered traversal of the repaired code; normalize_dfs order = the depth-first traversal of
   the pinned code with Go's map iteration order as a parameter), Model/Pipeline.v.
   A history is any list of declarations (commodity, price, target), in any order.            *)
From Coq Require Import ZArith List Bool Permutation.
From Knut Require Import Model.Str Model.Dec Model.Price Model.Journal Model.Ledger Model.Pipeline.
From Knut Require Import Spec.PriceSpec Spec.PriceDaySpec Proofs.SMapProofs Proofs.PriceProofs Proofs.RecipProofs Proofs.PriceDayProofs.
Import ListNotations.
Open Scope Z_scope.

(* A zero price is rejected: Insert returns the error, ComputePrices turns it into a processing
   error, and no history containing it builds a price map (it leaves no trace). *)
Theorem C12_zero_rejected : forall ps c p t,
  is_zero p = true ->
  prices_insert ps c p t = InsErrZero /\
  (forall s, cp_price_cb s (c, p, t) = RErr k_price_zero c) /\
  (forall h1 h2, build (h1 ++ (c, p, t) :: h2) = None).
Proof. exact zero_rejected. Qed.
Print Assumptions C12_zero_rejected.

(* ... and nothing else is: a history builds iff all its prices are non-zero; Insert never panics
   (the division 1/p is only reached for p <> 0). *)
Theorem C12_insert_total : forall h,
  (exists ps, build h = Some ps) <-> Forall (fun d => is_zero (snd (fst d)) = false) h.
Proof. exact (fun h => build_from_ok_iff h []). Qed.
Print Assumptions C12_insert_total.

Theorem C12_insert_never_panics : forall ps c p t, prices_insert ps c p t <> InsPanic.
Proof. exact insert_never_panics. Qed.
Print Assumptions C12_insert_never_panics.

(* The stored price of c in t is determined by the LAST declaration of the unordered pair {c, t}:
   [latest] scans the history from its end; a declaration "c p t" yields p for (c in t) and
   recip p = truncate (1/p at 16 places, half away from zero) 8 for (t in c). *)
Theorem C12_latest : forall h ps c t, build h = Some ps -> stored ps t c = latest h c t.
Proof. exact build_latest. Qed.
Print Assumptions C12_latest.

(* the reciprocal, stated without the division algorithm: 10^16/p rounded to the nearest integer,
   ties away from zero, as a number of 16 decimals, then cut toward zero to 8 decimals *)
Theorem C12_reciprocal : forall p, is_zero p = false -> is_recip p (recip p).
Proof. exact recip_is_recip. Qed.
Print Assumptions C12_reciprocal.

(* the same, read explicitly: if "c p t" is followed by no declaration of {c, t} then p and its
   reciprocal are what is stored, whatever preceded *)
Theorem C12_latest_explicit : forall h1 c p t h2 ps,
  build (h1 ++ (c, p, t) :: h2) = Some ps -> c <> t ->
  (forall c' p' t', In (c', p', t') h2 -> ~ (c' = c /\ t' = t) /\ ~ (c' = t /\ t' = c)) ->
  stored ps t c = Some p /\ stored ps c t = Some (recip p).
Proof. exact build_last_declaration. Qed.
Print Assumptions C12_latest_explicit.

(* Normalize terminates within its fuel on every price map built by Insert *)
Theorem C12_normalize_total : forall h ps v, build h = Some ps -> normalize ps v <> None.
Proof. exact normalize_total_built. Qed.
Print Assumptions C12_normalize_total.

(* the valuation commodity itself has price 1 *)
Theorem C12_self : forall ps v np, normalize ps v = Some np -> np_price np v = Some one.
Proof. exact normalize_self. Qed.
Print Assumptions C12_self.

(* a directly declared pair gets its declared price (8 decimals), never a chain product *)
Theorem C12_direct : forall ps v np c p,
  normalize ps v = Some np -> c <> v -> stored ps v c = Some p ->
  np_price np c = Some (multiply p one) /\ multiply p one = truncate p 8.
Proof. exact normalize_direct_multiply. Qed.
Print Assumptions C12_direct.

(* every price is the product, truncated to 8 decimals at each step, of the stored prices along
   a simple path of stored edges from v *)
Theorem C12_chain : forall ps v np c x,
  normalize ps v = Some np -> np_price np c = Some x ->
  exists path, is_path ps v path c x /\ NoDup (v :: path) /\
               forall n, In n (v :: path) -> sm_has np n = true.
Proof. exact normalize_chain. Qed.
Print Assumptions C12_chain.
(* ... and that path is a shortest one (breadth-first): no chain of fewer declarations connects
   v and c.  C12_direct is the length-1 instance. *)
Theorem C12_chain_shortest : forall ps v np c x,
  normalize ps v = Some np -> np_price np c = Some x ->
  exists path, is_path ps v path c x /\ NoDup (v :: path) /\
               forall path' x', is_path ps v path' c x' -> (length path <= length path')%nat.
Proof. exact normalize_shortest. Qed.
Print Assumptions C12_chain_shortest.

(* every commodity connected to v gets a price ... *)
Theorem C12_reachable : forall ps v np c,
  normalize ps v = Some np -> connected ps v c -> exists x, np_price np c = Some x.
Proof. exact normalize_reachable. Qed.
Print Assumptions C12_reachable.

(* ... and a commodity not connected to v has none: Price and Valuate fail, and the Valuate
   processor turns a non-zero posting in that commodity into an error (nothing is printed) *)
Theorem C12_unreachable : forall ps v c np,
  normalize ps v = Some np -> ~ connected ps v c ->
  np_price np c = None /\
  (forall a, np_valuate np c a = None) /\
  (forall s t p, v_cur s = Some np -> p_com p = c -> is_zero (p_qty p) = false ->
                 exists f, pr_posting (valuate_proc v) = Some f /\ f s t p = RErr k_no_price c).
Proof. exact unreachable_errors. Qed.
Print Assumptions C12_unreachable.

(* the result does not depend on the order of the declarations: histories that agree on the
   latest declaration of every pair build the same price map, hence the same normalised prices *)
Theorem C12_order_independent : forall h1 h2 ps1 ps2,
  build h1 = Some ps1 -> build h2 = Some ps2 ->
  (forall c t, latest h1 c t = latest h2 c t) ->
  ps1 = ps2 /\ forall v, normalize ps1 v = normalize ps2 v.
Proof. exact order_independent. Qed.
Print Assumptions C12_order_independent.

(* "on a given day": run over the days of a journal, the ComputePrices processor gives day k the
   normalised prices of the history of all price directives up to and including day k (none
   before the first declaration), so everything above applies day by day ... *)
Theorem C12_day : forall v ds s' ds',
  process_days (compute_prices_proc v) (mkCp [] None) ds = ROk (s', ds') ->
  length ds' = length ds /\
  forall k d', nth_error ds' k = Some d' -> d_normalized d' = price_on v ds k.
Proof. exact compute_prices_days. Qed.
Print Assumptions C12_day.

(* ... and it never panics (no fuel exhaustion, no division by zero): its only failure is the
   rejection of a zero price *)
Theorem C12_compute_prices_no_panic : forall v ds m,
  process_days (compute_prices_proc v) (mkCp [] None) ds <> RPanic m.
Proof. exact compute_prices_from_empty_no_panic. Qed.
Print Assumptions C12_compute_prices_no_panic.

(* The executable statement that the check evaluates on the Go output holds of every price the
   model returns, for every commodity (priced or not). *)
Theorem C12_model_meets_spec : forall h ps v np c,
  build h = Some ps -> normalize ps v = Some np -> valid_price_b ps v c (np_price np c) = true.
Proof. exact model_meets_spec. Qed.
Print Assumptions C12_model_meets_spec.

(* The pinned depth-first Prices.normalize does NOT have the property: with declarations
   "A 2 V", "B 3 V", "A 5 B" and the map iteration order that visits B before A, the directly
   declared price 2 of A in V is replaced by the chain product 15; another iteration order
   gives 2, so two runs differ. *)
Theorem C12_dfs_refuted :
  exists ps v c p order,
    build alt_history = Some ps /\ (forall k l, Permutation (order k l) l) /\
    c <> v /\ stored ps v c = Some p /\
    sm_get (normalize_dfs order ps v) c <> Some (truncate p 8) /\
    sm_get (normalize_dfs order ps v) c <> sm_get (normalize_dfs id_order ps v) c.
Proof. exact dfs_refuted. Qed.
Print Assumptions C12_dfs_refuted.

(* non-vacuity: a cycle V-A-B-V (an alternative path to A and to B), a chain A-C, a second
   component D-E, a redeclaration (B 3 V overrides V 7 B), prices with decimals *)
Definition example_history : list decl :=
  [(sV, of_int 7, sB); (sA, of_int 2, sV); (sB, of_int 3, sV); (sA, of_int 5, sB);
   (sC, mkDec 15 (-1), sA); (sD, of_int 4, sE)].

Example C12_example :
  exists ps np,
    build example_history = Some ps /\ normalize ps sV = Some np /\
    map (fun kv => (fst kv, to_string (snd kv))) np
    = [(sA, [50]); (sB, [51]); (sC, [51]); (sV, [49])] /\
    stored ps sB sV = Some (recip (of_int 3)) /\ to_string (recip (of_int 3)) = [48;46;51;51;51;51;51;51;51;51] /\
    np_price np sD = None /\ connected ps sV sC /\ valid_price_b ps sV sD None = true.
Proof.
  destruct (build example_history) as [ps|] eqn:B; [|vm_compute in B; discriminate].
  destruct (normalize ps sV) as [np|] eqn:N; [|exfalso; exact (C12_normalize_total _ _ _ B N)].
  exists ps, np. vm_compute in B. injection B as <-. vm_compute in N. injection N as <-.
  split; [reflexivity|]. split; [reflexivity|]. split; [vm_compute; reflexivity|].
  split; [vm_compute; reflexivity|]. split; [vm_compute; reflexivity|].
  split; [vm_compute; reflexivity|]. split; [|vm_compute; reflexivity].
  exists [sA; sC]. eexists. split; vm_compute; reflexivity.
Qed.
