(* C05  Directive order and file layout do not matter.  (theorems under development; see Proofs/OrderProofs.v) *)
From Coq Require Import ZArith QArith List Bool Permutation.
From Knut Require Import Model.Ledger Model.Journal Spec.LedgerSpec Proofs.LedgerProofs.
Import ListNotations.

(* the builder loses and duplicates nothing, whatever the order of arrival *)
Theorem C05_builder_census : forall dl,
  Permutation (days_postings (b_days (builder_of dl))) (flat_postings dl).
Proof. exact builder_of_perm. Qed.
Print Assumptions C05_builder_census.
