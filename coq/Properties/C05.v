(* C05  Directive order and file layout do not matter.
   Theorem statements only; proofs in Proofs/OrderProofs.v (generic fold lemma, builder,
   ParseDirective), Proofs/OrderSMap.v, Proofs/OrderStages.v (the pipeline stages),
   Proofs/OrderCmd.v (commands), Proofs/CheckPerm.v (well-formedness), Proofs/LoaderProofs.v.

   Vocabulary.
   - [Permutation sds1 sds2]: the same syntax-level directives in another order (what reordering
     a file, or distributing it over included files, does to the list the loader produces:
     see C05_layout).
   - [sd_syntactic sds]: what the parser guarantees for account names (no colon or NUL inside a
     segment), as in Properties/C04.v; without it two different accounts could have the same
     name and the checker's position map would depend on the order.
   - [ceq R x y]: both commands fail, or both succeed with R-related results.  The error text is
     NOT invariant: knut reports the first offender in arrival order (C05_error_depends_on_order).
   - [day_equiv x y]: same date, the five per-kind lists are permutations of each other. *)
From Coq Require Import ZArith QArith List Bool Permutation.
From Knut Require Import Model.Str Model.Dec Model.Date Model.Account Model.Ledger Model.Journal Model.Check
     Model.Pipeline Model.Cli Spec.LedgerSpec Spec.WellformedSpec
     Proofs.LedgerProofs Proofs.CheckMain Proofs.CheckPerm Proofs.OrderProofs Proofs.OrderStages Proofs.OrderCmd.
Import ListNotations.

(* ------------------------------------------------------------------ 1. the verdict *)

(* `knut check` accepts a journal iff it accepts every reordering of it -- for the checker of
   the pinned code ([check_cmd false]), the lenient one ([check_cmd true]) and the repaired one
   ([check_cmd_fixed], = what /repo does now). *)
Theorem C05_verdict_perm : forall sds1 sds2,
  Permutation sds1 sds2 -> sd_syntactic sds1 ->
  (forall l, check_cmd l sds1 = COk tt <-> check_cmd l sds2 = COk tt) /\
  (check_cmd_fixed sds1 = COk tt <-> check_cmd_fixed sds2 = COk tt) /\
  (forall r, check_cmd_current r sds1 = COk tt <-> check_cmd_current r sds2 = COk tt).
Proof. exact verdict_perm. Qed.
Print Assumptions C05_verdict_perm.

(* the specification side (C04's well-formedness does not look at the order) *)
Theorem C05_wellformed_perm : forall ds1 ds2, Permutation ds1 ds2 -> (wellformed ds1 <-> wellformed ds2).
Proof. exact wellformed_perm. Qed.
Print Assumptions C05_wellformed_perm.

Theorem C05_check_model_perm : forall ds1 ds2,
  Permutation ds1 ds2 -> syntactic ds1 -> (check_model ds1 = VOk <-> check_model ds2 = VOk).
Proof. exact check_perm. Qed.
Print Assumptions C05_check_model_perm.

(* lib/model converts directive by directive: permuted in, permuted out (or both rejected) *)
Theorem C05_parse_perm : forall l1 l2,
  Permutation l1 l2 -> meq (@Permutation directive) (parse_directives l1) (parse_directives l2).
Proof. exact parse_directives_perm. Qed.
Print Assumptions C05_parse_perm.

(* ------------------------------------------------------------------ 2. the builder *)

(* same days (dates), each day's lists permuted, same period *)
Theorem C05_build_perm : forall ds1 ds2,
  Permutation ds1 ds2 ->
  Forall2 day_equiv (b_days (builder_of ds1)) (b_days (builder_of ds2)) /\
  b_min (builder_of ds1) = b_min (builder_of ds2) /\
  b_max (builder_of ds1) = b_max (builder_of ds2).
Proof. exact build_perm. Qed.
Print Assumptions C05_build_perm.

(* the builder loses and duplicates nothing, whatever the order of arrival *)
Theorem C05_builder_census : forall dl,
  Permutation (days_postings (b_days (builder_of dl))) (flat_postings dl).
Proof. exact builder_of_perm. Qed.
Print Assumptions C05_builder_census.
