(* C05  Directive order and file layout do not matter.
   Theorem statements only; proofs in Proofs/OrderProofs.v (generic fold lemma, builder,
   ParseDirective), Proofs/OrderSMap.v, Proofs/OrderStages.v (the pipeline stages),
   Proofs/OrderReport.v (Query.Into), Proofs/OrderRender.v (the renderer), Proofs/OrderCmd.v
   (commands), Proofs/OrderLayout.v (include loader), Proofs/OrderWitness.v, Proofs/CheckPerm.v.

   Vocabulary.
   - [Permutation sds1 sds2]: the same syntax-level directives in another order (what reordering
     a file, or distributing it over included files, does to the list the loader produces:
     see C05_layout).
   - [sd_syntactic sds]: what the parser guarantees for account names (no colon or NUL inside a
     segment), as in Properties/C04.v; without it two different accounts could have the same
     name and the checker's position map would depend on the order.
   - [ceq R x y]: both commands fail, or both succeed with R-related results.  The error text is
     NOT invariant: knut reports the first offender in arrival order (C05_error_depends_on_order).
   - [day_equiv x y]: same date, the five per-kind lists are permutations of each other. *)
From Coq Require Import ZArith QArith List Bool Permutation.
From Knut Require Import Model.Str Model.Dec Model.Date Model.Account Model.Ledger Model.Journal Model.Check
     Model.Pipeline Model.Cli Spec.LedgerSpec Spec.WellformedSpec
     Proofs.LedgerProofs Proofs.CheckMain Proofs.CheckPerm Proofs.OrderProofs Proofs.OrderStages Proofs.OrderCmd.
Import ListNotations.

(* ------------------------------------------------------------------ 1. the verdict *)

(* `knut check` accepts a journal iff it accepts every reordering of it -- for the checker of
   the pinned code ([check_cmd false]), the lenient one ([check_cmd true]) and the repaired one
   ([check_cmd_fixed], = what /repo does now). *)
Theorem C05_verdict_perm : forall sds1 sds2,
  Permutation sds1 sds2 -> sd_syntactic sds1 ->
  (forall l, check_cmd l sds1 = COk tt <-> check_cmd l sds2 = COk tt) /\
  (check_cmd_fixed sds1 = COk tt <-> check_cmd_fixed sds2 = COk tt) /\
  (forall r, check_cmd_current r sds1 = COk tt <-> check_cmd_current r sds2 = COk tt).
Proof. exact verdict_perm. Qed.
Print Assumptions C05_verdict_perm.

(* the specification side (C04's well-formedness does not look at the order) *)
Theorem C05_wellformed_perm : forall ds1 ds2, Permutation ds1 ds2 -> (wellformed ds1 <-> wellformed ds2).
Proof. exact wellformed_perm. Qed.
Print Assumptions C05_wellformed_perm.

Theorem C05_check_model_perm : forall ds1 ds2,
  Permutation ds1 ds2 -> syntactic ds1 -> (check_model ds1 = VOk <-> check_model ds2 = VOk).
Proof. exact check_perm. Qed.
Print Assumptions C05_check_model_perm.

(* lib/model converts directive by directive: permuted in, permuted out (or both rejected) *)
Theorem C05_parse_perm : forall l1 l2,
  Permutation l1 l2 -> meq (@Permutation directive) (parse_directives l1) (parse_directives l2).
Proof. exact parse_directives_perm. Qed.
Print Assumptions C05_parse_perm.

(* ------------------------------------------------------------------ 2. the builder *)

(* same days (dates), each day's lists permuted, same period *)
Theorem C05_build_perm : forall ds1 ds2,
  Permutation ds1 ds2 ->
  Forall2 day_equiv (b_days (builder_of ds1)) (b_days (builder_of ds2)) /\
  b_min (builder_of ds1) = b_min (builder_of ds2) /\
  b_max (builder_of ds1) = b_max (builder_of ds2).
Proof. exact build_perm. Qed.
Print Assumptions C05_build_perm.

(* the builder loses and duplicates nothing, whatever the order of arrival *)
Theorem C05_builder_census : forall dl,
  Permutation (days_postings (b_days (builder_of dl))) (flat_postings dl).
Proof. exact builder_of_perm. Qed.
Print Assumptions C05_builder_census.

(* ------------------------------------------------------------------ 3. knut balance *)
From Knut Require Import Model.Price Model.Table Model.Report Proofs.OrderPipeline Proofs.OrderReport Proofs.OrderRender.

(* For every balance configuration (window, interval, --last, --diff, --close, valuation, sort
   order, mappings, remap, account/commodity filters, --show-commodities, either checker): the
   report of a journal and of any permutation of it are the same table -- cell for cell, hence
   the same CSV and text bytes -- or both commands fail.  Hypotheses: parser-shaped account
   names, and the property's exclusion (two price declarations of one day for the same unordered
   commodity pair are the same declaration).  The error of a failing run legitimately differs
   (C05_error_depends_on_order), so for failing runs no more than "both fail" holds. *)
Theorem C05_balance_perm : forall cfg sds1 sds2,
  Permutation sds1 sds2 -> sd_syntactic sds1 -> no_conflicting_prices sds1 ->
  ceq eq (balance_table cfg sds1) (balance_table cfg sds2).
Proof. exact balance_table_perm. Qed.
Print Assumptions C05_balance_perm.

Theorem C05_balance_bytes_perm : forall cfg sds1 sds2,
  Permutation sds1 sds2 -> sd_syntactic sds1 -> no_conflicting_prices sds1 ->
  ceq eq (balance_csv cfg sds1) (balance_csv cfg sds2) /\
  forall tc, ceq eq (balance_text cfg tc sds1) (balance_text cfg tc sds2).
Proof. exact balance_bytes_perm. Qed.
Print Assumptions C05_balance_bytes_perm.

(* the steps.  (a) the pipeline in front of the report -- ParseDirective incl. accrual expansion,
   the builder, --close's extra days, the checker, ComputePrices, Valuate, Filter, CloseAccounts
   -- fails on both inputs or hands Query.Into the same partition and day lists that agree day by
   day in date, normalized prices and, up to order, in their transactions (valued postings, value
   adjustments and closing transactions: the same multiset) *)
Theorem C05_balance_days_perm : forall cfg sds1 sds2,
  Permutation sds1 sds2 -> sd_syntactic sds1 -> no_conflicting_prices sds1 ->
  ceq (fun a b => Forall2 DIok (fst a) (fst b) /\ snd a = snd b) (balance_days cfg sds1) (balance_days cfg sds2).
Proof. exact balance_days_perm. Qed.
Print Assumptions C05_balance_days_perm.

(* (b) Query.Into: the report trees have the same shape and per node the same bindings
   (date, commodity) -> amount; a node's amounts list is in first-insertion order, so the trees
   are equal only up to the order of these lists ([report_eq]) *)
Theorem C05_balance_report_perm : forall cfg sds1 sds2,
  Permutation sds1 sds2 -> sd_syntactic sds1 -> no_conflicting_prices sds1 ->
  ceq (fun a b => report_eq (fst a) (fst b) /\ snd a = snd b) (balance_report cfg sds1) (balance_report cfg sds2).
Proof. exact balance_report_perm. Qed.
Print Assumptions C05_balance_report_perm.

(* (c) the renderer looks amounts up by key, sorts the commodity column and sums with the
   commutative and associative Dec.add: it does not see that order *)
Theorem C05_render_order_blind : forall cfg r r' dates,
  report_eq r r' -> render_report cfg r dates = render_report cfg r' dates.
Proof. exact render_report_eq. Qed.
Print Assumptions C05_render_order_blind.

(* [balance_days] is Cli.balance_report without its last stage *)
Theorem C05_balance_report_is_days_then_query : forall cfg ds,
  balance_report cfg ds =
  cbind (balance_days cfg ds) (fun dp =>
  cbind (run_stage (query_proc (balance_query cfg (snd dp)) report_insert) new_report (fst dp)) (fun r6 =>
  COk (fst r6, snd dp))).
Proof. exact balance_report_days. Qed.
Print Assumptions C05_balance_report_is_days_then_query.

(* the generic lemma behind every stage: a monadic fold whose steps commute pairwise (up to
   "both fail or related states") gives equivalent results on permuted lists *)
Theorem C05_foldM_perm : forall (S A : Type) (R : S -> S -> Prop) (f : S -> A -> presult S) (P : A -> Prop),
  (forall a b c, R a b -> R b c -> R a c) ->
  (forall s s' a, P a -> R s s' -> req R (f s a) (f s' a)) ->
  (forall s a b, P a -> P b -> R s s ->
     req R (rbind (f s a) (fun s1 => f s1 b)) (rbind (f s b) (fun s1 => f s1 a))) ->
  forall l1 l2, Permutation l1 l2 -> Forall P l1 -> forall s s', R s s -> R s s' ->
  req R (fold_res f s l1) (fold_res f s' l2).
Proof. exact @fold_res_perm. Qed.
Print Assumptions C05_foldM_perm.

(* ------------------------------------------------------------------ 4. knut print *)

(* both fail, or the two texts are journal.Print of day lists with the same dates and, per day
   and kind, the same multiset of directives *)
Theorem C05_print_equiv : forall l sds1 sds2,
  Permutation sds1 sds2 -> sd_syntactic sds1 -> ceq print_equiv (print_cmd l sds1) (print_cmd l sds2).
Proof. exact print_cmd_perm. Qed.
Print Assumptions C05_print_equiv.

(* ------------------------------------------------------------------ 5. file layout *)
From Knut Require Import Model.Loader Proofs.LoaderProofs Proofs.OrderLayout.

(* whatever the include tree looks like (depth, fan-out, relative paths, a file included more
   than once): a successful load returns, up to order, the directives of the visited files,
   each file as often as it is visited *)
Theorem C05_layout : forall fs root fuel ds,
  LoaderM.load fuel fs root = LOk ds ->
  exists vs, visits fs root vs /\ Permutation ds (flat_map (file_directives fs) vs).
Proof. exact load_layout. Qed.
Print Assumptions C05_layout.


(* ------------------------------------------------------------------ witnesses *)
From Knut Require Import Proofs.OrderWitness.

(* the hypotheses are satisfiable: a journal with three transactions on one day (two
   commodities), two prices, an assertion; a permutation of it; for a valued, closed, monthly
   configuration and for a plain one the two tables are equal (vm_compute) *)
Example C05_example :
  Permutation w_journal w_permuted /\ sd_syntactic w_journal /\ no_conflicting_prices w_journal /\
  balance_table w_cfg w_journal = balance_table w_cfg w_permuted /\
  balance_table w_cfg_plain w_journal = balance_table w_cfg_plain w_permuted /\
  (exists t, balance_table w_cfg w_journal = COk t) /\
  check_cmd_fixed w_journal = COk tt /\ check_cmd_fixed w_permuted = COk tt.
Proof. exact (conj w_perm (conj w_syntactic (conj w_prices w_tables_equal))). Qed.

(* the error of a rejected journal is not invariant: with two failing assertions on one day,
   knut reports the one that arrived first (kinds "assertion" vs "notopen") *)
Example C05_error_depends_on_order :
  Permutation (w_journal ++ [w_bad1; w_bad2]) (w_journal ++ [w_bad2; w_bad1]) /\
  sd_syntactic (w_journal ++ [w_bad1; w_bad2]) /\
  (exists d, check_cmd_fixed (w_journal ++ [w_bad1; w_bad2]) = CErr k_assertion d) /\
  (exists d, check_cmd_fixed (w_journal ++ [w_bad2; w_bad1]) = CErr k_not_open d).
Proof. exact w_error_depends_on_order. Qed.

(* a file included along two paths is loaded twice (C05_layout counts visits, not files) *)
Example C05_layout_diamond : forall d,
  LoaderM.load (fuel_for (fs_diamond d)) (fs_diamond d) [[97]] = LOk [d; d].
Proof. exact diamond_loads_twice. Qed.
