(* C04  check accepts exactly the well-formed journals.
   Theorem statements only; each is closed by [exact <lemma>] and followed by Print Assumptions.
   Vocabulary: Spec/WellformedSpec.v (canonical, events, open_after, quantity, ok_event,
   wellformed, wellformed_b, violation, offender, syntactic).
   Model: Model/Journal.v (builder_of, process_days), Model/Check.v (check_proc_fixed = the
   checker with the two defects of Checker.balance repaired; check_proc false = the pinned
   code), Model/Cli.v (check_cmd, check_cmd_fixed); Proofs/CheckMain.v (check_model = the
   check stage on directives).

   [syntactic ds]: every account of the journal is what the parser and the registry produce
   (first segment a type name, segments non-empty, no colon or NUL byte inside a segment).  It
   makes "the same account" (knut: the same name) and "the same list of segments" coincide. *)
From Coq Require Import ZArith List Bool Sorting.Sorted Permutation.
From Knut Require Import Model.Str Model.Dec Model.Account Model.Ledger Model.Journal Model.Check Model.Cli
     Spec.WellformedSpec Proofs.CheckProofs Proofs.BuilderProofs Proofs.CheckMain Proofs.CheckPerm.
Import ListNotations.
Open Scope Z_scope.

(* The builder groups and orders as the property says: days strictly ascending by date, one
   day per date that occurs, and each day's five lists are the input's directives of that date
   and kind in input order ([day_matches]). *)
Theorem C04_builder_canonical : forall ds,
  let days := b_days (builder_of ds) in
  StronglySorted Z.lt (map d_date days) /\
  map d_date days = dates ds /\
  (forall dt, In dt (map d_date days) <-> In dt (map ddate ds)) /\
  (forall x, In x days -> day_matches ds x).
Proof. exact builder_canonical. Qed.
Print Assumptions C04_builder_canonical.

(* [dates] is the strictly ascending list of the dates that occur (and the only such list) *)
Theorem C04_dates_spec : forall ds,
  StronglySorted Z.lt (dates ds) /\ (forall x, In x (dates ds) <-> In x (map ddate ds)) /\
  (forall l, StronglySorted Z.lt l -> (forall x, In x l <-> In x (map ddate ds)) -> l = dates ds).
Proof. exact dates_spec. Qed.
Print Assumptions C04_dates_spec.

(* the check stage of the model runs the checker over exactly the specification's events *)
Theorem C04_model_events : forall ds,
  check_model ds = verdict_of (run_events check_init (events ds)).
Proof. exact check_model_events. Qed.
Print Assumptions C04_model_events.

(* MAIN: the repaired checker accepts exactly the well-formed journals *)
Theorem C04_iff : forall ds, syntactic ds -> (check_model ds = VOk <-> wellformed ds).
Proof. exact check_iff. Qed.
Print Assumptions C04_iff.

(* [syntactic] cannot be dropped: the structured representation contains accounts the parser
   never produces (a colon inside a segment), on which "same name" and "same segments" differ *)
Theorem C04_syntactic_needed : exists ds, ~ syntactic ds /\ check_model ds = VOk /\ ~ wellformed ds.
Proof. exact syntactic_needed. Qed.
Print Assumptions C04_syntactic_needed.

(* the same for the command, from the parsed (syntax-level) directives *)
Theorem C04_cmd_iff : forall sds,
  (forall ds, parse_directives sds = MOk ds -> syntactic ds) ->
  (check_cmd_fixed sds = COk tt <-> exists ds, parse_directives sds = MOk ds /\ wellformed ds).
Proof. exact check_cmd_iff. Qed.
Print Assumptions C04_cmd_iff.

Theorem C04_no_panic : forall ds, syntactic ds -> check_model ds <> VPanic.
Proof. exact check_never_panics. Qed.
Print Assumptions C04_no_panic.

(* A rejection names the offending directive: the error's account is the account of the first
   event of the canonical sequence that is not ok, all events before it are ok, the error's
   kind is a true reason for that event, and the event belongs to a directive of the journal. *)
Theorem C04_names_offender : forall ds k name,
  syntactic ds -> check_model ds = VErr k name ->
  exists pre e post r,
    events ds = pre ++ e :: post /\
    wellformed_events pre /\
    ~ ok_event pre e /\
    name = acc_name (ev_acc e) /\ k = kind_of r /\ violation pre e r /\
    exists d, In d ds /\ In e (events_of d).
Proof. exact check_names_offender. Qed.
Print Assumptions C04_names_offender.

(* ... and it is the offender the executable specification computes *)
Theorem C04_error_is_offender : forall ds k name,
  syntactic ds -> check_model ds = VErr k name ->
  exists pre e, offender ds = Some (pre, e) /\ name = acc_name (ev_acc e) /\
                exists r, k = kind_of r /\ violation pre e r.
Proof. exact check_error_offender. Qed.
Print Assumptions C04_error_is_offender.

(* the executable specification used by the correspondence check *)
Theorem C04_wellformed_b_spec : forall ds, wellformed_b ds = true <-> wellformed ds.
Proof. exact wellformed_b_spec. Qed.
Print Assumptions C04_wellformed_b_spec.

(* Input order (overlaps with C05).  Well-formedness, hence acceptance, does not depend on the
   order of the directive list at all: not on how dates and kinds are interleaved (the canonical
   sequence is the same then, [C04_same_blocks_same_sequence]) and not on the order of same-day
   directives of one kind (opens and closes of a day are ok iff the accounts are distinct and
   each is ok on its own; postings only add, with a commutative and associative addition, and
   assertions come after all transactions of the day and change nothing).  What does depend on
   the order is *which* directive is reported first when several are wrong. *)
Theorem C04_order_irrelevant : forall ds1 ds2,
  Permutation ds1 ds2 -> (wellformed ds1 <-> wellformed ds2).
Proof. exact wellformed_perm. Qed.
Print Assumptions C04_order_irrelevant.

Theorem C04_check_order_irrelevant : forall ds1 ds2,
  Permutation ds1 ds2 -> syntactic ds1 -> (check_model ds1 = VOk <-> check_model ds2 = VOk).
Proof. exact check_perm. Qed.
Print Assumptions C04_check_order_irrelevant.

Theorem C04_same_blocks_same_sequence : forall ds1 ds2,
  (forall dt k, sel ds1 dt k = sel ds2 dt k) -> canonical ds1 = canonical ds2.
Proof. exact canonical_by_sel. Qed.
Print Assumptions C04_same_blocks_same_sequence.

(* The pinned code violates the property (finding C04-zero-assertion): a well-formed journal
   with a zero assertion on an untouched position is rejected by [check_cmd false]. *)
Theorem C04_zero_refuted :
  exists sds ds, parse_directives sds = MOk ds /\ syntactic ds /\ wellformed ds /\
                 check_cmd false sds <> COk tt /\ check_cmd_fixed sds = COk tt.
Proof. exact zero_refuted. Qed.
Print Assumptions C04_zero_refuted.

(* The pinned code violates the property (finding C04-nonAL-assertion): an assertion on an
   income account is rejected although the property imposes no condition on it ... *)
Theorem C04_nonAL_refuted :
  exists sds ds, parse_directives sds = MOk ds /\ syntactic ds /\ wellformed ds /\
                 check_cmd false sds <> COk tt /\ check_cmd_fixed sds = COk tt.
Proof. exact nonal_refuted. Qed.
Print Assumptions C04_nonAL_refuted.

(* ... also when only the first defect is repaired *)
Theorem C04_nonAL_refuted_lenient :
  exists sds ds, parse_directives sds = MOk ds /\ syntactic ds /\ wellformed ds /\
                 check_cmd false sds <> COk tt /\ check_cmd true sds <> COk tt /\ check_cmd_fixed sds = COk tt.
Proof. exact nonal_refuted_lenient. Qed.
Print Assumptions C04_nonAL_refuted_lenient.

(* same-day open/use/assert (two lines)/close, reopen after close, zero assertion after reopen;
   given in scrambled input order *)
Example C04_example_wellformed : syntactic w_good /\ wellformed w_good /\ check_model w_good = VOk.
Proof. exact good_wellformed. Qed.

(* close with a non-zero position: rejected, and the offender is the close *)
Example C04_example_illformed :
  syntactic w_bad /\ ~ wellformed w_bad /\ check_model w_bad = VErr k_nonzero (acc_name w_assets_b) /\
  exists pre, offender w_bad = Some (pre, EClose w_assets_b).
Proof. exact bad_illformed. Qed.
