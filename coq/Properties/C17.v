(* C17  Rendered balance tables are rectangular and numerically faithful.
   Theorem statements only; each is closed by [exact <lemma>] and followed by Print Assumptions.
   Vocabulary: Spec/TableSpec.v (rect_b, is_round_haz, round_haz, div1000, strip_commas,
   grouping_ok_b, is_numstr_b, num_cell_ok_b, csv_ok_b, table_wf).
   Model: Model/Table.v (render_text, render_csv_rows, num_str, add_thousands_sep,
   final_widths, render_cell), Model/Dec.v (round, to_string_fixed, to_string, div),
   Model/Report.v (render_report).
   Reading of the one place where two clauses of the property pull apart: an amount such as
   -0.004 at two digits is printed "0.00" -- no minus sign (the rounded coefficient is zero),
   and not blank (the amount is not zero): "minus sign iff the ROUNDED value is negative;
   blank iff the amount itself is zero". *)
From Coq Require Import ZArith List Bool.
From Knut Require Import Model.Str Model.Dec Model.Table Model.Report Spec.TableSpec.
From Knut Require Import Proofs.DecRoundProofs Proofs.DecStringProofs Proofs.GroupingProofs
     Proofs.TableProofs Proofs.NumberProofs Proofs.ReportTableProofs.
Import ListNotations.
Open Scope Z_scope.

(* ------------------------------------------------------------------ rectangular *)
(* For every table whose rows are as wide as the table (as every row built with
   AddRow..FillEmpty / AddSeparatorRow / AddEmptyRow and every row of the balance report is),
   with non-negative indents and no line break inside a text cell, and every --digits /
   --thousands: all lines of the text rendering have the same number of runes, and there are
   (columns + 1) rune positions, the first and the last among them, at which every line
   carries a column separator '|' or '+'. *)
Theorem C17_rect : forall cfg t, table_wf t -> rect_b (t_width t) (render_text cfg t) = true.
Proof. exact render_text_rect_closed. Qed.
Print Assumptions C17_rect.

(* the structure behind it: the rendering is the lines of the rows, each closed by a newline,
   and a final empty line ... *)
Theorem C17_lines : forall cfg t,
  table_wf t ->
  render_text cfg t =
    concat (map (fun l => l ++ [10]) (map (row_line cfg (final_widths cfg t)) (t_rows t))) ++ [10] /\
  table_lines (render_text cfg t) = Some (map (row_line cfg (final_widths cfg t)) (t_rows t)).
Proof. exact render_text_lines_closed. Qed.
Print Assumptions C17_lines.

(* ... every line is: a separator character, then per column w+2 runes (pad, the cell rendered
   to exactly the column's final width w, pad) followed by a separator character; so the
   separator characters stand at the rune positions sep_pos (final widths) 0 in every line *)
Theorem C17_layout : forall cfg t,
  table_wf t ->
  Forall (fun l => aligned (widths_nat (final_widths cfg t)) (rune_starts l))
         (map (row_line cfg (final_widths cfg t)) (t_rows t)).
Proof. exact lines_aligned_closed. Qed.
Print Assumptions C17_layout.

Theorem C17_aligned_positions : forall ws l,
  aligned ws l ->
  Forall (fun p => is_sepchar (nth p l 0) = true) (sep_pos ws 0) /\
  length l = S (last (sep_pos ws 0) 0%nat).
Proof. intros ws l H. exact (aligned_seps ws l H []). Qed.
Print Assumptions C17_aligned_positions.

(* a cell is rendered to exactly l runes whenever l is at least its minimal length ... *)
Theorem C17_cell_width : forall cfg c l,
  cell_indent_ok c -> min_length_cell cfg c <= l -> rune_count (render_cell cfg c l) = l.
Proof. exact render_cell_width. Qed.
Print Assumptions C17_cell_width.

(* ... and the final widths dominate the minimal length of every cell of their column *)
Theorem C17_col_widths_ge : forall cfg t,
  rows_full t ->
  length (final_widths cfg t) = t_width t /\
  Forall (fun r => Forall2 (fun c w => min_length_cell cfg c <= w) r (final_widths cfg t)) (t_rows t).
Proof. exact col_widths_ge. Qed.
Print Assumptions C17_col_widths_ge.

(* the balance report builds full rows with non-negative indents *)
Theorem C17_render_report_rows_full : forall cfg r dates,
  let t := render_report cfg r dates in
  (0 < t_width t)%nat /\
  Forall (fun row => length row = t_width t /\ Forall cell_indent_ok row) (t_rows t).
Proof. exact render_report_rows_full. Qed.
Print Assumptions C17_render_report_rows_full.

(* hence every text balance report whose names contain no line break is rectangular *)
Theorem C17_rect_report : forall rc tc r dates,
  Forall (Forall cell_no_nl) (t_rows (render_report rc r dates)) ->
  rect_b (t_width (render_report rc r dates)) (render_text tc (render_report rc r dates)) = true.
Proof. exact render_report_rect. Qed.
Print Assumptions C17_rect_report.

(* ------------------------------------------------------------------ numerically faithful *)
(* Decimal.Round is rounding half away from zero, in integers at a common scale: the result
   has exponent -p, is a multiple of the unit of the last kept digit nearest to d, and on a
   tie the one of larger magnitude; this determines it. *)
Theorem C17_round_spec : forall d p, is_round_haz d p (round d p).
Proof. exact round_spec. Qed.
Print Assumptions C17_round_spec.

Theorem C17_round_unique : forall d p r1 r2, is_round_haz d p r1 -> is_round_haz d p r2 -> r1 = r2.
Proof. exact is_round_haz_unique. Qed.
Print Assumptions C17_round_unique.

Theorem C17_round_eq_haz : forall d p, round d p = round_haz d p.
Proof. exact round_eq_haz. Qed.
Print Assumptions C17_round_eq_haz.

(* d / 1000 by DivRound(.., 16) is exact for an amount with at most 13 decimals *)
Theorem C17_div1000_exact : forall d,
  - ex d <= 13 ->
  div d k1000 = DOk (mkDec (coef d * 10 ^ (ex d + 13)) (- 16)) /\
  dec_eqv (mkDec (coef d * 10 ^ (ex d + 13)) (- 16)) (div1000 d).
Proof. exact div1000_exact. Qed.
Print Assumptions C17_div1000_exact.

(* The numeral of a numeric cell, for every amount, --digits p, --thousands:  without its
   commas it is StringFixed of the shown amount d' (d, or d.Div(1000)); that is the numeral
   of d' rounded half away from zero to p places: a plain numeral -?digits(.digits)? with
   max p 0 fractional digits that parses back to the rounded value; a minus sign iff the
   rounded coefficient is negative; well grouped. *)
Theorem C17_number : forall cfg d,
  let p := tc_round cfg in
  exists d',
    shown cfg d d' /\
    strip_commas (num_str cfg d) = to_string_fixed d' p /\
    to_string_fixed d' p = to_string_gen false (round_haz d' p) /\
    round d' p = round_haz d' p /\
    is_round_haz d' p (round d' p) /\
    is_numstr_b (to_string_fixed d' p) = true /\
    frac_len (to_string_fixed d' p) = Z.max p 0 /\
    (exists x, of_string (to_string_fixed d' p) = Some x /\ dec_eqv x (round d' p)) /\
    starts_minus (num_str cfg d) = (coef (round d' p) <? 0) /\
    grouping_ok_b (num_str cfg d) = true.
Proof. exact num_str_spec. Qed.
Print Assumptions C17_number.

(* under --thousands the shown amount is exactly d / 1000 when d has at most 13 decimals *)
Theorem C17_shown_value : forall cfg d d',
  (tc_thousands cfg = true -> - ex d <= 13) ->
  shown cfg d d' -> dec_eqv d' (shown_amount (tc_thousands cfg) d).
Proof. exact shown_value. Qed.
Print Assumptions C17_shown_value.

(* the statement the check evaluates on every numeric cell of the Go output holds of the model *)
Theorem C17_number_meets_spec : forall cfg d,
  (tc_thousands cfg = true -> - ex d <= 13) ->
  num_cell_ok_b (tc_thousands cfg) (tc_round cfg) d (num_str cfg d) = true /\
  num_cell_exact_b (tc_thousands cfg) (tc_round cfg) d (num_str cfg d) = true.
Proof. exact num_str_meets_spec. Qed.
Print Assumptions C17_number_meets_spec.

(* zero amounts are blank; non-zero amounts show their numeral, right-aligned *)
Theorem C17_zero_blank : forall cfg n l,
  is_zero n = true ->
  render_cell cfg (CNum n) l = spaces l /\ all_spaces (render_cell cfg (CNum n) l) = true.
Proof. exact render_cell_zero_blank. Qed.
Print Assumptions C17_zero_blank.

Theorem C17_nonzero_shown : forall cfg n l,
  is_zero n = false ->
  render_cell cfg (CNum n) l = spaces (l - rune_count (num_str cfg n)) ++ num_str cfg n.
Proof. exact render_cell_nonzero. Qed.
Print Assumptions C17_nonzero_shown.

(* ------------------------------------------------------------------ grouping *)
(* for every string of the form -?digits(.digits)?: commas exactly before every third integer
   digit counted from the decimal point (or the end), none leading, none after the sign, none
   in the fraction; removing them gives the string back *)
Theorem C17_grouping : forall s,
  is_numstr_b s = true ->
  grouping_ok_b (add_thousands_sep s) = true /\ strip_commas (add_thousands_sep s) = s.
Proof.
  intros s H. split; [exact (add_thousands_sep_grouping_ok s H)|exact (add_thousands_sep_strip s H)].
Qed.
Print Assumptions C17_grouping.

Theorem C17_strip_commas : forall s, ~ In 44 s -> strip_commas (add_thousands_sep s) = s.
Proof. exact strip_commas_add_thousands_sep. Qed.
Print Assumptions C17_strip_commas.

(* ------------------------------------------------------------------ CSV *)
(* the records are the rows that have a non-blank cell, in order, one field per cell: a number
   as Decimal.String of the exact amount, text verbatim, nothing for separator/empty cells *)
Theorem C17_csv_rows : forall t,
  render_csv_rows t = map (map csv_cell) (filter csv_row_visible (t_rows t)).
Proof. exact render_csv_rows_spec_closed. Qed.
Print Assumptions C17_csv_rows.

(* Decimal.String parses back to the same value: the CSV carries the exact amount *)
Theorem C17_to_string_roundtrip : forall d,
  exists x, of_string (to_string d) = Some x /\ dec_eqv x d.
Proof. exact of_to_string. Qed.
Print Assumptions C17_to_string_roundtrip.

Theorem C17_csv_exact : forall t, csv_ok_b (t_rows t) (render_csv_rows t) = true.
Proof. exact render_csv_rows_ok_closed. Qed.
Print Assumptions C17_csv_exact.

(* ------------------------------------------------------------------ decimal digits (technical core) *)
Theorem C17_digits_correct : forall n, 0 <= n -> parse_digits (digits n) 0 = Some n.
Proof. exact parse_digits_digits. Qed.
Print Assumptions C17_digits_correct.

(* ------------------------------------------------------------------ the hypotheses are satisfiable *)
Definition ex_cfg := mkTextCfg true 2.
Definition ex_table : table :=
  add_separator_row
    (add_row
       (add_row (add_separator_row (table_new [1; 2]))
                [CText [87;195;164;104;114;117;110;103] ALeft 2; CNum (mkDec (-1234567895) (-3)); CNum (mkDec 0 0)])
       (fill_empty (add_separator_row (table_new [1; 2])) [CText [230;151;165;230;156;172] ALeft 0; CNum (mkDec (-4) (-3))])).

Example C17_example_wf : table_wf ex_table.
Proof.
  split; [vm_compute; repeat constructor|].
  repeat constructor; cbn; try (vm_compute; discriminate); try (intros H; repeat destruct H as [H|H]; try discriminate H; exact H).
Qed.

Example C17_example_text :
  render_text (mkTextCfg false 2) ex_table =
  (* +-----------+---------------+------+
     |   Währung | -1,234,567.90 |      |
     | 日本      |          0.00 |      |     <- -0.004: no sign, not blank
     +-----------+---------------+------+ *)
  [43;45;45;45;45;45;45;45;45;45;45;45;43;45;45;45;45;45;45;45;45;45;45;45;45;45;45;45;43;45;45;45;45;45;45;43;10;
   124;32;32;32;87;195;164;104;114;117;110;103;32;124;32;45;49;44;50;51;52;44;53;54;55;46;57;48;32;124;32;32;32;32;32;32;124;10;
   124;32;230;151;165;230;156;172;32;32;32;32;32;32;32;32;124;32;32;32;32;32;32;32;32;32;32;48;46;48;48;32;124;32;32;32;32;32;32;124;10;
   43;45;45;45;45;45;45;45;45;45;45;45;43;45;45;45;45;45;45;45;45;45;45;45;45;45;45;45;43;45;45;45;45;45;45;43;10;10].
Proof. vm_compute. reflexivity. Qed.

Example C17_example_rect : rect_b 3 (render_text ex_cfg ex_table) = true.
Proof. vm_compute. reflexivity. Qed.

(* the check's cell predicate rejects a mis-grouped, a mis-rounded and a wrongly signed numeral *)
Example C17_example_spec_rejects :
  let d := mkDec (-1234567895) (-3) in
  num_cell_ok_b false 2 d [45;49;44;50;51;52;44;53;54;55;46;57;48] = true /\      (* -1,234,567.90 *)
  num_cell_ok_b false 2 d [45;49;50;44;51;52;44;53;54;55;46;57;48] = false /\     (* -12,34,567.90 *)
  num_cell_ok_b false 2 d [45;49;44;50;51;52;44;53;54;55;46;56;57] = false /\     (* -1,234,567.89 *)
  num_cell_ok_b false 2 d [49;44;50;51;52;44;53;54;55;46;57;48] = false /\        (* 1,234,567.90 *)
  num_cell_ok_b false 2 (mkDec (-4) (-3)) [48;46;48;48] = true /\                 (* 0.00 *)
  num_cell_ok_b false 2 (mkDec (-4) (-3)) [45;48;46;48;48] = false.               (* -0.00 *)
Proof. vm_compute. repeat split. Qed.
