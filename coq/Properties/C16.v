(* C16  transcode emits a balanced, self-consistent beancount ledger.  (work in progress) *)
From Coq Require Import ZArith List Bool.
From Knut Require Import Model.Str Model.Dec Model.Date Model.Account Model.Ledger Model.Journal
     Model.Pipeline Model.Cli Model.Beancount Model.CliTranscode Spec.BeancountSpec Spec.BeancountErase.
Import ListNotations.
Open Scope Z_scope.

Definition c16_witness : list sdirective :=
  let acc s := acc_of_name s in
  let P := [65;115;115;101;116;115;58;80] (* Assets:P *) in
  let E := [69;113;117;105;116;121;58;69] (* Equity:E *) in
  let chf := [67;72;70] in let aapl := [65;65;80;76] in
  let d0 := Date.of_civil 2020 1 1 in
  [ SOpen d0 (acc P); SOpen d0 (acc E);
    SPrice d0 aapl (mkDec 100 0) chf;
    SPrice (d0 + 2) aapl (mkDec 110 0) chf;
    STxn (mkStxn (d0 + 1) [66;117;121] [mkBooking (acc E) (acc P) (mkDec 1 0) aapl] None None) ].

Example C16_witness_verdict :
  match transcode_cmd true (Some [67;72;70]) c16_witness with
  | COk text => beancount_ok_b text
  | _ => []
  end = [70;65;73;76;58] ++ k_unopened_val ++ [32] ++ [73;110;99;111;109;101;58;80].
Proof. vm_compute. reflexivity. Qed.
