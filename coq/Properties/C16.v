(* C16  transcode emits a balanced, self-consistent beancount ledger.
   Theorem statements only.
   Model: Model/CliTranscode.v transcode_cmd (`knut transcode -v V FILE`: directives -> accrual
   expansion -> days -> Sort, ComputePrices, Check, Valuate -> beancount.Transcode) and
   Model/Beancount.v (transcode_entries = the items Transcode emits, in emission order;
   transcode = their text).  Vocabulary: Spec/BeancountSpec.v (sentry: what a reader of the text
   sees; txn_balanced_b: exact decimal sum is zero; next_state/state_after: the open directives
   in force after a prefix of the ledger), Spec/BeancountErase.v (erase_entries: model item ->
   reader's entry).  The check evaluates Spec.BeancountSpec.c16_verdict on the binary's output and
   tests on every case that reading the model's text gives back exactly the erased items. *)
From Coq Require Import ZArith List Bool Permutation Sorted.
From Knut Require Import Model.Str Model.Dec Model.Date Model.Account Model.Ledger Model.Journal
     Model.Pipeline Model.Cli Model.Beancount Model.CliTranscode Spec.BeancountSpec Spec.BeancountErase
     Proofs.PairProofs Proofs.BeancountProofs.
Import ListNotations.
Open Scope Z_scope.

(* the text the command prints is the rendering of the emitted items of the processed days *)
Theorem C16_text_is_rendering : forall l c v sds text,
  transcode_cmd l (Some (c :: v)) sds = COk text ->
  exists days, transcode_days l (c :: v) sds = COk days /\ text = transcode days (c :: v).
Proof.
  intros l c v sds text H. unfold transcode_cmd, valuation_flag in H. cbn [valid_commodity cbind] in H.
  destruct (transcode_days l (c :: v) sds) as [days| |]; try discriminate. cbn [cbind] in H.
  inversion H. exists days. split; reflexivity.
Qed.
Print Assumptions C16_text_is_rendering.

(* (1) every emitted transaction sums to exactly zero in V: the decimal sum of its amounts,
   computed without rounding, has coefficient zero.  For every journal and every V. *)
Theorem C16_balanced : forall l v sds days,
  transcode_days l v sds = COk days ->
  Forall entry_balanced (erase_entries v (transcode_entries days [])).
Proof. intros l v sds days H. apply entries_balanced. eapply transcode_days_ok. exact H. Qed.
Print Assumptions C16_balanced.

(* (2) entries appear in chronological order: the dates of the emitted items never decrease *)
Theorem C16_chronological : forall l v sds days,
  transcode_days l v sds = COk days ->
  StronglySorted Z.le (map entry_date (erase_entries v (transcode_entries days []))).
Proof. exact transcode_chronological. Qed.
Print Assumptions C16_chronological.

(* behind it: the builder keeps the days strictly ascending by date (Builder.Day = upd_day),
   no stage changes a day's date, and every transaction carries the date of its day *)
Theorem C16_days_ascending : forall l v sds days,
  transcode_days l v sds = COk days -> Sorted Z.lt (dates days) /\ Forall day_dates_ok days.
Proof. exact transcode_days_dates. Qed.
Print Assumptions C16_days_ascending.

(* (3) nothing lost, nothing duplicated: the multiset of emitted transactions is the multiset
   [users ++ adjs] where [users] are the journal's transactions after accrual expansion
   (directive_txns ds, in some order), each rewritten posting by posting with account, other
   account, commodity and quantity unchanged (txn_sim: only the value is filled in), and [adjs]
   are value adjustments: dated t_date, described "Adjust value of C in account A" for an asset
   or liability account A, posting to A and to valuation_account_for A. *)
Theorem C16_complete : forall l v sds days,
  transcode_days l v sds = COk days ->
  exists ds users adjs,
    parse_directives sds = MOk ds /\
    Permutation (entry_txns (transcode_entries days [])) (users ++ adjs) /\
    (exists orig, Permutation orig (directive_txns ds) /\ Forall2 txn_sim orig users) /\
    Forall (fun t => adjustment (t_date t) t) adjs.
Proof. exact transcode_complete. Qed.
Print Assumptions C16_complete.

(* Transcode itself neither drops nor repeats a transaction of the days it is given *)
Theorem C16_transcode_permutation : forall days seen,
  Permutation (entry_txns (transcode_entries days seen)) (all_txns days).
Proof. exact transcode_entries_perm. Qed.
Print Assumptions C16_transcode_permutation.

(* (4) open before use, not used after close -- for every emitted transaction that is not a
   value adjustment: at the point where it is emitted, each of its posting accounts has an open
   directive earlier in the ledger that is not followed by a close directive (st_open of the
   reader's state after the preceding entries).  With C16_chronological that open directive is
   dated on or before the transaction.  This is the checker's invariant (check_proc accepted
   the posting) carried through Valuate and Transcode.
   The asset/liability account A of a value adjustment is still open as well:
   C16_adjusted_account_open at the end of this file. *)
Theorem C16_open_before_use : forall l v sds days pre t post,
  transcode_days l v sds = COk days ->
  transcode_entries days [] = pre ++ BTxn t :: post ->
  adjustment (t_date t) t \/
  Forall (fun p => mem (acc_name (p_acc p)) (map fst (st_open (state_after (erase_entries v pre)))) = true)
         (t_postings t).
Proof. exact transcode_open_before_use. Qed.
Print Assumptions C16_open_before_use.

(* (4') The same clause for the accounts Valuate posts value adjustments to is FALSE of the
   faithful model (and of knut: findings/C16-valuation-accounts-unopened.md, DESIGN F16):
   Registry.ValuationAccountFor yields Income:<rest of the path>, Transcode emits an open
   directive only for accounts named Equity:Valuation:..., and the adjustments are created after
   the checker ran.  Witness: one share bought at 100, priced 110 two days later. *)
Definition chf : str := [67;72;70].
Definition c16_witness : list sdirective :=
  let acc s := acc_of_name s in
  let P := [65;115;115;101;116;115;58;80] (* Assets:P *) in
  let E := [69;113;117;105;116;121;58;69] (* Equity:E *) in
  let aapl := [65;65;80;76] in
  let d0 := Date.of_civil 2020 1 1 in
  [ SOpen d0 (acc P); SOpen d0 (acc E);
    SPrice d0 aapl (mkDec 100 0) chf;
    SPrice (d0 + 2) aapl (mkDec 110 0) chf;
    STxn (mkStxn (d0 + 1) [66;117;121] [mkBooking (acc E) (acc P) (mkDec 1 0) aapl] None None) ].
Definition c16_days : list day :=
  match transcode_days true chf c16_witness with COk d => d | _ => [] end.

Theorem C16_valuation_open_refuted :
  exists sds v days pre t post p,
    transcode_days true v sds = COk days /\
    transcode_entries days [] = pre ++ BTxn t :: post /\
    In p (t_postings t) /\
    (* no open directive in force when it is posted to ... *)
    mem (acc_name (p_acc p)) (map fst (st_open (state_after (erase_entries v pre)))) = false /\
    (* ... and none anywhere in the ledger *)
    existsb (fun e => match e with BOpen _ a => acc_eqb a (p_acc p) | _ => false end)
            (transcode_entries days []) = false.
Proof.
  exists c16_witness, chf, c16_days, (firstn 3 (transcode_entries c16_days [])).
  eexists. exists []. eexists.
  split; [vm_compute; reflexivity|].
  split; [vm_compute; reflexivity|].
  split; [vm_compute; left; reflexivity|].
  split; vm_compute; reflexivity.
Qed.
Print Assumptions C16_valuation_open_refuted.

(* the executable statement of the property gives exactly this verdict on the model's text of
   the witness: FAIL:unopened-valuation-account Income:P *)
Example C16_witness_verdict :
  match transcode_cmd true (Some chf) c16_witness with
  | COk text => beancount_ok_b text
  | _ => []
  end = [70;65;73;76;58] ++ k_unopened_val ++ [32] ++ [73;110;99;111;109;101;58;80].
Proof. vm_compute. reflexivity. Qed.

(* non-vacuity: the command succeeds on the witness, the ledger has two transactions (the
   purchase and one value adjustment), and reading the text gives back the emitted items *)
Example C16_example :
  match transcode_days true chf c16_witness with
  | COk days => length (entry_txns (transcode_entries days [])) = 2%nat /\ roundtrip_b chf days = true
  | _ => False
  end.
Proof. vm_compute. split; reflexivity. Qed.

(* without -v the pinned Go code dereferenced the nil commodity (c.Name() in beancount.Transcode):
   modelled as CPanic; found under C14 (findings/C14-transcode-without-valuation-panics.md) and
   repaired by 864fd70: the command now fails with an error before loading anything *)
Example C16_no_valuation_panics_pinned :
  transcode_cmd_pinned true None c16_witness = CPanic k_nil_commodity.
Proof. vm_compute. reflexivity. Qed.

Theorem C16_no_valuation_is_error : forall l ds, transcode_cmd l None ds = CErr k_valuation [].
Proof. reflexivity. Qed.
Print Assumptions C16_no_valuation_is_error.

(* ================================================================== no adjustment lost or doubled *)
(* (3'), the clause Spec/BeancountMtmSpec.v adds to the executable verdict: in the emitted ledger
   the postings on every asset/liability account add up to the account's market value on the
   journal's last day, Sum_c Q_T(a,c) * p_T(c) (Spec/ValuationSpec.v market_value: quantities and
   normalised prices straight from the directives), within ValuationSpec.step_bound * 10^-8 (one
   per booking of the account, one per (day of the journal, held commodity), + 1).
   Proofs/TranscodeMtmCell.v (one cell: Sort permutes a day's transactions, Check changes nothing,
   C03_mark_to_market for ComputePrices+Valuate, the builder's days carry the journal's quantities
   and prices; a commodity never booked on the account is never revalued) and
   Proofs/TranscodeMtmSum.v (sum over the held commodities, the step count, decimals).
   Side condition: the parser's guarantee on account names (postings_syntactic, as in C03/C02/C04:
   C03_syntactic_sufficient).  The steps are counted inside the window [first_date, last_date] of
   the journal (dates of the year 0000 are negative day numbers: see C16_mtm_year0_example). *)
From Coq Require Import QArith Qabs.
From Knut Require Import Model.Price Spec.WellformedSpec Spec.LedgerSpec Spec.LedgerSyntax Spec.MarkToMarketSpec Spec.ValuationSpec
     Spec.MarkToMarketReportSpec Spec.BeancountMtmSpec Spec.TranscodeMtmSpec
     Proofs.DecValue Proofs.TranscodeMtmCell Proofs.TranscodeMtmSum.
Open Scope Z_scope.

(* on the days handed to beancount.Transcode: the exact decimal sum of the values posted to a *)
Theorem C16_account_totals_mark_to_market : forall l v sds dl days a e,
  parse_directives sds = MOk dl -> postings_syntactic dl ->
  transcode_days l v sds = COk days ->
  account_ok a = true -> is_AL a = true ->
  market_value dl v a (last_date dl) = Some e ->
  within_bound (posted_total a (days_postings days)) e (step_bound dl a (first_date dl) (last_date dl)) = true.
Proof. exact transcode_account_total. Qed.
Print Assumptions C16_account_totals_mark_to_market.

(* on the emitted ledger, in the reader's vocabulary: the clause of c16_verdict_mtm finds nothing *)
Theorem C16_ledger_mark_to_market : forall l v sds dl days,
  parse_directives sds = MOk dl -> postings_syntactic dl ->
  transcode_days l v sds = COk days ->
  mtm_check dl v (erase_entries v (transcode_entries days [])) = [].
Proof. exact transcode_mtm_check. Qed.
Print Assumptions C16_ledger_mark_to_market.

(* the account total the reader computes from the ledger is the total of the days' postings *)
Theorem C16_ledger_total_is_days_total : forall v a days,
  (dvalue (ledger_total (erase_entries v (transcode_entries days [])) (acc_name a))
   == dvalue (posted_total a (days_postings days)))%Q.
Proof. intros v a days. rewrite ledger_total_days, posted_total_value. reflexivity. Qed.
Print Assumptions C16_ledger_total_is_days_total.

(* behind them, per commodity, for any date T on or after the last directive: a commodity other than V is carried at quantity * latest price up to 10^-8 per
   booking of (a, c) and per day of the journal; V itself exactly at its quantity; a commodity the
   account never books gets no posting at all (so no adjustment can come from nowhere) *)
Theorem C16_position_mark_to_market : forall l v sds dl days a c T,
  parse_directives sds = MOk dl -> postings_syntactic dl -> (forall d, In d dl -> directive_date d <= T) ->
  transcode_days l v sds = COk days ->
  account_ok a = true -> is_AL a = true -> c <> v ->
  (Qabs (cell_value a c (days_postings days) - mv_cell dl v a c T)
   <= inject_Z (cell_bookings dl a c + Z.of_nat (length (WellformedSpec.dates dl))) * (1 # 100000000))%Q.
Proof.
  intros l v sds dl days a c T Hl Hsyn HT. apply transcode_cell; assumption.
Qed.
Print Assumptions C16_position_mark_to_market.

Theorem C16_valuation_commodity_at_quantity : forall l v sds dl days a T,
  parse_directives sds = MOk dl -> postings_syntactic dl -> (forall d, In d dl -> directive_date d <= T) ->
  transcode_days l v sds = COk days ->
  (cell_value a v (days_postings days) == mv_cell dl v a v T)%Q.
Proof.
  intros l v sds dl days a T Hl Hsyn HT. apply transcode_cell_V; assumption.
Qed.
Print Assumptions C16_valuation_commodity_at_quantity.

Theorem C16_unbooked_commodity_not_posted : forall l v sds dl days a c,
  parse_directives sds = MOk dl -> postings_syntactic dl ->
  transcode_days l v sds = COk days ->
  account_ok a = true -> is_AL a = true ->
  (forall d p, In (d, p) (flat_postings dl) -> cellb a c p = false) ->
  Forall (fun p => cellb a c p = false) (days_postings days).
Proof.
  intros l v sds dl days a c Hl Hsyn H Ha HAL Hn. apply (transcode_cell_unbooked l v sds dl days a c Hl Hsyn H Ha HAL).
  unfold cell_bookings. rewrite Proofs.MarkToMarketWindow.filter_all_false; [reflexivity|].
  intros [d p] Hin. exact (Hn d p Hin).
Qed.
Print Assumptions C16_unbooked_commodity_not_posted.

(* the hypotheses are satisfiable and the statement is not vacuous: on the witness above (one AAPL
   bought at 100, priced 110 two days later) Assets:P must total 110 = 1 * 110 (purchase 100 +
   adjustment 10), allowance 5e-8; the model's ledger totals exactly 110 *)
Example C16_mtm_example :
  match parse_directives c16_witness, transcode_days true chf c16_witness with
  | MOk dl, COk days =>
    let a := acc_of_name [65;115;115;101;116;115;58;80] in
    postings_syntactic_b dl = true /\ account_ok a = true /\ is_AL a = true /\
    market_value dl chf a (last_date dl) = Some (mkDec 110 0) /\
    step_bound dl a (first_date dl) (last_date dl) = 5 /\
    posted_total a (days_postings days) = mkDec 110 0 /\
    ledger_total (erase_entries chf (transcode_entries days [])) (acc_name a) = mkDec 110 0
  | _, _ => False
  end.
Proof. vm_compute. repeat split; reflexivity. Qed.

(* ================================================================== the adjusted account is open *)
(* (4'') what C16_open_before_use leaves out for value adjustments, as far as it is true: every
   posting on an asset/liability account -- of a user transaction or of a value adjustment -- goes
   to an account with an open directive in force at that point of the ledger (and no later close).
   Valuate books an adjustment only for a position whose quantity is not zero at the start of the
   day; Check refuses to close an account with a non-zero position and refuses postings to accounts
   that are not open; both stages add the same quantities to the same positions
   (Proofs/TranscodeOpenAL.v: the coupling of Check's and Valuate's quantity maps).
   The other posting of an adjustment goes to Income:..., for which the clause is false
   (C16_valuation_open_refuted above, F16). *)
From Knut Require Import Proofs.TranscodeOpenAL.
Open Scope Z_scope.

Theorem C16_adjusted_account_open : forall l v sds dl days pre t post,
  parse_directives sds = MOk dl -> postings_syntactic dl ->
  transcode_days l v sds = COk days ->
  transcode_entries days [] = pre ++ BTxn t :: post ->
  Forall (fun p => is_AL (p_acc p) = true ->
                   mem (acc_name (p_acc p)) (map fst (st_open (state_after (erase_entries v pre)))) = true)
         (t_postings t).
Proof. exact transcode_AL_open_before_use. Qed.
Print Assumptions C16_adjusted_account_open.

(* non-vacuity: the fourth emitted item of the witness is the value adjustment; its posting on
   Assets:P finds the open directive, its posting on Income:P does not (F16) *)
Example C16_adjusted_account_example :
  match transcode_days true chf c16_witness with
  | COk days =>
    match nth_error (transcode_entries days []) 3 with
    | Some (BTxn t) =>
      let st := state_after (erase_entries chf (firstn 3 (transcode_entries days []))) in
      map (fun p => (is_AL (p_acc p), mem (acc_name (p_acc p)) (map fst (st_open st)))) (t_postings t)
      = [(false, false); (true, true)]
    | _ => False
    end
  | _ => False
  end.
Proof. vm_compute. reflexivity. Qed.

(* The window of the step count starts at the journal's first date, not at day 0 = 0001-01-01: dates
   of the year 0000 (which time.Parse and the model accept) are negative day numbers.  With the
   window [0, last day] that mtm_check used first, the clause reported
   account-total-not-mark-to-market on the correct ledger of this journal: 0.3 AAPL bought on
   0000-06-01 and again on 0000-06-02 at 0.33333333; the ledger carries 2 * 0.09999999 = 0.19999998
   on Assets:P, the market value is 0.6 * 0.33333333 = 0.199999998, the difference 1.8e-8 is two
   legitimate truncations, and the allowance evaluated to 1e-8 (no booking and no day inside the
   window).  Now the allowance is 2 bookings + 2 days * 1 commodity + 1 = 5. *)
Definition c16_year0_witness : list sdirective :=
  let acc s := acc_of_name s in
  let P := [65;115;115;101;116;115;58;80] (* Assets:P *) in
  let E := [69;113;117;105;116;121;58;69] (* Equity:E *) in
  let aapl := [65;65;80;76] in
  let d0 := Date.of_civil 0 6 1 in
  [ SOpen d0 (acc P); SOpen d0 (acc E);
    SPrice d0 aapl (mkDec 33333333 (-8)) chf;
    STxn (mkStxn d0 [66;117;121] [mkBooking (acc E) (acc P) (mkDec 3 (-1)) aapl] None None);
    STxn (mkStxn (d0 + 1) [66;117;121] [mkBooking (acc E) (acc P) (mkDec 3 (-1)) aapl] None None) ].

Example C16_mtm_year0_example :
  match parse_directives c16_year0_witness, transcode_days true chf c16_year0_witness with
  | MOk dl, COk days =>
    let a := acc_of_name [65;115;115;101;116;115;58;80] in
    postings_syntactic_b dl = true /\ first_date dl < 0 /\ last_date dl = 0 /\
    market_value dl chf a (last_date dl) = Some (mkDec 199999998 (-9)) /\
    posted_total a (days_postings days) = mkDec 19999998 (-8) /\
    step_bound dl a 0 (last_date dl) = 1 /\
    step_bound dl a (first_date dl) (last_date dl) = 5 /\
    mtm_check dl chf (erase_entries chf (transcode_entries days [])) = []
  | _, _ => False
  end.
Proof. vm_compute. repeat split; reflexivity. Qed.

(* ================================================================== the text reads back to the items *)
(* The theorems above are about the emitted items; the executable verdict works on text.  The
   reader of Spec/BeancountSpec.v applied to the text Model/Beancount.v writes gives back the
   valuation commodity as written and the erased items, for EVERY valuation commodity and EVERY
   list of items that satisfy the lexical side conditions of Spec/BeancountLex.v:
     commodity_lex_b v   V has no newline and no double quote, stripNonAlphanum(V) is not empty;
     entries_lex_b es    dates in the years 0000..9999; account names not empty, without space,
                         newline and double quote; descriptions without double quote (newlines
                         are allowed: knut's parser accepts them, C16_linewise_reader_refuted).
   Amounts come back as they are after a trip through Decimal.String (DecNormalForm.reread: the
   same value, trailing zeros dropped, positive exponents expanded; reread_entries applies it to
   every amount).  With the amounts themselves the statement is false
   (C16_text_roundtrip_exact_refuted); no clause of the verdict can tell the difference
   (C16_verdict_on_model_text).
   Proofs/BeancountRead.v. *)
From Knut Require Import Spec.BeancountLex Proofs.DecNormalForm Proofs.BeancountRead Proofs.BeancountVerdict
     Proofs.BeancountLexDays.
Open Scope Z_scope.

Theorem C16_text_roundtrip : forall v es,
  commodity_lex_b v = true -> entries_lex_b es = true ->
  read_ledger (s_option ++ v ++ [34;10;10] ++ concat (map (write_entry v) es))
  = Some (v, reread_entries (erase_entries v es)).
Proof. exact read_ledger_text. Qed.
Print Assumptions C16_text_roundtrip.

(* the statement as first written,
     read_ledger (s_option ++ v ++ [34;10;10] ++ concat (map (write_entry v) es)) = Some (v, erase_entries v es),
   is false of the model: 1.0 CHF booked in a ledger valued in CHF is carried as 10 * 10^-1,
   printed as "1" and read as 1 * 10^0 *)
Definition c16_trailing_zero_witness : list sdirective :=
  let acc s := acc_of_name s in
  let P := [65;115;115;101;116;115;58;80] (* Assets:P *) in
  let E := [69;113;117;105;116;121;58;69] (* Equity:E *) in
  let d0 := Date.of_civil 2020 1 1 in
  [ SOpen d0 (acc P); SOpen d0 (acc E);
    STxn (mkStxn d0 [66;117;121] [mkBooking (acc E) (acc P) (mkDec 10 (-1)) chf] None None) ].

Theorem C16_text_roundtrip_exact_refuted :
  exists sds v dl days,
    parse_directives sds = MOk dl /\ journal_lex_b dl = true /\ commodity_lex_b v = true /\
    transcode_days true v sds = COk days /\
    read_ledger (transcode days v) <> Some (v, erase_entries v (transcode_entries days [])).
Proof.
  exists c16_trailing_zero_witness, chf. eexists. eexists.
  split; [vm_compute; reflexivity|]. split; [vm_compute; reflexivity|]. split; [vm_compute; reflexivity|].
  split; [vm_compute; reflexivity|]. vm_compute. discriminate.
Qed.
Print Assumptions C16_text_roundtrip_exact_refuted.

(* the executable comparison the check used to run on every case (amounts through Decimal.String)
   is therefore a theorem *)
Theorem C16_roundtrip_check : forall v days,
  commodity_lex_b v = true -> entries_lex_b (transcode_entries days []) = true -> roundtrip_b v days = true.
Proof. exact roundtrip_b_true. Qed.
Print Assumptions C16_roundtrip_check.

(* the items `knut transcode` emits satisfy the side condition whenever the journal's directives
   (after accrual expansion, as in postings_syntactic) are lexical: years 0000..9999; account
   segments without space, newline and double quote, the first one not empty; descriptions and
   commodities without double quote.  This is less than knut's parser guarantees.  It is more
   than postings_syntactic (account_ok allows a space inside a segment and says nothing about
   dates): C16_space_in_account_example.  Proofs/BeancountLexDays.v: the builder, day_step for
   Sort/ComputePrices/Check, and for Valuate the invariant that every position held comes from a
   lexical posting (the adjustments and their descriptions are built from the positions). *)
Theorem C16_emitted_items_lexical : forall l v sds dl days,
  parse_directives sds = MOk dl -> journal_lex_b dl = true ->
  transcode_days l v sds = COk days ->
  entries_lex_b (transcode_entries days []) = true.
Proof. exact transcode_days_entries_lex. Qed.
Print Assumptions C16_emitted_items_lexical.

Theorem C16_model_text_roundtrip : forall l v sds dl days,
  parse_directives sds = MOk dl -> journal_lex_b dl = true -> commodity_lex_b v = true ->
  transcode_days l v sds = COk days ->
  read_ledger (transcode days v) = Some (v, reread_entries (erase_entries v (transcode_entries days []))) /\
  roundtrip_b v days = true.
Proof.
  intros l v sds dl days Hp Hj Hv H.
  pose proof (transcode_days_entries_lex l v sds dl days Hp Hj H) as Hes.
  split; [exact (read_ledger_text v _ Hv Hes)|exact (roundtrip_b_true v days Hv Hes)].
Qed.
Print Assumptions C16_model_text_roundtrip.

(* Hence the verdict of the check on the model's own text is what the three clauses say about the
   erased items -- the objects of C16_balanced, C16_chronological, C16_complete,
   C16_open_before_use, C16_adjusted_account_open and C16_ledger_mark_to_market.  (The clauses look
   at values of amounts only: Proofs/BeancountVerdict.v.) *)
Theorem C16_verdict_on_model_text : forall l v sds dl days,
  parse_directives sds = MOk dl -> journal_lex_b dl = true -> commodity_lex_b v = true ->
  transcode_days l v sds = COk days ->
  let es := erase_entries v (transcode_entries days []) in
  c16_verdict_mtm sds v (transcode days v)
  = verdict_of (beancount_check v es ++ complete_check sds es ++ mtm_check dl v es).
Proof.
  intros l v sds dl days Hp Hj Hv H es.
  rewrite (verdict_on_model_text sds v days Hv (transcode_days_entries_lex l v sds dl days Hp Hj H)).
  unfold c16_violations. rewrite Hp. reflexivity.
Qed.
Print Assumptions C16_verdict_on_model_text.

(* hypotheses satisfiable, statement not vacuous: the witness of C16_valuation_open_refuted is
   lexical, and the right-hand side of C16_verdict_on_model_text evaluates to F16's verdict *)
Example C16_verdict_on_model_text_example :
  match parse_directives c16_witness, transcode_days true chf c16_witness with
  | MOk dl, COk days =>
    let es := erase_entries chf (transcode_entries days []) in
    journal_lex_b dl = true /\ commodity_lex_b chf = true /\
    entries_lex_b (transcode_entries days []) = true /\
    verdict_of (beancount_check chf es ++ complete_check c16_witness es ++ mtm_check dl chf es)
    = [70;65;73;76;58] ++ k_unopened_val ++ [32] ++ [73;110;99;111;109;101;58;80]
  | _, _ => False
  end.
Proof. vm_compute. repeat split; reflexivity. Qed.

(* ---- the reader before this theorem was attempted split the text at every newline.  knut's
   parser reads a description up to the next double quote (parseQuotedString), newlines included,
   and writeTrx prints it as it is (a multi-line string, legal beancount).  On such a journal the
   line-wise reader rejected a correct ledger (verdict FAIL:unreadable); read_ledger now keeps a
   newline inside a double-quoted string in the line (split_lines).  Witness: the journal of
   C16_valuation_open_refuted with the description "Buy\nmore". *)
Definition c16_multiline_witness : list sdirective :=
  let acc s := acc_of_name s in
  let P := [65;115;115;101;116;115;58;80] (* Assets:P *) in
  let E := [69;113;117;105;116;121;58;69] (* Equity:E *) in
  let aapl := [65;65;80;76] in
  let d0 := Date.of_civil 2020 1 1 in
  [ SOpen d0 (acc P); SOpen d0 (acc E);
    SPrice d0 aapl (mkDec 100 0) chf;
    SPrice (d0 + 2) aapl (mkDec 110 0) chf;
    STxn (mkStxn (d0 + 1) [66;117;121;10;109;111;114;101] [mkBooking (acc E) (acc P) (mkDec 1 0) aapl] None None) ].

Theorem C16_linewise_reader_refuted :
  exists sds v dl days,
    parse_directives sds = MOk dl /\ journal_lex_b dl = true /\ commodity_lex_b v = true /\
    transcode_days true v sds = COk days /\
    read_ledger_linewise (transcode days v) = None /\
    read_ledger (transcode days v) = Some (v, reread_entries (erase_entries v (transcode_entries days []))).
Proof.
  exists c16_multiline_witness, chf. eexists. eexists.
  split; [vm_compute; reflexivity|]. split; [vm_compute; reflexivity|]. split; [vm_compute; reflexivity|].
  split; [vm_compute; reflexivity|]. split; vm_compute; reflexivity.
Qed.
Print Assumptions C16_linewise_reader_refuted.

(* ---- the side condition is needed, and postings_syntactic does not imply it: an account segment
   with a space (account_ok allows it; knut's parser does not) -- the posting line then has four
   fields and the reader rejects it *)
Example C16_space_in_account_example :
  let sds := [ SOpen 737425 [s_Assets; [65;32;66]]; SOpen 737425 [s_Equity; [69]];
               STxn (mkStxn 737425 [66] [mkBooking [s_Equity; [69]] [s_Assets; [65;32;66]] (mkDec 1 0) chf] None None) ] in
  match parse_directives sds, transcode_days true chf sds with
  | MOk dl, COk days =>
    Spec.LedgerSyntax.postings_syntactic_b dl = true /\ journal_lex_b dl = false /\ roundtrip_b chf days = false
  | _, _ => False
  end.
Proof. vm_compute. repeat split; reflexivity. Qed.

(* ---- a second repair of the executable verdict found while stating the corollary: bst_init
   started the order clause at day 0 = 0001-01-01, so the first entry of a ledger of the year 0000
   (negative day numbers; time.Parse and knut accept them) was reported as FAIL:order.  It now
   starts at 0000-01-01, the least date the reader can return.  The year-0000 journal of
   C16_mtm_year0_example: *)
Example C16_order_year0_example :
  match transcode_cmd true (Some chf) c16_year0_witness with
  | COk text => c16_verdict_mtm c16_year0_witness chf text = s_ok
  | _ => False
  end.
Proof. vm_compute. reflexivity. Qed.

(* ================================================================== the verdict on the model's own text *)
(* With C16_verdict_on_model_text the verdict of the check on the text the model writes is decided
   by the three clauses on the erased items.  The statement: that verdict is `ok`, or
   `FAIL:unopened-valuation-account A` (F16), or `FAIL:closed-valuation-account A` (F16b) for a
   valuation account A = Income:..., i.e. every violation the three clauses raise has the known
   shape -- for EVERY journal the parser can produce (C16_model_verdict, hypothesis on the input:
   C09's input_lex) and every valuation commodity that can be written into the option line.

   The pieces:
   C16_violations_from_adjustments   mtm_check finds nothing (C16_ledger_mark_to_market); beancount_check
       raises no order, unbalanced or commodity violation, and every violation it raises comes from a
       posting of a VALUE ADJUSTMENT on an account that is not an asset or liability account -- the
       Income:... account of F16/F16b (Proofs/BeancountVerdict.v part 4, Proofs/BeancountVerdictOpen.v);
   C16_posting_violations_known_shape   check_posting classifies each of them as the known shape: the
       verdict's adjusted_account reads "Adjust value of C in account A" back (C up to the first space),
       A is an asset/liability name, the posting's account is valuation_name A, and A has an open
       directive in force (C16_adjusted_account_open).  Proofs/BeancountKnownShape.v;
   C16_complete_check_finds_nothing   every user transaction is found among the emitted ones, what
       remains are value adjustments, at most one per day and description: Valuate's position map has
       pairwise different keys, and different positions have different descriptions.
       Proofs/TranscodeAdjust.v, Proofs/BeancountComplete.v;
   C16_input_lexical   the side conditions, journal_lex_b and Spec/BeancountAdjLex.v journal_adj_lex_b
       (on every posting after accrual expansion: account syntactic in the sense of C02/C03/C04, hence
       determined by its name; commodity without space), hold of the parsed directives of every input
       that satisfies input_lex.  Proofs/BeancountInputLex.v.
   The second side condition is needed: C16_space_in_commodity_example. *)
From Knut Require Import Spec.BeancountAdjLex Proofs.BeancountVerdictOpen Proofs.TranscodeAdjust Proofs.BeancountKnownShape
     Proofs.BeancountComplete Proofs.PrintLex Proofs.PrintLexInput Proofs.BeancountInputLex Proofs.BeancountModelVerdict.

Theorem C16_violations_from_adjustments : forall l v sds dl days,
  parse_directives sds = MOk dl -> postings_syntactic dl -> journal_lex_b dl = true ->
  commodity_lex_b v = true -> transcode_days l v sds = COk days ->
  let es := erase_entries v (transcode_entries days []) in
  c16_verdict_mtm sds v (transcode days v) = verdict_of (beancount_check v es ++ complete_check sds es) /\
  mtm_check dl v es = [] /\
  Forall (fun x =>
            (v_kind x = k_unopened \/ v_kind x = k_use_after_close \/ v_kind x = k_unopened_val \/ v_kind x = k_closed_val) /\
            exists pre t post p,
              transcode_entries days [] = pre ++ BTxn t :: post /\ adjustment (t_date t) t /\
              In p (t_postings t) /\ is_AL (p_acc p) = false /\ v_detail x = acc_name (p_acc p))
         (beancount_check v es).
Proof.
  intros l v sds dl days Hp Hsyn Hj Hv H es.
  pose proof (transcode_mtm_check l v sds dl days Hp Hsyn H) as Hm. fold es in Hm.
  split; [|split; [exact Hm|exact (beancount_check_model l v sds dl days Hp Hsyn Hj H)]].
  rewrite (C16_verdict_on_model_text l v sds dl days Hp Hj Hv H). fold es. rewrite Hm, app_nil_r. reflexivity.
Qed.
Print Assumptions C16_violations_from_adjustments.

(* (1) every violation beancount_check raises on the model's items has the known shape *)
Theorem C16_posting_violations_known_shape : forall l v sds dl days,
  parse_directives sds = MOk dl -> journal_lex_b dl = true -> journal_adj_lex_b dl = true ->
  transcode_days l v sds = COk days ->
  Forall (fun x => v_known_shape x = true /\ (v_kind x = k_unopened_val \/ v_kind x = k_closed_val))
         (beancount_check v (erase_entries v (transcode_entries days []))).
Proof. exact beancount_check_known. Qed.
Print Assumptions C16_posting_violations_known_shape.

(* behind it: what Valuate adds to the days Check passed on ([d3]: the builder's days after Sort,
   ComputePrices, Check, which add no transaction).  Day by day: the date is kept; the transactions are
   the day's transactions followed by adjustments [ts], each for a position (a, c) with a syntactic
   asset/liability account and a commodity without space (adjustment_lex), with pairwise different
   descriptions; all rewritten posting by posting (values filled in: txn_sim).  And every posting handed
   to beancount.Transcode has a syntactic account and a commodity without space (day_good). *)
Theorem C16_valuate_adjustments : forall l v sds dl days,
  parse_directives sds = MOk dl -> journal_adj_lex_b dl = true -> transcode_days l v sds = COk days ->
  exists d3, Forall2 (day_step no_extra) (b_days (builder_of dl)) d3 /\
    Forall2 (fun d d' =>
               d_date d' = d_date d /\
               exists ts, Forall2 txn_sim (d_txns d ++ ts) (d_txns d') /\
                          Forall (adjustment_lex (d_date d)) ts /\ NoDup (map t_desc ts)) d3 days /\
    Forall day_good days.
Proof. exact transcode_days_val. Qed.
Print Assumptions C16_valuate_adjustments.

(* (2) complete_check finds nothing on the model's items: no lost-transaction, no spurious-transaction,
   no duplicated-adjustment *)
Theorem C16_complete_check_finds_nothing : forall l v sds dl days,
  parse_directives sds = MOk dl -> journal_adj_lex_b dl = true -> transcode_days l v sds = COk days ->
  complete_check sds (erase_entries v (transcode_entries days [])) = [].
Proof. exact complete_check_model. Qed.
Print Assumptions C16_complete_check_finds_nothing.

(* (3) the side conditions hold of the parsed directives of every input the parser can produce *)
Theorem C16_input_lexical : forall sds dl,
  input_lex sds -> parse_directives sds = MOk dl ->
  journal_lex_b dl = true /\ journal_adj_lex_b dl = true.
Proof. exact input_lex_journal. Qed.
Print Assumptions C16_input_lexical.

Theorem C16_adj_lex_is_syntactic : forall dl, journal_adj_lex_b dl = true -> postings_syntactic dl.
Proof. exact journal_adj_lex_syntactic. Qed.
Print Assumptions C16_adj_lex_is_syntactic.

(* the three clauses together, on the parsed journal: the statement that was open *)
Theorem C16_model_violations : forall l v sds dl days,
  parse_directives sds = MOk dl -> journal_lex_b dl = true -> journal_adj_lex_b dl = true ->
  transcode_days l v sds = COk days ->
  let es := erase_entries v (transcode_entries days []) in
  Forall (fun x => v_known_shape x = true /\ (v_kind x = k_unopened_val \/ v_kind x = k_closed_val))
         (beancount_check v es ++ complete_check sds es ++ mtm_check dl v es).
Proof. exact model_violations_known. Qed.
Print Assumptions C16_model_violations.

(* THE VERDICT, hypothesis on the input.  For every journal of syntax-level directives with years
   0000..9999, account segments and commodities non-empty runs of letters and digits, descriptions
   valid UTF-8 without a double quote (input_lex: what knut's parser guarantees of every journal it
   has read, Proofs/PrintLexInput.v), every valuation commodity that can be written and read back
   (commodity_lex_b: no newline, no double quote, stripNonAlphanum(V) not empty) and both settings of
   the checker, if the model of the pipeline succeeds then the executable verdict of the check --
   reader of the text, balanced, chronological, open-before-use, completeness, mark-to-market -- on
   the text the model writes is `ok` or the rendering of a violation of the known shape. *)
Theorem C16_model_verdict : forall l v sds days,
  input_lex sds -> commodity_lex_b v = true -> transcode_days l v sds = COk days ->
  c16_verdict_mtm sds v (transcode days v) = s_ok \/
  exists x, (v_known_shape x = true /\ (v_kind x = k_unopened_val \/ v_kind x = k_closed_val)) /\
            c16_verdict_mtm sds v (transcode days v) = render_violation x.
Proof. exact model_verdict. Qed.
Print Assumptions C16_model_verdict.

(* the same with the side conditions on the parsed journal (bytes only; weaker than input_lex) *)
Theorem C16_model_verdict_parsed : forall l v sds dl days,
  parse_directives sds = MOk dl -> journal_lex_b dl = true -> journal_adj_lex_b dl = true ->
  commodity_lex_b v = true -> transcode_days l v sds = COk days ->
  c16_verdict_mtm sds v (transcode days v) = s_ok \/
  exists x, (v_known_shape x = true /\ (v_kind x = k_unopened_val \/ v_kind x = k_closed_val)) /\
            c16_verdict_mtm sds v (transcode days v) = render_violation x.
Proof. exact model_verdict_parsed. Qed.
Print Assumptions C16_model_verdict_parsed.

(* and for the command: `knut transcode -v V FILE` with V of the parser's shape *)
Theorem C16_model_verdict_cmd : forall l v sds text,
  input_lex sds -> com_lex v -> transcode_cmd l (Some v) sds = COk text ->
  c16_verdict_mtm sds v text = s_ok \/
  exists x, (v_known_shape x = true /\ (v_kind x = k_unopened_val \/ v_kind x = k_closed_val)) /\
            c16_verdict_mtm sds v text = render_violation x.
Proof. exact model_verdict_cmd. Qed.
Print Assumptions C16_model_verdict_cmd.

(* the hypotheses hold of the witness of C16_valuation_open_refuted, and the one violation is the
   posting of the adjustment on Income:P *)
Example C16_model_verdict_example :
  match parse_directives c16_witness, transcode_days true chf c16_witness with
  | MOk dl, COk days =>
    Spec.LedgerSyntax.postings_syntactic_b dl = true /\ journal_lex_b dl = true /\ journal_adj_lex_b dl = true /\
    map (fun x => (v_kind x, v_detail x, v_known_shape x))
        (beancount_check chf (erase_entries chf (transcode_entries days [])))
    = [(k_unopened_val, [73;110;99;111;109;101;58;80], true)] /\
    complete_check c16_witness (erase_entries chf (transcode_entries days [])) = []
  | _, _ => False
  end.
Proof. vm_compute. repeat split; reflexivity. Qed.

(* the input-level hypothesis is satisfiable: the witnesses are journals the parser can produce.  On
   the first the verdict is F16's, on the second (no prices, no adjustment) it is `ok` *)
From Coq Require Import Lia.
From Knut Require Import Model.Utf8 Proofs.ScannerProofs Proofs.RoundTripBase Proofs.PrintWeave Proofs.PrintSem.
Ltac c16_ascii_cls := apply (RoundTripBase.cls_ascii udec ScannerProofs.utf8_decoder_ok); repeat constructor; try lia; vm_compute; reflexivity.
Ltac c16_seg := split; [c16_ascii_cls|discriminate].
Ltac c16_acc0 := split; [discriminate|repeat (apply Forall_cons; [c16_seg|]); apply Forall_nil].
Ltac c16_date := unfold PrintSem.date_printable; vm_compute; split; discriminate.

Example C16_witness_input_lex : input_lex c16_witness /\ input_lex c16_trailing_zero_witness /\ com_lex chf.
Proof.
  split; [|split].
  - unfold input_lex, c16_witness.
    repeat (apply Forall_cons); try apply Forall_nil; cbn [sdir_lex st_date st_desc st_bookings st_targets st_accrual].
    + split; [c16_date|c16_acc0].
    + split; [c16_date|c16_acc0].
    + split; [c16_date|]. split; c16_seg.
    + split; [c16_date|]. split; c16_seg.
    + split; [c16_date|]. split; [c16_ascii_cls|]. split; [discriminate|].
      split; [|split; exact I]. apply Forall_cons; [|apply Forall_nil]. split; [c16_acc0|split; [c16_acc0|c16_seg]].
  - unfold input_lex, c16_trailing_zero_witness.
    repeat (apply Forall_cons); try apply Forall_nil; cbn [sdir_lex st_date st_desc st_bookings st_targets st_accrual].
    + split; [c16_date|c16_acc0].
    + split; [c16_date|c16_acc0].
    + split; [c16_date|]. split; [c16_ascii_cls|]. split; [discriminate|].
      split; [|split; exact I]. apply Forall_cons; [|apply Forall_nil]. split; [c16_acc0|split; [c16_acc0|c16_seg]].
  - c16_seg.
Qed.

Example C16_model_verdict_values :
  match transcode_cmd true (Some chf) c16_witness, transcode_cmd true (Some chf) c16_trailing_zero_witness with
  | COk text1, COk text2 =>
    c16_verdict_mtm c16_witness chf text1 = render_violation (mkViol k_unopened_val [73;110;99;111;109;101;58;80] true) /\
    c16_verdict_mtm c16_trailing_zero_witness chf text2 = s_ok
  | _, _ => False
  end.
Proof. vm_compute. split; reflexivity. Qed.

(* ---- the condition "commodity without space" is needed (knut's parser guarantees it; the model's
   structured directives do not): one share of "A B".  The journal satisfies postings_syntactic and
   journal_lex_b, the pipeline succeeds, the ledger reads back -- and the verdict's adjusted_account
   reads the commodity of "Adjust value of A B in account Assets:P" as "A", does not find "in account"
   after it, and reports the posting on Income:P as a plain `unopened` (not of the known shape). *)
Definition c16_space_witness : list sdirective :=
  let acc s := acc_of_name s in
  let P := [65;115;115;101;116;115;58;80] (* Assets:P *) in
  let E := [69;113;117;105;116;121;58;69] (* Equity:E *) in
  let ab := [65;32;66] in
  let d0 := Date.of_civil 2020 1 1 in
  [ SOpen d0 (acc P); SOpen d0 (acc E);
    SPrice d0 ab (mkDec 100 0) chf;
    SPrice (d0 + 2) ab (mkDec 110 0) chf;
    STxn (mkStxn (d0 + 1) [66;117;121] [mkBooking (acc E) (acc P) (mkDec 1 0) ab] None None) ].

Example C16_space_in_commodity_example :
  match parse_directives c16_space_witness, transcode_days true chf c16_space_witness with
  | MOk dl, COk days =>
    Spec.LedgerSyntax.postings_syntactic_b dl = true /\ journal_lex_b dl = true /\ journal_adj_lex_b dl = false /\
    roundtrip_b chf days = true /\
    c16_verdict_mtm c16_space_witness chf (transcode days chf)
    = render_violation (mkViol k_unopened [73;110;99;111;109;101;58;80] false)
  | _, _ => False
  end.
Proof. vm_compute. repeat split; reflexivity. Qed.
