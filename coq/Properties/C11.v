(* C11  Reporting periods partition the requested window.
   Theorem statements only; each is closed by [exact <lemma>] and followed by
   Print Assumptions.  Vocabulary: Spec/DateSpec.v (tiles, within_unit, units_change, lastn,
   align_spec, is_partition_b).  Model: Model/Date.v (new_partition, align).               *)
From Coq Require Import ZArith List Bool.
From Knut Require Import Model.Date Spec.DateSpec Proofs.DateProofs Proofs.ClipProofs.
Import ListNotations.
Open Scope Z_scope.

(* the loop bound of the model is never reached: NewPartition terminates on every input *)
Theorem C11_no_fuel_exhaustion : forall p iv n, new_partition p iv n <> POutOfFuel.
Proof. exact new_partition_no_fuel_exhaustion. Qed.
Print Assumptions C11_no_fuel_exhaustion.

(* Without --last: for every window and every interval other than Once the periods are
   consecutive, non-overlapping and cover [s, e] exactly (tiles); an inverted window yields
   no period; no period straddles a unit boundary; adjacent periods lie in different units. *)
Theorem C11_partition : forall s e iv,
  iv <> Once -> s <> 0 ->
  exists ps,
    new_partition (mkPeriod s e) iv 0 = POk (mkPartition (mkPeriod s e) iv ps) /\
    (e < s -> ps = []) /\
    (s <= e -> tiles s e ps) /\
    Forall (within_unit iv) ps /\
    units_change iv ps.
Proof. exact partition_unlimited. Qed.
Print Assumptions C11_partition.

(* --last n keeps exactly the n most recent periods (all of them if there are fewer) *)
Theorem C11_last : forall s e iv n,
  iv <> Once -> s <> 0 -> 0 < n ->
  exists full ps,
    new_partition (mkPeriod s e) iv 0 = POk (mkPartition (mkPeriod s e) iv full) /\
    new_partition (mkPeriod s e) iv n = POk (mkPartition (mkPeriod s e) iv ps) /\
    ps = lastn (Z.to_nat n) full /\
    (s <= e -> tiles (first_start ps s) e ps) /\
    Forall (within_unit iv) ps /\ units_change iv ps.
Proof. exact partition_last. Qed.
Print Assumptions C11_last.

(* Once: a single period, the window itself *)
Theorem C11_once : forall s e n,
  s <> 0 -> new_partition (mkPeriod s e) Once n = POk (mkPartition (mkPeriod s e) Once [mkPeriod s e]).
Proof. exact partition_once. Qed.
Print Assumptions C11_once.

(* Align: every date up to the window end goes to the end of the period containing it, dates
   before the first shown period to the first period, later dates to no column. *)
Theorem C11_align : forall s e iv n pt d,
  iv <> Once -> s <= e -> 0 <= n ->
  new_partition (mkPeriod s e) iv n = POk pt ->
  align pt d = align_spec (periods pt) d /\
  (e < d -> align pt d = None) /\
  (d <= e -> exists c, align pt d = Some c /\ d <= c <= e).
Proof. exact align_correct. Qed.
Print Assumptions C11_align.

Theorem C11_align_once : forall s e n pt d,
  new_partition (mkPeriod s e) Once n = POk pt ->
  align pt d = if d <=? e then Some e else None.
Proof. exact align_once. Qed.
Print Assumptions C11_align_once.

(* ... stated for every window and interval at once, in the form the check evaluates *)
Theorem C11_align_all : forall s e iv n pt d,
  0 <= n -> new_partition (mkPeriod s e) iv n = POk pt ->
  align pt d = column_expected s e iv (periods pt) d.
Proof. exact align_expected. Qed.
Print Assumptions C11_align_all.

(* Partition.Contains is the window, unaffected by --last *)
Theorem C11_contains : forall p iv n pt d,
  new_partition p iv n = POk pt -> (partition_contains pt d = true <-> p_start p <= d <= p_end p).
Proof. exact partition_contains_spec. Qed.
Print Assumptions C11_contains.

(* The executable statement of C11 that the correspondence check evaluates on the periods the
   Go implementation returns holds of everything the model returns. *)
Theorem C11_model_meets_spec : forall s e iv n pt,
  0 <= n -> new_partition (mkPeriod s e) iv n = POk pt -> is_partition_b s e iv n (periods pt) = true.
Proof. exact model_meets_spec. Qed.
Print Assumptions C11_model_meets_spec.

(* The window that is partitioned is the requested period clipped to the journal's period
   (cmd/flags Multiperiod.Partition): Clip is the intersection -- a date lies in the clipped window iff it lies
   in both periods -- for ANY two periods, inverted ones included; when they do not meet, the clipped window
   contains no date (and by C11_partition has no periods, or the single empty period of `once`). *)
Theorem C11_clip_intersection : forall w j d,
  period_contains (clip w j) d = period_contains w d && period_contains j d.
Proof. exact clip_contains. Qed.
Print Assumptions C11_clip_intersection.

Theorem C11_clip_empty : forall w j d,
  Z.min (p_end w) (p_end j) < Z.max (p_start w) (p_start j) -> period_contains (clip w j) d = false.
Proof. exact clip_empty. Qed.
Print Assumptions C11_clip_empty.

Theorem C11_clip_meets_spec : forall w j, clip_ok_b w j (clip w j) = true.
Proof. exact clip_meets_spec. Qed.
Print Assumptions C11_clip_meets_spec.

(* the one input on which the Go code panics (zero time as window start) *)
Theorem C11_zero_start_panics : forall e iv n, new_partition (mkPeriod 0 e) iv n = PPanic.
Proof. exact partition_zero_start. Qed.

(* sort.Search, as Align uses it, returns the first index whose period end is >= d *)
Theorem C11_bsearch : forall f fuel i j,
  (forall a b, i <= a <= b -> b < j -> f a = true -> f b = true) ->
  i <= j -> j - i < 2 ^ Z.of_nat fuel ->
  let r := bsearch fuel f i j in
  i <= r <= j /\ (forall a, i <= a < r -> f a = false) /\ (r < j -> f r = true).
Proof. exact bsearch_spec. Qed.

(* non-vacuity: a concrete window, 2020-01-15 .. 2020-03-10 monthly *)
Example C11_example :
  match new_partition (mkPeriod (of_civil 2020 1 15) (of_civil 2020 3 10)) Monthly 0 with
  | POk pt => map (fun p => (civil (p_start p), civil (p_end p))) (periods pt)
              = [((2020, 1, 15), (2020, 1, 31)); ((2020, 2, 1), (2020, 2, 29)); ((2020, 3, 1), (2020, 3, 10))]
  | _ => False
  end.
Proof. vm_compute. reflexivity. Qed.
