(* C03  Valued balances are mark-to-market at the latest known price.
   Specification vocabulary: Spec/ValuationSpec.v (price_on, qty_upto, market_value, mtm_expected,
   within_bound, missing_price_b).  Model: Model/Pipeline.v valuate_proc, compute_prices_proc.

   Proved here: the arithmetic core (Abel summation), the exact behaviour of one valuation step
   (booking-day value, 8-decimal truncation error, oddness), the shape of the revaluation
   transactions (gain between the account and the income account mirroring its path), and that a
   missing price makes the stage fail.
   PARTIAL: the end-to-end bound

     Theorem C03_mark_to_market : process_days (valuate_proc v) init ds = ROk (s', ds') -> is_AL a -> c <> v ->
       | posted_value a c ds' - qty_upto a c T * price_on c T | <= n_steps * 10^-8

   (induction over days with the invariant |V - Q * p_prev| <= n * 10^-8, using C03_abel and
   C03_truncation_step) is not yet proved; it is decided on every run by evaluating
   Spec.ValuationSpec.mtm_row / within_bound on the binary's output and by the byte-exact
   correspondence of the model. *)
From Coq Require Import ZArith QArith List Bool.
From Knut Require Import Model.Str Model.Dec Model.Account Model.Ledger Model.Price Model.Journal Model.Check Model.Pipeline
     Proofs.DecProofs Proofs.DecValue Proofs.PairProofs Proofs.ValuationProofs.
Import ListNotations.

(* booking values plus revaluations telescope to (last price) * (total quantity) *)
Theorem C03_abel : forall l p0 Q0,
  (abel_sum l p0 Q0 == last_price l p0 * total_qty l Q0 - p0 * Q0)%Q.
Proof. exact abel. Qed.
Print Assumptions C03_abel.

(* one multiplication step: exact when the product has at most 8 decimals, otherwise cut toward
   zero by less than 10^-8 (at the scale of the product's own exponent) *)
Theorem C03_truncation_step : forall d p,
  (0 <= p)%Z -> (ex d < - p)%Z ->
  let t := truncate d p in
  ex t = (- p)%Z /\
  (Z.abs (coef t) * pow10 (- p - ex d) <= Z.abs (coef d) < (Z.abs (coef t) + 1) * pow10 (- p - ex d))%Z /\
  ((0 <= coef d)%Z -> (0 <= coef t)%Z) /\ ((coef d <= 0)%Z -> (coef t <= 0)%Z).
Proof. exact truncate_error. Qed.
Print Assumptions C03_truncation_step.

Theorem C03_step_exact : forall a b, (- 8 <= ex a + ex b)%Z -> (dvalue (multiply a b) == dvalue a * dvalue b)%Q.
Proof. exact multiply_value_exact. Qed.
Print Assumptions C03_step_exact.

(* valuation is an odd function of the quantity: the two halves of a booking stay negatives *)
Theorem C03_step_odd : forall a b, multiply (neg a) b = neg (multiply a b).
Proof. exact multiply_neg_l. Qed.
Print Assumptions C03_step_odd.

(* every booking (income, expense and equity ones too) is valued at the price of its booking day *)
Theorem C03_flow_at_booking_day : forall v s t p s' p',
  val_posting v s t p = ROk (s', p') ->
  p_acc p' = p_acc p /\ p_other p' = p_other p /\ p_com p' = p_com p /\ p_qty p' = p_qty p /\
  (is_zero (p_qty p) = true -> p_val p' = p_val p) /\
  (is_zero (p_qty p) = false -> str_eqb v (p_com p) = true -> p_val p' = p_qty p) /\
  (is_zero (p_qty p) = false -> str_eqb v (p_com p) = false ->
     exists np pr, v_cur s = Some np /\ np_price np (p_com p) = Some pr /\ p_val p' = multiply (p_qty p) pr).
Proof. exact val_posting_value. Qed.
Print Assumptions C03_flow_at_booking_day.

(* a needed price that does not exist on the booking day is an error, not a number *)
Theorem C03_missing_price_fails : forall v s t p,
  is_zero (p_qty p) = false -> str_eqb v (p_com p) = false ->
  (match v_cur s with Some np => np_price np (p_com p) | None => None end) = None ->
  exists c, val_posting v s t p = RErr k_no_price c.
Proof. exact val_posting_missing_price. Qed.
Print Assumptions C03_missing_price_fails.

(* the revaluation gain is booked between the account and the income account mirroring its path *)
Theorem C03_gain_mirror : forall v date prev cur pos ts,
  val_adjustments v date prev cur pos = ROk ts ->
  Forall (fun t => t_date t = date /\
                   exists k0 a c q pp cp, In (k0, (a, c, q)) pos /\
                     np_price_opt prev c = Some pp /\ np_price_opt cur c = Some cp /\
                     t_postings t = pair_build (valuation_account_for a) a c dec_nil (multiply (sub cp pp) q)) ts.
Proof. exact val_adjustments_shape. Qed.
Print Assumptions C03_gain_mirror.
