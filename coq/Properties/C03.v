(* C03  Valued balances are mark-to-market at the latest known price.
   Specification vocabulary: Spec/MarkToMarketSpec.v (cell_value, cell_qty, cell_count, price_value,
   last_normalized: one cell (account, commodity) of the valued days, in rationals),
   Spec/PriceDaySpec.v (price_on: the prices in force on day k = normalisation of all declarations
   up to and including day k, C12), Spec/ValuationSpec.v (the closed form the runtime check
   evaluates on the binary's output: price_on, qty_upto, market_value, mtm_expected, within_bound,
   missing_price_b).  Model: Model/Pipeline.v valuate_proc, compute_prices_proc.

   Proved here (Proofs/ValuationProofs.v, Proofs/MarkToMarket.v):
   * the arithmetic core (Abel summation), the exact behaviour of one valuation step (booking-day
     value, oddness), the error of one Multiply as a rational: |multiply a b - a*b| <= 10^-8, = 0
     when the product has at most 8 decimals;
   * END TO END over days, C03_mark_to_market_stage / C03_mark_to_market: for the Valuate stage
     run from its initial state over any list of days (and for ComputePrices followed by
     Valuate), every asset/liability account a and commodity c <> V:
         | posted value of (a,c)  -  quantity(a,c,T) * price(c,T) |  <=  n_steps * 10^-8
     posted value = sum of the values the stage put on the cell's postings (bookings at their
     booking day + the daily "Adjust value" revaluations), quantity = exact sum of the booked
     quantities, price = the normalised price of the last day (= price_on of the declarations up
     to the last day; a day without declarations carries the previous prices forward:
     C03_prices_carried_forward), n_steps = number of the cell's postings after the stage = the
     number of Multiply calls that contributed (one per booking, one per revaluation); it is at
     most (bookings of the cell + number of days): C03_mark_to_market_input_bound.
     C03_mark_to_market_exact: no error at all when quantities have at most kq and prices at most
     kp decimals, kq + kp <= 8.  C03_held_has_price: a non-zero final quantity has a price (the
     0 that price_value returns for a missing price is never used).
     Induction over days with the invariant  V_d - Q_d * p_d = sum of one error per step, in
     delta form (C03_delta: from any reachable state), which also gives the window
     (C03_windowed_partial): value posted after the first k days = Q_T p_T - Q_k p_k +- n * 10^-8;
   * the shape of the revaluation transactions (gain between the account and the Income account
     mirroring its path, only for open asset/liability positions in a commodity other than V:
     C03_gain_mirror, C03_only_AL_revalued), accounts that are neither asset/liability nor Income
     get no revaluation posting at all (C03_other_accounts_not_revalued), and a missing price
     makes the stage fail (C03_missing_price_fails).
   Input side conditions of the end-to-end theorems (posting_in_ok): posting accounts are
   syntactically valid (account_ok: what the parser accepts) and a booking of quantity zero enters
   the stage with value zero (the builder creates every posting with the zero Value: proved,
   C03_built_days_in_ok; C03_mark_to_market_balance_prefix is the statement for the days that
   leave the valuate stage of the balance command's pipeline, with the validity of the posting
   accounts as the only side condition).

   ON THE RENDERED REPORT (second half of this file; Proofs/MarkToMarketReport.v, MarkToMarketWindow.v,
   MarkToMarketJournal.v, MarkToMarketFinal.v, MarkToMarketRow.v; vocabulary
   Spec/MarkToMarketReportSpec.v).  DESIGN.md section 7 states the window on the report,

     Theorem C03_windowed : is_AL a -> run_balance cfg J = Ok r ->
       | value_cell r a col - (sum_c Q_T(a,c) * p_T(c) - sum_c Q_s(a,c) * p_s(c)) | <= n_steps * 10^-8

   with T the last journal day <= col, s the last journal day before the window.  Proved, for
   Cli.balance_report on the syntax-level directives of the loaded files, every valuation commodity,
   window, interval, --last, with and without --close:
   * C03_report_cells (the valued analogue of C02_cells): the tree cell (a, col, c) of an
     asset/liability account = the sum of the values Valuate posted on (a, c) inside the window and
     attributed to col.  Filter drops whole days; CloseAccounts adds transactions between accounts
     that are neither assets nor liabilities only; Query/Report add exactly.
   * C03_windowed_cell (one commodity c <> V), C03_windowed_valuation_commodity (c = V: exact),
     C03_windowed (any list of commodities: the row), C03_windowed_expected (the row against
     Spec.ValuationSpec.mtm_expected, the decimal the runtime check computes),
     C03_mark_to_market_report (nothing booked before the window: value = Q_T p_T).
     Quantities and prices are those of Spec/ValuationSpec.v on the directives (qty_upto: bookings
     dated <= T; price_on: the declarations dated <= T in date order, journal order within a day,
     inserted and normalised: C12); the builder's days carry exactly these
     (C03_days_quantity_is_journal_quantity, C03_days_price_is_journal_price: the stable sort by
     date of the specification = the order of the days).  n_steps is a closed form of the input:
     bookings of the cell in the window + journal days in the window (+ period starts with
     --close) per commodity other than V (cell_steps, row_steps): an upper bound of the
     contributing Multiply calls.
   Side conditions of these theorems: postings_syntactic dl (what the parser guarantees for
   account names, as in C02/C04/C05: C03_syntactic_sufficient; account_ok on posting accounts is
   discharged from it, the value-zero condition by the builder); account_ok a; the account is
   shown as itself (shows_account: no mapping rule or remap moves it or another account onto it;
   other accounts may be shortened, swapped or hidden; true without --mapping and --remap,
   C03_shows_account_plain) and passes the --account/--commodity filters; the window is not empty and col is a period end.

   THE VERDICT OF THE RUNTIME CHECK HOLDS OF THE MODEL (last part of this file; Proofs/MarkToMarketSteps.v):
   the check accepts a valued cell when ValuationSpec.within_bound observed expected n with
   (expected, n) the column's entry of ValuationSpec.mtm_row, n = step_bound dl a W E = bookings of
   the account in the window + (dates of the journal in the window) * (held commodities) + 1.
   C03_model_meets_spec: for every configuration with a valuation commodity and every journal on
   which the balance command succeeds, every asset/liability account shown as itself and every
   column, mtm_row exists, has one entry per column, and the model's row lies within that
   allowance of the expected value (as rationals, and as the boolean within_bound:
   C03_within_bound_value).  The count behind it (C03_windowed_tight, row_steps_tight): Valuate
   skips a revaluation whose price difference is zero (C03_no_revaluation_without_price_change) and
   ComputePrices carries the prices over a day without declarations, so a cell gains at most one
   posting per booking and one per day that declares a price; the days --close touches at the
   period starts carry nothing and never count (row_steps above charges them and every journal
   day: 7 against the allowance 5 in the example below; the tight count is 4).
   C03_step_bound_suffices: the tight count over the held commodities <= step_bound.

   ROWS AGGREGATED BY --mapping / SWAPPED BY --remap (Proofs/MarkToMarketMapped.v, vocabulary
   Spec/MarkToMarketMappedSpec.v): C03_windowed_mapped: a row b of asset/liability type, whatever
   the mapping rules and --remap do, shows the sum over the accounts that land on it (lands_on:
   remap, then the first matching rule; row_sources: the accounts with bookings in the journal that
   land on b and pass --account, each once; C03_sources_of: the executable list sources_of is one)
   of their mark-to-market changes, up to the sum of their step counts.  No shows_account condition;
   an account shown as itself is the case srcs = [a].

   THE EXPECTATION IS DEFINED (Proofs/MarkToMarketDefined.v): C03_held_price_every_day: if the balance
   command succeeds then on EVERY date T every commodity other than V of which an asset/liability
   account holds a non-zero quantity has a price in V from the declarations dated <= T (the run over
   the days dated <= T is a prefix of the successful run; C03_held_has_price on that prefix; the
   option-level link between the days' prices and ValuationSpec.price_on).  C03_expected_defined:
   hence market_value, mtm_expected (every window start, every date) and every entry of mtm_row are
   Some, for every asset/liability account with a valid name, whatever the mapping, the filters and
   the window; C03_expected_defined_journal_accounts: for the accounts the runtime check visits
   (al_accounts) the parser's guarantee is the only side condition.  The corner the definition of
   market_value respects: C03_held_commodity_has_price_refuted -- a commodity booked only with
   quantity zero is held, never priced, and the command succeeds; market_value skips it.

   THE VERDICT ON AGGREGATED ROWS (Spec/ValuationMappedSpec.v, Proofs/MarkToMarketMappedVerdict.v):
   C03_model_meets_spec_mapped: for every row b of asset/liability type, mtm_row_mapped (the sum over
   sources_of of mtm_expected, within the sum of step_bound) exists, every entry carries an
   expectation, and the model's row lies within the allowance.  Behind it C03_windowed_mapped_held
   (each aggregated account charged for its own commodities only) and C03_unbooked_cell (the
   instance "quantity zero, error zero" of the cell invariant: a cell without a booking of a
   non-zero quantity receives no value).

   REPORTS RESTRICTED BY --account / --commodity (Spec/ValuationWhereSpec.v, Proofs/MarkToMarketWhere.v; last
   part of this file): the filters are the Where predicate of the report's query -- they select what
   the report adds up, not what ComputePrices and Valuate see; prices of commodities that are not
   shown are still needed and used.  held_where = the held commodities c with cfg_where cfg a c;
   market_value_where / mtm_expected_where / step_bound_where / mtm_row_where / mtm_row_where_mapped:
   the sums above over held_where, for the accounts that pass --account (sources_of).
   C03_windowed_mapped_where and C03_model_meets_spec_where_mapped: the window and the verdict of the
   runtime check for EVERY configuration -- no hypothesis on mapping, remap or filters;
   C03_model_meets_spec_where for an account shown as itself; C03_filtered_out_row_zero;
   C03_where_unfiltered, C03_where_mapped_unfiltered: without filters the specification is the one
   above.

   NOT PROVED (decided on every run by evaluating mtm_row_where_mapped / within_bound on the binary's output
   and by the byte-exact correspondence of the model):
   * the printed row: that the renderer's collapsed line of a valued row is the sum over the
     commodity keys of the node and the cumulative presentation over the columns (C02_row_cumulative
     gives the latter per key); value_cell here is the sum of the tree's cells. *)
From Coq Require Import ZArith QArith Qabs List Bool.
From Knut Require Import Model.Str Model.Dec Model.Account Model.Ledger Model.Price Model.Journal Model.Check Model.Pipeline
     Spec.WellformedSpec Spec.MarkToMarketSpec Spec.PriceDaySpec
     Proofs.DecProofs Proofs.DecValue Proofs.PairProofs Proofs.ValuationProofs Proofs.MarkToMarket.
From Knut Require Model.Cli.
Import ListNotations.

(* booking values plus revaluations telescope to (last price) * (total quantity) *)
Theorem C03_abel : forall l p0 Q0,
  (abel_sum l p0 Q0 == last_price l p0 * total_qty l Q0 - p0 * Q0)%Q.
Proof. exact abel. Qed.
Print Assumptions C03_abel.

(* one multiplication step: exact when the product has at most 8 decimals, otherwise cut toward
   zero by less than 10^-8 (at the scale of the product's own exponent) *)
Theorem C03_truncation_step : forall d p,
  (0 <= p)%Z -> (ex d < - p)%Z ->
  let t := truncate d p in
  ex t = (- p)%Z /\
  (Z.abs (coef t) * pow10 (- p - ex d) <= Z.abs (coef d) < (Z.abs (coef t) + 1) * pow10 (- p - ex d))%Z /\
  ((0 <= coef d)%Z -> (0 <= coef t)%Z) /\ ((coef d <= 0)%Z -> (coef t <= 0)%Z).
Proof. exact truncate_error. Qed.
Print Assumptions C03_truncation_step.

Theorem C03_step_exact : forall a b, (- 8 <= ex a + ex b)%Z -> (dvalue (multiply a b) == dvalue a * dvalue b)%Q.
Proof. exact multiply_value_exact. Qed.
Print Assumptions C03_step_exact.

(* valuation is an odd function of the quantity: the two halves of a booking stay negatives *)
Theorem C03_step_odd : forall a b, multiply (neg a) b = neg (multiply a b).
Proof. exact multiply_neg_l. Qed.
Print Assumptions C03_step_odd.

(* every booking (income, expense and equity ones too) is valued at the price of its booking day *)
Theorem C03_flow_at_booking_day : forall v s t p s' p',
  val_posting v s t p = ROk (s', p') ->
  p_acc p' = p_acc p /\ p_other p' = p_other p /\ p_com p' = p_com p /\ p_qty p' = p_qty p /\
  (is_zero (p_qty p) = true -> p_val p' = p_val p) /\
  (is_zero (p_qty p) = false -> str_eqb v (p_com p) = true -> p_val p' = p_qty p) /\
  (is_zero (p_qty p) = false -> str_eqb v (p_com p) = false ->
     exists np pr, v_cur s = Some np /\ np_price np (p_com p) = Some pr /\ p_val p' = multiply (p_qty p) pr).
Proof. exact val_posting_value. Qed.
Print Assumptions C03_flow_at_booking_day.

(* a needed price that does not exist on the booking day is an error, not a number *)
Theorem C03_missing_price_fails : forall v s t p,
  is_zero (p_qty p) = false -> str_eqb v (p_com p) = false ->
  (match v_cur s with Some np => np_price np (p_com p) | None => None end) = None ->
  exists c, val_posting v s t p = RErr k_no_price c.
Proof. exact val_posting_missing_price. Qed.
Print Assumptions C03_missing_price_fails.

(* the revaluation gain is booked between the account and the income account mirroring its path *)
Theorem C03_gain_mirror : forall v date prev cur pos ts,
  val_adjustments v date prev cur pos = ROk ts ->
  Forall (fun t => t_date t = date /\
                   exists k0 a c q pp cp, In (k0, (a, c, q)) pos /\
                     np_price_opt prev c = Some pp /\ np_price_opt cur c = Some cp /\
                     t_postings t = pair_build (valuation_account_for a) a c dec_nil (multiply (sub cp pp) q)) ts.
Proof. exact val_adjustments_shape. Qed.
Print Assumptions C03_gain_mirror.

(* ------------------------------------------------------------------ end to end over days *)
Open Scope Q_scope.

(* one Multiply, as rationals: cut toward zero by at most 10^-8 *)
Theorem C03_multiply_error : forall a b, Qabs (dvalue (multiply a b) - dvalue a * dvalue b) <= 1 # 100000000.
Proof. exact merr_bound. Qed.
Print Assumptions C03_multiply_error.

(* the Valuate stage from its initial state over any list of days: posted value of an
   asset/liability cell = quantity * price of the last day, up to 10^-8 per contributing step *)
Theorem C03_mark_to_market_stage : forall v a c ds s' ds',
  account_ok a = true -> is_AL a = true -> c <> v ->
  Forall posting_in_ok (days_postings ds) ->
  process_days (valuate_proc v) val_init ds = ROk (s', ds') ->
  Qabs (cell_value a c (days_postings ds')
        - cell_qty a c (days_postings ds) * price_value (last_normalized None ds) c)
    <= inject_Z (cell_count a c (days_postings ds')) * (1 # 100000000).
Proof. exact mark_to_market_stage. Qed.
Print Assumptions C03_mark_to_market_stage.

(* ComputePrices then Valuate: the price is price_on of the declarations up to the last day *)
Theorem C03_mark_to_market : forall v a c ds0 s1 ds1 s2 ds2,
  account_ok a = true -> is_AL a = true -> c <> v -> ds0 <> [] ->
  Forall posting_in_ok (days_postings ds0) ->
  process_days (compute_prices_proc v) (mkCp [] None) ds0 = ROk (s1, ds1) ->
  process_days (valuate_proc v) val_init ds1 = ROk (s2, ds2) ->
  Qabs (cell_value a c (days_postings ds2)
        - cell_qty a c (days_postings ds0) * price_value (price_on v ds0 (pred (length ds0))) c)
    <= inject_Z (cell_count a c (days_postings ds2)) * (1 # 100000000).
Proof. exact mark_to_market_pipeline. Qed.
Print Assumptions C03_mark_to_market.

(* the prefix of the balance command (Model/Cli.v balance_report: load, touch for --close, check,
   prices, valuate): the value-zero side condition is discharged by the builder; what remains is
   the syntactic validity of the posting accounts *)
Theorem C03_mark_to_market_balance_prefix : forall l dl dates touch repaired v a c s0 days0 s1 ds1 s2 ds2,
  parse_directives l = MOk dl ->
  let days := b_days (if touch : bool then builder_touch (builder_of dl) dates else builder_of dl) in
  Forall (fun p => account_ok (p_acc p) = true) (days_postings days) ->
  account_ok a = true -> is_AL a = true -> c <> v -> days <> [] ->
  process_days (Cli.check_proc_current repaired) check_init days = ROk (s0, days0) ->
  process_days (compute_prices_proc v) (mkCp [] None) days0 = ROk (s1, ds1) ->
  process_days (valuate_proc v) (mkVal None None []) ds1 = ROk (s2, ds2) ->
  Qabs (cell_value a c (days_postings ds2)
        - cell_qty a c (days_postings days) * price_value (price_on v days (pred (length days))) c)
    <= inject_Z (cell_count a c (days_postings ds2)) * (1 # 100000000).
Proof. exact mark_to_market_balance_prefix. Qed.
Print Assumptions C03_mark_to_market_balance_prefix.

(* every journal the model builds satisfies the value-zero side condition *)
Theorem C03_built_days_in_ok : forall l dl dates touch,
  parse_directives l = MOk dl ->
  let days := b_days (if touch : bool then builder_touch (builder_of dl) dates else builder_of dl) in
  Forall (fun p => account_ok (p_acc p) = true) (days_postings days) ->
  Forall posting_in_ok (days_postings days).
Proof. exact built_days_in_ok. Qed.
Print Assumptions C03_built_days_in_ok.

(* the same with a step count read off the input: at most one revaluation per day for a cell *)
Theorem C03_mark_to_market_input_bound : forall v a c ds s' ds',
  account_ok a = true -> is_AL a = true -> c <> v ->
  Forall posting_in_ok (days_postings ds) ->
  process_days (valuate_proc v) val_init ds = ROk (s', ds') ->
  Qabs (cell_value a c (days_postings ds')
        - cell_qty a c (days_postings ds) * price_value (last_normalized None ds) c)
    <= inject_Z (cell_count a c (days_postings ds) + Z.of_nat (length ds)) * (1 # 100000000).
Proof. exact mark_to_market_stage_input_bound. Qed.
Print Assumptions C03_mark_to_market_input_bound.

(* no truncation at all when no product has more than 8 decimals *)
Theorem C03_mark_to_market_exact : forall v a c kq kp ds s' ds',
  account_ok a = true -> is_AL a = true -> c <> v ->
  (0 <= kq)%Z -> (kq + kp <= 8)%Z ->
  Forall posting_in_ok (days_postings ds) ->
  Forall (fun p => cellb a c p = true -> (- kq <= ex (p_qty p))%Z) (days_postings ds) ->
  Forall (fun d => forall pr, np_price_opt (d_normalized d) c = Some pr -> (- kp <= ex pr)%Z) ds ->
  process_days (valuate_proc v) val_init ds = ROk (s', ds') ->
  cell_value a c (days_postings ds') == cell_qty a c (days_postings ds) * price_value (last_normalized None ds) c.
Proof. exact mark_to_market_exact. Qed.
Print Assumptions C03_mark_to_market_exact.

(* a position that is not zero at the end has a price on the last day *)
Theorem C03_held_has_price : forall v a c ds s' ds',
  account_ok a = true -> is_AL a = true -> c <> v ->
  Forall posting_in_ok (days_postings ds) ->
  process_days (valuate_proc v) val_init ds = ROk (s', ds') ->
  ~ cell_qty a c (days_postings ds) == 0 ->
  exists pr, np_price_opt (last_normalized None ds) c = Some pr.
Proof. exact held_has_price. Qed.
Print Assumptions C03_held_has_price.

(* the invariant of the induction over days, from any state with a well-formed position map
   (sorted keys, entries keyed by their own account and commodity, asset/liability accounts only:
   every state the stage reaches, C03_positions_stay_wellformed) *)
Theorem C03_delta : forall v a c ds s s' ds',
  account_ok a = true -> is_AL a = true -> c <> v ->
  Forall posting_in_ok (days_postings ds) ->
  entries_ok (v_qty s) ->
  process_days (valuate_proc v) s ds = ROk (s', ds') ->
  v_prev s' = last_normalized (v_prev s) ds /\ entries_ok (v_qty s') /\
  posq a c (v_qty s') == posq a c (v_qty s) + cell_qty a c (days_postings ds) /\
  Qabs (cell_value a c (days_postings ds')
        - (posq a c (v_qty s') * price_value (v_prev s') c - posq a c (v_qty s) * price_value (v_prev s) c))
    <= inject_Z (cell_count a c (days_postings ds')) * (1 # 100000000).
Proof.
  intros v a c ds s s' ds' Ha HAL Hcv Hin Hs H.
  destruct (mtm_delta v a c ds s s' ds' Ha HAL Hcv Hin (proj1 (entries_ok_good a c _) Hs) H) as (B1 & B2 & B3 & B4).
  split; [exact B1|]. split; [exact (proj2 (entries_ok_good a c _) B2)|]. split; [exact B3|exact B4].
Qed.
Print Assumptions C03_delta.

Theorem C03_positions_stay_wellformed : forall v ds s s' ds',
  Forall posting_in_ok (days_postings ds) -> entries_ok (v_qty s) ->
  process_days (valuate_proc v) s ds = ROk (s', ds') -> entries_ok (v_qty s').
Proof. exact days_entries_ok. Qed.
Print Assumptions C03_positions_stay_wellformed.

(* the window on the days leaving the stage: the value posted on the days after the first |ds1| is
   the change of the market value between the end of ds1 and the end of the run.  (The statement
   on the report's cells is C03_windowed / C03_windowed_cell below.) *)
Theorem C03_windowed_partial : forall v a c ds1 ds2 s' out,
  account_ok a = true -> is_AL a = true -> c <> v ->
  Forall posting_in_ok (days_postings (ds1 ++ ds2)) ->
  process_days (valuate_proc v) val_init (ds1 ++ ds2) = ROk (s', out) ->
  Qabs (cell_value a c (days_postings (skipn (length ds1) out))
        - (cell_qty a c (days_postings (ds1 ++ ds2)) * price_value (last_normalized None (ds1 ++ ds2)) c
           - cell_qty a c (days_postings ds1) * price_value (last_normalized None ds1) c))
    <= inject_Z (cell_count a c (days_postings (skipn (length ds1) out))) * (1 # 100000000).
Proof. exact mark_to_market_window. Qed.
Print Assumptions C03_windowed_partial.

(* prices are carried forward: a day without declarations has the prices of the day before *)
Theorem C03_prices_carried_forward : forall v ds s' ds' k d d1 d2,
  process_days (compute_prices_proc v) (mkCp [] None) ds = ROk (s', ds') ->
  nth_error ds (S k) = Some d -> d_prices d = [] ->
  nth_error ds' k = Some d1 -> nth_error ds' (S k) = Some d2 ->
  d_normalized d2 = d_normalized d1.
Proof. exact normalized_carried_forward. Qed.
Print Assumptions C03_prices_carried_forward.

(* only open asset/liability positions in a commodity other than V are revalued *)
Theorem C03_only_AL_revalued : forall v date prev cur pos ts,
  val_adjustments v date prev cur pos = ROk ts ->
  Forall (fun t => exists k a c q gain, In (k, (a, c, q)) pos /\
                   is_AL a = true /\ str_eqb c v = false /\ is_zero q = false /\
                   t_postings t = pair_build (valuation_account_for a) a c dec_nil gain) ts.
Proof. exact val_adjustments_only_AL. Qed.
Print Assumptions C03_only_AL_revalued.

(* an account that is neither asset/liability nor Income (expenses, equity) never receives a
   revaluation posting: the stage leaves the number of postings of each of its cells unchanged,
   and each keeps the value of its booking day (C03_flow_at_booking_day) *)
Theorem C03_other_accounts_not_revalued : forall v b cb,
  account_ok b = true -> is_AL b = false -> acc_type b <> Some Income ->
  forall ds s s' ds',
  Forall posting_in_ok (days_postings ds) -> entries_ok (v_qty s) ->
  process_days (valuate_proc v) s ds = ROk (s', ds') ->
  cell_count b cb (days_postings ds') = cell_count b cb (days_postings ds).
Proof. exact other_accounts_not_revalued. Qed.
Print Assumptions C03_other_accounts_not_revalued.

(* the hypotheses are satisfiable, and the bound is not vacuous: two price changes (days 2 and 4)
   while the position of 1.5 A (+ 0.3 A on day 3 at the carried-forward price) is open.
   Posted 5.99999998 = 1.85185183 + 1.14814818 + 0.60000000 + 2.39999997 (2 bookings, 2
   revaluations); exact 1.8 * 3.33333333 = 5.999999994; difference 1.4e-8 <= 4e-8. *)
Example C03_example_two_price_changes :
  account_ok ex_a = true /\ is_AL ex_a = true /\ ex_c <> ex_v /\
  Forall posting_in_ok (days_postings ex_days) /\
  exists s1 ds1 s2 ds2,
    process_days (compute_prices_proc ex_v) (mkCp [] None) ex_days = ROk (s1, ds1) /\
    process_days (valuate_proc ex_v) val_init ds1 = ROk (s2, ds2) /\
    cell_count ex_a ex_c (days_postings ds2) = 4%Z /\
    Qred (cell_value ex_a ex_c (days_postings ds2)) = 299999999 # 50000000 /\
    Qred (cell_qty ex_a ex_c (days_postings ex_days)) = 9 # 5 /\
    Qred (price_value (price_on ex_v ex_days 3) ex_c) = 333333333 # 100000000.
Proof.
  split; [reflexivity|]. split; [reflexivity|]. split; [discriminate|]. split; [exact ex_days_in_ok|].
  do 4 eexists. split; [vm_compute; reflexivity|]. split; [vm_compute; reflexivity|].
  repeat split; vm_compute; reflexivity.
Qed.

(* ================================================================== on the rendered report *)
(* Vocabulary: Spec/MarkToMarketReportSpec.v (cum_cell, row_value: the report side; mv_cell, mv_row,
   cell_steps, row_steps: the journal side, on the directives as loaded) and Spec/ValuationSpec.v
   (price_on, qty_upto, market_value, mtm_expected: what the runtime check evaluates). *)
From Knut Require Import Model.Date Model.Report Model.Cli Spec.LedgerSpec Spec.LedgerSyntax Spec.MarkToMarketReportSpec
     Proofs.LedgerProofs Proofs.MarkToMarketReport Proofs.MarkToMarketWindow Proofs.MarkToMarketJournal
     Proofs.MarkToMarketFinal Proofs.MarkToMarketRow.
From Knut Require Spec.ValuationSpec.

(* the valued analogue of C02_cells: the cell of an asset/liability account a (tree node a, column
   col, commodity c) of a valued balance report holds the sum of the values the Valuate stage put
   on the postings of (a, c) dated inside the window and attributed to that column -- with and
   without --close (the closing transactions book between accounts that are neither assets nor
   liabilities), for every window, interval, --last *)
Theorem C03_report_cells : forall cfg ds r part V,
  bc_valuation cfg = Some V ->
  balance_report cfg ds = COk (r, part) ->
  exists dl dsP dsV,
    parse_directives ds = MOk dl /\
    new_partition (clip (mkPeriod (bc_from cfg) (bc_to cfg)) (journal_period dl)) (bc_interval cfg) (bc_last cfg) = POk part /\
    valued_run cfg V dl part dsP dsV /\
    (postings_syntactic dl ->
     forall a c col, account_ok a = true -> is_AL a = true -> shows_account cfg a -> cfg_where cfg a c = true ->
       rcell a (Some col, Some c) r ==
       LedgerProofs.qsum (fun dp => if in_span (span part) (fst dp) && in_col (periods part) col (fst dp) then cval a c dp else 0)
                         (LedgerProofs.days_postings dsV)).
Proof. exact valued_report_cells. Qed.
Print Assumptions C03_report_cells.

(* THE WINDOW, per commodity (DESIGN.md section 7 C03_windowed, one summand of the sum over c):
   for a journal as loaded (ds: the syntax-level directives of all files), any configuration with a
   valuation commodity V, and the report r the balance command builds:
     | cells of (a, c) cumulated up to the period end col  -  (Q_col p_col - Q_s p_s) |  <=  n * 10^-8
   Q_T = exact sum of the bookings of (a, c) dated <= T (ValuationSpec.qty_upto), p_T = price of c
   in V from the declarations dated <= T, inserted in date order and normalised
   (ValuationSpec.price_on: C12), s = the day before the window, n = bookings of (a, c) in the
   window + days of the journal in the window (+ the period starts with --close): an upper bound
   of the Multiply calls that contribute.
   Side conditions: the parser's guarantee on account names (postings_syntactic, implied by
   WellformedSpec.syntactic: C03_syntactic_sufficient); the account is shown as itself
   (shows_account: holds without --mapping/--remap, C03_shows_account_plain) and passes the
   --account/--commodity filters; the window is not empty; col is one of the report's columns. *)
Theorem C03_windowed_cell : forall cfg ds r part V,
  bc_valuation cfg = Some V ->
  balance_report cfg ds = COk (r, part) ->
  exists dl,
    parse_directives ds = MOk dl /\
    new_partition (clip (mkPeriod (bc_from cfg) (bc_to cfg)) (journal_period dl)) (bc_interval cfg) (bc_last cfg) = POk part /\
    (postings_syntactic dl ->
     forall a c col, account_ok a = true -> is_AL a = true -> shows_account cfg a -> cfg_where cfg a c = true -> c <> V ->
       (p_start (span part) <= p_end (span part))%Z -> In col (end_dates part) ->
       Qabs (cum_cell a c part col r
             - (mv_cell dl V a c col - mv_cell dl V a c (p_start (span part) - 1)))
         <= inject_Z (cell_steps cfg dl part a c col) * (1 # 100000000)).
Proof. exact windowed_report. Qed.
Print Assumptions C03_windowed_cell.

(* the valuation commodity itself is carried at its quantity: no Multiply, no error *)
Theorem C03_windowed_valuation_commodity : forall cfg ds r part V,
  bc_valuation cfg = Some V ->
  balance_report cfg ds = COk (r, part) ->
  exists dl,
    parse_directives ds = MOk dl /\
    new_partition (clip (mkPeriod (bc_from cfg) (bc_to cfg)) (journal_period dl)) (bc_interval cfg) (bc_last cfg) = POk part /\
    (postings_syntactic dl ->
     forall a col, account_ok a = true -> is_AL a = true -> shows_account cfg a -> cfg_where cfg a V = true ->
       (p_start (span part) <= p_end (span part))%Z -> In col (end_dates part) ->
       cum_cell a V part col r == mv_cell dl V a V col - mv_cell dl V a V (p_start (span part) - 1)).
Proof. exact windowed_report_V. Qed.
Print Assumptions C03_windowed_valuation_commodity.

(* THE WINDOW, the whole row (DESIGN.md C03_windowed): a valued row adds up the commodities of the
   account; over any list of commodities (that pass the filters)
     | sum_c cells(a, c, <= col)  -  (sum_c Q_col p_col - sum_c Q_s p_s) |  <=  n_steps * 10^-8 *)
Theorem C03_windowed : forall cfg ds r part V,
  bc_valuation cfg = Some V ->
  balance_report cfg ds = COk (r, part) ->
  exists dl,
    parse_directives ds = MOk dl /\
    new_partition (clip (mkPeriod (bc_from cfg) (bc_to cfg)) (journal_period dl)) (bc_interval cfg) (bc_last cfg) = POk part /\
    (postings_syntactic dl ->
     forall a col coms, account_ok a = true -> is_AL a = true -> shows_account cfg a ->
       (forall c, In c coms -> cfg_where cfg a c = true) ->
       (p_start (span part) <= p_end (span part))%Z -> In col (end_dates part) ->
       Qabs (row_value a part col r coms
             - (mv_row dl V a col coms - mv_row dl V a (p_start (span part) - 1) coms))
         <= inject_Z (row_steps cfg dl part V a col coms) * (1 # 100000000)).
Proof. exact windowed_row. Qed.
Print Assumptions C03_windowed.

(* ... against the number the runtime check computes (Spec.ValuationSpec.mtm_expected, exact
   decimals): over the commodities the account holds *)
Theorem C03_windowed_expected : forall cfg ds r part V,
  bc_valuation cfg = Some V ->
  balance_report cfg ds = COk (r, part) ->
  exists dl,
    parse_directives ds = MOk dl /\
    new_partition (clip (mkPeriod (bc_from cfg) (bc_to cfg)) (journal_period dl)) (bc_interval cfg) (bc_last cfg) = POk part /\
    (postings_syntactic dl ->
     forall a col e, account_ok a = true -> is_AL a = true -> shows_account cfg a ->
       (forall c, cfg_where cfg a c = true) ->
       (p_start (span part) <= p_end (span part))%Z -> In col (end_dates part) ->
       ValuationSpec.mtm_expected dl V a (p_start (span part)) col = Some e ->
       let coms := ValuationSpec.held_commodities (flat_postings dl) a in
       Qabs (row_value a part col r coms - dvalue e)
         <= inject_Z (row_steps cfg dl part V a col coms) * (1 # 100000000)).
Proof. exact windowed_row_expected. Qed.
Print Assumptions C03_windowed_expected.

Theorem C03_market_value_sum : forall dl V a T x,
  ValuationSpec.market_value dl V a T = Some x ->
  dvalue x == mv_row dl V a T (ValuationSpec.held_commodities (flat_postings dl) a).
Proof. exact market_value_sum. Qed.
Print Assumptions C03_market_value_sum.

(* the corollary of DESIGN.md for windows that cover the bookings of the position (the default
   window starts at the first transaction): the value shown is quantity * latest price *)
Theorem C03_mark_to_market_report : forall cfg ds r part V,
  bc_valuation cfg = Some V ->
  balance_report cfg ds = COk (r, part) ->
  exists dl,
    parse_directives ds = MOk dl /\
    new_partition (clip (mkPeriod (bc_from cfg) (bc_to cfg)) (journal_period dl)) (bc_interval cfg) (bc_last cfg) = POk part /\
    (postings_syntactic dl ->
     forall a c col, account_ok a = true -> is_AL a = true -> shows_account cfg a -> cfg_where cfg a c = true -> c <> V ->
       (p_start (span part) <= p_end (span part))%Z -> In col (end_dates part) ->
       no_booking_before dl a c (p_start (span part)) ->
       Qabs (cum_cell a c part col r - mv_cell dl V a c col)
         <= inject_Z (cell_steps cfg dl part a c col) * (1 # 100000000)).
Proof. exact mark_to_market_report. Qed.
Print Assumptions C03_mark_to_market_report.

(* the links between the two vocabularies: quantities and prices read off the builder's days
   (C03_mark_to_market, C03_windowed_partial above) are those of the directives *)
Theorem C03_days_quantity_is_journal_quantity : forall close dl part a c T,
  qty_on_days a c (built_days close dl part) T == dvalue (ValuationSpec.qty_upto (flat_postings dl) a c T).
Proof. exact qty_on_days_journal. Qed.
Print Assumptions C03_days_quantity_is_journal_quantity.

Theorem C03_days_price_is_journal_price : forall close dl part V c T, c <> V ->
  price_on_days V c (built_days close dl part) T = price_q (ValuationSpec.price_on dl V c T).
Proof. exact price_on_days_journal. Qed.
Print Assumptions C03_days_price_is_journal_price.

(* the side conditions *)
Theorem C03_shows_account_plain : forall cfg a, bc_mapping cfg = [] -> bc_remap cfg = [] -> shows_account cfg a.
Proof. exact shows_account_plain. Qed.
Print Assumptions C03_shows_account_plain.

Theorem C03_syntactic_sufficient : forall ds dl,
  (forall dl', parse_directives ds = MOk dl' -> syntactic dl') -> parse_directives ds = MOk dl -> postings_syntactic dl.
Proof. exact syntactic_loaded. Qed.
Print Assumptions C03_syntactic_sufficient.

(* Both sides evaluated on a valued, windowed report with --close (Proofs/MarkToMarketFinal.v
   exr_journal): Assets:B buys 1.5 A on 2021-03-01 and 0.3 A on 03-03; A costs 1.23456789 C on
   03-01, 2.00000001 C on 03-02, 3.33333333 C on 03-04; daily columns over 03-02 .. 03-04, so the
   first purchase lies before the window.  Column 03-02: 1.14814818 = 1.5 * (2.00000001 -
   1.23456789) exactly.  Column 03-04: the report shows 4.14814815, the closed form gives
   1.8 * 3.33333333 - 1.5 * 1.23456789 = 4.148148159; difference 9e-9 <= 7e-8. *)
Example C03_example_windowed_report :
  match balance_report (exr_cfg true) exr_journal, parse_directives exr_journal with
  | COk (r, part), MOk dl =>
    let W := p_start (span part) in
    let col1 := (exr_d0 + 1)%Z in let col3 := (exr_d0 + 3)%Z in
    postings_syntactic_b dl = true /\ account_ok exr_a = true /\ is_AL exr_a = true /\
    cfg_where (exr_cfg true) exr_a exr_c = true /\ exr_c <> exr_V /\
    end_dates part = [col1; (exr_d0 + 2)%Z; col3] /\ W = col1 /\
    Qred (cum_cell exr_a exr_c part col1 r) = 57407409 # 50000000 /\
    Qred (mv_cell dl exr_V exr_a exr_c col1 - mv_cell dl exr_V exr_a exr_c (W - 1)) = 57407409 # 50000000 /\
    Qred (cum_cell exr_a exr_c part col3 r) = 82962963 # 20000000 /\
    Qred (mv_cell dl exr_V exr_a exr_c col3 - mv_cell dl exr_V exr_a exr_c (W - 1)) = 4148148159 # 1000000000 /\
    cell_steps (exr_cfg true) dl part exr_a exr_c col3 = 7%Z /\
    ValuationSpec.mtm_expected dl exr_V exr_a W col3 = Some (mkDec 4148148159 (-9))
  | _, _ => False
  end.
Proof. vm_compute. repeat split; discriminate. Qed.

(* ================================================================== the verdict of the runtime check *)
(* Vocabulary: Spec/ValuationSpec.v mtm_row, mtm_expected, step_bound, within_bound (what
   Extract/drv/drv_c03.ml evaluates on the binary's output); Proofs/MarkToMarketSteps.v
   cell_steps_tight, row_steps_tight (bookings of the cell in the window + dates of the journal in
   the window, per commodity other than V; nothing for --close). *)
From Knut Require Import Proofs.MarkToMarketSteps.

(* no price moved between two days: Valuate books no revaluation at all *)
Theorem C03_no_revaluation_without_price_change : forall v date p pos ts,
  val_adjustments v date p p pos = ROk ts -> ts = [].
Proof. exact adj_same. Qed.
Print Assumptions C03_no_revaluation_without_price_change.

(* THE WINDOW, the whole row, with the count that ignores days without a price declaration and the
   days --close adds *)
Theorem C03_windowed_tight : forall cfg ds r part V,
  bc_valuation cfg = Some V ->
  balance_report cfg ds = COk (r, part) ->
  exists dl,
    parse_directives ds = MOk dl /\
    new_partition (clip (mkPeriod (bc_from cfg) (bc_to cfg)) (journal_period dl)) (bc_interval cfg) (bc_last cfg) = POk part /\
    (postings_syntactic dl ->
     forall a col coms, account_ok a = true -> is_AL a = true -> shows_account cfg a ->
       (forall c, In c coms -> cfg_where cfg a c = true) ->
       (p_start (span part) <= p_end (span part))%Z -> In col (end_dates part) ->
       Qabs (row_value a part col r coms
             - (mv_row dl V a col coms - mv_row dl V a (p_start (span part) - 1) coms))
         <= inject_Z (row_steps_tight dl V a (p_start (span part)) col coms) * (1 # 100000000)).
Proof. exact windowed_row_tight. Qed.
Print Assumptions C03_windowed_tight.

(* that count, over the commodities the account holds, is within the allowance of the check *)
Theorem C03_step_bound_suffices : forall dl V a W E,
  (row_steps_tight dl V a W E (ValuationSpec.held_commodities (flat_postings dl) a) <= ValuationSpec.step_bound dl a W E)%Z.
Proof. exact row_steps_step_bound. Qed.
Print Assumptions C03_step_bound_suffices.

(* the boolean the check evaluates is the inequality between the rational values *)
Theorem C03_within_bound_value : forall o e n,
  ValuationSpec.within_bound o e n = true <-> Qabs (dvalue o - dvalue e) <= inject_Z n * (1 # 100000000).
Proof. exact within_bound_value. Qed.
Print Assumptions C03_within_bound_value.

(* THE MODEL MEETS THE CHECK'S VERDICT: per column j of the report, with (Some e, n) the j-th entry
   of mtm_row (expected value and allowance as the check computes them from the directives), the
   row of the model's report is within n * 10^-8 of e; hence within_bound accepts every decimal
   that carries the row's value.  Side conditions as in C03_windowed_expected. *)
Theorem C03_model_meets_spec : forall cfg ds r part V,
  bc_valuation cfg = Some V ->
  balance_report cfg ds = COk (r, part) ->
  exists dl,
    parse_directives ds = MOk dl /\
    (postings_syntactic dl ->
     forall a, account_ok a = true -> is_AL a = true -> shows_account cfg a ->
       (forall c, cfg_where cfg a c = true) ->
       (p_start (span part) <= p_end (span part))%Z ->
       exists exps,
         ValuationSpec.mtm_row cfg dl a = Some exps /\ length exps = length (end_dates part) /\
         forall j col e n, nth_error (end_dates part) j = Some col -> nth_error exps j = Some (Some e, n) ->
           let coms := ValuationSpec.held_commodities (flat_postings dl) a in
           Qabs (row_value a part col r coms - dvalue e) <= inject_Z n * (1 # 100000000) /\
           forall o, dvalue o == row_value a part col r coms -> ValuationSpec.within_bound o e n = true).
Proof. exact model_meets_spec. Qed.
Print Assumptions C03_model_meets_spec.

(* The hypotheses are satisfiable and the step counts differ as described: the valued, windowed
   report with --close of C03_example_windowed_report.  mtm_row gives the allowances 2, 4, 5 for the
   three columns; the tight count of the model is 1, 3, 4; row_steps of C03_windowed charges 4, 6, 7
   (a revaluation on every journal day and on the three period starts), which did not imply the
   check's allowance.  The rows the model shows lie within the allowance. *)
Example C03_example_model_meets_spec :
  match balance_report (exr_cfg true) exr_journal, parse_directives exr_journal with
  | COk (r, part), MOk dl =>
    let coms := ValuationSpec.held_commodities (flat_postings dl) exr_a in
    let W := p_start (span part) in
    postings_syntactic_b dl = true /\ account_ok exr_a = true /\ is_AL exr_a = true /\
    ValuationSpec.mtm_row (exr_cfg true) dl exr_a
      = Some [(Some (mkDec 1148148180 (-9)), 2%Z); (Some (mkDec 1748148183 (-9)), 4%Z); (Some (mkDec 4148148159 (-9)), 5%Z)] /\
    map (fun col => row_steps_tight dl exr_V exr_a W col coms) (end_dates part) = [1; 3; 4]%Z /\
    map (fun col => row_steps (exr_cfg true) dl part exr_V exr_a col coms) (end_dates part) = [4; 6; 7]%Z /\
    map (fun col => Qred (row_value exr_a part col r coms)) (end_dates part)
      = [57407409 # 50000000; 87407409 # 50000000; 82962963 # 20000000] /\
    ValuationSpec.within_bound (mkDec 414814815 (-8)) (mkDec 4148148159 (-9)) 5 = true
  | _, _ => False
  end.
Proof. vm_compute. repeat split; discriminate. Qed.

(* ================================================================== rows aggregated by --mapping / --remap *)
From Knut Require Import Spec.MarkToMarketMappedSpec Proofs.MarkToMarketMapped.
Open Scope Q_scope.

(* THE WINDOW for any row of asset/liability type: with srcs the accounts of the journal that remap
   and the mapping rules send onto b (and that pass --account), over any list of commodities that
   pass --commodity:
     | row b  -  sum_{a in srcs} (sum_c Q_col(a,c) p_col(c) - sum_c Q_s(a,c) p_s(c)) |  <=  sum_{a in srcs} n_steps(a) * 10^-8
   n_steps(a) the tight count of C03_windowed_tight.  Side conditions: the parser's guarantee on
   account names, b syntactically valid, the window is not empty, col is a period end. *)
Theorem C03_windowed_mapped : forall cfg ds r part V,
  bc_valuation cfg = Some V ->
  balance_report cfg ds = COk (r, part) ->
  exists dl,
    parse_directives ds = MOk dl /\
    new_partition (clip (mkPeriod (bc_from cfg) (bc_to cfg)) (journal_period dl)) (bc_interval cfg) (bc_last cfg) = POk part /\
    (postings_syntactic dl ->
     forall b srcs col coms, account_ok b = true -> is_AL b = true -> row_sources cfg dl b srcs ->
       (forall c, In c coms -> com_pass cfg c = true) ->
       (p_start (span part) <= p_end (span part))%Z -> In col (end_dates part) ->
       Qabs (row_value b part col r coms
             - (mv_row_sum dl V srcs col coms - mv_row_sum dl V srcs (p_start (span part) - 1) coms))
         <= inject_Z (steps_sum dl V srcs (p_start (span part)) col coms) * (1 # 100000000)).
Proof. exact windowed_row_mapped. Qed.
Print Assumptions C03_windowed_mapped.

(* the aggregated accounts exist as an executable list *)
Theorem C03_sources_of : forall cfg dl b, postings_syntactic dl -> row_sources cfg dl b (sources_of cfg dl b).
Proof. exact sources_of_spec. Qed.
Print Assumptions C03_sources_of.

(* remap and the mapping rules keep an account in its class: what lands on an asset/liability row is
   an asset or a liability (so CloseAccounts and the Income mirrors never reach such a row) *)
Theorem C03_lands_class : forall cfg b a,
  account_ok a = true -> account_ok b = true -> lands_on cfg b a = true -> is_AL a = is_AL b.
Proof. exact lands_class. Qed.
Print Assumptions C03_lands_class.

(* Both sides on a report with --mapping 2 and --close (Proofs/MarkToMarketMapped.v exm_journal):
   Assets:B:X buys 1.5 A before the window, Assets:B:Y 0.3 A inside; both are shown on the row
   Assets:B, which carries the numbers of C03_example_windowed_report; the accounts themselves have
   no row. *)
Example C03_example_mapped_row :
  match balance_report exm_cfg exm_journal, parse_directives exm_journal with
  | COk (r, part), MOk dl =>
    let W := p_start (span part) in
    let srcs := sources_of exm_cfg dl exm_b in
    postings_syntactic_b dl = true /\ account_ok exm_b = true /\ is_AL exm_b = true /\
    srcs = [exm_x; exm_y] /\ com_pass exm_cfg exr_c = true /\
    map (fun col => Qred (row_value exm_b part col r [exr_c])) (end_dates part)
      = [57407409 # 50000000; 87407409 # 50000000; 82962963 # 20000000] /\
    map (fun col => Qred (mv_row_sum dl exr_V srcs col [exr_c] - mv_row_sum dl exr_V srcs (W - 1) [exr_c])) (end_dates part)
      = [57407409 # 50000000; 1748148183 # 1000000000; 4148148159 # 1000000000] /\
    map (fun col => steps_sum dl exr_V srcs W col [exr_c]) (end_dates part) = [2; 5; 7]%Z /\
    map (fun col => Qred (row_value exm_x part col r [exr_c])) (end_dates part) = [0; 0; 0]
  | _, _ => False
  end.
Proof. vm_compute. repeat split; discriminate. Qed.

(* ================================================================== the expectation is defined *)
From Knut Require Import Proofs.MarkToMarketDefined.

(* THE CONTRAPOSITIVE OF C03_missing_price_fails ON THE REPORT: if the balance command succeeds, then
   on EVERY date T (not only the last day, C03_held_has_price) every commodity other than V of which
   an asset/liability account holds a non-zero quantity (exact sum of the bookings dated <= T) has a
   price in V from the declarations dated <= T.  The run over the days dated <= T is a prefix of the
   successful run; a position that is open at the start of a day is revalued, which fails without
   the day's price, and a booking of a non-zero quantity fails without the price of its day. *)
Theorem C03_held_price_every_day : forall cfg ds r part V,
  bc_valuation cfg = Some V ->
  balance_report cfg ds = COk (r, part) ->
  exists dl,
    parse_directives ds = MOk dl /\
    (postings_syntactic dl ->
     forall a c T, account_ok a = true -> is_AL a = true -> c <> V ->
       is_zero (ValuationSpec.qty_upto (flat_postings dl) a c T) = false ->
       exists pr, ValuationSpec.price_on dl V c T = Some pr).
Proof. exact held_price_report. Qed.
Print Assumptions C03_held_price_every_day.

(* A SUCCESSFUL RUN HAS EVERY PRICE THE CHECK'S EXPECTATION NEEDS: for every configuration with a
   valuation commodity and every journal on which the balance command succeeds, every asset/liability
   account with a valid name -- shown as itself or not, passing the filters or not, whatever the
   window -- has a market value on every date, hence mtm_expected is Some for every window start and
   column date, and every entry of mtm_row carries an expectation.  Together with
   C03_model_meets_spec: the clause "nth_error exps j = Some (Some e, n)" there holds for every j. *)
Theorem C03_expected_defined : forall cfg ds r part V,
  bc_valuation cfg = Some V ->
  balance_report cfg ds = COk (r, part) ->
  exists dl,
    parse_directives ds = MOk dl /\
    (postings_syntactic dl ->
     forall a, account_ok a = true -> is_AL a = true ->
       (forall T, exists x, ValuationSpec.market_value dl V a T = Some x) /\
       (forall W E, exists e, ValuationSpec.mtm_expected dl V a W E = Some e) /\
       exists exps,
         ValuationSpec.mtm_row cfg dl a = Some exps /\ length exps = length (end_dates part) /\
         forall j eo n, nth_error exps j = Some (eo, n) -> exists e, eo = Some e).
Proof. exact expected_defined. Qed.
Print Assumptions C03_expected_defined.

(* for the accounts the runtime check visits (ValuationSpec.al_accounts: the asset/liability accounts
   of the journal's bookings) the parser's guarantee is the only side condition *)
Theorem C03_expected_defined_journal_accounts : forall cfg ds r part V,
  bc_valuation cfg = Some V ->
  balance_report cfg ds = COk (r, part) ->
  exists dl,
    parse_directives ds = MOk dl /\
    (postings_syntactic dl ->
     forall a, In a (ValuationSpec.al_accounts dl) ->
       exists exps,
         ValuationSpec.mtm_row cfg dl a = Some exps /\ length exps = length (end_dates part) /\
         forall j eo n, nth_error exps j = Some (eo, n) -> exists e, eo = Some e).
Proof. exact expected_defined_accounts. Qed.
Print Assumptions C03_expected_defined_journal_accounts.

(* The corner that the definition of market_value has to respect (and does: it skips a commodity whose
   quantity is zero): "every commodity among held_commodities has a price whenever the run succeeds"
   is FALSE.  A booking of quantity zero asks Valuate for no price; the commodity is still among the
   held commodities of the account.  Witness: the journal of C03_example_windowed_report with an
   additional booking of 0 Z on 03-03, Z never priced.  The command succeeds, Z is held by Assets:B,
   price_on is None on the last column date, and mtm_row is nevertheless defined in every column. *)
Theorem C03_held_commodity_has_price_refuted :
  exists cfg ds r part V dl a c T,
    bc_valuation cfg = Some V /\ balance_report cfg ds = COk (r, part) /\ parse_directives ds = MOk dl /\
    postings_syntactic_b dl = true /\ account_ok a = true /\ is_AL a = true /\
    In c (ValuationSpec.held_commodities (flat_postings dl) a) /\ In T (end_dates part) /\
    ValuationSpec.price_on dl V c T = None /\
    ValuationSpec.mtm_row cfg dl a
      = Some [(Some (mkDec 1148148180 (-9)), 3%Z); (Some (mkDec 1748148183 (-9)), 7%Z); (Some (mkDec 4148148159 (-9)), 9%Z)].
Proof.
  destruct (balance_report (exr_cfg true) exd_journal) as [[r part]| |] eqn:Er; [|vm_compute in Er; discriminate..].
  destruct (parse_directives exd_journal) as [dl| |] eqn:Ep; [|vm_compute in Ep; discriminate..].
  exists (exr_cfg true), exd_journal, r, part, exr_V, dl, exr_a, exd_z, (exr_d0 + 3)%Z.
  split; [reflexivity|]. split; [exact Er|]. split; [exact Ep|].
  vm_compute in Er. injection Er as <- <-. vm_compute in Ep. injection Ep as <-.
  vm_compute. repeat split; try discriminate; auto.
Qed.
Print Assumptions C03_held_commodity_has_price_refuted.

(* ================================================================== the verdict of the runtime check on aggregated rows *)
(* Vocabulary: Spec/ValuationMappedSpec.v (what Extract/drv/drv_c03.ml evaluates on a row of the
   binary's report that --mapping / --remap aggregate or move): target_of (the row an account is
   shown on), mtm_row_mapped cfg dl b = (sources_of cfg dl b, per column (expected_sum, bound_sum)):
   the sum over the accounts that land on b of ValuationSpec.mtm_expected and of
   ValuationSpec.step_bound.  Proofs/MarkToMarketMappedVerdict.v. *)
From Knut Require Import Spec.ValuationMappedSpec Proofs.MarkToMarketMappedVerdict.

(* a cell without a booking of a non-zero quantity: from a state in which its position is zero, the
   Valuate stage keeps the position at zero and the values it posts on the cell add up to zero (a
   zero position is never revalued; a zero quantity is valued at zero) -- the instance "quantity is
   zero, no error" of the invariant behind C03_delta *)
Theorem C03_unbooked_cell : forall v a c ds s s' ds',
  account_ok a = true -> is_AL a = true -> c <> v ->
  Forall posting_in_ok (MarkToMarketSpec.days_postings ds) ->
  Forall (fun p => cellb a c p = true -> is_zero (p_qty p) = true) (MarkToMarketSpec.days_postings ds) ->
  good a c PZ (v_qty s) -> posq a c (v_qty s) == 0 ->
  process_days (valuate_proc v) s ds = ROk (s', ds') ->
  good a c PZ (v_qty s') /\ posq a c (v_qty s') == 0 /\ cell_value a c (MarkToMarketSpec.days_postings ds') == 0.
Proof. exact unbooked_delta. Qed.
Print Assumptions C03_unbooked_cell.

(* C03_windowed_mapped with every aggregated account charged for its own commodities only: coms is
   any duplicate-free list of commodities that pass --commodity and contains what the aggregated
   accounts hold (the commodity keys of the row); an account contributes nothing under a commodity
   it has no booking in (C03_unbooked_cell), so its market value and its steps are those over its
   own held commodities *)
Theorem C03_windowed_mapped_held : forall cfg ds r part V,
  bc_valuation cfg = Some V ->
  balance_report cfg ds = COk (r, part) ->
  exists dl,
    parse_directives ds = MOk dl /\
    new_partition (clip (mkPeriod (bc_from cfg) (bc_to cfg)) (journal_period dl)) (bc_interval cfg) (bc_last cfg) = POk part /\
    (postings_syntactic dl ->
     forall b srcs col coms, account_ok b = true -> is_AL b = true -> row_sources cfg dl b srcs ->
       NoDup coms -> (forall c, In c coms -> com_pass cfg c = true) ->
       (forall a, In a srcs -> incl (ValuationSpec.held_commodities (flat_postings dl) a) coms) ->
       (p_start (span part) <= p_end (span part))%Z -> In col (end_dates part) ->
       Qabs (row_value b part col r coms
             - (mv_held_sum dl V srcs col - mv_held_sum dl V srcs (p_start (span part) - 1)))
         <= inject_Z (steps_held_sum dl V srcs (p_start (span part)) col) * (1 # 100000000)).
Proof. exact windowed_row_mapped_held. Qed.
Print Assumptions C03_windowed_mapped_held.

(* THE MODEL MEETS THE CHECK'S VERDICT ON EVERY ROW OF ASSET/LIABILITY TYPE, whatever --mapping and
   --remap do (no shows_account condition; an account shown as itself is the case srcs = [b], where
   mtm_row_mapped is mtm_row up to adding zero): the entry of mtm_row_mapped exists, lists the
   accounts the row adds up (row_sources), has one entry per column, EVERY entry carries an
   expectation (C03_expected_defined), and the model's row lies within the summed allowance of the
   summed expectation -- as rationals and as the boolean within_bound the check evaluates. *)
Theorem C03_model_meets_spec_mapped : forall cfg ds r part V,
  bc_valuation cfg = Some V ->
  balance_report cfg ds = COk (r, part) ->
  exists dl,
    parse_directives ds = MOk dl /\
    (postings_syntactic dl ->
     forall b, account_ok b = true -> is_AL b = true ->
       (p_start (span part) <= p_end (span part))%Z ->
       exists srcs exps,
         mtm_row_mapped cfg dl b = Some (srcs, exps) /\ row_sources cfg dl b srcs /\
         length exps = length (end_dates part) /\
         forall j col eo n, nth_error (end_dates part) j = Some col -> nth_error exps j = Some (eo, n) ->
           exists e, eo = Some e /\
           forall coms, NoDup coms -> (forall c, In c coms -> com_pass cfg c = true) ->
             (forall a, In a srcs -> incl (ValuationSpec.held_commodities (flat_postings dl) a) coms) ->
             Qabs (row_value b part col r coms - dvalue e) <= inject_Z n * (1 # 100000000) /\
             forall o, dvalue o == row_value b part col r coms -> ValuationSpec.within_bound o e n = true).
Proof. exact model_meets_spec_mapped. Qed.
Print Assumptions C03_model_meets_spec_mapped.

(* The report of C03_example_mapped_row (--mapping 2, --close): both accounts are shown on Assets:B
   (target_of); mtm_row_mapped of that row lists them and gives the expectations of
   C03_example_model_meets_spec with the allowances 4, 7, 9 (= 2 + 2, 4 + 3, 5 + 4: the two
   accounts' step_bound); the row the model shows lies within them; the accounts themselves are not
   rows: nothing lands on Assets:B:X. *)
Example C03_example_mapped_verdict :
  match balance_report exm_cfg exm_journal, parse_directives exm_journal with
  | COk (r, part), MOk dl =>
    postings_syntactic_b dl = true /\ account_ok exm_b = true /\ is_AL exm_b = true /\
    target_of exm_cfg exm_x = Some exm_b /\ target_of exm_cfg exm_y = Some exm_b /\
    mtm_row_mapped exm_cfg dl exm_b
      = Some ([exm_x; exm_y],
              [(Some (mkDec 1148148180 (-9)), 4%Z); (Some (mkDec 1748148183 (-9)), 7%Z); (Some (mkDec 4148148159 (-9)), 9%Z)]) /\
    map (fun col => Qred (row_value exm_b part col r [exr_c])) (end_dates part)
      = [57407409 # 50000000; 87407409 # 50000000; 82962963 # 20000000] /\
    ValuationSpec.within_bound (mkDec 414814815 (-8)) (mkDec 4148148159 (-9)) 9 = true /\
    fst (match mtm_row_mapped exm_cfg dl exm_x with Some x => x | None => ([exm_x], []) end) = []
  | _, _ => False
  end.
Proof. vm_compute. repeat split; discriminate. Qed.

(* ================================================================== reports restricted by --account / --commodity *)
(* Vocabulary: Spec/ValuationWhereSpec.v (what Extract/drv/drv_c03.ml evaluates on EVERY valued
   report): held_where cfg posts a = the commodities c account a holds with cfg_where cfg a c = true
   (a passes --account and c passes --commodity); market_value_where, mtm_expected_where: the sums of
   ValuationSpec over held_where instead of all held commodities -- prices (price_on) and quantities
   (qty_upto) are those of the whole journal: the filters are the Where predicate of the report's
   query, they do not reach ComputePrices or Valuate, the price of a shown commodity may go through
   commodities that are not shown; step_bound_where: one step per booking of the account in a shown
   commodity in the window, one per (date of the journal in the window, shown commodity), + 1;
   mtm_row_where (an account shown as itself), mtm_row_where_mapped (the sum over
   MarkToMarketMappedSpec.sources_of: the accounts that land on the row and pass --account).
   Proofs/MarkToMarketWhere.v.

   The theorems above carry the hypothesis "passes the filters" in the form (forall c, cfg_where cfg
   a c = true) (C03_windowed_expected, C03_model_meets_spec) or ask the list of commodities of the
   row to contain every commodity the aggregated accounts hold AND to pass --commodity
   (C03_windowed_mapped_held, C03_model_meets_spec_mapped), which a report with --commodity cannot
   satisfy when an account holds a commodity that is filtered out.  The theorems below have no
   hypothesis on the filters. *)
From Knut Require Import Spec.ValuationWhereSpec Proofs.MarkToMarketWhere.
Open Scope Q_scope.

(* the allowance: the tight count of C03_windowed_tight over the shown commodities *)
Theorem C03_step_bound_where_suffices : forall cfg dl V a W E,
  (row_steps_tight dl V a W E (held_where cfg (flat_postings dl) a) <= step_bound_where cfg dl a W E)%Z.
Proof. exact row_steps_step_bound_where. Qed.
Print Assumptions C03_step_bound_where_suffices.

(* the decimal the check computes is the rational sum over the shown commodities *)
Theorem C03_expected_where_sum : forall cfg dl V a W E e,
  mtm_expected_where cfg dl V a W E = Some e ->
  dvalue e == mv_row dl V a E (held_where cfg (flat_postings dl) a) - mv_row dl V a (W - 1) (held_where cfg (flat_postings dl) a).
Proof. exact mtm_expected_where_sum. Qed.
Print Assumptions C03_expected_where_sum.

(* THE MODEL MEETS THE CHECK'S VERDICT, FILTERS INCLUDED, for an account shown as itself: for every
   configuration with a valuation commodity and every journal on which the balance command succeeds,
   every asset/liability account shown as itself and every column, mtm_row_where exists, has one
   entry per column, EVERY entry carries an expectation, and the model's row -- the sum of the
   node's cells over the commodities the report shows of the account -- is within the allowance.
   (An account that does not pass --account has held_where = []: expectation 0, row 0.) *)
Theorem C03_model_meets_spec_where : forall cfg ds r part V,
  bc_valuation cfg = Some V ->
  balance_report cfg ds = COk (r, part) ->
  exists dl,
    parse_directives ds = MOk dl /\
    (postings_syntactic dl ->
     forall a, account_ok a = true -> is_AL a = true -> shows_account cfg a ->
       (p_start (span part) <= p_end (span part))%Z ->
       exists exps,
         mtm_row_where cfg dl a = Some exps /\ length exps = length (end_dates part) /\
         forall j col eo n, nth_error (end_dates part) j = Some col -> nth_error exps j = Some (eo, n) ->
           exists e, eo = Some e /\
           let coms := held_where cfg (flat_postings dl) a in
           Qabs (row_value a part col r coms - dvalue e) <= inject_Z n * (1 # 100000000) /\
           forall o, dvalue o == row_value a part col r coms -> ValuationSpec.within_bound o e n = true).
Proof. exact model_meets_spec_where. Qed.
Print Assumptions C03_model_meets_spec_where.

(* THE WINDOW for any row of asset/liability type of any valued report: whatever --mapping, --remap,
   --account, --commodity are, over any duplicate-free list coms of commodities that pass
   --commodity and contains what the aggregated accounts hold of those (the commodity keys of the
   row), the row is the sum over the accounts that land on it and pass --account (row_sources) of
   the mark-to-market change of what the report shows of them, up to the sum of their tight step
   counts. *)
Theorem C03_windowed_mapped_where : forall cfg ds r part V,
  bc_valuation cfg = Some V ->
  balance_report cfg ds = COk (r, part) ->
  exists dl,
    parse_directives ds = MOk dl /\
    new_partition (clip (mkPeriod (bc_from cfg) (bc_to cfg)) (journal_period dl)) (bc_interval cfg) (bc_last cfg) = POk part /\
    (postings_syntactic dl ->
     forall b srcs col coms, account_ok b = true -> is_AL b = true -> row_sources cfg dl b srcs ->
       NoDup coms -> (forall c, In c coms -> com_pass cfg c = true) ->
       (forall a, In a srcs -> incl (held_where cfg (flat_postings dl) a) coms) ->
       (p_start (span part) <= p_end (span part))%Z -> In col (end_dates part) ->
       Qabs (row_value b part col r coms
             - (mv_where_sum cfg dl V srcs col - mv_where_sum cfg dl V srcs (p_start (span part) - 1)))
         <= inject_Z (steps_where_sum cfg dl V srcs (p_start (span part)) col) * (1 # 100000000)).
Proof. exact windowed_row_mapped_where. Qed.
Print Assumptions C03_windowed_mapped_where.

(* THE MODEL MEETS THE CHECK'S VERDICT ON EVERY ROW OF ASSET/LIABILITY TYPE OF EVERY VALUED REPORT
   (no condition on the mapping, the remap or the filters): mtm_row_where_mapped exists, lists the
   accounts the row adds up, has one entry per column, every entry carries an expectation, and the
   model's row lies within the summed allowance of the summed expectation -- as rationals and as the
   boolean within_bound the check evaluates. *)
Theorem C03_model_meets_spec_where_mapped : forall cfg ds r part V,
  bc_valuation cfg = Some V ->
  balance_report cfg ds = COk (r, part) ->
  exists dl,
    parse_directives ds = MOk dl /\
    (postings_syntactic dl ->
     forall b, account_ok b = true -> is_AL b = true ->
       (p_start (span part) <= p_end (span part))%Z ->
       exists srcs exps,
         mtm_row_where_mapped cfg dl b = Some (srcs, exps) /\ row_sources cfg dl b srcs /\
         length exps = length (end_dates part) /\
         forall j col eo n, nth_error (end_dates part) j = Some col -> nth_error exps j = Some (eo, n) ->
           exists e, eo = Some e /\
           forall coms, NoDup coms -> (forall c, In c coms -> com_pass cfg c = true) ->
             (forall a, In a srcs -> incl (held_where cfg (flat_postings dl) a) coms) ->
             Qabs (row_value b part col r coms - dvalue e) <= inject_Z n * (1 # 100000000) /\
             forall o, dvalue o == row_value b part col r coms -> ValuationSpec.within_bound o e n = true).
Proof. exact model_meets_spec_where_mapped. Qed.
Print Assumptions C03_model_meets_spec_where_mapped.

(* a row on which no account that passes --account lands -- in particular an account shown as itself
   that does not pass -- is zero in every column, exactly, over the commodities that pass *)
Theorem C03_filtered_out_row_zero : forall cfg ds r part V,
  bc_valuation cfg = Some V ->
  balance_report cfg ds = COk (r, part) ->
  exists dl,
    parse_directives ds = MOk dl /\
    (postings_syntactic dl ->
     forall b col coms, account_ok b = true -> is_AL b = true -> sources_of cfg dl b = [] ->
       NoDup coms -> (forall c, In c coms -> com_pass cfg c = true) ->
       (p_start (span part) <= p_end (span part))%Z -> In col (end_dates part) ->
       row_value b part col r coms == 0).
Proof. exact filtered_out_row_zero. Qed.
Print Assumptions C03_filtered_out_row_zero.

(* the specification of filtered reports extends the old one: where every commodity of the account
   passes -- in particular without --account and --commodity -- it is mtm_row / mtm_row_mapped *)
Theorem C03_where_unfiltered : forall cfg dl a, (forall c, cfg_where cfg a c = true) ->
  mtm_row_where cfg dl a = ValuationSpec.mtm_row cfg dl a.
Proof. exact mtm_row_where_unfiltered. Qed.
Print Assumptions C03_where_unfiltered.

Theorem C03_where_mapped_unfiltered : forall cfg dl b, bc_accounts cfg = [] -> bc_commodities cfg = [] ->
  mtm_row_where_mapped cfg dl b = mtm_row_mapped cfg dl b.
Proof. exact mtm_row_where_mapped_unfiltered. Qed.
Print Assumptions C03_where_mapped_unfiltered.

(* A report with --commodity ^A$ (Proofs/MarkToMarketWhere.v exw_journal): Assets:B holds A and D; A
   is quoted in D only, D in the valuation commodity C, so the price of A in C goes through D, which
   the report does not show.  Daily columns over 03-02 .. 03-04, --close, the purchases of 03-01 lie
   before the window.  The report shows 1.125, 2.25, 4.5 (1.8 * 5 - 1.5 * 3 in the last column: the A
   of the account at 2 D * 2.5 C), nothing under D; mtm_row_where expects exactly that, within 2, 4, 5
   steps; the unfiltered expectation mtm_row (2.125, 3.25, 5.5: with the 2 D of the account) does not
   describe this report. *)
Example C03_example_filtered_report :
  match balance_report exw_cfg exw_journal, parse_directives exw_journal with
  | COk (r, part), MOk dl =>
    postings_syntactic_b dl = true /\ account_ok exr_a = true /\ is_AL exr_a = true /\
    ValuationSpec.held_commodities (flat_postings dl) exr_a = [exr_c; exw_d] /\
    held_where exw_cfg (flat_postings dl) exr_a = [exr_c] /\
    mtm_row_where exw_cfg dl exr_a
      = Some [(Some (mkDec 1125 (-3)), 2%Z); (Some (mkDec 2250 (-3)), 4%Z); (Some (mkDec 450 (-2)), 5%Z)] /\
    ValuationSpec.mtm_row exw_cfg dl exr_a
      = Some [(Some (mkDec 2125 (-3)), 3%Z); (Some (mkDec 3250 (-3)), 6%Z); (Some (mkDec 550 (-2)), 8%Z)] /\
    map (fun col => Qred (row_value exr_a part col r [exr_c])) (end_dates part) = [9 # 8; 9 # 4; 9 # 2] /\
    map (fun col => Qred (row_value exr_a part col r [exw_d])) (end_dates part) = [0; 0; 0] /\
    mtm_row_where_mapped exw_cfg dl exr_a
      = Some ([exr_a], [(Some (mkDec 1125 (-3)), 2%Z); (Some (mkDec 2250 (-3)), 4%Z); (Some (mkDec 450 (-2)), 5%Z)]) /\
    ValuationSpec.within_bound (mkDec 45 (-1)) (mkDec 450 (-2)) 5 = true
  | _, _ => False
  end.
Proof. vm_compute. repeat split; discriminate. Qed.
