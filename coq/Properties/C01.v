(* C01  Double-entry conservation: every complete report nets to zero.
   Theorem statements only.  Model: Model/Cli.v balance_table (the whole pipeline of
   `knut balance`: directives -> accrual expansion -> days -> check, prices, valuate, filter,
   close, query -> report trees -> table).  Vocabulary: Spec/BalanceSpec.v complete_cfg,
   Proofs/Conservation.v zero_cell. *)
From Coq Require Import ZArith QArith List Bool.
From Knut Require Import Model.Str Model.Dec Model.Date Model.Account Model.Ledger Model.Journal
     Model.Pipeline Model.Table Model.Report Model.Cli Spec.BalanceSpec
     Proofs.DecProofs Proofs.DecValue Proofs.PairProofs Proofs.ReportSum Proofs.Conservation.
Import ListNotations.

(* For every journal (any directives, accruals, prices, negative and zero amounts) and every
   configuration that filters and hides nothing (any window, interval, --last, --diff, --close,
   valuation commodity, --remap, mappings of level >= 1, sort order): if the command succeeds,
   the table ends with a block of rows labelled "Delta" followed by one separator row, and every
   numeric cell of that block is zero (is_zero, i.e. coefficient 0; the text renderer prints
   such a cell blank, the CSV renderer prints 0). *)
Theorem C01_delta_zero : forall cfg ds t,
  complete_cfg cfg = true ->
  balance_table cfg ds = COk t ->
  exists rows0 delta_rows sep,
    t_rows t = rows0 ++ delta_rows ++ [sep] /\
    Forall (Forall zero_cell) delta_rows /\
    (exists r rest, delta_rows = (CText s_Delta ALeft 0 :: r) :: rest).
Proof. exact delta_zero. Qed.
Print Assumptions C01_delta_zero.

(* the invariant behind it: every transaction that reaches the report -- user bookings,
   accrual legs, value adjustments, closing transactions -- is a list of posting pairs whose
   quantities and values are exact negatives of each other *)
Theorem C01_pairs_established : forall cr db com q v, paired (pair_build cr db com q v).
Proof. exact pair_build_paired. Qed.
Print Assumptions C01_pairs_established.

Theorem C01_pairs_from_journal : forall l ds,
  parse_directives l = MOk ds -> Forall day_ok (b_days (builder_of ds)).
Proof. intros l ds H. apply builder_of_ok. eapply parse_directives_ok. exact H. Qed.
Print Assumptions C01_pairs_from_journal.

Theorem C01_pairs_preserved_by_valuation : forall v s ds s' ds',
  Forall day_ok ds -> process_days (valuate_proc v) s ds = ROk (s', ds') -> Forall day_ok ds'.
Proof. exact valuate_stage_ok. Qed.
Print Assumptions C01_pairs_preserved_by_valuation.

Theorem C01_pairs_preserved_by_closing : forall cds s ds s' ds',
  Forall day_ok ds -> process_days (close_proc cds) s ds = ROk (s', ds') -> Forall day_ok ds'.
Proof. exact close_stage_ok. Qed.
Print Assumptions C01_pairs_preserved_by_closing.

(* inserting the two halves of a pair leaves every key's grand total (A+L plus E+I+E)
   unchanged; stated for the value sum over both report trees *)
Theorem C01_report_balanced : forall q f r ds r' ds',
  (forall a c, q_where q a c = true) -> (forall a, q_account q a <> ShHidden) ->
  balanced_report f r -> Forall day_ok ds ->
  process_days (query_proc q report_insert) r ds = ROk (r', ds') -> balanced_report f r'.
Proof. intros q f r ds r' ds' H1 H2. exact (query_stage_balanced q f H1 H2 r ds r' ds'). Qed.
Print Assumptions C01_report_balanced.

(* exact cancellation of a pair under decimal addition *)
Theorem C01_pair_cancels : forall d, is_zero (add d (neg d)) = true.
Proof. exact add_neg_zero. Qed.
Print Assumptions C01_pair_cancels.

(* non-vacuity: a two-currency journal with a valuation, closing and monthly columns *)
Open Scope Z_scope.
Example C01_example :
  let acc s := acc_of_name s in
  let A := [65;115;115;101;116;115;58;66] (* Assets:B *) in
  let E := [69;120;112;101;110;115;101;115;58;82] (* Expenses:R *) in
  let chf := [67;72;70] in let usd := [85;83;68] in
  let d0 := Date.of_civil 2020 1 5 in
  let ds := [ SOpen d0 (acc A); SOpen d0 (acc E);
              SPrice d0 usd (mkDec 95 (-2)) chf;
              SPrice (d0 + 40) usd (mkDec 91 (-2)) chf;
              STxn (mkStxn (d0 + 1) [] [mkBooking (acc A) (acc E) (mkDec 1234 (-2)) usd] None None);
              STxn (mkStxn (d0 + 50) [] [mkBooking (acc E) (acc A) (mkDec (-7) 0) chf] None None) ] in
  let cfg := mkBalanceCfg 0 (d0 + 90) Monthly 0 false true (Some chf) true [] [] [] [] [] true in
  complete_cfg cfg = true /\
  match balance_table cfg ds with COk t => (6 <=? Z.of_nat (length (t_rows t)))%Z = true | _ => False end.
Proof. vm_compute. split; reflexivity. Qed.
