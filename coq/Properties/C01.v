(* C01  Double-entry conservation: every complete report nets to zero.
   (placeholder while the proofs are being developed; see Proofs/ConservationProofs.v) *)
From Coq Require Import ZArith List Bool.
From Knut Require Import Model.Dec Proofs.DecProofs.
Open Scope Z_scope.

(* the two halves of a posting pair cancel exactly *)
Theorem C01_pair_cancels : forall d, is_zero (add d (neg d)) = true.
Proof. exact add_neg_zero. Qed.
Print Assumptions C01_pair_cancels.
