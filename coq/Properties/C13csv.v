(* C13  Importers: the step from the statement's BYTES to the records the importer models start from.
   Theorem statements only.

   Model: Model/Csv.v (Go's encoding/csv.Reader: csv_read_all cfg bytes, with the settings Comma, Comment,
   FieldsPerRecord, LazyQuotes, TrimLeadingSpace; the canonical writer csv_write: every field quoted, quotes doubled),
   Model/CsvImp.v (the settings of the importers, csv_items = the reader items the importer models Model/Imp/*.v take).
   Proofs: Proofs/CsvProofs.v, Proofs/CsvRoundtrip.v.  Tie: op C13.csv (harness/c13csv.go, drv_c13csv.ml) and the verdict
   csv-records of the importer cases (drv_c13a.ml, drv_c13b.ml).

   Side conditions of the round trip, all necessary (the Examples below show what happens without them):
   * the delimiters are valid (delims_ok: what readRecord checks first; ASCII in the model);
   * no record without fields: it is written as an empty line, and empty lines are skipped.  A record consisting of
     ONE EMPTY field is fine: the canonical writer writes it as two quotes;
   * no field contains a carriage return directly before a newline: readLine turns that pair into a newline, also inside
     a quoted field.  A carriage return anywhere else - alone, at the end of a field, before the closing quote - is kept;
   * the field counts are what FieldsPerRecord demands: negative - anything; positive - that many; zero - all as
     many as the first. *)
From Coq Require Import ZArith List Bool.
From Knut Require Import Model.Bytes Model.Csv Model.ImpCommonA Model.CsvImp Proofs.CsvProofs Proofs.CsvRoundtrip.
From Knut Require Import Model.CsvLatin1 Proofs.CsvLatin1Proofs Spec.CsvSettings Proofs.CsvLazy.
Import ListNotations.
Open Scope Z_scope.

(* Reading the text the canonical writer produces returns exactly the records, whatever bytes the fields contain
   (commas, quotes, newlines, lone carriage returns, leading blanks, non-ASCII, invalid UTF-8), under every setting of
   LazyQuotes, TrimLeadingSpace and Comment. *)
Theorem C13_csv_roundtrip : forall (cfg : csv_cfg) (rs : list (list str)),
  delims_ok cfg = true ->
  Forall (fun r => r <> []) rs ->
  Forall (Forall (fun f => no_crlf f = true)) rs ->
  (cc_fpr cfg < 0 \/
   (0 < cc_fpr cfg /\ Forall (fun r => Z.of_nat (length r) = cc_fpr cfg) rs) \/
   (cc_fpr cfg = 0 /\ exists n, Forall (fun r => length r = n) rs)) ->
  csv_read_all cfg (csv_write (cc_comma cfg) rs) = CsvRecords rs.
Proof. exact csv_roundtrip. Qed.
Print Assumptions C13_csv_roundtrip.

(* On every byte string and under every setting the reader returns records, or the records before the first error and
   one of the four named errors: the fuel of the model is never exhausted. *)
Theorem C13_csv_total : forall (cfg : csv_cfg) (input : str),
  (exists rs, csv_read_all cfg input = CsvRecords rs) \/
  (exists before e, csv_read_all cfg input = CsvError before e).
Proof. exact csv_read_all_total. Qed.
Print Assumptions C13_csv_total.

(* Every record the reader returns (also those returned before an error) has at least one field and the number of
   fields FieldsPerRecord demands. *)
Theorem C13_csv_field_count : forall (cfg : csv_cfg) (input : str) (rs : list (list str)),
  (csv_read_all cfg input = CsvRecords rs \/ exists e, csv_read_all cfg input = CsvError rs e) ->
  Forall (fun r => r <> []) rs /\
  (0 < cc_fpr cfg -> Forall (fun r => Z.of_nat (length r) = cc_fpr cfg) rs) /\
  (cc_fpr cfg = 0 -> exists n, Forall (fun r => length r = n) rs).
Proof. exact csv_read_all_field_count. Qed.
Print Assumptions C13_csv_field_count.

(* What the importer models take as input (Model/ImpCommonA.v: a list of records, then CBad if the reader failed) is
   what the reader model produces from any file: records, or records followed by exactly one CBad. *)
Theorem C13_csv_items_shape : forall (cfg : csv_cfg) (file : str),
  exists rs, csv_items cfg file = map CRec rs \/ csv_items cfg file = map CRec rs ++ [CBad].
Proof.
  intros cfg file. unfold csv_items.
  destruct (C13_csv_total cfg file) as [[rs H]|[b [e H]]]; rewrite H; cbn [items_of_result]; eauto.
Qed.
Print Assumptions C13_csv_items_shape.

(* ... and for a statement written canonically, they are its records: the importer theorems (C13_<importer>_faithful,
   _end_to_end, _stdout), which quantify over records, then speak about the bytes of the file. *)
Theorem C13_csv_items_of_written : forall (cfg : csv_cfg) (rs : list (list str)),
  delims_ok cfg = true ->
  Forall (fun r => r <> []) rs ->
  Forall (Forall (fun f => no_crlf f = true)) rs ->
  (cc_fpr cfg < 0 \/
   (0 < cc_fpr cfg /\ Forall (fun r => Z.of_nat (length r) = cc_fpr cfg) rs) \/
   (cc_fpr cfg = 0 /\ exists n, Forall (fun r => length r = n) rs)) ->
  csv_items cfg (csv_write (cc_comma cfg) rs) = map CRec rs.
Proof.
  intros cfg rs H1 H2 H3 H4. unfold csv_items. rewrite (C13_csv_roundtrip cfg rs H1 H2 H3 H4). reflexivity.
Qed.
Print Assumptions C13_csv_items_of_written.

(* ---------------------------------------------------------------- Examples *)
Definition ex_cfg : csv_cfg := mk_cfg 44 0 false false.

(* a , "x,""y""<newline>z" , c   with a quoted field containing a comma, a doubled quote and a newline *)
Definition ex_text : str := [97;44; 34;120;44;34;34;121;34;34;10;122;34; 44;99;10].
Definition ex_records : list (list str) := [[[97]; [120;44;34;121;34;10;122]; [99]]].

Example C13_csv_example_read : csv_read_all ex_cfg ex_text = CsvRecords ex_records.
Proof. vm_compute. reflexivity. Qed.

Example C13_csv_example_write :
  csv_write 44 ex_records = [34;97;34;44; 34;120;44;34;34;121;34;34;10;122;34; 44;34;99;34;10].
Proof. vm_compute. reflexivity. Qed.

(* the hypotheses of the round trip are satisfiable: the example records under wise's reader settings but three fields *)
Example C13_csv_example_roundtrip :
  csv_read_all (mk_cfg 44 3 false true) (csv_write 44 ex_records) = CsvRecords ex_records.
Proof.
  apply (C13_csv_roundtrip (mk_cfg 44 3 false true) ex_records).
  - reflexivity.
  - repeat constructor; discriminate.
  - repeat constructor.
  - right. left. split; [reflexivity|]. repeat constructor.
Qed.

(* a record of one empty field survives; a record without fields does not (it is written as an empty line) *)
Example C13_csv_example_empty_field : csv_read_all ex_cfg (csv_write 44 [[[]]]) = CsvRecords [[[]]].
Proof. vm_compute. reflexivity. Qed.
Example C13_csv_example_no_fields : csv_read_all ex_cfg (csv_write 44 [[]; [[97]]]) = CsvRecords [[[97]]].
Proof. vm_compute. reflexivity. Qed.

(* carriage returns: the pair CR LF inside a quoted field comes back as LF; a lone CR and a CR at the end of a field
   are kept; CR LF after the closing quote ends the record *)
Example C13_csv_example_crlf : csv_read_all ex_cfg (csv_write 44 [[[97;13;10;98]]]) = CsvRecords [[[97;10;98]]].
Proof. vm_compute. reflexivity. Qed.
Example C13_csv_example_lone_cr : csv_read_all ex_cfg (csv_write 44 [[[97;13;98;13]]]) = CsvRecords [[[97;13;98;13]]].
Proof. vm_compute. reflexivity. Qed.
Example C13_csv_example_crlf_eol : csv_read_all ex_cfg [34;97;34;13;10;98;13] = CsvRecords [[[97]]; [[98]]].
Proof. vm_compute. reflexivity. Qed.

(* the errors: a quote in a bare field, text after a closing quote, an unterminated quoted field, a wrong field count
   (the records before it are kept); under LazyQuotes the first three are accepted (the unterminated field then runs to the end of the input) *)
Example C13_csv_example_bare_quote : csv_read_all ex_cfg [97;34;98;10] = CsvError [] ErrBareQuote.
Proof. vm_compute. reflexivity. Qed.
Example C13_csv_example_quote : csv_read_all ex_cfg [34;97;34;98;10] = CsvError [] ErrQuote.
Proof. vm_compute. reflexivity. Qed.
Example C13_csv_example_unterminated : csv_read_all ex_cfg [120;10;34;97;10] = CsvError [[[120]]] ErrQuote.
Proof. vm_compute. reflexivity. Qed.
Example C13_csv_example_field_count : csv_read_all ex_cfg [97;44;98;10;99;10] = CsvError [[[97];[98]]] ErrFieldCount.
Proof. vm_compute. reflexivity. Qed.
Example C13_csv_example_lazy :
  csv_read_all (mk_cfg 44 (-1) true false) [97;34;98;10; 34;97;34;98;10; 34;97;10]
  = CsvRecords [[[97;34;98]]; [[97;34;98;10;34;97;10]]].
Proof. vm_compute. reflexivity. Qed.

(* TrimLeadingSpace: blanks, a no-break space (C2 A0) and an ideographic space (E3 80 80) before a field go, blanks
   inside quotes stay; a line of blanks is a record of one empty field, not an empty line *)
Example C13_csv_example_trim :
  csv_read_all (mk_cfg 44 (-1) false true) [32;97;44;194;160;227;128;128;34;32;98;34;10; 32;9;10]
  = CsvRecords [[[97]; [32;98]]; [[]]].
Proof. vm_compute. reflexivity. Qed.

(* ---------------------------------------------------------------- ch.supercard's reader (Model/CsvLatin1.v) *)
(* charmap.ISO8859_1's decoder, byte b -> code point b -> UTF-8.  It is total on byte strings (the result is a byte string
   of one or two bytes per byte); every byte decodes to the UTF-8 encoding of the code point with its number ... *)
Theorem C13_latin1_decode_total : forall s, Forall (fun b => 0 <= b < 256) s ->
  Forall (fun c => 0 <= c < 256) (latin1_decode s) /\
  (length s <= length (latin1_decode s) <= 2 * length s)%nat.
Proof. exact latin1_decode_bytes. Qed.
Print Assumptions C13_latin1_decode_total.

Theorem C13_latin1_byte_utf8 : forall b, 0 <= b < 256 ->
  (b < 128 /\ latin1_byte b = [b]) \/
  (128 <= b /\ exists c1 c2, latin1_byte b = [c1; c2] /\ 194 <= c1 <= 195 /\ 128 <= c2 < 192 /\
                            (c1 - 192) * 64 + (c2 - 128) = b).
Proof. exact latin1_byte_spec. Qed.
Print Assumptions C13_latin1_byte_utf8.

(* ... ASCII text is unchanged, and no two statements decode to the same text *)
Theorem C13_latin1_decode_ascii : forall s, Forall (fun b => b < 128) s -> latin1_decode s = s.
Proof. exact latin1_decode_ascii. Qed.
Print Assumptions C13_latin1_decode_ascii.

Theorem C13_latin1_decode_injective : forall s t,
  Forall (fun b => 0 <= b < 256) s -> Forall (fun b => 0 <= b < 256) t ->
  latin1_decode s = latin1_decode t -> s = t.
Proof. exact latin1_decode_inj. Qed.
Print Assumptions C13_latin1_decode_injective.

(* the reader whose FieldsPerRecord is assigned between the calls of Read: never out of fuel; without assignments it is
   csv_read_all; supercard's items are records, possibly followed by CBad *)
Theorem C13_csv_set_total : forall (cfg : csv_cfg) (sets : list Z) (input : str),
  (exists rs, csv_read_all_set cfg sets input = CsvRecords rs) \/
  (exists before e, csv_read_all_set cfg sets input = CsvError before e).
Proof. exact csv_read_all_set_total. Qed.
Print Assumptions C13_csv_set_total.

Theorem C13_csv_set_nil : forall (cfg : csv_cfg) (input : str), csv_read_all_set cfg [] input = csv_read_all cfg input.
Proof. exact csv_read_all_set_nil. Qed.
Print Assumptions C13_csv_set_nil.

Theorem C13_csv_items_supercard_shape : forall file : str,
  exists rs, csv_items_supercard file = map CRec rs \/ csv_items_supercard file = map CRec rs ++ [CBad].
Proof. exact csv_items_supercard_shape. Qed.
Print Assumptions C13_csv_items_supercard_shape.

(* "Zürich" + NBSP in ISO 8859-1 *)
Example C13_latin1_example : latin1_decode [90;252;114;105;99;104;160] = [90;195;188;114;105;99;104;194;160].
Proof. vm_compute. reflexivity. Qed.

(* "sep=;" has two fields, the header (here a;b;...;m) thirteen, then any count goes; a first line with one field, or
   a header with twelve, stops the reader *)
Definition ex_sup_header : str := [97;59;98;59;99;59;100;59;101;59;102;59;103;59;104;59;105;59;106;59;107;59;108;59;109;10].
Example C13_supercard_example_items :
  csv_items_supercard ([115;101;112;61;59;10] ++ ex_sup_header ++ [120;59;252;10; 160;121;10])
  = [CRec [[115;101;112;61]; []]; CRec [[97];[98];[99];[100];[101];[102];[103];[104];[105];[106];[107];[108];[109]];
     CRec [[120]; [195;188]]; CRec [[121]]].
Proof. vm_compute. reflexivity. Qed.
Example C13_supercard_example_first_line : csv_items_supercard ([115;101;112;61;10] ++ ex_sup_header) = [CBad].
Proof. vm_compute. reflexivity. Qed.
Example C13_supercard_example_header :
  csv_items_supercard [115;101;112;61;59;10; 97;59;98;10] = [CRec [[115;101;112;61]; []]; CBad].
Proof. vm_compute. reflexivity. Qed.

(* ---------------------------------------------------------------- what LazyQuotes can change *)
(* Whatever a reader accepts - every record read, io.EOF reached - the same reader with LazyQuotes = true reads in the
   same way.  For the importers with a strict reader (swisscard2, swisscard, revolut2, revolut, wise; supercard below)
   switching LazyQuotes on therefore changes nothing on any statement the importer gets records from: the setting shows
   only on statements the strict reader rejects (the damaged kind `quote` of harness/c13a.go, c13b.go). *)
Theorem C13_csv_lazy_conservative : forall (cfg : csv_cfg) (input : str) (rs : list (list str)),
  csv_read_all cfg input = CsvRecords rs -> csv_read_all (set_lazy cfg) input = CsvRecords rs.
Proof. exact csv_read_all_lazy. Qed.
Print Assumptions C13_csv_lazy_conservative.

Theorem C13_csv_set_lazy_conservative : forall (cfg : csv_cfg) (sets : list Z) (input : str) (rs : list (list str)),
  csv_read_all_set cfg sets input = CsvRecords rs -> csv_read_all_set (set_lazy cfg) sets input = CsvRecords rs.
Proof. exact csv_read_all_set_lazy. Qed.
Print Assumptions C13_csv_set_lazy_conservative.

(* revolut2.go with `p.reader.LazyQuotes = true` added is set_lazy cfg_revolut2; the hypothesis is satisfiable (a
   statement line with a padded, quoted description); the converse fails: a bare quote is rejected by the strict reader
   and read by the lazy one *)
Example C13_csv_lazy_revolut2 : set_lazy cfg_revolut2 = mk_cfg 44 10 true true.
Proof. reflexivity. Qed.
Definition ex_r2_line : str :=
  [97;44;98;44;99;44;100;44;32;34;120;44;32;34;34;121;34;34;34;44;49;44;48;44;67;44;79;75;44;50;13;10].
Example C13_csv_lazy_example_accepted :
  csv_read_all cfg_revolut2 ex_r2_line = CsvRecords [[[97];[98];[99];[100];[120;44;32;34;121;34];[49];[48];[67];[79;75];[50]]] /\
  csv_read_all (set_lazy cfg_revolut2) ex_r2_line = csv_read_all cfg_revolut2 ex_r2_line.
Proof. vm_compute. split; reflexivity. Qed.
Example C13_csv_lazy_example_rejected :
  csv_read_all (mk_cfg 44 2 false true) [97;34;98;44;99;10] = CsvError [] ErrBareQuote /\
  csv_read_all (set_lazy (mk_cfg 44 2 false true)) [97;34;98;44;99;10] = CsvRecords [[[97;34;98];[99]]].
Proof. vm_compute. split; reflexivity. Qed.
