(* C10  Accruals move amounts in time without creating or losing money.
   Theorem statements only; each is closed by [exact <lemma>] and followed by Print Assumptions.
   Vocabulary: Spec/AccrualSpec.v (dvalue, booked, booked_txns, booked_src, balanced, is_pair,
   leg_ok, parts_ok, ascending, accrual_verdict), Spec/DateSpec.v (tiles).
   Model: Model/Ledger.v.  [txn_create_fixed] is transaction.Create with the repair of
   findings/C10-equity-dropped.patch ([!p.Account.IsIE()] instead of [p.Account.IsAL()] in
   transaction.expand); [txn_create_gen rebook_pinned] is the pinned code (what [txn_create],
   used by Cli.v, currently is), of which C10_equity_refuted shows that it violates the property.  Theorems stated with [txn_create_gen rebook] hold of both.    *)
From Coq Require Import ZArith QArith List Bool Permutation.
From Knut Require Import Model.Str Model.Dec Model.Date Model.Account Model.Ledger.
From Knut Require Import Spec.DateSpec Spec.AccrualSpec.
From Knut Require Import Proofs.DecValueAccrual Proofs.AccrualProofs.
Import ListNotations.
Open Scope Z_scope.

(* Every generated transaction balances: per commodity its postings sum to zero.  Holds with or
   without an @accrue annotation, for the pinned and the repaired expansion. *)
Theorem C10_each_balances : forall rebook s ts,
  txn_create_gen rebook s = MOk ts -> Forall (fun t => balanced (t_postings t)) ts.
Proof. exact create_each_balances. Qed.
Print Assumptions C10_each_balances.

(* ... more precisely, each transaction generated from an accrual is one pair: two postings moving
   one quantity of one commodity between two accounts *)
Theorem C10_each_is_pair : forall rebook s ac ts,
  txn_create_gen rebook s = MOk ts -> st_accrual s = Some ac ->
  Forall (fun t => exists a b c q, is_pair a b c q (t_postings t)) ts.
Proof. exact create_each_pair. Qed.
Print Assumptions C10_each_is_pair.

(* Conservation: for every account other than the accrual account and every commodity, the total
   booked over all generated transactions is what the source transaction's booking lines say.
   No hypothesis on the window is needed beyond the expansion having succeeded; account types,
   signs, numbers of decimals and the number of bookings are arbitrary. *)
Theorem C10_conserve : forall s ac ts a c,
  txn_create_fixed s = MOk ts -> st_accrual s = Some ac ->
  a <> ac_account ac ->
  (booked_txns a c ts == booked_src a c (st_bookings s))%Q.
Proof. exact create_fixed_conserve_other. Qed.
Print Assumptions C10_conserve.

(* The accrual account nets to zero in every commodity when it is not itself an account of the
   source transaction ... *)
Theorem C10_accrual_nets_zero : forall s ac ts c,
  txn_create_fixed s = MOk ts -> st_accrual s = Some ac ->
  ~ in_bookings (ac_account ac) (st_bookings s) ->
  (booked_txns (ac_account ac) c ts == 0)%Q.
Proof. exact create_fixed_accrual_zero. Qed.
Print Assumptions C10_accrual_nets_zero.

(* ... and when it is, it ends with exactly what the source transaction booked on it (its own
   legs are re-booked against itself and cancel; conservation and "nets to zero" can then only
   both hold if the source booked zero on it). *)
Theorem C10_accrual_account_in_source : forall s ac ts c,
  txn_create_fixed s = MOk ts -> st_accrual s = Some ac ->
  (booked_txns (ac_account ac) c ts == booked_src (ac_account ac) c (st_bookings s))%Q.
Proof. exact create_fixed_conserve_accrual. Qed.
Print Assumptions C10_accrual_account_in_source.

(* The exact division behind the split: Decimal.QuoRem by the number of parts at one decimal
   place loses nothing, d = n * q + r; the parts are q + r, q, ..., q. *)
Theorem C10_sum_parts : forall d n q r,
  quo_rem d (of_int n) 1 = DOk (q, r) -> (dvalue d == inject_Z n * dvalue q + dvalue r)%Q.
Proof. exact quo_rem_spec. Qed.
Print Assumptions C10_sum_parts.

(* Dates.  For a non-empty window (start <= end, start not Go's zero time) the generated
   transactions are, in order, the expansions of the legs (postings) of the source transaction:
   an income/expense leg yields exactly one part per period of NewPartition(start, end, interval)
   -- which tiles the window (C11) --, dated at the period ends in ascending order, described
   "<desc> (accrual i/n)"; every other leg yields one transaction with the original date and
   description, a pair with the accrual account over the leg's full quantity. *)
Theorem C10_dates : forall s ac ts,
  txn_create_fixed s = MOk ts -> st_accrual s = Some ac ->
  ac_start ac <> 0 -> ac_start ac <= ac_end ac ->
  exists ps part legs,
    postings_create (st_bookings s) = MOk ps /\
    new_partition (mkPeriod (ac_start ac) (ac_end ac)) (ac_interval ac) 0 = POk part /\
    periods part <> [] /\
    (ac_interval ac <> Once -> tiles (ac_start ac) (ac_end ac) (periods part)) /\
    (ac_interval ac = Once -> periods part = [mkPeriod (ac_start ac) (ac_end ac)]) /\
    (ac_interval ac <> Once -> ascending (end_dates part)) /\
    ts = concat legs /\
    Forall2 (leg_ok (st_date s) (st_desc s) (st_targets s) (ac_account ac) (end_dates part)) ps legs.
Proof. exact create_fixed_dates. Qed.
Print Assumptions C10_dates.

(* The expansion never panics on a non-empty window; it succeeds unless an account name is
   rejected by the registry. *)
Theorem C10_no_panic_nonempty : forall rebook s ac,
  st_accrual s = Some ac -> ac_start ac <> 0 -> ac_start ac <= ac_end ac ->
  forall m, txn_create_gen rebook s <> MPanic m.
Proof. exact create_no_panic. Qed.
Print Assumptions C10_no_panic_nonempty.

Theorem C10_succeeds_nonempty : forall rebook s ac,
  st_accrual s = Some ac -> ac_start ac <> 0 -> ac_start ac <= ac_end ac ->
  (exists ts, txn_create_gen rebook s = MOk ts) \/ txn_create_gen rebook s = MErr e_account.
Proof. exact create_ok. Qed.
Print Assumptions C10_succeeds_nonempty.

(* Outside C10's hypothesis (C14's finding F8): a window whose end lies before its start has no
   period, and the first income/expense leg divides by zero: Go panics "decimal division by 0".
   (Pinned and repaired code alike.) *)
Theorem C10_empty_window_panics : forall rebook s ac ps,
  st_accrual s = Some ac -> postings_create (st_bookings s) = MOk ps ->
  valid_account (ac_account ac) = true ->
  ac_start ac <> 0 -> ac_end ac < ac_start ac -> ac_interval ac <> Once ->
  existsb (fun p => is_IE (p_acc p)) ps = true ->
  txn_create_gen rebook s = MPanic e_divzero.
Proof. exact create_empty_window. Qed.
Print Assumptions C10_empty_window_panics.

(* ... and a window starting at 0001-01-01 (Go's zero time) panics in NewPartition (F19) *)
Theorem C10_zero_start_panics : forall rebook s ac ps,
  st_accrual s = Some ac -> postings_create (st_bookings s) = MOk ps ->
  valid_account (ac_account ac) = true -> ac_start ac = 0 ->
  existsb (fun p => is_IE (p_acc p)) ps = true ->
  txn_create_gen rebook s = MPanic e_zerotime.
Proof. exact create_zero_start. Qed.
Print Assumptions C10_zero_start_panics.

(* The performance targets are copied to every generated transaction. *)
Theorem C10_targets_kept : forall rebook s ts,
  txn_create_gen rebook s = MOk ts -> Forall (fun t => t_targets t = st_targets s) ts.
Proof. exact create_targets. Qed.
Print Assumptions C10_targets_kept.

(* What the correspondence check evaluates on the Go output implies the statements above about
   that output: clauses 1-3 here, clause 5 in C10_verdict_sound_targets, clause 4 (order-free
   form of C10_dates) in C10_verdict_sound_dates. *)
Theorem C10_verdict_sound : forall s ac ends ts,
  accrual_verdict s ac ends ts = 0 ->
  Forall (fun t => balanced (t_postings t)) ts /\
  (forall a c, (booked_txns a c ts == booked_src a c (st_bookings s))%Q) /\
  (~ in_bookings (ac_account ac) (st_bookings s) -> forall c, (booked_txns (ac_account ac) c ts == 0)%Q).
Proof. exact verdict_sound. Qed.
Print Assumptions C10_verdict_sound.

Theorem C10_verdict_sound_targets : forall s ac ends ts,
  accrual_verdict s ac ends ts = 0 -> Forall (fun t => t_targets t = st_targets s) ts.
Proof. exact verdict_sound_targets. Qed.
Print Assumptions C10_verdict_sound_targets.

(* clause 4, order-free: every generated transaction is a pair with the accrual account, and the
   multiset of (date, description, leg account, commodity) is: per side of every booking line,
   one entry per period end described "<desc> (accrual i/n)" for an income/expense side, one entry
   at the original date with the original description for any other side *)
Theorem C10_verdict_sound_dates : forall s ac ends ts,
  accrual_verdict s ac ends ts = 0 ->
  exists ks, map (observed_key (ac_account ac)) ts = map Some ks /\
             Permutation (expected_keys (st_date s) (st_desc s) ends (st_bookings s)) ks.
Proof. exact verdict_sound_dates. Qed.
Print Assumptions C10_verdict_sound_dates.

(* The executable statement accepts everything the repaired model returns (so a faithful
   implementation cannot raise a false alarm, and the statement is satisfiable). *)
Theorem C10_model_meets_spec : forall s ac ts part,
  txn_create_fixed s = MOk ts -> st_accrual s = Some ac ->
  new_partition (mkPeriod (ac_start ac) (ac_end ac)) (ac_interval ac) 0 = POk part ->
  accrual_verdict s ac (end_dates part) ts = 0.
Proof. exact model_meets_spec. Qed.
Print Assumptions C10_model_meets_spec.

(* ---------------------------------------------------------------- the pinned code *)

(* A posting on an equity account is neither re-booked nor split by the pinned expansion. *)
Theorem C10_pinned_drops_equity : forall t ac p,
  is_AL (p_acc p) = false -> is_IE (p_acc p) = false -> expand_posting_gen rebook_pinned t ac p = MOk [].
Proof. exact expand_posting_pinned_dropped. Qed.
Print Assumptions C10_pinned_drops_equity.

(* The conservation statement and the accrual-nets-to-zero statement are both false of the
   pinned transaction.Create: the equity account loses its booking of -300 CHF and the accrual
   account ends at -300 CHF. *)
Theorem C10_equity_refuted : exists s ac ts a c,
  txn_create_gen rebook_pinned s = MOk ts /\ st_accrual s = Some ac /\
  ac_start ac <> 0 /\ ac_start ac <= ac_end ac /\
  a <> ac_account ac /\ ~ in_bookings (ac_account ac) (st_bookings s) /\
  ~ (booked_txns a c ts == booked_src a c (st_bookings s))%Q /\
  ~ (booked_txns (ac_account ac) c ts == 0)%Q.
Proof. exact equity_refuted. Qed.
Print Assumptions C10_equity_refuted.

(* ---------------------------------------------------------------- examples *)

(* the description suffix is " (accrual i/n)" *)
Example C10_suffix : accrual_suffix 2 3 = [32;40;97;99;99;114;117;97;108;32;50;47;51;41].
Proof. vm_compute. reflexivity. Qed.

(* non-vacuity: the repaired expansion of the witness -- one transaction for the equity leg on the
   original date, three parts for the expense leg at the month ends *)
Example C10_example :
  match txn_create_fixed witness with
  | MOk ts =>
    map (fun t => (civil (t_date t), map (fun p => (p_acc p, to_string (p_qty p))) (t_postings t))) ts
    = [ ((2020, 1, 15), [(acc_equity_opening, [45;51;48;48]); (acc_assets_receivables, [51;48;48])]);
        ((2020, 1, 31), [(acc_assets_receivables, [45;49;48;48]); (acc_expenses_rent, [49;48;48])]);
        ((2020, 2, 29), [(acc_assets_receivables, [45;49;48;48]); (acc_expenses_rent, [49;48;48])]);
        ((2020, 3, 31), [(acc_assets_receivables, [45;49;48;48]); (acc_expenses_rent, [49;48;48])]) ]
  | _ => False
  end.
Proof. vm_compute. reflexivity. Qed.

(* ... and satisfies the executable statement, while the pinned expansion fails clause 2 *)
Example C10_example_verdict :
  match txn_create_fixed witness, txn_create_gen rebook_pinned witness,
        new_partition (mkPeriod (ac_start witness_accrual) (ac_end witness_accrual)) Monthly 0 with
  | MOk ts, MOk ts', POk part =>
    accrual_verdict witness witness_accrual (end_dates part) ts = 0 /\
    accrual_verdict witness witness_accrual (end_dates part) ts' = 2
  | _, _, _ => False
  end.
Proof. vm_compute. split; reflexivity. Qed.

(* a remainder: 100 CHF over three months is 33.4 + 33.3 + 33.3 *)
Example C10_example_remainder :
  match txn_create_fixed (mkStxn (of_civil 2020 1 15) []
          [mkBooking acc_assets_receivables acc_expenses_rent (mkDec 100 0) chf] None
          (Some (mkAccrual Monthly (of_civil 2020 1 1) (of_civil 2020 3 31) acc_equity_opening))) with
  | MOk ts => map (fun t => map (fun p => to_string (p_qty p)) (t_postings t)) ts
              = [ [[45;49;48;48]; [49;48;48]];
                  [[45;51;51;46;52]; [51;51;46;52]]; [[45;51;51;46;51]; [51;51;46;51]]; [[45;51;51;46;51]; [51;51;46;51]] ]
  | _ => False
  end.
Proof. vm_compute. reflexivity. Qed.

(* the empty window of F8, concretely *)
Example C10_example_empty_window :
  txn_create_gen rebook_pinned (mkStxn (of_civil 2020 1 15) []
          [mkBooking acc_assets_receivables acc_expenses_rent (mkDec 100 0) chf] None
          (Some (mkAccrual Monthly (of_civil 2020 3 31) (of_civil 2020 1 1) acc_equity_opening)))
  = MPanic e_divzero.
Proof. vm_compute. reflexivity. Qed.
