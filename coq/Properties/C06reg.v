(* C06 for `knut register` (cmd/commands/register.go, lib/reports/register/register.go; model:
   Model/Register.v).  Statements only; proofs in Proofs/RegisterOrder.v, RegisterTotal.v,
   RegisterMapOrder.v, RegisterBalance.v, RegisterWitness.v.

   The model follows the current code (/repo 4dc8b78): journal.FromPath (load_safe), the flag checks of
   cobra and of execute, Multiperiod.Partition, then Sort, ComputePrices, Check, Valuate, Filter and
   Query.Into(register.Report), Renderer.Render, table.TextRenderer (Color = false).  It is tied to the
   binary byte for byte by the op C06.reg on every run of ./check C06.

   Vocabulary: [ceq eq x y] -- both commands fail, or both succeed with equal results;
   [sd_syntactic], [no_conflicting_prices] -- as in Properties/C05.v (parser-shaped account names; two
   price declarations of one day for the same unordered pair are the same declaration). *)
From Coq Require Import ZArith QArith List Bool Permutation.
From Knut Require Import Model.Str Model.Dec Model.Date Model.Account Model.Ledger Model.Price Model.Journal
     Model.Check Model.Pipeline Model.Table Model.Report Model.Cli Model.Loader Model.CliSafe Model.Register
     Proofs.OrderProofs Proofs.OrderCmd Proofs.OrderWitness Proofs.TxnOrder
     Proofs.LedgerProofs Proofs.RegisterOrder Proofs.RegisterTotal Proofs.RegisterMapOrder Proofs.RegisterBalance
     Proofs.RegisterWitness.
Import ListNotations.
Open Scope Z_scope.

(* ------------------------------------------------------------------ 1. totality *)

(* Full statement (what one would like):

     forall cfg tc ds m, register_text cfg tc ds <> CPanic m

   i.e. for every configuration and every list of directives the command returns the bytes of a
   table (COk) or an error (CErr: flag = a -m rule with a negative number; valuation = an invalid -v
   commodity; the errors of ParseDirective incl. the repaired accrual expansion; zerotime = no start
   date; price0 / noprice; the checker's errors), never a panic value.  The faithful model REFUTES
   it (C06_register_total_refuted): a -m rule of level 0 makes account.Shorten return nil for the
   Dest account, Report.Insert stores the key with Other = nil and Renderer.Render dereferences it
   (account.Compare, Account.Name) -- findings/C06-register-hidden-dest-panic.md.  Proved instead:
   that is the only panic.  Without a level-0 rule the command never panics, *)
Theorem C06_register_total_partial : forall cfg tc ds,
  mapping_shows (rg_mapping cfg) = true ->
  (forall m, register_table cfg ds <> CPanic m) /\ (forall m, register_text cfg tc ds <> CPanic m).
Proof. exact register_total. Qed.
Print Assumptions C06_register_total_partial.

(* whatever the rules, everything up to the report (flags, loading, the five processors, Query.Into)
   never panics, *)
Theorem C06_register_report_total : forall cfg ds m, register_report cfg ds <> CPanic m.
Proof. exact register_report_np. Qed.
Print Assumptions C06_register_report_total.

(* and a panic of the command is the nil Dest account of a level-0 rule *)
Theorem C06_register_panic_class : forall cfg tc ds m,
  register_text cfg tc ds = CPanic m -> m = k_nil_account /\ mapping_shows (rg_mapping cfg) = false.
Proof. exact register_panic_is_nil_account. Qed.
Print Assumptions C06_register_panic_class.

Theorem C06_register_total_refuted : exists cfg tc ds m,
  mapping_flag_ok (rg_mapping cfg) = true /\ register_text cfg tc ds = CPanic m.
Proof.
  exists rw_cfg_hidden, rw_tc, w_journal, k_nil_account.
  destruct rw_hidden_panics as (H1 & H2 & _). split; assumption.
Qed.
Print Assumptions C06_register_total_refuted.

(* ------------------------------------------------------------------ 2. the order of the directives *)

(* For every register configuration (window, interval, --last, valuation, -c -d -a -s, mappings,
   remap, --source/--dest/--commodity, either checker) and every text configuration (--digits, -k):
   a journal and any permutation of it print the same bytes (and build the same table), or both
   commands fail. *)
Theorem C06_register_order_irrelevant : forall cfg tc sds1 sds2,
  Permutation sds1 sds2 -> sd_syntactic sds1 -> no_conflicting_prices sds1 ->
  ceq eq (register_table cfg sds1) (register_table cfg sds2) /\
  ceq eq (register_text cfg tc sds1) (register_text cfg tc sds2).
Proof. exact register_bytes_perm. Qed.
Print Assumptions C06_register_order_irrelevant.

(* the step behind it: Report.Insert commutes, so the report -- one association list -- is the same *)
Theorem C06_register_insert_commutes : forall r k1 v1 k2 v2,
  reg_add (reg_add r k1 v1) k2 v2 = reg_add (reg_add r k2 v2) k1 v1.
Proof. exact reg_add_comm. Qed.
Print Assumptions C06_register_insert_commutes.

(* the command is its flag validation, the loader, and a function of the journal: with
   Properties/C06.v C06_arrival / C06_command_is_source_order (Build() returns the same journal for
   every arrival order of the files) its output does not depend on the arrival order either *)
Theorem C06_register_factor : forall cfg tc ds,
  register_text cfg tc ds = cbind (register_flags cfg) (fun _ => cbind (load_safe ds) (register_text_of cfg tc)).
Proof. reflexivity. Qed.
Print Assumptions C06_register_factor.

(* ------------------------------------------------------------------ 3. the order of the map *)

(* renderNode ranges over a Go map and sorts the keys.  With the comparison of the repaired code
   the rows of a node are the same for every enumeration [l'] of its map [l], provided no two
   entries compare Equal -- and keys that compare Equal agree in Dest, in the commodity if shown,
   in the source if shown and in the description (C06_register_cmp_separates), which is all a key
   of one date consists of. *)
Theorem C06_register_map_order : forall rc t l l',
  Permutation l l' ->
  (forall x y, In x l -> In y l -> rkey_cmp rc (fst x) (fst y) = Eq -> x = y) ->
  reg_render_node rc t l = reg_render_node rc t l'.
Proof. exact reg_render_node_order_free. Qed.
Print Assumptions C06_register_map_order.

Theorem C06_register_cmp_separates : forall rc k1 k2,
  rkey_cmp rc k1 k2 = Eq ->
  okey_name_eq (rk_other k1) (rk_other k2) /\
  (rr_commodities rc = true -> ostr (rk_com k1) = ostr (rk_com k2)) /\
  (rr_source rc = true -> okey_name_eq (rk_account k1) (rk_account k2)) /\
  rk_desc k1 = rk_desc k2.
Proof. exact rkey_cmp_eq_components. Qed.
Print Assumptions C06_register_cmp_separates.

(* the comparison is a total preorder (what sort.Slice needs) *)
Theorem C06_register_cmp_good : forall rc, good_cmp (rkey_cmp rc).
Proof. exact good_rkey. Qed.
Print Assumptions C06_register_cmp_good.

(* before 4dc8b78 (Dest and commodity only): two keys of one date, two enumerations, two tables
   (findings/C06-register-row-order.md); the repaired comparison gives one *)
Theorem C06_register_map_order_pinned_refuted : exists rc t l l',
  Permutation l l' /\ NoDup (map fst l) /\
  reg_render_node_pinned rc t l <> reg_render_node_pinned rc t l' /\
  reg_render_node rc t l = reg_render_node rc t l'.
Proof.
  exists rw_rc, (table_new (reg_groups rw_rc)), rw_entries, (rev rw_entries).
  exact rw_pinned_depends_on_enumeration.
Qed.
Print Assumptions C06_register_map_order_pinned_refuted.

(* ------------------------------------------------------------------ 4. register against balance *)

(* What a register row is, in terms of the balance report.  Query.Into hands every posting p to the
   collection; `balance` files it under p's own account, `register` under p's OTHER account, and
   shows the negated amount.  Every booking is a pair (p, p') with p booked on the account p' names
   as the other side, equal commodity, opposite amounts.  Hence:

   for configurations that agree ([cfgs_agree]: same --from/--to/interval/--last, valuation,
   mapping, remap; register's --dest and --commodity = balance's --account and --commodity; no
   --source; commodities shown, i.e. -c or no valuation; balance with --close=false), if both
   commands succeed, then for every account [row], commodity [c] and period end [col]

     the amounts shown in the register rows of date [col], Dest [row] (by name), commodity [c]
     -- over all sources and descriptions -- sum to the amount the balance report stores for
     account [row] and commodity [c] under [col]: the cell of `balance --diff` (Properties/C02.v
     C02_row_cumulative: without --diff the balance prints running totals of these amounts).

   [col <> 0]: the register files a date that falls after the last period under the zero time (day
   0, 0001-01-01), the balance under "no date"; Filter removes such days, and no period ends on
   0001-01-01 unless the journal starts before year 1.  The brief asked for the statement without
   --dest/--commodity; it holds with them as stated, and fails with --source (that filter looks at
   the posting's own account, for which the balance has no counterpart). *)
Theorem C06_register_matches_balance : forall rc bc ds rr rb part,
  cfgs_agree rc bc -> sd_syntactic ds -> no_conflicting_prices ds ->
  register_report rc ds = COk rr -> balance_report bc ds = COk (rb, part) ->
  forall row c col, col <> 0 ->
    (reg_rows_total rr col row c == rcell row (Some col, Some c) rb)%Q.
Proof. exact register_matches_balance. Qed.
Print Assumptions C06_register_matches_balance.

(* the register side as a sum over the dated postings that reach the collection *)
Theorem C06_register_rows_sum : forall q col row c ds r' ds',
  Journal.process_days (reg_query_proc q) new_reg_report ds = Journal.ROk (r', ds') ->
  (reg_rows_total r' col row c == qsum (rq_contrib q col row c) (days_postings ds))%Q.
Proof.
  intros q col row c ds r' ds' H.
  destruct (reg_query_days_sum q col row c ds new_reg_report r' ds' reg_sorted_new H) as [_ E].
  rewrite E. assert (Z0 : (reg_rows_total new_reg_report col row c == 0)%Q) by reflexivity.
  rewrite Z0. ring.
Qed.
Print Assumptions C06_register_rows_sum.

(* ------------------------------------------------------------------ examples *)

(* the hypotheses are satisfiable: the journal of Properties/C05.v (two commodities, a price change,
   same-day transactions with the same Dest), valued with -a -d --months, and unvalued with -c *)
Example C06_register_example :
  Permutation w_journal w_permuted /\ sd_syntactic w_journal /\ no_conflicting_prices w_journal /\
  mapping_shows (rg_mapping rw_cfg) = true /\
  register_text rw_cfg rw_tc w_journal = register_text rw_cfg rw_tc w_permuted /\
  register_text rw_cfg_plain rw_tc w_journal = register_text rw_cfg_plain rw_tc w_permuted /\
  (exists out, register_text rw_cfg rw_tc w_journal = COk out /\ (1000 <? Z.of_nat (length out)) = true) /\
  (exists t, register_table rw_cfg w_journal = COk t /\ length (t_rows t) = 15%nat).
Proof. exact (conj w_perm (conj w_syntactic (conj w_prices (conj eq_refl rw_bytes_equal)))). Qed.

Example C06_register_example_hidden :
  register_text rw_cfg_hidden rw_tc w_journal = CPanic k_nil_account /\
  mapping_flag_ok rw_hide = true /\ mapping_shows rw_hide = false.
Proof. exact rw_hidden_panics. Qed.

(* register -v CHF -c -a -d --months against balance -v CHF --months --diff --close=false on the same
   journal: the January rows with Dest Assets:B in USD sum to the balance's January cell (not 0) *)
Example C06_register_matches_balance_example :
  cfgs_agree rw_cfg_c rw_bcfg /\
  exists rr rb part,
    register_report rw_cfg_c w_journal = COk rr /\ balance_report rw_bcfg w_journal = COk (rb, part) /\
    In rw_col (end_dates part) /\ rw_col <> 0 /\
    (reg_rows_total rr rw_col w_A w_usd == rcell w_A (Some rw_col, Some w_usd) rb)%Q /\
    ~ (reg_rows_total rr rw_col w_A w_usd == 0)%Q /\
    (reg_rows_total rr rw_col w_I w_chf == rcell w_I (Some rw_col, Some w_chf) rb)%Q.
Proof. exact (conj rw_agree rw_matches). Qed.
