(* C06  Output is a function of the input alone.  (theorems under development; see Proofs/OrderProofs.v) *)
From Coq Require Import ZArith QArith List Bool Permutation.
From Knut Require Import Model.Report Proofs.ReportSum Proofs.LedgerProofs.
Import ListNotations.

(* the value total of a list of children does not depend on their order (Go: range over the
   Children map in PostOrder / Totals) *)
Theorem C06_children_order : forall f k l1 l2, Permutation l1 l2 -> (csum f k l1 == csum f k l2)%Q.
Proof. exact csum_perm. Qed.
Print Assumptions C06_children_order.

(* sorting the children leaves every tree total unchanged *)
Theorem C06_sort_total : forall f k alpha valued n, (tsum f k (node_sort alpha valued n) == tsum f k n)%Q.
Proof. exact tsum_node_sort. Qed.
Print Assumptions C06_sort_total.
