(* C06  Output is a function of the input alone.

   Definitions: Model/Source.v (directives with their source position, journal.Builder on them,
   Build with the source sort of /repo 69e47a8, the commands as functions of the built journal).
   Proofs: Proofs/StableSort.v, Proofs/DeterminismProofs.v (arrival order),
   Proofs/MapOrderProofs.v, Proofs/InferOrder.v, Proofs/PriceProofs.v (map iteration order).

   A. ARRIVAL ORDER.  Files are parsed concurrently; the order in which their directives reach
      Builder.Add depends on goroutine scheduling.  Build() returns the same journal -- days,
      the five lists of every day, the period: Leibniz equality -- for every arrival order,
      namely the journal a sequential load in source order (path, offset) produces; every
      command of the model is a function of that journal.
   B. MAP ITERATION ORDER.  Where the Go code ranges over a map the model has an association
      list; each such function is invariant under permutation of the list in the sense that
      reaches the output.
   Not covered (see checks/c06.py LEVEL_NOTE): the Go scheduler and map seeds themselves are
   sampled by the check, not enumerated; which of several erroneous directives is named in an
   error message (stderr); float64 summation order in `portfolio weights`/`returns`. *)
From Coq Require Import ZArith QArith List Bool Permutation Sorting.Sorted.
From Knut Require Import Model.Str Model.Dec Model.Date Model.Account Model.Ledger Model.Price
     Model.Journal Model.Check Model.Pipeline Model.Table Model.Report Model.JPrinter Model.Cli
     Model.Beancount Model.CliTranscode Model.Perf Model.Weights Model.CliPortfolio Model.Source
     Spec.PriceSpec
     Proofs.StableSort Proofs.DeterminismProofs Proofs.MapOrderProofs Proofs.ReportSum
     Proofs.LedgerProofs Proofs.PriceProofs.
From Knut Require Model.Bayes Spec.FormatSpec Proofs.InferOrder.
Import ListNotations.
Open Scope Z_scope.

(* ================================================================ A. arrival order *)

(* [sort_by by_src] is sort.SliceStable with sourceBefore: it meets the contract of a stable
   sort (ordered; a permutation; the elements of one source position keep their order) ... *)
Theorem C06_slice_stable_meets_contract : forall A (l : list (src * A)),
  sorted by_src (sort_by by_src l) /\ Permutation (sort_by by_src l) l /\
  forall k, filter (has_src k) (sort_by by_src l) = filter (has_src k) l.
Proof. exact @sort_src_contract. Qed.
Print Assumptions C06_slice_stable_meets_contract.

(* ... and the contract has no other solution *)
Theorem C06_slice_stable_unique : forall A (l l' : list (src * A)),
  sorted by_src l' -> (forall k, filter (has_src k) l' = filter (has_src k) l) -> l' = sort_by by_src l.
Proof. exact @slice_stable_contract. Qed.
Print Assumptions C06_slice_stable_unique.

(* Build() on the directives in ANY arrival order = the builder of Model/Journal.v (the model
   all other properties use) run on the directives in source order *)
Theorem C06_build_is_source_order_load : forall l,
  build_sorted_b l = builder_of (map snd (sort_by by_src l)).
Proof. exact build_sorted_canonical. Qed.
Print Assumptions C06_build_is_source_order_load.

(* the arrival theorem: any permutation of the directives, when two directives with the same
   source position are equal (two directives of a file have different offsets; a file
   included twice yields equal directives) *)
Theorem C06_arrival : forall l1 l2,
  Permutation l1 l2 ->
  (forall x y, In x l1 -> In y l1 -> fst x = fst y -> x = y) ->
  build_sorted l1 = build_sorted l2 /\ build_sorted_b l1 = build_sorted_b l2.
Proof. exact arrival_perm_both. Qed.
Print Assumptions C06_arrival.

(* with accruals one source position yields several (different) transactions, added together
   and in order: the journal depends only on the per-position subsequences *)
Theorem C06_arrival_classes : forall l1 l2,
  (forall k, filter (has_src k) l1 = filter (has_src k) l2) -> build_sorted_b l1 = build_sorted_b l2.
Proof. exact arrival_classes. Qed.
Print Assumptions C06_arrival_classes.

(* what the loader does: whole files arrive as batches, in any order (DESIGN.md:
   run cmd (concat (permute files)) = run cmd (concat files)); accruals included *)
Theorem C06_arrival_files : forall fs1 fs2 : list (list (src * directive)),
  Permutation fs1 fs2 ->
  (forall f g x y, In f fs1 -> In g fs1 -> In x f -> In y g -> s_path (fst x) = s_path (fst y) -> f = g) ->
  build_sorted_b (concat fs1) = build_sorted_b (concat fs2).
Proof. exact arrival_files. Qed.
Print Assumptions C06_arrival_files.

(* every command of the model that reads the journal: equal outputs (tables, bytes, results) *)
Theorem C06_commands : forall l1 l2,
  build_sorted_b l1 = build_sorted_b l2 ->
  (forall cfg, run_sorted (balance_table_of cfg) l1 = run_sorted (balance_table_of cfg) l2) /\
  (forall cfg, run_sorted (balance_csv_of cfg) l1 = run_sorted (balance_csv_of cfg) l2) /\
  (forall cfg tc, run_sorted (balance_text_of cfg tc) l1 = run_sorted (balance_text_of cfg tc) l2) /\
  (forall repaired, run_sorted (check_of repaired) l1 = run_sorted (check_of repaired) l2) /\
  (forall lenient, run_sorted (print_of lenient) l1 = run_sorted (print_of lenient) l2) /\
  (forall lenient c, run_sorted (transcode_of lenient c) l1 = run_sorted (transcode_of lenient c) l2) /\
  (forall cfg u, run_sorted (weights_csv_of cfg u) l1 = run_sorted (weights_csv_of cfg u) l2) /\
  (forall fx cfg, run_sorted (returns_of fx cfg) l1 = run_sorted (returns_of fx cfg) l2).
Proof. exact commands_arrival. Qed.
Print Assumptions C06_commands.

(* and any other function of the journal; its value is that of the sequential source-order load *)
Theorem C06_command_is_source_order : forall R (cmd : builder -> R) l,
  run_sorted cmd l = cmd (builder_of (map snd (sort_by by_src l))).
Proof. exact @run_sorted_canonical. Qed.
Print Assumptions C06_command_is_source_order.

(* the functions *_of ARE the commands of Model/Cli.v, CliTranscode.v, CliPortfolio.v: each
   command is its flag validation, `load`, and the function of the builder *)
Theorem C06_balance_factor : forall cfg ds,
  balance_table cfg ds =
  cbind (match bc_valuation cfg with
         | Some v => if valid_commodity v then COk tt else CErr k_valuation v
         | None => COk tt end) (fun _ => cbind (load ds) (balance_table_of cfg)).
Proof. exact balance_table_factor. Qed.
Print Assumptions C06_balance_factor.

Theorem C06_check_factor : forall repaired ds, check_cmd_current repaired ds = cbind (load ds) (check_of repaired).
Proof. exact check_factor. Qed.
Print Assumptions C06_check_factor.

Theorem C06_print_factor : forall lenient ds, print_cmd lenient ds = cbind (load ds) (print_of lenient).
Proof. exact print_factor. Qed.
Print Assumptions C06_print_factor.

Theorem C06_transcode_factor : forall lenient v ds,
  transcode_cmd lenient v ds =
  cbind (valuation_flag v) (fun vo =>
  match vo with
  | Some c => cbind (load ds) (transcode_of lenient c)
  | None => CErr k_valuation []
  end).
Proof. exact transcode_factor. Qed.
Print Assumptions C06_transcode_factor.

Theorem C06_weights_factor : forall cfg ds,
  weights_csv_cmd cfg ds =
  cbind (match pc_universe cfg with Some y => universe_load [] y | None => COk [] end) (fun u =>
  cbind (check_valuation cfg) (fun _ => cbind (load ds) (weights_csv_of cfg u))).
Proof. exact weights_factor. Qed.
Print Assumptions C06_weights_factor.

Theorem C06_returns_factor : forall fx cfg ds,
  returns_cmd fx cfg ds = cbind (check_valuation cfg) (fun _ => cbind (load ds) (returns_of fx cfg)).
Proof. exact returns_factor. Qed.
Print Assumptions C06_returns_factor.

(* Builder.Days (period boundaries; balance --close, portfolio) is called between loading and
   Build: touching before Build = touching the built journal, as the *_of functions do *)
Theorem C06_touch_then_build : forall b ds, tbuild (tbuilder_touch b ds) = builder_touch (tbuild b) ds.
Proof. exact touch_then_build. Qed.
Print Assumptions C06_touch_then_build.

(* a sequence already in source order is built as Model/Journal.v builds it: the existing
   model is the canonical-order instance; in particular one file keeps its textual order
   (offsets not decreasing: the parts of an accrual share an offset) *)
Theorem C06_in_source_order : forall l, sorted by_src l -> build_sorted_b l = builder_of (map snd l).
Proof. exact build_sorted_in_order. Qed.
Print Assumptions C06_in_source_order.

Theorem C06_single_file : forall path ods,
  StronglySorted Z.le (map fst ods) ->
  build_sorted_b (file_directives path ods) = builder_of (map snd ods).
Proof. exact single_file_textual_order. Qed.
Print Assumptions C06_single_file.

(* Build() before 69e47a8 (no sort) is the builder of Model/Journal.v on the ARRIVAL sequence,
   and `knut print` shows the arrival order: two files, two outputs (finding F15) *)
Theorem C06_pinned_build : forall l, build_pinned_b l = builder_of (map snd l).
Proof. exact build_pinned_spec. Qed.
Print Assumptions C06_pinned_build.

Theorem C06_pinned_arrival_refuted :
  exists l1 l2,
    Permutation l1 l2 /\
    (forall x y, In x l1 -> In y l1 -> fst x = fst y -> x = y) /\
    run_pinned (print_of true) l1 <> run_pinned (print_of true) l2.
Proof. exact pinned_arrival_refuted. Qed.
Print Assumptions C06_pinned_arrival_refuted.

(* ================================================================ B. map iteration order *)

(* a map lookup: entries with distinct keys, in any order *)
Theorem C06_map_lookup : forall V (m1 m2 : smap V) k,
  NoDup (map fst m1) -> Permutation m1 m2 -> sm_get m1 k = sm_get m2 k.
Proof. exact @sm_get_perm. Qed.
Print Assumptions C06_map_lookup.

(* Prices.Normalize (breadth-first, neighbours in name order since d83d924): the price map and
   the normalised prices are functions of the latest declaration of every pair -- not of the
   order of the declarations, and there is no enumeration order left in the algorithm *)
Theorem C06_prices_order : forall h1 h2 ps1 ps2,
  build h1 = Some ps1 -> build h2 = Some ps2 ->
  (forall c t, latest h1 c t = latest h2 c t) ->
  ps1 = ps2 /\ forall v, normalize ps1 v = normalize ps2 v.
Proof. exact order_independent. Qed.
Print Assumptions C06_prices_order.

(* the pinned depth-first Normalize visits neighbours in map order: two orders, two prices (F3) *)
Theorem C06_dfs_refuted :
  exists ps v c p order,
    build alt_history = Some ps /\ (forall k l, Permutation (order k l) l) /\
    c <> v /\ stored ps v c = Some p /\
    sm_get (normalize_dfs order ps v) c <> Some (truncate p 8) /\
    sm_get (normalize_dfs order ps v) c <> sm_get (normalize_dfs id_order ps v) c.
Proof. exact dfs_refuted. Qed.
Print Assumptions C06_dfs_refuted.

(* Valuate, DayStart: `for pos, qty := range quantities`.  For every enumeration order the same
   adjustment transactions up to their order, or a missing-price error for every order *)
Theorem C06_valuate_loop : forall v date prev cur pos1 pos2,
  Permutation pos1 pos2 ->
  adj_equiv (val_adjustments v date prev cur pos1) (val_adjustments v date prev cur pos2).
Proof. exact val_adjustments_perm. Qed.
Print Assumptions C06_valuate_loop.

(* CloseAccounts, DayStart: `for k, quantity := range quantities` with values[k] *)
Theorem C06_close_loop : forall date qs1 qs2 vs1 vs2,
  Permutation qs1 qs2 -> NoDup (map fst vs1) -> Permutation vs1 vs2 ->
  Permutation (closing_txns date qs1 vs1) (closing_txns date qs2 vs2).
Proof. exact closing_txns_perm. Qed.
Print Assumptions C06_close_loop.

(* ... and the order of those transactions (of any bookings) does not reach the report: every
   cell total is the same for every insertion order *)
Theorem C06_report_totals : forall f k l1 l2 r,
  Permutation l1 l2 -> (rsum f k (insert_all l1 r) == rsum f k (insert_all l2 r))%Q.
Proof. exact report_totals_order_free. Qed.
Print Assumptions C06_report_totals.

(* the value total of a list of children does not depend on their order (Go: range over the
   Children map in PostOrder / Totals) *)
Theorem C06_children_order : forall f k l1 l2, Permutation l1 l2 -> (csum f k l1 == csum f k l2)%Q.
Proof. exact csum_perm. Qed.
Print Assumptions C06_children_order.

(* sorting the children leaves every tree total unchanged *)
Theorem C06_sort_total : forall f k alpha valued n, (tsum f k (node_sort alpha valued n) == tsum f k n)%Q.
Proof. exact tsum_node_sort. Qed.
Print Assumptions C06_sort_total.

(* SortWeighted's weights: sums over the Amounts map and over the Children map; decimal
   addition is exact, the weight is the same decimal for every order *)
Theorem C06_weight_order : forall valued s p hv a1 a2 ch1 ch2,
  Permutation a1 a2 -> Permutation ch1 ch2 ->
  node_weight valued (Node s p hv a1 ch1) = node_weight valued (Node s p hv a2 ch2).
Proof. exact node_weight_perm. Qed.
Print Assumptions C06_weight_order.

(* the sort of siblings (dict.SortedValues of the Children map) with the comparators of the
   repaired code -- name; weight then name (bffd269) -- gives one list for all enumeration
   orders [l'] of the map, and it is the list the model computes from the children in name
   order; top level: by account type *)
Theorem C06_sort_siblings : forall alpha valued l l',
  StronglySorted (fun a b => by_name a b = true) l -> NoDup (map n_seg l) -> Permutation l l' ->
  (forall n, In n l -> acc_level (n_path n) <> 1) ->
  sort_by (sibling_ltb alpha valued) l = sort_by (if alpha then by_name else by_weight_name valued) l'.
Proof. exact sibling_sort_order_free. Qed.
Print Assumptions C06_sort_siblings.

Theorem C06_sort_top : forall alpha valued l l',
  NoDup (map (fun n => acc_rank (n_path n)) l) -> Permutation l l' ->
  (forall n, In n l -> acc_level (n_path n) = 1) ->
  sort_by (sibling_ltb alpha valued) l = sort_by by_rank l'.
Proof. exact top_sort_order_free. Qed.
Print Assumptions C06_sort_top.

(* before bffd269 (weight only): equal weights, two enumeration orders, two results (F6) *)
Theorem C06_pinned_sort_refuted :
  exists l1 l2, Permutation l1 l2 /\ NoDup (map n_seg l1) /\
    sort_by (by_weight false) l1 <> sort_by (by_weight false) l2.
Proof. exact pinned_sort_refuted. Qed.
Print Assumptions C06_pinned_sort_refuted.

(* infer: the candidates (sorted keys of countByAccount, e8bd689) are a function of the set of
   trained accounts; so is the whole inference for any score function *)
Theorem C06_infer_candidates : forall ph tr1 tr2,
  (forall x, In x (Bayes.BayesM.trained_accounts ph tr1) <-> In x (Bayes.BayesM.trained_accounts ph tr2)) ->
  Bayes.BayesM.candidates ph tr1 = Bayes.BayesM.candidates ph tr2.
Proof. exact InferOrder.candidates_set. Qed.
Print Assumptions C06_infer_candidates.

(* portfolio weights, DayEnd: `for c, v := range V1 { r.Add(...) }` *)
Theorem C06_weights_adds : forall u m date total v1 v1',
  Permutation v1 v1' -> entries_equiv (day_entries u m date total v1) (day_entries u m date total v1').
Proof. exact day_entries_perm. Qed.
Print Assumptions C06_weights_adds.

(* ================================================================ C. non-vacuity *)

(* two files with an open on the same day, arriving in both orders: one journal, in path order *)
Example C06_example_two_files :
  build_sorted (w_file_a ++ w_file_b) = build_sorted (w_file_b ++ w_file_a) /\
  build_sorted (w_file_b ++ w_file_a) = [mkDay w_day [] [[s_Assets; [65]]; [s_Assets; [66]]] [] [] [] None] /\
  build_pinned (w_file_b ++ w_file_a) = [mkDay w_day [] [[s_Assets; [66]]; [s_Assets; [65]]] [] [] [] None].
Proof. vm_compute. repeat split. Qed.

(* the hypothesis of C06_arrival holds for them *)
Example C06_example_keys : forall x y,
  In x (w_file_a ++ w_file_b) -> In y (w_file_a ++ w_file_b) -> fst x = fst y -> x = y.
Proof. exact w_keys_injective. Qed.

(* a file whose accrual yields two transactions at one offset: the hypothesis of C06_arrival
   fails, that of C06_arrival_files holds, and the six arrival orders of the three files give
   one journal *)
Example C06_example_files_hyp : forall f g x y,
  In f [w_file_c; w_file_a; w_file_b] -> In g [w_file_c; w_file_a; w_file_b] ->
  In x f -> In y g -> s_path (fst x) = s_path (fst y) -> f = g.
Proof. exact w_files_hyp. Qed.

Example C06_example_accrual :
  (exists x y, In x w_file_c /\ In y w_file_c /\ fst x = fst y /\ x <> y) /\
  build_sorted_b (concat [w_file_b; w_file_c; w_file_a]) = build_sorted_b (concat [w_file_c; w_file_a; w_file_b]).
Proof.
  split.
  - exists (mkSrc [99;46;107;110;117;116] 0, DTxn (w_txn 120)), (mkSrc [99;46;107;110;117;116] 0, DTxn (w_txn 121)).
    cbn. repeat split; auto. discriminate.
  - vm_compute. reflexivity.
Qed.
