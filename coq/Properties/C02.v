(* C02  Balance report equals an independent ledger computation.
   Specification: Spec/LedgerSpec.v (closed form over the flat list of dated postings after accrual
   expansion: user_entries, closing_entries, mapped_entries, period_amount, ledger_row, ledger_csv).

   Proved at full strength, for every journal, window, interval, --last (any integer), filter,
   mapping (any level and suffix), remap, with and without --close:

   C02_cells  every cell of the report trees of the model equals (as a rational value) the
       closed-form sum

         rcell row (Some col, Some c) r ==
         dvalue (period_amount (mapped_entries cfg (user_entries (span part) (periods part) (flat_postings dl) ++
                   (if bc_close cfg then closing_entries (flat_postings dl) (closable_keys (span part) (flat_postings dl))
                                                         (p_start (span part)) (periods part) else [])))
                 (acc_eqb row) c col)

   C02_rows   the report has a node (every node is rendered as a row) for exactly the accounts
       ledger_row lists: In row (rows r) <-> ledger_row cfg dl row -- the mapped account of an
       entry of that same list (a booking inside the window passing the filters, or a half of a
       closing entry with a non-zero amount), or a parent of one.

   With --close both say that the stateful CloseAccounts processor (Model/Pipeline.v close_proc,
   closing_txns; Go: lib/journal/process.go CloseAccounts) equals Spec.LedgerSpec.closing_entries:
   at the start of every shown period, for every account that is neither A/L nor Equity:Equity,
   what it accumulated inside the window since the previous period start (since the window start
   for the first period) is moved to Equity:Equity under that period's column, and the
   accumulator starts again.  Proofs/CloseProofs.v (cells: close_day is the invariant -- after a
   day, for every weight g, the g-weighted sum of c_qty = the g-weighted sum of the closable
   postings since the last closing day; close_days, DD_nxt, regroup, RS_find, report_cells) and
   Proofs/LayoutProofs.v (rows: close_days_set gives the state at every closing day as the sum of
   the postings whose next period start it is; state_nonzero, spec_close_keys, report_rows).
   Hypothesis with --close only: [postings_syntactic dl] (Spec/LedgerSyntax.v): every posting account
   is one the parser can produce (first segment an account type, no colon and no NUL byte inside a
   segment).  The model keys CloseAccounts' map by the string name ++ NUL ++ commodity where knut
   uses (account, commodity) pointers; the two agree exactly under this condition, and
   C02_cells_unsyntactic_refuted shows that the model (not knut) merges two keys without it.
   The cumulative / --diff presentation of a row is C02_row_cumulative.

   Table level (the TABLE that `balance` prints, i.e. the row list of Model/Report.v render_report
   before text / CSV rendering; vocabulary Spec/BalanceTableSpec.v; proofs
   Proofs/BalanceTableLayout.v, BalanceTableTree.v, BalanceTableCells.v):

   C02_table_layout  for every report, render configuration (valued or not) and date list the rows
       of the table are: separator, header, separator; per top-level A/L account the blocks of its
       subtree in depth-first order of the sorted tree and an empty line; the Total (A+L) lines, a
       separator; the same for the E/I/E tree; the Delta lines; a separator.
   C02_table_rows    for an unvalued balance report the account blocks are one per account row,
       pairwise distinct, exactly for the accounts ledger_row lists (in the order the sort
       produces), each block being acct_lines: name = last segment, indent = 2 per level.
   C02_table_cells   the block of account row has one line per commodity c with a non-zero cell
       (ascending), and the cell in column j is a decimal whose value is that of
       cell_amounts: sign * (the ledger's period amount of column j, accumulated over the columns
       0..j unless --diff), exact, before any rounding (C17).  Hypothesis: postings_syntactic dl.
   C02_table_cells_render  the same at the level of the renderer alone, for every report and every
       render configuration, valued or not: with --show-commodities the cell is the amount stored
       under that commodity, without it the sum over the commodities (collapse_key).

   C02_table_totals  the numbers of the commodity lines of Total (A+L), Total (E+I+E) and Delta are
       cell_amounts over all A/L accounts, over all other accounts (negated), over all accounts.

   Which commodity lines (Proofs/BalanceTableDates.v, BalanceTableLines.v):
   C02_close_stage_dates  CloseAccounts only appends, on a closing day, transactions of that date.
   C02_report_keys   every amount of the report is stored under (end date of a shown period,
       commodity): a cell under the zero date, another date or the nil commodity is zero.
   C02_commodity_line_iff  the block of an account lists commodity c iff the ledger has a non-zero
       PERIOD amount for (account, c) in some column of the table -- both directions.
   C02_total_lines   Total (A+L) / Total (E+I+E) list exactly the commodities with a non-zero period
       amount over all A/L / all other accounts in some column, ascending; Delta lists the union of
       the two lists; the lines are block_ok with the numbers of C02_table_totals.

   The CSV (Proofs/DecStringValue.v, BalanceCsv.v, BalanceCsvOrder.v), with and without -a:
   C02_number_text   Decimal.String is a function of the value of the decimal.
   C02_table_row_order  the account rows are LedgerSpec.all_rows of the A/L entries, then of the others.
   C02_csv_records   the records of the CSV renderer on the table are the rows of ledger_csv.
   C02_csv_is_ledger_csv  balance_csv cfg ds = COk text -> text = the rows of ledger_csv, fields
       joined by commas, one record per line.

   Not proved: encoding/csv quoting (not modelled: no field of a balance report needs it), and the
   text rendering of the same table (C17).  ledger_csv is compared with the binary's CSV and the
   model's CSV on every run. *)
From Coq Require Import ZArith List Bool.
From Coq Require Import QArith.
From Knut Require Import Model.Str Model.Dec Model.Date Model.Account Model.Ledger Model.Journal Model.Pipeline Model.Table Model.Report Model.Cli Spec.LedgerSpec
     Spec.LedgerSyntax Spec.BalanceTableSpec Proofs.DecValue Proofs.LedgerProofs Proofs.CloseProofs Proofs.LayoutProofs
     Proofs.BalanceTableLayout Proofs.BalanceTableTree Proofs.BalanceTableCells Proofs.BalanceTableTotals
     Proofs.BalanceTableDates Proofs.BalanceTableLines Proofs.DecStringValue Proofs.BalanceCsv Proofs.BalanceCsvOrder.
Import ListNotations.
Open Scope Z_scope.

(* a mapping rule leaves accounts it does not match alone *)
Theorem C02_mapping_local : forall r a,
  rule_match r (acc_name a) = None -> shorten [r] a = ShAcc a.
Proof. intros r a H. unfold shorten. cbn [mapping_level]. rewrite H. reflexivity. Qed.
Print Assumptions C02_mapping_local.

(* the shortened account consists of the first `level` and the last `suffix` segments *)
Theorem C02_shorten_shape : forall m a level suffix,
  mapping_level m (acc_name a) = Some (level, suffix) ->
  0 < level -> 0 <= suffix -> suffix < acc_level a -> level <= acc_level a - suffix ->
  shorten m a = ShAcc (firstn (Z.to_nat level) a ++ skipn (Z.to_nat (acc_level a - suffix)) a).
Proof.
  intros m a level suffix Hm Hl Hs Hs2 Hl2. unfold shorten. destruct m as [|r m']; [discriminate|].
  rewrite Hm.
  replace (level =? 0) with false by (symmetry; apply Z.eqb_neq; auto with zarith).
  replace (acc_level a <=? suffix) with false by (symmetry; apply Z.leb_gt; auto with zarith).
  replace (acc_level a - suffix <? level) with false by (symmetry; apply Z.ltb_ge; auto with zarith).
  replace ((level <? 0) || (suffix <? 0)) with false.
  2: { symmetry. apply orb_false_iff. split; apply Z.ltb_ge; auto with zarith. }
  f_equal. f_equal. rewrite firstn_firstn. f_equal.
  apply Nat.min_l. apply Z2Nat.inj_le; auto with zarith.
Qed.
Print Assumptions C02_shorten_shape.

(* Every cell of the report (value stored in the tree node `row` under column `col` and
   commodity `c`) equals the closed-form ledger sum over the flat list of postings: bookings
   dated inside the window, passing the filters, mapped onto `row`, attributed to the period
   end `col`. *)
Theorem C02_cells_noclose : forall cfg ds r part,
  bc_valuation cfg = None -> bc_close cfg = false ->
  balance_report cfg ds = COk (r, part) ->
  exists dl,
    parse_directives ds = MOk dl /\
    new_partition (clip (mkPeriod (bc_from cfg) (bc_to cfg)) (journal_period dl)) (bc_interval cfg) (bc_last cfg) = POk part /\
    forall row c col,
      (rcell row (Some col, Some c) r ==
       dvalue (period_amount (mapped_entries cfg (user_entries (span part) (periods part) (flat_postings dl))) (acc_eqb row) c col))%Q.
Proof. exact report_cells_noclose. Qed.
Print Assumptions C02_cells_noclose.

(* The same with and without --close: with --close the entries include, at every period start,
   the amounts carried from the closed accounts to Equity:Equity (closing_entries). *)
Theorem C02_cells : forall cfg ds r part,
  bc_valuation cfg = None ->
  balance_report cfg ds = COk (r, part) ->
  exists dl,
    parse_directives ds = MOk dl /\
    new_partition (clip (mkPeriod (bc_from cfg) (bc_to cfg)) (journal_period dl)) (bc_interval cfg) (bc_last cfg) = POk part /\
    ((bc_close cfg = true -> postings_syntactic dl) ->
     forall row c col,
       (rcell row (Some col, Some c) r ==
        dvalue (period_amount (mapped_entries cfg (user_entries (span part) (periods part) (flat_postings dl) ++
                  (if bc_close cfg
                   then closing_entries (flat_postings dl) (closable_keys (span part) (flat_postings dl)) (p_start (span part)) (periods part)
                   else [])))
                (acc_eqb row) c col))%Q).
Proof. exact report_cells. Qed.
Print Assumptions C02_cells.

(* Which rows exist: the report has a node (rows r: the paths of all nodes of the two trees but the
   roots; the renderer emits every node) exactly for the accounts the independent computation lists. *)
Theorem C02_rows : forall cfg ds r part,
  bc_valuation cfg = None ->
  balance_report cfg ds = COk (r, part) ->
  exists dl,
    parse_directives ds = MOk dl /\
    ((bc_close cfg = true -> postings_syntactic dl) ->
     forall row, In row (rows r) <-> ledger_row cfg dl row).
Proof. exact report_rows. Qed.
Print Assumptions C02_rows.

(* the hypothesis follows from what Spec/WellformedSpec.v calls a syntactic journal (C04), and has
   an executable form *)
Theorem C02_syntactic_sufficient : forall dl, WellformedSpec.syntactic dl -> postings_syntactic dl.
Proof. exact syntactic_postings. Qed.
Print Assumptions C02_syntactic_sufficient.

Theorem C02_syntactic_decidable : forall dl, postings_syntactic_b dl = true <-> postings_syntactic dl.
Proof. exact postings_syntactic_b_iff. Qed.
Print Assumptions C02_syntactic_decidable.

(* Why C02_cells carries the hypothesis postings_syntactic: an account segment with a NUL byte
   (which the parser never produces) makes two (account, commodity) pairs share one position key
   of the MODEL's close stage (pos_key = name ++ NUL ++ commodity), which then carries their sum
   under one of them; the statement without the hypothesis is false of the model.  knut itself
   keys by (account, commodity) pointers and is not affected. *)
Theorem C02_cells_unsyntactic_refuted :
  exists cfg ds r part dl row c col,
    bc_valuation cfg = None /\ balance_report cfg ds = COk (r, part) /\ parse_directives ds = MOk dl /\
    ~ (rcell row (Some col, Some c) r ==
       dvalue (period_amount (mapped_entries cfg (user_entries (span part) (periods part) (flat_postings dl) ++
                 (if bc_close cfg
                  then closing_entries (flat_postings dl) (closable_keys (span part) (flat_postings dl)) (p_start (span part)) (periods part)
                  else [])))
               (acc_eqb row) c col))%Q.
Proof. exact cells_unsyntactic_refuted. Qed.
Print Assumptions C02_cells_unsyntactic_refuted.

(* the builder loses and duplicates nothing: the dated postings of its days are a permutation
   of the journal's postings, each in the day of its date *)
Theorem C02_builder_complete : forall dl,
  Permutation.Permutation (days_postings (Journal.b_days (Journal.builder_of dl))) (flat_postings dl)
  /\ days_dated (Journal.b_days (Journal.builder_of dl)).
Proof. intros dl. split; [apply builder_of_perm|apply builder_of_dated]. Qed.
Print Assumptions C02_builder_complete.

(* a row shows, per column, the running total of the period amounts (or the period amount
   itself with --diff), negated for equity/income/expense rows *)
Theorem C02_row_cumulative : forall diff neg_ vals c dates,
  Forall2 cell_is (Report.row_numbers diff neg_ vals c dates Ledger.dec_nil) (row_values diff neg_ vals c dates 0%Q).
Proof. intros. apply row_numbers_values. reflexivity. Qed.
Print Assumptions C02_row_cumulative.

(* ------------------------------------------------------------------ table level *)

(* The rows of the table that Renderer.Render builds, for every report, every render
   configuration and every list of dates: Spec.BalanceTableSpec.report_table_rows. *)
Theorem C02_table_layout : forall rc r dates,
  t_rows (render_report rc r dates) =
  (let w := tw rc dates in
   let al := sorted_al rc r in
   let eie := sorted_eie rc r in
   let total_al := node_totals (total_key rc) al [] in
   let total_eie := node_totals (total_key rc) eie [] in
   [repeat CSep w; header_cells rc dates; repeat CSep w] ++
   section_rows rc dates false (n_children al) ++
   line_rows rc dates 0 s_TotalAL false total_al ++ [repeat CSep w] ++
   section_rows rc dates true (n_children eie) ++
   line_rows rc dates 0 s_TotalEIE true total_eie ++ [repeat CSep w] ++
   line_rows rc dates 0 s_Delta false (ra_plus total_al total_eie) ++ [repeat CSep w]).
Proof. exact render_report_layout. Qed.
Print Assumptions C02_table_layout.

(* a section is, per top-level account, the blocks of its subtree (depth first) and an empty line;
   account_blocks lists the blocks of both sections in table order *)
Theorem C02_table_sections : forall rc r dates,
  section_rows rc dates false (n_children (sorted_al rc r)) =
    concat (map (fun top => concat (map snd (node_blocks rc dates 0 false top)) ++ [repeat CEmpty (tw rc dates)])
                (n_children (sorted_al rc r))) /\
  section_rows rc dates true (n_children (sorted_eie rc r)) =
    concat (map (fun top => concat (map snd (node_blocks rc dates 0 true top)) ++ [repeat CEmpty (tw rc dates)])
                (n_children (sorted_eie rc r))) /\
  account_blocks rc r dates =
    flat_map (node_blocks rc dates 0 false) (n_children (sorted_al rc r)) ++
    flat_map (node_blocks rc dates 0 true) (n_children (sorted_eie rc r)).
Proof. intros. repeat split. Qed.
Print Assumptions C02_table_sections.

(* Which account rows the table has: the table is laid out as above; its account blocks are, in
   table order, one block acct_lines per element of account_rows (the nodes of the two sorted
   trees: path and stored amounts); the paths are pairwise distinct and are exactly the accounts
   that the independent computation lists. *)
Theorem C02_table_rows : forall cfg ds r part,
  bc_valuation cfg = None ->
  balance_report cfg ds = COk (r, part) ->
  let rc := balance_render_cfg cfg in
  let dates := end_dates part in
  t_rows (render_report rc r dates) = report_table_rows rc r dates /\
  account_blocks rc r dates = map (fun pa => (fst pa, acct_lines rc dates (fst pa) (snd pa))) (account_rows rc r) /\
  NoDup (map fst (account_rows rc r)) /\
  exists dl,
    parse_directives ds = MOk dl /\
    ((bc_close cfg = true -> postings_syntactic dl) ->
     forall row, In row (map fst (account_rows rc r)) <-> ledger_row cfg dl row).
Proof. exact table_rows. Qed.
Print Assumptions C02_table_rows.

(* the order of the account rows is that of the sorted trees, a permutation of the node paths *)
Theorem C02_table_rows_order : forall rc r,
  map fst (account_rows rc r) =
    map (fun l : str * account * ramounts => snd (fst l)) (flat_map tree_lines (n_children (sorted_al rc r))) ++
    map (fun l : str * account * ramounts => snd (fst l)) (flat_map tree_lines (n_children (sorted_eie rc r))) /\
  Permutation.Permutation (map fst (account_rows rc r)) (rows r).
Proof.
  intros rc r. split; [|apply account_rows_paths].
  unfold account_rows. rewrite map_map, map_app. reflexivity.
Qed.
Print Assumptions C02_table_rows_order.

(* The cells: the block of account `row` is block_ok -- a single name line when no commodity has a
   non-zero cell; else one line per such commodity, ascending, carrying the name (last segment,
   indented 2 per level) on the first line, the commodity, and per column a decimal whose value
   is the value of cell_amounts: the ledger's period amount, accumulated over the columns unless
   --diff, negated for equity / income / expense rows.  Exact decimals, no rounding. *)
Theorem C02_table_cells : forall cfg ds r part,
  bc_valuation cfg = None ->
  balance_report cfg ds = COk (r, part) ->
  exists dl,
    parse_directives ds = MOk dl /\
    (postings_syntactic dl ->
     let rc := balance_render_cfg cfg in
     let dates := end_dates part in
     let es := ledger_entries cfg dl part in
     forall row a, In (row, a) (account_rows rc r) ->
       exists coms,
         coms_sorted coms /\
         (forall c, In c coms <-> exists od, ~ (rcell row (od, Some c) r == 0)%Q) /\
         (forall c col, ~ (dvalue (period_amount es (acc_eqb row) c col) == 0)%Q -> In c coms) /\
         block_ok (tw rc dates) (last row []) (name_indent row) coms
                  (fun c => cell_amounts (bc_diff cfg) (negb (is_AL row)) es (acc_eqb row) c dates dec_nil)
                  (acct_lines rc dates row a)).
Proof. exact table_cells. Qed.
Print Assumptions C02_table_cells.

(* The total lines: the numbers of the line of commodity c of Total (A+L) / Total (E+I+E) / Delta
   (line_rows = render_rows puts row_numbers of the totals after the name and commodity cells)
   have the values of the ledger's period amounts over all A/L accounts / all other accounts,
   negated / all accounts, accumulated unless --diff. *)
Theorem C02_table_totals : forall cfg ds r part dl,
  bc_valuation cfg = None ->
  balance_report cfg ds = COk (r, part) ->
  parse_directives ds = MOk dl ->
  postings_syntactic dl ->
  forall c,
  let rc := balance_render_cfg cfg in
  let es := ledger_entries cfg dl part in
  let dates := end_dates part in
  let total_al := node_totals (total_key rc) (sorted_al rc r) [] in
  let total_eie := node_totals (total_key rc) (sorted_eie rc r) [] in
  Forall2 num_is (row_numbers (bc_diff cfg) false total_al (Some c) dates dec_nil)
                 (cell_amounts (bc_diff cfg) false es is_AL c dates dec_nil) /\
  Forall2 num_is (row_numbers (bc_diff cfg) true total_eie (Some c) dates dec_nil)
                 (cell_amounts (bc_diff cfg) true es (fun a => negb (is_AL a)) c dates dec_nil) /\
  Forall2 num_is (row_numbers (bc_diff cfg) false (ra_plus total_al total_eie) (Some c) dates dec_nil)
                 (cell_amounts (bc_diff cfg) false es (fun _ => true) c dates dec_nil).
Proof. exact total_lines. Qed.
Print Assumptions C02_table_totals.

(* num_is is equality of values; cell_amounts is LedgerSpec.cells before printing *)
Theorem C02_num_is_value : forall n d, num_is (CNum n) d <-> (dvalue n == dvalue d)%Q.
Proof. exact num_is_value. Qed.
Print Assumptions C02_num_is_value.

Theorem C02_cell_amounts_printed : forall diff negate es sel c cols total,
  cells diff negate es sel c cols total = map to_string (cell_amounts diff negate es sel c cols total).
Proof.
  intros diff negate es sel c cols. induction cols as [|col rest IH]; intros total; cbn [cells cell_amounts map]; [reflexivity|].
  rewrite IH. reflexivity.
Qed.
Print Assumptions C02_cell_amounts_printed.

(* The renderer alone, for every node amounts `a`, every render configuration (valued or not,
   with or without --show-commodities for the account): the numeric cells of the line of
   commodity oc show, per column, the value of what the node stores under keys that collapse to
   (column, oc) -- the amount of that commodity when commodities are shown, the sum over all
   commodities (oc = None) when they are not -- accumulated over the columns unless --diff. *)
Theorem C02_table_cells_render : forall rc p a neg_ oc dates,
  Forall2 cell_is
    (row_numbers (rc_diff rc) neg_ (shown_vals rc p a) oc dates dec_nil)
    (row_values (rc_diff rc) neg_ (shown_vals rc p a) oc dates 0%Q) /\
  forall d, (dvalue (ra_get0 (shown_vals rc p a) (Some d, oc)) == ReportSum.esum (collapse_key (show_of rc p)) (Some d, oc) a)%Q.
Proof. exact table_cells_render. Qed.
Print Assumptions C02_table_cells_render.

(* ------------------------------------------------------------------ which commodity lines *)

(* The close-stage date lemma: CloseAccounts (Model/Pipeline.v close_proc, for ANY state and any
   days) returns every day as it is or, on a closing day, with closing transactions of that date
   appended: a dated posting that leaves the stage entered it or is dated on a closing day. *)
Theorem C02_close_stage_dates : forall cds ds s s' ds',
  process_days (close_proc cds) s ds = ROk (s', ds') ->
  forall dp, In dp (days_postings ds') -> In dp (days_postings ds) \/ In (fst dp) cds.
Proof. exact close_days_dates. Qed.
Print Assumptions C02_close_stage_dates.

(* The keys of the report: every amount is stored under (end date of a shown period, commodity).
   A cell under the zero date (Partition.Align of a date after the last period), under a date
   that is not a column of the table, or under the nil commodity is zero in every row.  With
   --close this rests on C02_close_stage_dates: the closing days are the period starts, and a
   period start is aligned to the end of its own period (an empty window closes nothing). *)
Theorem C02_report_keys : forall cfg ds r part,
  bc_valuation cfg = None ->
  balance_report cfg ds = COk (r, part) ->
  forall row od oc,
    ~ (exists col c, od = Some col /\ oc = Some c /\ In col (end_dates part)) ->
    (rcell row (od, oc) r == 0)%Q.
Proof. exact report_key_dates. Qed.
Print Assumptions C02_report_keys.

(* (2) The criterion for a commodity line, both directions.  The renderer (Report.v render_node:
   ra_sum_into drops the zero amounts, ra_commodities lists the commodities of the keys that are
   left) lists commodity c in the block of an account iff the account has a non-zero amount under
   SOME stored key (date, c) -- not: a non-zero cell, nor a non-zero cumulated number.  By
   C02_report_keys the stored dates are the columns, so: iff the ledger has a non-zero PERIOD
   amount for (account, c) in some column of the table.  (A commodity whose period amounts are
   +5 and -5 in two columns is listed although its last cumulative cell is 0; a commodity booked
   +5 and -5 inside one period is not listed.)  The block is then block_ok as in C02_table_cells. *)
Theorem C02_commodity_line_iff : forall cfg ds r part,
  bc_valuation cfg = None ->
  balance_report cfg ds = COk (r, part) ->
  exists dl,
    parse_directives ds = MOk dl /\
    (postings_syntactic dl ->
     let rc := balance_render_cfg cfg in
     let dates := end_dates part in
     let es := ledger_entries cfg dl part in
     forall row a, In (row, a) (account_rows rc r) ->
       exists coms,
         coms_sorted coms /\
         (forall c, In c coms <-> exists col, In col dates /\ ~ (dvalue (period_amount es (acc_eqb row) c col) == 0)%Q) /\
         block_ok (tw rc dates) (last row []) (name_indent row) coms
                  (fun c => cell_amounts (bc_diff cfg) (negb (is_AL row)) es (acc_eqb row) c dates dec_nil)
                  (acct_lines rc dates row a)).
Proof. exact commodity_line_iff. Qed.
Print Assumptions C02_commodity_line_iff.

(* (1) The commodity lines of the three total rows.  Total (A+L) lists, ascending, exactly the
   commodities with a non-zero period amount over all A/L accounts in some column; Total (E+I+E)
   the same over all other accounts; Delta lists the UNION of the two lists (Amounts.Plus drops
   nothing), also where its numbers are zero (C01).  Each row is block_ok: a single name line when
   the list is empty, else one line per commodity with the numbers of C02_table_totals. *)
Theorem C02_total_lines : forall cfg ds r part dl,
  bc_valuation cfg = None ->
  balance_report cfg ds = COk (r, part) ->
  parse_directives ds = MOk dl ->
  postings_syntactic dl ->
  let rc := balance_render_cfg cfg in
  let es := ledger_entries cfg dl part in
  let dates := end_dates part in
  let total_al := node_totals (total_key rc) (sorted_al rc r) [] in
  let total_eie := node_totals (total_key rc) (sorted_eie rc r) [] in
  exists coms_al coms_eie coms_delta,
    (coms_sorted coms_al /\
     (forall c, In c coms_al <-> exists col, In col dates /\ ~ (dvalue (period_amount es is_AL c col) == 0)%Q) /\
     block_ok (tw rc dates) s_TotalAL 0 coms_al
              (fun c => cell_amounts (bc_diff cfg) false es is_AL c dates dec_nil)
              (line_rows rc dates 0 s_TotalAL false total_al)) /\
    (coms_sorted coms_eie /\
     (forall c, In c coms_eie <-> exists col, In col dates /\ ~ (dvalue (period_amount es (fun a => negb (is_AL a)) c col) == 0)%Q) /\
     block_ok (tw rc dates) s_TotalEIE 0 coms_eie
              (fun c => cell_amounts (bc_diff cfg) true es (fun a => negb (is_AL a)) c dates dec_nil)
              (line_rows rc dates 0 s_TotalEIE true total_eie)) /\
    (coms_sorted coms_delta /\
     (forall c, In c coms_delta <-> In c coms_al \/ In c coms_eie) /\
     block_ok (tw rc dates) s_Delta 0 coms_delta
              (fun c => cell_amounts (bc_diff cfg) false es (fun _ => true) c dates dec_nil)
              (line_rows rc dates 0 s_Delta false (ra_plus total_al total_eie))).
Proof. exact total_lines_listed. Qed.
Print Assumptions C02_total_lines.

(* ------------------------------------------------------------------ (3) the CSV text *)

(* Decimal.String is a function of the VALUE: whatever coefficient / exponent the report tree
   arrived at by adding in its own order, the printed number is that of the ledger amount. *)
Theorem C02_number_text : forall a b, (dvalue a == dvalue b)%Q -> to_string a = to_string b.
Proof. exact to_string_value. Qed.
Print Assumptions C02_number_text.

(* The sort order: the account rows of the table (depth first over the sorted trees: top level by
   account type, below by segment) are LedgerSpec.all_rows of the A/L entries followed by all_rows
   of the other entries (insertion by row_ltb) -- with --sort-alphabetically, and without it as
   well: an unvalued report has no weights (node_weight false is zero everywhere), the stable sort
   by weight moves nothing, and the children are kept in segment order. *)
Theorem C02_table_row_order : forall cfg ds r part dl,
  bc_valuation cfg = None ->
  balance_report cfg ds = COk (r, part) ->
  parse_directives ds = MOk dl ->
  postings_syntactic dl ->
  let es := ledger_entries cfg dl part in
  map fst (account_rows (balance_render_cfg cfg) r) =
  all_rows (filter is_AL_entry es) ++ all_rows (filter (fun e => negb (is_AL_entry e)) es).
Proof.
  intros cfg ds r part dl Hv Hrun Hp Hsyn es. unfold account_rows. rewrite map_map, map_app.
  change (fun x : str * account * ramounts => fst (snd (fst x), snd x)) with l_path.
  rewrite (tree_rows_order cfg ds r part dl Hv Hrun Hp Hsyn true), (tree_rows_order cfg ds r part dl Hv Hrun Hp Hsyn false).
  reflexivity.
Qed.
Print Assumptions C02_table_row_order.

(* The records of the CSV renderer on the table of the balance command are the rows of ledger_csv:
   same records in the same order, every field the same bytes (header, account names, commodities,
   numbers; blank and separator rows are skipped as in C17_csv_rows). *)
Theorem C02_csv_records : forall cfg ds r part dl,
  bc_valuation cfg = None ->
  balance_report cfg ds = COk (r, part) ->
  parse_directives ds = MOk dl ->
  postings_syntactic dl ->
  exists rows, ledger_csv cfg dl = Some rows /\
    render_csv_rows (render_report (balance_render_cfg cfg) r (end_dates part)) = rows.
Proof. exact csv_rows_are_ledger_rows. Qed.
Print Assumptions C02_csv_records.

(* The printed text.  balance_csv = balance_report ; render_report ; render_csv (Model/Cli.v);
   the text is the ledger's rows, fields joined by commas, one record per line.  (encoding/csv
   quoting is outside the model, see Table.v: no field of a balance report needs it.)
   Hypotheses: no valuation (ledger_csv is the unvalued report; it is None otherwise) and
   postings_syntactic (accounts as the parser produces them, see C02_cells).  Every window,
   interval, --last, --diff, --close, filter, mapping, remap, with and without -a. *)
Theorem C02_csv_is_ledger_csv : forall cfg ds text,
  bc_valuation cfg = None ->
  balance_csv cfg ds = COk text ->
  exists dl,
    parse_directives ds = MOk dl /\
    (postings_syntactic dl ->
     exists rows, ledger_csv cfg dl = Some rows /\ text = concat (map (fun rec => join [44] rec ++ [10]) rows)).
Proof. exact balance_csv_is_ledger_csv. Qed.
Print Assumptions C02_csv_is_ledger_csv.

(* non-vacuity: a journal over four months with --close.  Income of January (-1000) is carried to
   Equity:Equity at the start of February, income and expenses of February (-1000 + 200) at the
   start of March, the expenses of March (+300) at the start of April; the closed accounts are
   credited back the same amounts in the same column (Income:S shows +1000 in March, Expenses:R
   300 - 200).  Both sides of C02_cells are evaluated.  The row Equity:Equity (and its parent
   Equity) exists only because of the closing entries. *)
Example C02_close_example :
  let acc s := acc_of_name s in
  let A := [65;115;115;101;116;115;58;66] (* Assets:B *) in
  let I := [73;110;99;111;109;101;58;83] (* Income:S *) in
  let E := [69;120;112;101;110;115;101;115;58;82] (* Expenses:R *) in
  let EQ := [s_Equity; s_Equity] in
  let chf := [67;72;70] in
  let d0 := Date.of_civil 2020 1 5 in
  let ds := [ SOpen d0 (acc A); SOpen d0 (acc I); SOpen d0 (acc E);
              STxn (mkStxn (d0 + 1) [] [mkBooking (acc I) (acc A) (mkDec 1000 0) chf] None None);
              STxn (mkStxn (d0 + 35) [] [mkBooking (acc A) (acc E) (mkDec 200 0) chf] None None);
              STxn (mkStxn (d0 + 40) [] [mkBooking (acc I) (acc A) (mkDec 1000 0) chf] None None);
              STxn (mkStxn (d0 + 70) [] [mkBooking (acc A) (acc E) (mkDec 300 0) chf] None None);
              STxn (mkStxn (d0 + 89) [] [mkBooking (acc A) (acc E) (mkDec 50 0) chf] None None) ] in
  let cfg := mkBalanceCfg 0 (d0 + 90) Monthly 0 false true None true [] [] [] [] [] true in
  match balance_report cfg ds, parse_directives ds with
  | COk (r, part), MOk dl =>
    let es := mapped_entries cfg (user_entries (span part) (periods part) (flat_postings dl) ++
                closing_entries (flat_postings dl) (closable_keys (span part) (flat_postings dl)) (p_start (span part)) (periods part)) in
    let feb := Date.of_civil 2020 2 29 in let mar := Date.of_civil 2020 3 31 in let apr := d0 + 89 in
    postings_syntactic_b dl = true /\
    length (periods part) = 4%nat /\
    (rcell EQ (Some feb, Some chf) r == -1000 # 1)%Q /\ (dvalue (period_amount es (acc_eqb EQ) chf feb) == -1000 # 1)%Q /\
    (rcell EQ (Some mar, Some chf) r == -800 # 1)%Q /\ (dvalue (period_amount es (acc_eqb EQ) chf mar) == -800 # 1)%Q /\
    (rcell EQ (Some apr, Some chf) r == 300 # 1)%Q /\ (dvalue (period_amount es (acc_eqb EQ) chf apr) == 300 # 1)%Q /\
    (rcell (acc I) (Some mar, Some chf) r == 1000 # 1)%Q /\ (rcell (acc E) (Some mar, Some chf) r == 100 # 1)%Q /\
    existsb (acc_eqb EQ) (rows r) = true /\ existsb (acc_eqb [s_Equity]) (rows r) = true /\ length (rows r) = 8%nat
  | _, _ => False
  end.
Proof. vm_compute. repeat split. Qed.

(* the same journal at table level: eight account blocks in table order; the block of
   Equity:Equity (E/I/E: negated, cumulative) and the ledger's amounts for it *)
Example C02_table_example :
  let acc s := acc_of_name s in
  let A := [65;115;115;101;116;115;58;66] (* Assets:B *) in
  let I := [73;110;99;111;109;101;58;83] (* Income:S *) in
  let E := [69;120;112;101;110;115;101;115;58;82] (* Expenses:R *) in
  let EQ := [s_Equity; s_Equity] in
  let chf := [67;72;70] in
  let d0 := Date.of_civil 2020 1 5 in
  let ds := [ SOpen d0 (acc A); SOpen d0 (acc I); SOpen d0 (acc E);
              STxn (mkStxn (d0 + 1) [] [mkBooking (acc I) (acc A) (mkDec 1000 0) chf] None None);
              STxn (mkStxn (d0 + 35) [] [mkBooking (acc A) (acc E) (mkDec 200 0) chf] None None);
              STxn (mkStxn (d0 + 40) [] [mkBooking (acc I) (acc A) (mkDec 1000 0) chf] None None);
              STxn (mkStxn (d0 + 70) [] [mkBooking (acc A) (acc E) (mkDec 300 0) chf] None None);
              STxn (mkStxn (d0 + 89) [] [mkBooking (acc A) (acc E) (mkDec 50 0) chf] None None) ] in
  let cfg := mkBalanceCfg 0 (d0 + 90) Monthly 0 false true None true [] [] [] [] [] true in
  match balance_report cfg ds, parse_directives ds with
  | COk (r, part), MOk dl =>
    let rc := balance_render_cfg cfg in
    let dates := end_dates part in
    postings_syntactic_b dl = true /\
    map fst (account_blocks rc r dates) =
      [[s_Assets]; acc A; [s_Equity]; EQ; [s_Income]; acc I; [s_Expenses]; acc E] /\
    length (t_rows (render_report rc r dates)) = 21%nat /\
    map (fun pa => acct_lines rc dates (fst pa) (snd pa)) (filter (fun pa => acc_eqb (fst pa) EQ) (account_rows rc r)) =
      [[[CText s_Equity ALeft 2; CText chf ALeft 0; CNum (mkDec 0 0); CNum (mkDec 1000 0); CNum (mkDec 1800 0); CNum (mkDec 1500 0)]]] /\
    cell_amounts false true (ledger_entries cfg dl part) (acc_eqb EQ) chf dates dec_nil =
      [mkDec 0 0; mkDec 1000 0; mkDec 1800 0; mkDec 1500 0]
  | _, _ => False
  end.
Proof. vm_compute. repeat split. Qed.

(* the same journal: the commodity lines of the total rows, and the CSV text against ledger_csv *)
Example C02_csv_example :
  let acc s := acc_of_name s in
  let A := [65;115;115;101;116;115;58;66] (* Assets:B *) in
  let I := [73;110;99;111;109;101;58;83] (* Income:S *) in
  let E := [69;120;112;101;110;115;101;115;58;82] (* Expenses:R *) in
  let chf := [67;72;70] in
  let d0 := Date.of_civil 2020 1 5 in
  let ds := [ SOpen d0 (acc A); SOpen d0 (acc I); SOpen d0 (acc E);
              STxn (mkStxn (d0 + 1) [] [mkBooking (acc I) (acc A) (mkDec 1000 0) chf] None None);
              STxn (mkStxn (d0 + 35) [] [mkBooking (acc A) (acc E) (mkDec 200 0) chf] None None);
              STxn (mkStxn (d0 + 40) [] [mkBooking (acc I) (acc A) (mkDec 1000 0) chf] None None);
              STxn (mkStxn (d0 + 70) [] [mkBooking (acc A) (acc E) (mkDec 300 0) chf] None None);
              STxn (mkStxn (d0 + 89) [] [mkBooking (acc A) (acc E) (mkDec 50 0) chf] None None) ] in
  let cfg := mkBalanceCfg 0 (d0 + 90) Monthly 0 false true None true [] [] [] [] [] true in
  match balance_report cfg ds, balance_csv cfg ds, parse_directives ds with
  | COk (r, part), COk text, MOk dl =>
    let rc := balance_render_cfg cfg in
    postings_syntactic_b dl = true /\
    ra_commodities (node_totals (total_key rc) (sorted_al rc r) []) = [Some chf] /\
    shown_commodities (filter is_AL_entry (ledger_entries cfg dl part)) (fun _ => true) (end_dates part) = [chf] /\
    match ledger_csv cfg dl with
    | Some rows => length rows = 12%nat /\ text = concat (map (fun rec => join [44] rec ++ [10]) rows)
    | None => False
    end /\
    (* without -a: the same text *)
    balance_csv (mkBalanceCfg 0 (d0 + 90) Monthly 0 false true None false [] [] [] [] [] true) ds = COk text
  | _, _, _ => False
  end.
Proof. vm_compute. repeat split. Qed.
