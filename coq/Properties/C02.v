(* C02  Balance report equals an independent ledger computation.
   Specification: Spec/LedgerSpec.v ledger_csv (closed form over the flat list of postings).
   The refinement proof of the pipeline model to it is in progress; what is proved is below. *)
From Coq Require Import ZArith List Bool.
From Knut Require Import Model.Str Model.Dec Model.Account Model.Ledger Model.Cli Spec.LedgerSpec.
Import ListNotations.
Open Scope Z_scope.

(* a mapping rule leaves accounts it does not match alone *)
Theorem C02_mapping_local : forall r a,
  rule_match r (acc_name a) = None -> shorten [r] a = ShAcc a.
Proof. intros r a H. unfold shorten. cbn [mapping_level]. rewrite H. reflexivity. Qed.
Print Assumptions C02_mapping_local.

(* the shortened account consists of the first `level` and the last `suffix` segments *)
Theorem C02_shorten_shape : forall m a level suffix,
  mapping_level m (acc_name a) = Some (level, suffix) ->
  0 < level -> 0 <= suffix -> suffix < acc_level a -> level <= acc_level a - suffix ->
  shorten m a = ShAcc (firstn (Z.to_nat level) a ++ skipn (Z.to_nat (acc_level a - suffix)) a).
Proof.
  intros m a level suffix Hm Hl Hs Hs2 Hl2. unfold shorten. destruct m as [|r m']; [discriminate|].
  rewrite Hm.
  replace (level =? 0) with false by (symmetry; apply Z.eqb_neq; auto with zarith).
  replace (acc_level a <=? suffix) with false by (symmetry; apply Z.leb_gt; auto with zarith).
  replace (acc_level a - suffix <? level) with false by (symmetry; apply Z.ltb_ge; auto with zarith).
  replace ((level <? 0) || (suffix <? 0)) with false.
  2: { symmetry. apply orb_false_iff. split; apply Z.ltb_ge; auto with zarith. }
  f_equal. f_equal. rewrite firstn_firstn. f_equal.
  apply Nat.min_l. apply Z2Nat.inj_le; auto with zarith.
Qed.
Print Assumptions C02_shorten_shape.
