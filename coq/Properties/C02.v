(* C02  Balance report equals an independent ledger computation.
   Specification: Spec/LedgerSpec.v (closed form over the flat list of dated postings after accrual
   expansion: user_entries, closing_entries, mapped_entries, period_amount, ledger_row, ledger_csv).

   Proved at full strength, for every journal, window, interval, --last (any integer), filter,
   mapping (any level and suffix), remap, with and without --close:

   C02_cells  every cell of the report trees of the model equals (as a rational value) the
       closed-form sum

         rcell row (Some col, Some c) r ==
         dvalue (period_amount (mapped_entries cfg (user_entries (span part) (periods part) (flat_postings dl) ++
                   (if bc_close cfg then closing_entries (flat_postings dl) (closable_keys (span part) (flat_postings dl))
                                                         (p_start (span part)) (periods part) else [])))
                 (acc_eqb row) c col)

   C02_rows   the report has a node (every node is rendered as a row) for exactly the accounts
       ledger_row lists: In row (rows r) <-> ledger_row cfg dl row -- the mapped account of an
       entry of that same list (a booking inside the window passing the filters, or a half of a
       closing entry with a non-zero amount), or a parent of one.

   With --close both say that the stateful CloseAccounts processor (Model/Pipeline.v close_proc,
   closing_txns; Go: lib/journal/process.go CloseAccounts) equals Spec.LedgerSpec.closing_entries:
   at the start of every shown period, for every account that is neither A/L nor Equity:Equity,
   what it accumulated inside the window since the previous period start (since the window start
   for the first period) is moved to Equity:Equity under that period's column, and the
   accumulator starts again.  Proofs/CloseProofs.v (cells: close_day is the invariant -- after a
   day, for every weight g, the g-weighted sum of c_qty = the g-weighted sum of the closable
   postings since the last closing day; close_days, DD_nxt, regroup, RS_find, report_cells) and
   Proofs/LayoutProofs.v (rows: close_days_set gives the state at every closing day as the sum of
   the postings whose next period start it is; state_nonzero, spec_close_keys, report_rows).
   Hypothesis with --close only: [postings_syntactic dl] (Spec/LedgerSyntax.v): every posting account
   is one the parser can produce (first segment an account type, no colon and no NUL byte inside a
   segment).  The model keys CloseAccounts' map by the string name ++ NUL ++ commodity where knut
   uses (account, commodity) pointers; the two agree exactly under this condition, and
   C02_cells_unsyntactic_refuted shows that the model (not knut) merges two keys without it.
   The cumulative / --diff presentation of a row is C02_row_cumulative.

   Not proved, decided by the correspondence on every run: the text of the CSV (that the renderer
   emits one block of lines per node in the order of all_rows, the commodity lines of a row, the
   total and delta lines, the printed form of the numbers), i.e. balance_csv = the rendering of
   ledger_csv as a theorem.  ledger_csv is built from exactly the expression above and is
   compared with the binary's CSV and the model's CSV on every run. *)
From Coq Require Import ZArith List Bool.
From Coq Require Import QArith.
From Knut Require Import Model.Str Model.Dec Model.Date Model.Account Model.Ledger Model.Report Model.Cli Spec.LedgerSpec
     Spec.LedgerSyntax Proofs.DecValue Proofs.LedgerProofs Proofs.CloseProofs Proofs.LayoutProofs.
Import ListNotations.
Open Scope Z_scope.

(* a mapping rule leaves accounts it does not match alone *)
Theorem C02_mapping_local : forall r a,
  rule_match r (acc_name a) = None -> shorten [r] a = ShAcc a.
Proof. intros r a H. unfold shorten. cbn [mapping_level]. rewrite H. reflexivity. Qed.
Print Assumptions C02_mapping_local.

(* the shortened account consists of the first `level` and the last `suffix` segments *)
Theorem C02_shorten_shape : forall m a level suffix,
  mapping_level m (acc_name a) = Some (level, suffix) ->
  0 < level -> 0 <= suffix -> suffix < acc_level a -> level <= acc_level a - suffix ->
  shorten m a = ShAcc (firstn (Z.to_nat level) a ++ skipn (Z.to_nat (acc_level a - suffix)) a).
Proof.
  intros m a level suffix Hm Hl Hs Hs2 Hl2. unfold shorten. destruct m as [|r m']; [discriminate|].
  rewrite Hm.
  replace (level =? 0) with false by (symmetry; apply Z.eqb_neq; auto with zarith).
  replace (acc_level a <=? suffix) with false by (symmetry; apply Z.leb_gt; auto with zarith).
  replace (acc_level a - suffix <? level) with false by (symmetry; apply Z.ltb_ge; auto with zarith).
  replace ((level <? 0) || (suffix <? 0)) with false.
  2: { symmetry. apply orb_false_iff. split; apply Z.ltb_ge; auto with zarith. }
  f_equal. f_equal. rewrite firstn_firstn. f_equal.
  apply Nat.min_l. apply Z2Nat.inj_le; auto with zarith.
Qed.
Print Assumptions C02_shorten_shape.

(* Every cell of the report (value stored in the tree node `row` under column `col` and
   commodity `c`) equals the closed-form ledger sum over the flat list of postings: bookings
   dated inside the window, passing the filters, mapped onto `row`, attributed to the period
   end `col`. *)
Theorem C02_cells_noclose : forall cfg ds r part,
  bc_valuation cfg = None -> bc_close cfg = false ->
  balance_report cfg ds = COk (r, part) ->
  exists dl,
    parse_directives ds = MOk dl /\
    new_partition (clip (mkPeriod (bc_from cfg) (bc_to cfg)) (journal_period dl)) (bc_interval cfg) (bc_last cfg) = POk part /\
    forall row c col,
      (rcell row (Some col, Some c) r ==
       dvalue (period_amount (mapped_entries cfg (user_entries (span part) (periods part) (flat_postings dl))) (acc_eqb row) c col))%Q.
Proof. exact report_cells_noclose. Qed.
Print Assumptions C02_cells_noclose.

(* The same with and without --close: with --close the entries include, at every period start,
   the amounts carried from the closed accounts to Equity:Equity (closing_entries). *)
Theorem C02_cells : forall cfg ds r part,
  bc_valuation cfg = None ->
  balance_report cfg ds = COk (r, part) ->
  exists dl,
    parse_directives ds = MOk dl /\
    new_partition (clip (mkPeriod (bc_from cfg) (bc_to cfg)) (journal_period dl)) (bc_interval cfg) (bc_last cfg) = POk part /\
    ((bc_close cfg = true -> postings_syntactic dl) ->
     forall row c col,
       (rcell row (Some col, Some c) r ==
        dvalue (period_amount (mapped_entries cfg (user_entries (span part) (periods part) (flat_postings dl) ++
                  (if bc_close cfg
                   then closing_entries (flat_postings dl) (closable_keys (span part) (flat_postings dl)) (p_start (span part)) (periods part)
                   else [])))
                (acc_eqb row) c col))%Q).
Proof. exact report_cells. Qed.
Print Assumptions C02_cells.

(* Which rows exist: the report has a node (rows r: the paths of all nodes of the two trees but the
   roots; the renderer emits every node) exactly for the accounts the independent computation lists. *)
Theorem C02_rows : forall cfg ds r part,
  bc_valuation cfg = None ->
  balance_report cfg ds = COk (r, part) ->
  exists dl,
    parse_directives ds = MOk dl /\
    ((bc_close cfg = true -> postings_syntactic dl) ->
     forall row, In row (rows r) <-> ledger_row cfg dl row).
Proof. exact report_rows. Qed.
Print Assumptions C02_rows.

(* the hypothesis follows from what Spec/WellformedSpec.v calls a syntactic journal (C04), and has
   an executable form *)
Theorem C02_syntactic_sufficient : forall dl, WellformedSpec.syntactic dl -> postings_syntactic dl.
Proof. exact syntactic_postings. Qed.
Print Assumptions C02_syntactic_sufficient.

Theorem C02_syntactic_decidable : forall dl, postings_syntactic_b dl = true <-> postings_syntactic dl.
Proof. exact postings_syntactic_b_iff. Qed.
Print Assumptions C02_syntactic_decidable.

(* Why C02_cells carries the hypothesis postings_syntactic: an account segment with a NUL byte
   (which the parser never produces) makes two (account, commodity) pairs share one position key
   of the MODEL's close stage (pos_key = name ++ NUL ++ commodity), which then carries their sum
   under one of them; the statement without the hypothesis is false of the model.  knut itself
   keys by (account, commodity) pointers and is not affected. *)
Theorem C02_cells_unsyntactic_refuted :
  exists cfg ds r part dl row c col,
    bc_valuation cfg = None /\ balance_report cfg ds = COk (r, part) /\ parse_directives ds = MOk dl /\
    ~ (rcell row (Some col, Some c) r ==
       dvalue (period_amount (mapped_entries cfg (user_entries (span part) (periods part) (flat_postings dl) ++
                 (if bc_close cfg
                  then closing_entries (flat_postings dl) (closable_keys (span part) (flat_postings dl)) (p_start (span part)) (periods part)
                  else [])))
               (acc_eqb row) c col))%Q.
Proof. exact cells_unsyntactic_refuted. Qed.
Print Assumptions C02_cells_unsyntactic_refuted.

(* the builder loses and duplicates nothing: the dated postings of its days are a permutation
   of the journal's postings, each in the day of its date *)
Theorem C02_builder_complete : forall dl,
  Permutation.Permutation (days_postings (Journal.b_days (Journal.builder_of dl))) (flat_postings dl)
  /\ days_dated (Journal.b_days (Journal.builder_of dl)).
Proof. intros dl. split; [apply builder_of_perm|apply builder_of_dated]. Qed.
Print Assumptions C02_builder_complete.

(* a row shows, per column, the running total of the period amounts (or the period amount
   itself with --diff), negated for equity/income/expense rows *)
Theorem C02_row_cumulative : forall diff neg_ vals c dates,
  Forall2 cell_is (Report.row_numbers diff neg_ vals c dates Ledger.dec_nil) (row_values diff neg_ vals c dates 0%Q).
Proof. intros. apply row_numbers_values. reflexivity. Qed.
Print Assumptions C02_row_cumulative.

(* non-vacuity: a journal over four months with --close.  Income of January (-1000) is carried to
   Equity:Equity at the start of February, income and expenses of February (-1000 + 200) at the
   start of March, the expenses of March (+300) at the start of April; the closed accounts are
   credited back the same amounts in the same column (Income:S shows +1000 in March, Expenses:R
   300 - 200).  Both sides of C02_cells are evaluated.  The row Equity:Equity (and its parent
   Equity) exists only because of the closing entries. *)
Example C02_close_example :
  let acc s := acc_of_name s in
  let A := [65;115;115;101;116;115;58;66] (* Assets:B *) in
  let I := [73;110;99;111;109;101;58;83] (* Income:S *) in
  let E := [69;120;112;101;110;115;101;115;58;82] (* Expenses:R *) in
  let EQ := [s_Equity; s_Equity] in
  let chf := [67;72;70] in
  let d0 := Date.of_civil 2020 1 5 in
  let ds := [ SOpen d0 (acc A); SOpen d0 (acc I); SOpen d0 (acc E);
              STxn (mkStxn (d0 + 1) [] [mkBooking (acc I) (acc A) (mkDec 1000 0) chf] None None);
              STxn (mkStxn (d0 + 35) [] [mkBooking (acc A) (acc E) (mkDec 200 0) chf] None None);
              STxn (mkStxn (d0 + 40) [] [mkBooking (acc I) (acc A) (mkDec 1000 0) chf] None None);
              STxn (mkStxn (d0 + 70) [] [mkBooking (acc A) (acc E) (mkDec 300 0) chf] None None);
              STxn (mkStxn (d0 + 89) [] [mkBooking (acc A) (acc E) (mkDec 50 0) chf] None None) ] in
  let cfg := mkBalanceCfg 0 (d0 + 90) Monthly 0 false true None true [] [] [] [] [] true in
  match balance_report cfg ds, parse_directives ds with
  | COk (r, part), MOk dl =>
    let es := mapped_entries cfg (user_entries (span part) (periods part) (flat_postings dl) ++
                closing_entries (flat_postings dl) (closable_keys (span part) (flat_postings dl)) (p_start (span part)) (periods part)) in
    let feb := Date.of_civil 2020 2 29 in let mar := Date.of_civil 2020 3 31 in let apr := d0 + 89 in
    postings_syntactic_b dl = true /\
    length (periods part) = 4%nat /\
    (rcell EQ (Some feb, Some chf) r == -1000 # 1)%Q /\ (dvalue (period_amount es (acc_eqb EQ) chf feb) == -1000 # 1)%Q /\
    (rcell EQ (Some mar, Some chf) r == -800 # 1)%Q /\ (dvalue (period_amount es (acc_eqb EQ) chf mar) == -800 # 1)%Q /\
    (rcell EQ (Some apr, Some chf) r == 300 # 1)%Q /\ (dvalue (period_amount es (acc_eqb EQ) chf apr) == 300 # 1)%Q /\
    (rcell (acc I) (Some mar, Some chf) r == 1000 # 1)%Q /\ (rcell (acc E) (Some mar, Some chf) r == 100 # 1)%Q /\
    existsb (acc_eqb EQ) (rows r) = true /\ existsb (acc_eqb [s_Equity]) (rows r) = true /\ length (rows r) = 8%nat
  | _, _ => False
  end.
Proof. vm_compute. repeat split. Qed.
