(* C02  Balance report equals an independent ledger computation.
   Specification: Spec/LedgerSpec.v (closed form over the flat list of dated postings after accrual
   expansion: user_entries, closing_entries, mapped_entries, period_amount, ledger_csv).

   Proved at full strength: without --close, every cell of the report trees of the model equals
   (as a rational value) the closed-form sum -- for every journal, window, interval, --last,
   filter, mapping (any level and suffix) and remap (C02_cells_noclose).  The cumulative / --diff
   presentation of a row is C02_row_cumulative.
   PARTIAL: with --close the same statement includes Spec.LedgerSpec.closing_entries (the amounts
   carried to Equity:Equity at each period start, in closed form).  The stateful CloseAccounts
   processor has not yet been proved equal to that closed form; the full statement is

     Theorem C02_cells : bc_valuation cfg = None -> balance_report cfg ds = COk (r, part) ->
       exists dl, parse_directives ds = MOk dl /\ ... /\ forall row c col,
         rcell row (Some col, Some c) r ==
         dvalue (period_amount (mapped_entries cfg (user_entries (span part) (periods part) (flat_postings dl) ++
                   (if bc_close cfg then closing_entries (flat_postings dl) (closable_keys (span part) (flat_postings dl))
                                                         (p_start (span part)) (periods part) else [])))
                 (acc_eqb row) c col).

   and is, for now, decided only by the correspondence: on every run ledger_csv (which uses exactly
   that expression) is compared with the binary's CSV and the model's CSV for journals with --close.
   The layout of the CSV (row order, commodity lines, totals) is likewise compared, not proved. *)
From Coq Require Import ZArith List Bool.
From Coq Require Import QArith.
From Knut Require Import Model.Str Model.Dec Model.Date Model.Account Model.Ledger Model.Report Model.Cli Spec.LedgerSpec
     Proofs.DecValue Proofs.LedgerProofs.
Import ListNotations.
Open Scope Z_scope.

(* a mapping rule leaves accounts it does not match alone *)
Theorem C02_mapping_local : forall r a,
  rule_match r (acc_name a) = None -> shorten [r] a = ShAcc a.
Proof. intros r a H. unfold shorten. cbn [mapping_level]. rewrite H. reflexivity. Qed.
Print Assumptions C02_mapping_local.

(* the shortened account consists of the first `level` and the last `suffix` segments *)
Theorem C02_shorten_shape : forall m a level suffix,
  mapping_level m (acc_name a) = Some (level, suffix) ->
  0 < level -> 0 <= suffix -> suffix < acc_level a -> level <= acc_level a - suffix ->
  shorten m a = ShAcc (firstn (Z.to_nat level) a ++ skipn (Z.to_nat (acc_level a - suffix)) a).
Proof.
  intros m a level suffix Hm Hl Hs Hs2 Hl2. unfold shorten. destruct m as [|r m']; [discriminate|].
  rewrite Hm.
  replace (level =? 0) with false by (symmetry; apply Z.eqb_neq; auto with zarith).
  replace (acc_level a <=? suffix) with false by (symmetry; apply Z.leb_gt; auto with zarith).
  replace (acc_level a - suffix <? level) with false by (symmetry; apply Z.ltb_ge; auto with zarith).
  replace ((level <? 0) || (suffix <? 0)) with false.
  2: { symmetry. apply orb_false_iff. split; apply Z.ltb_ge; auto with zarith. }
  f_equal. f_equal. rewrite firstn_firstn. f_equal.
  apply Nat.min_l. apply Z2Nat.inj_le; auto with zarith.
Qed.
Print Assumptions C02_shorten_shape.

(* Every cell of the report (value stored in the tree node `row` under column `col` and
   commodity `c`) equals the closed-form ledger sum over the flat list of postings: bookings
   dated inside the window, passing the filters, mapped onto `row`, attributed to the period
   end `col`. *)
Theorem C02_cells_noclose : forall cfg ds r part,
  bc_valuation cfg = None -> bc_close cfg = false ->
  balance_report cfg ds = COk (r, part) ->
  exists dl,
    parse_directives ds = MOk dl /\
    new_partition (clip (mkPeriod (bc_from cfg) (bc_to cfg)) (journal_period dl)) (bc_interval cfg) (bc_last cfg) = POk part /\
    forall row c col,
      (rcell row (Some col, Some c) r ==
       dvalue (period_amount (mapped_entries cfg (user_entries (span part) (periods part) (flat_postings dl))) (acc_eqb row) c col))%Q.
Proof. exact report_cells_noclose. Qed.
Print Assumptions C02_cells_noclose.

(* the builder loses and duplicates nothing: the dated postings of its days are a permutation
   of the journal's postings, each in the day of its date *)
Theorem C02_builder_complete : forall dl,
  Permutation.Permutation (days_postings (Journal.b_days (Journal.builder_of dl))) (flat_postings dl)
  /\ days_dated (Journal.b_days (Journal.builder_of dl)).
Proof. intros dl. split; [apply builder_of_perm|apply builder_of_dated]. Qed.
Print Assumptions C02_builder_complete.

(* a row shows, per column, the running total of the period amounts (or the period amount
   itself with --diff), negated for equity/income/expense rows *)
Theorem C02_row_cumulative : forall diff neg_ vals c dates,
  Forall2 cell_is (Report.row_numbers diff neg_ vals c dates Ledger.dec_nil) (row_values diff neg_ vals c dates 0%Q).
Proof. intros. apply row_numbers_values. reflexivity. Qed.
Print Assumptions C02_row_cumulative.
