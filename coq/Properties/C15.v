(* C15  infer edits only the placeholder account.
   Theorem statements only.  Model: Model/Bayes.v -- [infer_with ph v letter digit choose training
   target] is `knut infer -a ph -t TRAINING TARGET` (stdout) on the bytes of the two files;
   [v = Orig] is bayes.go as found, [v = Fixed] the repaired code of findings/C15-infer.patch;
   [choose k cands] is the k-th call of inferAccount: the score (floating point) is NOT
   modelled, every theorem holds for EVERY choice function that returns an element of the
   candidate list and returns one whenever the list is not empty ([valid_choose]).
   Meanings and gaps: Spec/FormatSpec.v; relations: Proofs/InferProofs.v
     side_rel ph v cands acc acc' other : acc' = acc if acc is not the placeholder; otherwise
        acc' is a candidate different from [other] (Macro = false), or there is no such
        candidate and acc' is acc (Fixed) resp. the EMPTY account (Orig);
     booking_rel: quantity and commodity kept, credit side related with other = the debit
        account, debit side related with other = the credit account -- as it was (Orig) resp.
        as it is after inference (Fixed);
     directive_rel: everything but booking accounts kept.
   The executable specification Spec/InferSpec.v infer_ok_b is evaluated by the check on the
   binary's output.

   Relation to the property text:
     "changes nothing except occurrences of the placeholder"      C15_only_placeholder, C15_rest_is_format,
                                                                   C15_without_placeholder_is_format
     "replaced by an account that occurs in the training journal
      and differs from the other account of the same booking"      C15_candidate_valid, C15_candidates_from_training;
                                                                   Orig: C15_differs_refuted (both sides placeholder)
     "no such candidate: the booking is left unchanged"            Fixed: C15_no_candidate_unchanged; Orig: refuted
     "the result parses"                                           Orig: C15_parses_refuted.  For Fixed this is
          C15_parses : ... infer_with ph Fixed ... = InferOut out -> exists f, parse_text out = ParseOk f
          NOT proved: it needs C08's round trip (see Properties/C08.v) for the substituted meaning; checked on
          every generated case on the binary's output.
     "the choice is the same on every run"                         not a property of a function: the model has no
          map order; C15_deterministic_given_scores shows that "first maximum of the sorted candidates" for any
          comparison is a valid choice function; the binary is run 10 times per case by the check.          *)
From Coq Require Import String ZArith List Bool.
From Knut Require Import Model.Bytes Model.Utf8 Model.UnicodeTables Model.Scanner Model.Parser
  Model.SynPrinter Spec.SyntaxSpec Proofs.ScannerProofs Proofs.ParserProofs Spec.FormatSpec
  Model.SynRender Proofs.FormatProofs Model.Bayes Spec.InferSpec Proofs.InferProofs.
Import ListNotations.
Open Scope Z_scope.

(* Only placeholder sides change: the inferred meanings are related to the target's one by
   one by directive_rel (dates, descriptions, quantities, commodities, annotations, all
   non-transaction directives, all non-placeholder sides identical). *)
Theorem C15_only_placeholder : forall ph v choose cands ds k ds' k',
  valid_choose choose ->
  infer_sems ph v choose cands k ds = (ds', k') -> Forall2 (directive_rel ph v cands) ds ds'.
Proof. intros ph v choose cands ds k ds' k' H. exact (infer_sems_rel ph v choose H cands ds k ds' k'). Qed.
Print Assumptions C15_only_placeholder.

(* A replaced placeholder carries a candidate different from the account it had to avoid. *)
Theorem C15_candidate_valid : forall ph v cands acc acc' other,
  side_rel ph v cands acc acc' other -> without other cands <> [] -> fst acc = ph ->
  exists x, acc' = (x, false) /\ In x cands /\ x <> other.
Proof. exact side_rel_replaced. Qed.
Print Assumptions C15_candidate_valid.

(* Candidates are accounts of bookings of training transactions, and never the placeholder. *)
Theorem C15_candidates_from_training : forall ph training x,
  In x (candidates ph training) ->
  x <> ph /\ exists d, In d training /\ In x (booking_accounts d).
Proof.
  intros ph training x H. split.
  - intros E. subst. exact (candidates_not_ph ph training H).
  - exact (candidates_in_training ph training x H).
Qed.
Print Assumptions C15_candidates_from_training.

(* No candidate: the repaired code leaves the booking's account unchanged. *)
Theorem C15_no_candidate_unchanged : forall ph cands acc acc' other,
  side_rel ph Fixed cands acc acc' other -> fst acc = ph -> without other cands = [] -> acc' = acc.
Proof. intros ph cands acc acc' other. exact (side_rel_no_candidate ph Fixed cands acc acc' other). Qed.
Print Assumptions C15_no_candidate_unchanged.

(* The repaired code satisfies the executable statement of the property that the check
   evaluates on the binary's output (Spec/InferSpec.v), for every valid choice function:
   only placeholder sides differ; each is a training account different from the other side
   of its booking AS PRINTED, or is unchanged when the training journal offers none. *)
Theorem C15_fixed_meets_spec : forall ph training choose k target out k',
  valid_choose choose ->
  infer_sems ph Fixed choose (candidates ph training) k target = (out, k') ->
  infer_ok_b ph training target out = true.
Proof. exact fixed_meets_spec. Qed.
Print Assumptions C15_fixed_meets_spec.

(* The printed text is the target's gaps interleaved with the rendering of the inferred
   meanings -- the very function that `format` is of meanings and gaps (C08_format_shape). *)
Theorem C15_rest_is_format : forall ph v letter digit choose training target out,
  infer_with ph v letter digit choose training target = InferOut out ->
  exists ftr ftg sems k,
    parse_text letter digit training = ParseOk ftr /\ parse_text letter digit target = ParseOk ftg /\
    infer_sems ph v choose (candidates ph (sem training ftr)) 0%nat (sem target ftg) = (sems, k) /\
    render Utf8M.decode sems (gaps target ftg) = Some out.
Proof. exact infer_with_shape. Qed.
Print Assumptions C15_rest_is_format.

(* A target without the placeholder: infer prints exactly the formatted target. *)
Theorem C15_without_placeholder_is_format : forall ph v letter digit choose training target ftr ftg,
  parse_text letter digit training = ParseOk ftr -> parse_text letter digit target = ParseOk ftg ->
  Forall (directive_free ph) (sem target ftg) ->
  exists out, format_text letter digit target ftg = FOk out /\
              infer_with ph v letter digit choose training target = InferOut out.
Proof. exact infer_without_placeholder. Qed.
Print Assumptions C15_without_placeholder_is_format.

(* "First maximum over the sorted candidate list" is a valid choice function for any
   comparison of scores: with it the model is a deterministic function of the two files. *)
Theorem C15_deterministic_given_scores : forall gt : str -> str -> bool,
  valid_choose (fun _ => first_max gt).
Proof. exact first_max_valid. Qed.
Print Assumptions C15_deterministic_given_scores.

(* ---- the code as found: refutations by witnesses (findings/C15-infer.md) ---- *)

Definition tbd : str := Eval vm_compute in runes_of_string "Expenses:TBD"%string.
Definition first_choice : nat -> list str -> option str := fun _ l => hd_error l.

Lemma first_choice_valid : valid_choose first_choice.
Proof.
  split.
  - intros k [|y l] x H; [discriminate|]. inversion H. now left.
  - intros k [|y l] H; [congruence|discriminate].
Qed.

Definition w_training0 : str := Eval vm_compute in runes_of_string "2020-01-01 open A
"%string.
Definition w_target : str := Eval vm_compute in runes_of_string "2020-01-02 ""x""
Expenses:TBD Assets:Bank 1 CHF
"%string.

(* no candidate: the placeholder is replaced by the empty account and the output does not parse *)
Theorem C15_no_candidate_unchanged_refuted :
  exists acc', side_rel tbd Orig [] (tbd, false) acc' (runes_of_string "Assets:Bank"%string) /\ acc' <> (tbd, false).
Proof. exists ([], false). split; [right; split; [reflexivity|right; split; reflexivity]|discriminate]. Qed.
Print Assumptions C15_no_candidate_unchanged_refuted.

Theorem C15_parses_refuted :
  exists out e, valid_choose first_choice /\
    infer_with tbd Orig is_letter is_digit first_choice w_training0 w_target = InferOut out /\
    parse_text is_letter is_digit out = ParseErr e.
Proof. do 2 eexists. split; [exact first_choice_valid|]. split; [vm_compute; reflexivity|vm_compute; reflexivity]. Qed.
Print Assumptions C15_parses_refuted.

Definition w_training2 : str := Eval vm_compute in runes_of_string "2020-01-01 ""a""
A B 1 CHF
"%string.
Definition w_both : str := Eval vm_compute in runes_of_string "2020-01-02 ""x""
Expenses:TBD Expenses:TBD 1 CHF
"%string.

(* placeholder on both sides: both get the same account *)
Theorem C15_differs_refuted :
  exists out f a, valid_choose first_choice /\
    infer_with tbd Orig is_letter is_digit first_choice w_training2 w_both = InferOut out /\
    parse_text is_letter is_digit out = ParseOk f /\
    sem out f = [SemTrx (runes_of_string "2020-01-02"%string) (runes_of_string "x"%string)
                   [mkSemBooking (a, false) (a, false) (runes_of_string "1"%string) (runes_of_string "CHF"%string)]
                   None None].
Proof. do 3 eexists. split; [exact first_choice_valid|]. split; [vm_compute; reflexivity|]. split; [vm_compute; reflexivity|vm_compute; reflexivity]. Qed.
Print Assumptions C15_differs_refuted.

(* ---- the repaired code on the same witnesses ---- *)

Example C15_fixed_no_candidate :
  infer_with tbd Fixed is_letter is_digit first_choice w_training0 w_target =
  InferOut (runes_of_string "2020-01-02 ""x""
Expenses:TBD Assets:Bank           1 CHF
"%string).
Proof. vm_compute. reflexivity. Qed.

Example C15_fixed_both_sides :
  infer_with tbd Fixed is_letter is_digit first_choice w_training2 w_both =
  InferOut (runes_of_string "2020-01-02 ""x""
A B          1 CHF
"%string).
Proof. vm_compute. reflexivity. Qed.
