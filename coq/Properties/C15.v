(* C15  infer edits only the placeholder account.
   Theorem statements only.

   THE CODE WAS REPAIRED (/repo e8bd689 "fix: infer must leave a booking alone when there is no
   candidate, and choose deterministically"; finding F10, findings/C15-infer.md).  The model
   follows the repaired code: variant [Fixed] of Model/Bayes.v is THE model of `knut infer`, it is
   what the check runs against the binary, and every theorem below that is not named *_refuted
   is about it.  Variant [Orig] (bayes.go before e8bd689) survives only in the three *_refuted
   theorems, which record what was wrong.

   Models.
   * Model/Bayes.v -- [infer_with ph Fixed letter digit choose training target] is
     `knut infer -a ph -t TRAINING TARGET` (stdout) on the bytes of the two files, with the
     outcome of the k-th call of inferAccount given by [choose k cands].  The theorems hold for
     EVERY choice function that returns an element of the candidate list and returns one
     whenever the list is not empty ([valid_choose]).  This is the function the check compares
     byte for byte with the binary (the binary's own choices are passed as [choose]).
   * Model/BayesScore.v -- [infer_scored F flog fadd fgt fields lower ph letter digit training
     target]: the same command with the choice MODELLED as the Go code makes it: the counts of
     Model.Update, tokenize, scoreCandidate summing over the tokens in sorted order, and the
     loop of inferAccount over the sorted candidates with `!found || score > max`.  Abstract are
     only the float64 operations (flog a b = math.Log(float64(a)/float64(b)), fadd, fgt) and
     strings.Fields / strings.ToLower; nothing is assumed about them.
     C15_scored_is_infer_with: infer_scored = infer_with ph Fixed ... choose for a valid choose.
   * Model/InferFs.v -- [infer_cmd_fs ... fs troot target]: the command with the training journal read as
     the code reads it (syntax.ParseFileRecursively): a file tree, include resolution and cycle detection by
     Model/Loader.v (C05, C14), training on every transaction of every visited file.  See the section
     THE TRAINING JOURNAL OVER AN INCLUDE TREE below: C15_training_layout_irrelevant (the output is a function
     of the multiset of training transactions: shape of the tree, file names, order do not matter),
     C15_training_arrival_irrelevant, C15_training_cycle_is_error / _bad_file_is_error (exit 1, nothing
     printed), C15_training_without_includes / _tree_as_one_file (it is the one-file command), and the
     theorems of the one-file command restated under the names C15_fs_xxx.
   Meanings and gaps: Spec/FormatSpec.v; relations: Proofs/InferProofs.v
     side_rel ph v cands acc acc' other : acc' = acc if acc is not the placeholder; otherwise
        acc' is a candidate different from [other] (Macro = false), or there is no such
        candidate and acc' is acc (Fixed) resp. the EMPTY account (Orig);
     booking_rel: quantity and commodity kept, credit side related with other = the debit
        account, debit side related with other = the credit account as it is after inference
        (Fixed) resp. as it was (Orig);
     directive_rel: everything but booking accounts kept.
   The executable specification Spec/InferSpec.v infer_ok_b is evaluated by the check on the
   binary's output; C15_roundtrip / C15_infer_correct prove it of the PARSE OF THE MODEL'S OUTPUT.

   Relation to the property text (all at full strength for the repaired code):
     "changes nothing except occurrences of the placeholder"      C15_only_placeholder, C15_roundtrip,
                                                                   C15_without_placeholder_is_format
     "replaced by an account that occurs in the training journal
      and differs from the other account of the same booking"      C15_candidate_valid, C15_candidates_from_training,
                                                                   C15_fixed_meets_spec;  Orig: C15_differs_refuted
     "no such candidate: the booking is left unchanged"            C15_no_candidate_unchanged;  Orig: ..._refuted
     "the result parses"                                           C15_parses, C15_parses_unicode, and more:
          C15_roundtrip -- the parse of the output has exactly the inferred meaning (the target's with the
          placeholder sides substituted; infer_ok_b holds of it) and the target's gaps, and the output is in
          formatted form.  Uses C08's round trip machinery (Proofs/RoundTrip*.v): a candidate is an account
          text of the training file's parse, hence lexically an account, so the substituted meaning is
          lexically valid and its rendering parses back to it (Proofs/InferRoundTrip.v).  Needs [class_ok]
          like C08 (true of Go's unicode tables: the *_unicode versions have no hypothesis).
          C15_total: on files that parse the command prints a text (no failure, never stuck).
          Orig: C15_parses_refuted.
     "apart from those account names and the column alignment
      they imply, identical to the formatted input"                C15_rest_is_format (total; both texts parse, same
          gaps, meanings related by directive_rel, both are [render] of meaning and gaps, both are fixed points
          of format), C15_render_shape
     running infer on its own output changes nothing              C15_idempotent (no condition: a placeholder the
          first run left has no candidate in the second run either)
     "the choice is the same on every run"                         the choice is modelled (Model/BayesScore.v):
          C15_choice_first_max -- the winner is the first maximum of the sorted candidates (beats everything
          before it, nothing after it beats it; unique for a strict weak order: C15_first_max_unique);
          C15_choice_invariant -- it is a function of the MULTISET of training events, the SET of tokens and the
          SET of map keys: independent of the order in which Go enumerates its maps and sets;
          C15_training_order_irrelevant -- permuting the training transactions does not change the output;
          C15_infer_correct -- the whole property for the command with its real choice.
          Not modelled: IEEE arithmetic itself (the proofs hold for any flog/fadd/fgt).  The check runs the
          extracted infer_scored_sems with OCaml doubles and a transcription of Go's math.Log and requires every
          choice of the binary to be the model's (drv_c15.ml, verdict choice-differs-from-model); that the binary
          computes the same float64 values on every run is a fact about the Go runtime, sampled by 10 runs.      *)
From Coq Require Import String ZArith List Bool Permutation Lia.
From Knut Require Import Model.Loader Proofs.LoaderProofs Proofs.OrderLayout.
From Knut Require Import Model.Bytes Model.Utf8 Model.UnicodeTables Model.Scanner Model.Parser
  Model.SynPrinter Spec.SyntaxSpec Proofs.ScannerProofs Proofs.ParserProofs Spec.FormatSpec
  Model.SynRender Proofs.FormatProofs Model.Bayes Model.BayesScore Spec.InferSpec Proofs.InferProofs
  Proofs.RoundTripLeaf Proofs.RoundTripTop Proofs.InferRoundTrip Proofs.InferChoice
  Model.InferFs Proofs.InferFs.
Import ListNotations.
Open Scope Z_scope.

(* Only placeholder sides change: the inferred meanings are related to the target's one by
   one by directive_rel (dates, descriptions, quantities, commodities, annotations, all
   non-transaction directives, all non-placeholder sides identical). *)
Theorem C15_only_placeholder : forall ph v choose cands ds k ds' k',
  valid_choose choose ->
  infer_sems ph v choose cands k ds = (ds', k') -> Forall2 (directive_rel ph v cands) ds ds'.
Proof. intros ph v choose cands ds k ds' k' H. exact (infer_sems_rel ph v choose H cands ds k ds' k'). Qed.
Print Assumptions C15_only_placeholder.

(* A replaced placeholder carries a candidate different from the account it had to avoid. *)
Theorem C15_candidate_valid : forall ph v cands acc acc' other,
  side_rel ph v cands acc acc' other -> without other cands <> [] -> fst acc = ph ->
  exists x, acc' = (x, false) /\ In x cands /\ x <> other.
Proof. exact side_rel_replaced. Qed.
Print Assumptions C15_candidate_valid.

(* Candidates are accounts of bookings of training transactions, and never the placeholder. *)
Theorem C15_candidates_from_training : forall ph training x,
  In x (candidates ph training) ->
  x <> ph /\ exists d, In d training /\ In x (booking_accounts d).
Proof.
  intros ph training x H. split.
  - intros E. subst. exact (candidates_not_ph ph training H).
  - exact (candidates_in_training ph training x H).
Qed.
Print Assumptions C15_candidates_from_training.

(* No candidate: the repaired code leaves the booking's account unchanged. *)
Theorem C15_no_candidate_unchanged : forall ph cands acc acc' other,
  side_rel ph Fixed cands acc acc' other -> fst acc = ph -> without other cands = [] -> acc' = acc.
Proof. intros ph cands acc acc' other. exact (side_rel_no_candidate ph Fixed cands acc acc' other). Qed.
Print Assumptions C15_no_candidate_unchanged.

(* The repaired code satisfies the executable statement of the property that the check
   evaluates on the binary's output (Spec/InferSpec.v), for every valid choice function:
   only placeholder sides differ; each is a training account different from the other side
   of its booking AS PRINTED, or is unchanged when the training journal offers none. *)
Theorem C15_fixed_meets_spec : forall ph training choose k target out k',
  valid_choose choose ->
  infer_sems ph Fixed choose (candidates ph training) k target = (out, k') ->
  infer_ok_b ph training target out = true.
Proof. exact fixed_meets_spec. Qed.
Print Assumptions C15_fixed_meets_spec.

(* The printed text is the target's gaps interleaved with the rendering of the inferred
   meanings -- the very function that `format` is of meanings and gaps (C08_format_shape).
   (Both variants.) *)
Theorem C15_render_shape : forall ph v letter digit choose training target out,
  infer_with ph v letter digit choose training target = InferOut out ->
  exists ftr ftg sems k,
    parse_text letter digit training = ParseOk ftr /\ parse_text letter digit target = ParseOk ftg /\
    infer_sems ph v choose (candidates ph (sem training ftr)) 0%nat (sem target ftg) = (sems, k) /\
    render Utf8M.decode sems (gaps target ftg) = Some out.
Proof. exact infer_with_shape. Qed.
Print Assumptions C15_render_shape.

(* ---- the result parses: the round trip ---- *)

Theorem C15_parses : forall ph letter digit choose training target out,
  class_ok letter digit -> valid_choose choose ->
  infer_with ph Fixed letter digit choose training target = InferOut out ->
  exists f, parse_text letter digit out = ParseOk f.
Proof. intros ph letter digit choose training target out Hc. exact (infer_parses ph letter digit Hc choose training target out). Qed.
Print Assumptions C15_parses.

(* The printed text parses; the meaning of the parse is the inferred meaning of the target: it
   is related to the target's meaning directive by directive by directive_rel and satisfies
   the executable statement of the property; the gaps of the parse are the target's gaps; the
   text is in formatted form. *)
Theorem C15_roundtrip : forall ph letter digit choose training target out,
  class_ok letter digit -> valid_choose choose ->
  infer_with ph Fixed letter digit choose training target = InferOut out ->
  exists ftr ftg f' k,
    parse_text letter digit training = ParseOk ftr /\ parse_text letter digit target = ParseOk ftg /\
    parse_text letter digit out = ParseOk f' /\
    infer_sems ph Fixed choose (candidates ph (sem training ftr)) 0%nat (sem target ftg) = (sem out f', k) /\
    Forall2 (directive_rel ph Fixed (candidates ph (sem training ftr))) (sem target ftg) (sem out f') /\
    infer_ok_b ph (sem training ftr) (sem target ftg) (sem out f') = true /\
    gaps out f' = gaps target ftg /\
    format_text letter digit out f' = FOk out.
Proof.
  intros ph letter digit choose training target out Hcls Hch H.
  destruct (infer_roundtrip ph letter digit Hcls choose training target out Hch H)
    as (ftr & ftg & f' & k & H1 & H2 & H3 & H4 & H5 & H6).
  exists ftr, ftg, f', k. repeat (split; [assumption|]).
  split; [exact (infer_sems_rel ph Fixed choose Hch _ _ _ _ _ H4)|].
  split; [exact (fixed_meets_spec ph _ choose _ _ _ _ Hch H4)|]. split; assumption.
Qed.
Print Assumptions C15_roundtrip.

(* for the real parser (Go's unicode.IsLetter / IsDigit) without any hypothesis on the classes *)
Theorem C15_parses_unicode : forall ph choose training target out,
  valid_choose choose ->
  infer_with ph Fixed is_letter is_digit choose training target = InferOut out ->
  exists f', parse_text is_letter is_digit out = ParseOk f' /\
    (forall ftr ftg, parse_text is_letter is_digit training = ParseOk ftr ->
                     parse_text is_letter is_digit target = ParseOk ftg ->
       infer_ok_b ph (sem training ftr) (sem target ftg) (sem out f') = true /\ gaps out f' = gaps target ftg).
Proof.
  intros ph choose training target out Hch H.
  destruct (C15_roundtrip ph is_letter is_digit choose training target out unicode_class_ok Hch H)
    as (ftr & ftg & f' & k & H1 & H2 & H3 & _ & _ & H6 & H7 & _).
  exists f'. split; [assumption|]. intros ftr' ftg' E1 E2.
  assert (ftr' = ftr) by congruence. assert (ftg' = ftg) by congruence. subst. split; assumption.
Qed.
Print Assumptions C15_parses_unicode.

(* On files that parse, the repaired command prints a text: it does not fail and is never stuck
   (InferBad is impossible; InferErr only when a file does not parse: infer_with_total). *)
Theorem C15_total : forall ph letter digit choose training target ftr ftg,
  valid_choose choose ->
  parse_text letter digit training = ParseOk ftr -> parse_text letter digit target = ParseOk ftg ->
  exists out, infer_with ph Fixed letter digit choose training target = InferOut out.
Proof. exact infer_total. Qed.
Print Assumptions C15_total.

(* "apart from those account names and the column alignment they imply, identical to the
   formatted input": on files that parse, `knut infer` prints [out] and `knut format` prints
   [fmt] for the target; both parse, to THE SAME GAPS (all text outside directives, byte for
   byte) and to meanings related one by one by directive_rel (only placeholder sides differ);
   both are the rendering, by the same function, of their meaning and these gaps; both are in
   formatted form. *)
Theorem C15_rest_is_format : forall ph letter digit,
  class_ok letter digit -> forall choose training target ftr ftg,
  valid_choose choose ->
  parse_text letter digit training = ParseOk ftr -> parse_text letter digit target = ParseOk ftg ->
  exists out fmt f' ff,
    infer_with ph Fixed letter digit choose training target = InferOut out /\
    format_text letter digit target ftg = FOk fmt /\
    parse_text letter digit out = ParseOk f' /\ parse_text letter digit fmt = ParseOk ff /\
    sem fmt ff = sem target ftg /\
    Forall2 (directive_rel ph Fixed (candidates ph (sem training ftr))) (sem target ftg) (sem out f') /\
    gaps out f' = gaps target ftg /\ gaps fmt ff = gaps target ftg /\
    render Utf8M.decode (sem out f') (gaps target ftg) = Some out /\
    render Utf8M.decode (sem target ftg) (gaps target ftg) = Some fmt /\
    format_text letter digit out f' = FOk out /\ format_text letter digit fmt ff = FOk fmt.
Proof. exact infer_rest_is_format. Qed.
Print Assumptions C15_rest_is_format.

(* Idempotence: running infer on its own output with the same training file prints the same
   text again, whatever the (valid) choice function of the second run -- also when placeholders
   are left: a placeholder the first run left has no candidate in the second run either. *)
Theorem C15_idempotent : forall ph letter digit,
  class_ok letter digit -> forall choose choose' training target out,
  valid_choose choose -> valid_choose choose' ->
  infer_with ph Fixed letter digit choose training target = InferOut out ->
  infer_with ph Fixed letter digit choose' training out = InferOut out.
Proof. exact infer_idempotent. Qed.
Print Assumptions C15_idempotent.

(* A target without the placeholder: infer prints exactly the formatted target. *)
Theorem C15_without_placeholder_is_format : forall ph v letter digit choose training target ftr ftg,
  parse_text letter digit training = ParseOk ftr -> parse_text letter digit target = ParseOk ftg ->
  Forall (directive_free ph) (sem target ftg) ->
  exists out, format_text letter digit target ftg = FOk out /\
              infer_with ph v letter digit choose training target = InferOut out.
Proof. exact infer_without_placeholder. Qed.
Print Assumptions C15_without_placeholder_is_format.

(* ---- "the choice is the same on every run": the choice of the repaired code ---- *)

(* "First maximum over the sorted candidate list" is a valid choice function for any
   comparison of scores. *)
Theorem C15_deterministic_given_scores : forall gt : str -> str -> bool,
  valid_choose (fun _ => first_max gt).
Proof. exact first_max_valid. Qed.
Print Assumptions C15_deterministic_given_scores.

(* inferAccount as modelled after the Go code is this first maximum, for the comparison of the
   scores of scoreCandidate, and a valid choice *)
Theorem C15_choice_valid : forall F flog fadd fgt fields lower evs,
  pick_valid (infer_account F flog fadd fgt fields lower evs) /\
  forall desc b other l,
    infer_account F flog fadd fgt fields lower evs desc b other l =
    first_max (fun c best => fgt (score F flog fadd evs (tokenize fields lower desc b other) c)
                                 (score F flog fadd evs (tokenize fields lower desc b other) best)) l.
Proof.
  intros. split; [apply infer_account_valid|]. intros. apply infer_account_first_max.
Qed.
Print Assumptions C15_choice_valid.

(* The tie-break, exactly: if `>` on scores is transitive and a > b implies a > c or c > b
   (every strict weak order, e.g. `>` on float64 without NaN -- the scores are finite sums of
   logarithms of positive ratios), the winner [c] of the loop over [l] splits the list,
   l = l1 ++ c :: l2, beats every candidate in l1 and is not beaten by any in l2: among the
   candidates with the maximal score it is the first, i.e. the byte-wise smallest, [l] being
   sorted. *)
Theorem C15_choice_first_max : forall (F : Type) (fgt : F -> F -> bool) (sc : str -> F),
  (forall a b c, fgt a b = true -> fgt b c = true -> fgt a c = true) ->
  (forall a b c, fgt a b = true -> fgt a c = true \/ fgt c b = true) ->
  forall l c, option_map fst (best_loop F fgt sc l None) = Some c -> first_max_spec F fgt sc l c.
Proof. exact best_loop_spec. Qed.
Print Assumptions C15_choice_first_max.

(* and that determines it (the candidate list has no duplicates: C15_candidates_sorted) *)
Theorem C15_first_max_unique : forall (F : Type) (fgt : F -> F -> bool) (sc : str -> F),
  (forall a b c, fgt a b = true -> fgt b c = true -> fgt a c = true) ->
  (forall a, fgt a a = false) ->
  forall l c c', NoDup l -> first_max_spec F fgt sc l c -> first_max_spec F fgt sc l c' -> c = c'.
Proof. exact first_max_unique. Qed.
Print Assumptions C15_first_max_unique.

(* THE CHOICE IS A FUNCTION OF THE MULTISET OF TRAINING EVENTS, THE SET OF TOKENS AND THE SET OF
   KEYS of countByAccount: whatever order the Go runtime enumerates the maps and the token set
   in ([t1]/[t2], [k1]/[k2] are two enumerations), and in whatever order the events arrived. *)
Theorem C15_choice_invariant : forall F flog fadd fgt evs1 evs2 t1 t2 k1 k2 other,
  Permutation evs1 evs2 -> (forall x, In x t1 <-> In x t2) -> (forall x, In x k1 <-> In x k2) ->
  choice F flog fadd fgt evs1 t1 k1 other = choice F flog fadd fgt evs2 t2 k2 other.
Proof. exact choice_invariant. Qed.
Print Assumptions C15_choice_invariant.

(* [choice] is what Model.Infer calls *)
Theorem C15_choice_is_infer_account : forall F flog fadd fgt fields lower evs desc b other,
  infer_account F flog fadd fgt fields lower evs desc b other (without other (candidates_c evs)) =
  choice F flog fadd fgt evs (tokenize fields lower desc b other) (map fst evs) other.
Proof. exact infer_account_choice. Qed.
Print Assumptions C15_choice_is_infer_account.

(* Two training files whose transactions are permutations of each other give the same output. *)
Theorem C15_training_order_irrelevant : forall F flog fadd fgt fields lower ph letter digit training1 training2 target f1 f2,
  parse_text letter digit training1 = ParseOk f1 -> parse_text letter digit training2 = ParseOk f2 ->
  Permutation (sem training1 f1) (sem training2 f2) ->
  infer_scored F flog fadd fgt fields lower ph letter digit training1 target =
  infer_scored F flog fadd fgt fields lower ph letter digit training2 target.
Proof. exact infer_scored_perm. Qed.
Print Assumptions C15_training_order_irrelevant.

(* The command with the modelled choice is the command of Model/Bayes.v for a valid choice
   function: everything above holds of it. *)
Theorem C15_scored_is_infer_with : forall F flog fadd fgt fields lower ph letter digit training target,
  exists choose, valid_choose choose /\
    infer_scored F flog fadd fgt fields lower ph letter digit training target =
    infer_with ph Fixed letter digit choose training target.
Proof. exact infer_scored_is_infer_with. Qed.
Print Assumptions C15_scored_is_infer_with.

(* The property for the command as it is (no choice function in sight): on files that parse it
   prints a text that parses; the meaning of the parse satisfies the executable statement of
   the property against target and training file; its gaps are the target's; the text is in
   formatted form; running the command on it prints it again. *)
Theorem C15_infer_correct : forall F flog fadd fgt fields lower ph letter digit training target ftr ftg,
  class_ok letter digit ->
  parse_text letter digit training = ParseOk ftr -> parse_text letter digit target = ParseOk ftg ->
  exists out f',
    infer_scored F flog fadd fgt fields lower ph letter digit training target = InferOut out /\
    parse_text letter digit out = ParseOk f' /\
    infer_ok_b ph (sem training ftr) (sem target ftg) (sem out f') = true /\
    gaps out f' = gaps target ftg /\
    format_text letter digit out f' = FOk out /\
    infer_scored F flog fadd fgt fields lower ph letter digit training out = InferOut out.
Proof. exact infer_scored_correct. Qed.
Print Assumptions C15_infer_correct.

(* the candidate list is strictly sorted (byte-wise), hence duplicate-free *)
Theorem C15_candidates_sorted : forall ph training,
  Sorted.StronglySorted InferOrder.bstr_lt (candidates ph training).
Proof. intros. apply InferOrder.sort_dedup_ssorted. Qed.
Print Assumptions C15_candidates_sorted.

(* ================================================================================================
   THE TRAINING JOURNAL OVER AN INCLUDE TREE (Model/InferFs.v, Proofs/InferFs.v, Proofs/LoaderVisits.v)

   inferRunner.train reads the training journal with syntax.ParseFileRecursively: includes are
   followed, the files reach the trainer in scheduling order, every transaction of every file
   updates the model.  [tfs] maps cleaned relative paths to file bytes.  The include resolution
   is Model/Loader.v [load] (C05, C14) run on the [skeleton] of the file system: a file that
   parses is [its tag; its include targets], a file that does not parse is FBad.
     training_files fs root = TrOk files | TrErr e | TrFuel       the files visited, once per visit
     training_sems fs files                                       the meanings the trainer sees
     infer_cmd_fs ... fs troot target       `knut infer -a ph -t TROOT TARGET` with the real choice
     infer_cmd_fs_arrival arrive ...        the same, files arriving in the order [arrive files]
     infer_with_fs ph v choose fs troot target                    the same for a choice function
   [visits sk root vs] (Proofs/OrderLayout.v, C05): [vs] is the depth-first visit list of the
   include tree below [root]; it has a derivation iff that tree is finite and all its files parse.
   [trxs] keeps the transactions of a list of meanings (everything else is ignored by the trainer).
   ================================================================================================ *)

(* the files the trainer gets are, up to order, the visit list of the include tree (C05_layout) *)
Theorem C15_training_files_are_visits : forall letter digit fs root files,
  training_files letter digit fs root = TrOk files ->
  exists vs, visits (skeleton letter digit fs) root vs /\ Permutation files vs.
Proof. exact training_files_visits. Qed.
Print Assumptions C15_training_files_are_visits.

(* conversely a finite include tree of files that parse loads, and the files are its visit list *)
Theorem C15_finite_tree_loads : forall letter digit fs root vs,
  visits (skeleton letter digit fs) root vs ->
  exists files, training_files letter digit fs root = TrOk files /\ Permutation files vs.
Proof. exact visits_training_files. Qed.
Print Assumptions C15_finite_tree_loads.

(* the load of the training journal ends on every file system (C14_load_terminates) *)
Theorem C15_training_load_terminates : forall letter digit fs root, training_files letter digit fs root <> TrFuel.
Proof. exact training_files_fuel. Qed.
Print Assumptions C15_training_load_terminates.

(* THE OUTPUT DEPENDS ONLY ON THE MULTISET OF TRAINING TRANSACTIONS: two file systems -- any
   shapes of the include trees, any file names, any distribution of the directives over the
   files, any order inside the files -- whose visited files hold permutations of the same
   transactions give byte-identical results on every target. *)
Theorem C15_training_layout_irrelevant :
  forall F flog fadd fgt fields lower ph letter digit fs1 root1 vs1 fs2 root2 vs2 target,
  visits (skeleton letter digit fs1) root1 vs1 -> visits (skeleton letter digit fs2) root2 vs2 ->
  Permutation (trxs (training_sems letter digit fs1 vs1)) (trxs (training_sems letter digit fs2 vs2)) ->
  infer_cmd_fs letter digit ph F flog fadd fgt fields lower fs1 root1 target =
  infer_cmd_fs letter digit ph F flog fadd fgt fields lower fs2 root2 target.
Proof. intros F flog fadd fgt fields lower ph letter digit. exact (infer_cmd_fs_layout ph letter digit F flog fadd fgt fields lower). Qed.
Print Assumptions C15_training_layout_irrelevant.

(* the files may reach the trainer in any order (the scheduler's) *)
Theorem C15_training_arrival_irrelevant :
  forall F flog fadd fgt fields lower ph letter digit arrive fs troot target,
  (forall l, Permutation l (arrive l)) ->
  infer_cmd_fs_arrival letter digit ph F flog fadd fgt fields lower arrive fs troot target =
  infer_cmd_fs letter digit ph F flog fadd fgt fields lower fs troot target.
Proof. intros F flog fadd fgt fields lower ph letter digit. exact (infer_cmd_fs_arrival_irrelevant ph letter digit F flog fadd fgt fields lower). Qed.
Print Assumptions C15_training_arrival_irrelevant.

(* a tree is as good as ONE training file holding its transactions in any order: the command of
   Model/BayesScore.v (this is how the check evaluates the model on generated trees) *)
Theorem C15_training_tree_as_one_file :
  forall F flog fadd fgt fields lower ph letter digit fs root vs training ftr target,
  visits (skeleton letter digit fs) root vs -> parse_text letter digit training = ParseOk ftr ->
  Permutation (trxs (training_sems letter digit fs vs)) (trxs (sem training ftr)) ->
  infer_cmd_fs letter digit ph F flog fadd fgt fields lower fs root target =
  infer_scored F flog fadd fgt fields lower ph letter digit training target.
Proof. intros F flog fadd fgt fields lower ph letter digit. exact (infer_cmd_fs_as_one_file ph letter digit F flog fadd fgt fields lower). Qed.
Print Assumptions C15_training_tree_as_one_file.

(* a training file without include directives: exactly the one-file command above *)
Theorem C15_training_without_includes :
  forall F flog fadd fgt fields lower ph letter digit fs root training target,
  tlookup fs root = Some training ->
  (forall ftr t, parse_text letter digit training = ParseOk ftr -> ~ In (SemInclude t) (sem training ftr)) ->
  infer_cmd_fs letter digit ph F flog fadd fgt fields lower fs root target =
  infer_scored F flog fadd fgt fields lower ph letter digit training target.
Proof. intros F flog fadd fgt fields lower ph letter digit. exact (infer_cmd_fs_no_includes ph letter digit F flog fadd fgt fields lower). Qed.
Print Assumptions C15_training_without_includes.

(* AN INCLUDE CYCLE IN THE TRAINING JOURNAL IS AN ERROR: exit 1, nothing is printed (nothing is
   written).  [S] is a set of files each of which parses and includes a file of the set. *)
Theorem C15_training_cycle_is_error :
  forall F flog fadd fgt fields lower ph letter digit fs (S : LoaderM.path -> Prop) troot target,
  (forall p, S p -> exists text f t, tlookup fs p = Some text /\ parse_text letter digit text = ParseOk f /\
                                     In (SemInclude t) (sem text f) /\ S (resolve p t)) ->
  S troot ->
  infer_cmd_fs letter digit ph F flog fadd fgt fields lower fs troot target = InferErr.
Proof. intros F flog fadd fgt fields lower ph letter digit. exact (infer_cmd_fs_cycle ph letter digit F flog fadd fgt fields lower). Qed.
Print Assumptions C15_training_cycle_is_error.

(* so is a missing or unparseable file anywhere in the include graph *)
Theorem C15_training_bad_file_is_error :
  forall F flog fadd fgt fields lower ph letter digit fs troot p target,
  reach (skeleton letter digit fs) troot p ->
  (tlookup fs p = None \/ exists text, tlookup fs p = Some text /\ forall f, parse_text letter digit text <> ParseOk f) ->
  infer_cmd_fs letter digit ph F flog fadd fgt fields lower fs troot target = InferErr.
Proof. intros F flog fadd fgt fields lower ph letter digit. exact (infer_cmd_fs_bad_file ph letter digit F flog fadd fgt fields lower). Qed.
Print Assumptions C15_training_bad_file_is_error.

(* ---- the theorems above, restated for the command on a file tree ---- *)

(* the command with its real choice is the command for a valid choice function *)
Theorem C15_fs_scored_is_infer_with : forall F flog fadd fgt fields lower ph letter digit fs troot target,
  exists choose, valid_choose choose /\
    infer_cmd_fs letter digit ph F flog fadd fgt fields lower fs troot target =
    infer_with_fs letter digit ph Fixed choose fs troot target.
Proof. intros F flog fadd fgt fields lower ph letter digit. exact (infer_cmd_fs_is_infer_with_fs ph letter digit F flog fadd fgt fields lower). Qed.
Print Assumptions C15_fs_scored_is_infer_with.

(* candidates are accounts of bookings of transactions of VISITED files, never the placeholder
   (with C15_candidate_valid / C15_no_candidate_unchanged, which speak about any candidate list) *)
Theorem C15_fs_candidates_from_training : forall ph letter digit fs files x,
  In x (candidates ph (training_sems letter digit fs files)) ->
  x <> ph /\ exists p d, In p files /\ In d (file_sems letter digit fs p) /\ In x (booking_accounts d).
Proof. exact candidates_from_files. Qed.
Print Assumptions C15_fs_candidates_from_training.

(* only_placeholder + candidate_valid + parses + roundtrip: whatever is printed parses; its
   meaning is the target's with exactly the placeholder sides substituted (directive_rel against
   the candidates of the visited files; infer_ok_b holds of it); its gaps are the target's; it
   is in formatted form *)
Theorem C15_fs_roundtrip : forall ph letter digit choose fs troot target out,
  class_ok letter digit -> valid_choose choose ->
  infer_with_fs letter digit ph Fixed choose fs troot target = InferOut out ->
  exists files ftg f' k,
    training_files letter digit fs troot = TrOk files /\
    parse_text letter digit target = ParseOk ftg /\
    parse_text letter digit out = ParseOk f' /\
    infer_sems ph Fixed choose (candidates ph (training_sems letter digit fs files)) 0%nat (sem target ftg) = (sem out f', k) /\
    Forall2 (directive_rel ph Fixed (candidates ph (training_sems letter digit fs files))) (sem target ftg) (sem out f') /\
    infer_ok_b ph (training_sems letter digit fs files) (sem target ftg) (sem out f') = true /\
    gaps out f' = gaps target ftg /\
    format_text letter digit out f' = FOk out.
Proof. intros ph letter digit. exact (infer_with_fs_roundtrip ph letter digit). Qed.
Print Assumptions C15_fs_roundtrip.

(* a training journal that loads and a target that parses: the command prints a text *)
Theorem C15_fs_total : forall ph letter digit choose fs troot files target ftg,
  valid_choose choose ->
  training_files letter digit fs troot = TrOk files -> parse_text letter digit target = ParseOk ftg ->
  exists out, infer_with_fs letter digit ph Fixed choose fs troot target = InferOut out.
Proof. intros ph letter digit. exact (infer_with_fs_total ph letter digit). Qed.
Print Assumptions C15_fs_total.

Theorem C15_fs_idempotent : forall ph letter digit choose choose' fs troot target out,
  class_ok letter digit -> valid_choose choose -> valid_choose choose' ->
  infer_with_fs letter digit ph Fixed choose fs troot target = InferOut out ->
  infer_with_fs letter digit ph Fixed choose' fs troot out = InferOut out.
Proof. intros ph letter digit. exact (infer_with_fs_idempotent ph letter digit). Qed.
Print Assumptions C15_fs_idempotent.

Theorem C15_fs_rest_is_format : forall ph letter digit choose fs troot files target ftg,
  class_ok letter digit -> valid_choose choose ->
  training_files letter digit fs troot = TrOk files -> parse_text letter digit target = ParseOk ftg ->
  exists out fmt f' ff,
    infer_with_fs letter digit ph Fixed choose fs troot target = InferOut out /\
    format_text letter digit target ftg = FOk fmt /\
    parse_text letter digit out = ParseOk f' /\ parse_text letter digit fmt = ParseOk ff /\
    sem fmt ff = sem target ftg /\
    Forall2 (directive_rel ph Fixed (candidates ph (training_sems letter digit fs files))) (sem target ftg) (sem out f') /\
    gaps out f' = gaps target ftg /\ gaps fmt ff = gaps target ftg /\
    render Utf8M.decode (sem out f') (gaps target ftg) = Some out /\
    render Utf8M.decode (sem target ftg) (gaps target ftg) = Some fmt /\
    format_text letter digit out f' = FOk out /\ format_text letter digit fmt ff = FOk fmt.
Proof. intros ph letter digit. exact (infer_with_fs_rest_is_format ph letter digit). Qed.
Print Assumptions C15_fs_rest_is_format.

(* the whole property for the command on a file tree with its real choice *)
Theorem C15_fs_infer_correct : forall F flog fadd fgt fields lower ph letter digit fs troot files target ftg,
  class_ok letter digit ->
  training_files letter digit fs troot = TrOk files -> parse_text letter digit target = ParseOk ftg ->
  exists out f',
    infer_cmd_fs letter digit ph F flog fadd fgt fields lower fs troot target = InferOut out /\
    parse_text letter digit out = ParseOk f' /\
    infer_ok_b ph (training_sems letter digit fs files) (sem target ftg) (sem out f') = true /\
    gaps out f' = gaps target ftg /\
    format_text letter digit out f' = FOk out /\
    infer_cmd_fs letter digit ph F flog fadd fgt fields lower fs troot out = InferOut out.
Proof. intros F flog fadd fgt fields lower ph letter digit. exact (infer_cmd_fs_correct ph letter digit F flog fadd fgt fields lower). Qed.
Print Assumptions C15_fs_infer_correct.

(* ... for the real parser, without hypothesis on the character classes *)
Theorem C15_fs_infer_correct_unicode : forall F flog fadd fgt fields lower ph fs troot files target ftg,
  training_files is_letter is_digit fs troot = TrOk files -> parse_text is_letter is_digit target = ParseOk ftg ->
  exists out f',
    infer_cmd_fs is_letter is_digit ph F flog fadd fgt fields lower fs troot target = InferOut out /\
    parse_text is_letter is_digit out = ParseOk f' /\
    infer_ok_b ph (training_sems is_letter is_digit fs files) (sem target ftg) (sem out f') = true /\
    gaps out f' = gaps target ftg /\
    format_text is_letter is_digit out f' = FOk out /\
    infer_cmd_fs is_letter is_digit ph F flog fadd fgt fields lower fs troot out = InferOut out.
Proof.
  intros F flog fadd fgt fields lower ph fs troot files target ftg.
  exact (infer_cmd_fs_correct ph is_letter is_digit F flog fadd fgt fields lower fs troot files target ftg unicode_class_ok).
Qed.
Print Assumptions C15_fs_infer_correct_unicode.

(* ---- the code before e8bd689 (variant Orig): refutations by witnesses (findings/C15-infer.md) ---- *)

Definition tbd : str := Eval vm_compute in runes_of_string "Expenses:TBD"%string.
Definition first_choice : nat -> list str -> option str := fun _ l => hd_error l.

Lemma first_choice_valid : valid_choose first_choice.
Proof.
  split.
  - intros k [|y l] x H; [discriminate|]. inversion H. now left.
  - intros k [|y l] H; [congruence|discriminate].
Qed.

Definition w_training0 : str := Eval vm_compute in runes_of_string "2020-01-01 open A
"%string.
Definition w_target : str := Eval vm_compute in runes_of_string "2020-01-02 ""x""
Expenses:TBD Assets:Bank 1 CHF
"%string.

(* no candidate: the placeholder is replaced by the empty account and the output does not parse *)
Theorem C15_no_candidate_unchanged_refuted :
  exists acc', side_rel tbd Orig [] (tbd, false) acc' (runes_of_string "Assets:Bank"%string) /\ acc' <> (tbd, false).
Proof. exists ([], false). split; [right; split; [reflexivity|right; split; reflexivity]|discriminate]. Qed.
Print Assumptions C15_no_candidate_unchanged_refuted.

Theorem C15_parses_refuted :
  exists out e, valid_choose first_choice /\
    infer_with tbd Orig is_letter is_digit first_choice w_training0 w_target = InferOut out /\
    parse_text is_letter is_digit out = ParseErr e.
Proof. do 2 eexists. split; [exact first_choice_valid|]. split; [vm_compute; reflexivity|vm_compute; reflexivity]. Qed.
Print Assumptions C15_parses_refuted.

Definition w_training2 : str := Eval vm_compute in runes_of_string "2020-01-01 ""a""
A B 1 CHF
"%string.
Definition w_both : str := Eval vm_compute in runes_of_string "2020-01-02 ""x""
Expenses:TBD Expenses:TBD 1 CHF
"%string.

(* placeholder on both sides: both get the same account *)
Theorem C15_differs_refuted :
  exists out f a, valid_choose first_choice /\
    infer_with tbd Orig is_letter is_digit first_choice w_training2 w_both = InferOut out /\
    parse_text is_letter is_digit out = ParseOk f /\
    sem out f = [SemTrx (runes_of_string "2020-01-02"%string) (runes_of_string "x"%string)
                   [mkSemBooking (a, false) (a, false) (runes_of_string "1"%string) (runes_of_string "CHF"%string)]
                   None None].
Proof. do 3 eexists. split; [exact first_choice_valid|]. split; [vm_compute; reflexivity|]. split; [vm_compute; reflexivity|vm_compute; reflexivity]. Qed.
Print Assumptions C15_differs_refuted.

(* ---- the repaired code (the model) on the same witnesses ---- *)

Example C15_fixed_no_candidate :
  infer_with tbd Fixed is_letter is_digit first_choice w_training0 w_target =
  InferOut (runes_of_string "2020-01-02 ""x""
Expenses:TBD Assets:Bank           1 CHF
"%string).
Proof. vm_compute. reflexivity. Qed.

Example C15_fixed_both_sides :
  infer_with tbd Fixed is_letter is_digit first_choice w_training2 w_both =
  InferOut (runes_of_string "2020-01-02 ""x""
A B          1 CHF
"%string).
Proof. vm_compute. reflexivity. Qed.

(* ---- the modelled choice, run: integer stand-ins for the float64 operations (the hypotheses
   of C15_choice_first_max / C15_first_max_unique are satisfiable), the description as one token ---- *)

Definition zlog (a b : Z) : Z := a * 1000 / b.
Definition one_field (s : str) : list str := [s].
Definition same (s : str) : str := s.

Example C15_zgt_order :
  (forall a b c, Z.gtb a b = true -> Z.gtb b c = true -> Z.gtb a c = true) /\
  (forall a b c, Z.gtb a b = true -> Z.gtb a c = true \/ Z.gtb c b = true) /\
  (forall a, Z.gtb a a = false).
Proof.
  split; [|split].
  - intros a b c. rewrite !Z.gtb_ltb, !Z.ltb_lt. lia.
  - intros a b c. rewrite !Z.gtb_ltb, !Z.ltb_lt. lia.
  - intros a. rewrite Z.gtb_ltb. apply Z.ltb_irrefl.
Qed.

Example C15_scored_both_sides :
  infer_scored Z zlog Z.add Z.gtb one_field same tbd is_letter is_digit w_training2 w_both =
  InferOut (runes_of_string "2020-01-02 ""x""
A B          1 CHF
"%string).
Proof. vm_compute. reflexivity. Qed.

Definition w_tie1 : str := Eval vm_compute in runes_of_string "2020-01-01 ""a""
B C 1 CHF

2020-01-01 ""a""
A C 1 CHF
"%string.
Definition w_tie2 : str := Eval vm_compute in runes_of_string "2020-01-01 ""a""
A C 1 CHF

2020-01-01 ""a""
B C 1 CHF
"%string.
Definition w_tie_target : str := Eval vm_compute in runes_of_string "2020-01-02 ""a""
Expenses:TBD C 1 CHF
"%string.

(* A and B have equal scores: the byte-wise smaller wins, whatever the order of the training file *)
Example C15_scored_tie :
  infer_scored Z zlog Z.add Z.gtb one_field same tbd is_letter is_digit w_tie1 w_tie_target =
  InferOut (runes_of_string "2020-01-02 ""a""
A C          1 CHF
"%string) /\
  infer_scored Z zlog Z.add Z.gtb one_field same tbd is_letter is_digit w_tie2 w_tie_target =
  infer_scored Z zlog Z.add Z.gtb one_field same tbd is_letter is_digit w_tie1 w_tie_target.
Proof. split; vm_compute; reflexivity. Qed.

(* ---- the training journal over an include tree, run ---- *)

(* "a" includes "s/b"; the two transactions of w_tie1, one in each file *)
Definition w_tree : tfs :=
  [ ([[97]], runes_of_string "include ""s/b""

2020-01-01 ""a""
A C 1 CHF
"%string);
    ([[115]; [98]], runes_of_string "2020-01-01 ""a""
B C 1 CHF
"%string) ].
Definition w_flat : tfs := [ ([[116]], w_tie1) ].
(* "a" includes "s/b", "s/b" includes "../a" *)
Definition w_cycle : tfs :=
  [ ([[97]], runes_of_string "include ""s/b""
"%string);
    ([[115]; [98]], runes_of_string "2020-01-01 ""a""
B C 1 CHF

include ""../a""
"%string) ].

Example C15_fs_tree_runs :
  training_files is_letter is_digit w_tree [[97]] = TrOk [[[97]]; [[115]; [98]]] /\
  infer_cmd_fs is_letter is_digit tbd Z zlog Z.add Z.gtb one_field same w_tree [[97]] w_tie_target =
  InferOut (runes_of_string "2020-01-02 ""a""
A C          1 CHF
"%string) /\
  infer_cmd_fs is_letter is_digit tbd Z zlog Z.add Z.gtb one_field same w_flat [[116]] w_tie_target =
  InferOut (runes_of_string "2020-01-02 ""a""
A C          1 CHF
"%string).
Proof. split; [|split]; vm_compute; reflexivity. Qed.

(* the hypotheses of C15_training_layout_irrelevant are satisfiable (and hold of these two) *)
Definition sk_tree : LoaderM.fsys := Eval vm_compute in skeleton is_letter is_digit w_tree.
Definition sk_flat : LoaderM.fsys := Eval vm_compute in skeleton is_letter is_digit w_flat.
Example C15_fs_layout_hypotheses :
  exists vs1 vs2,
    visits (skeleton is_letter is_digit w_tree) [[97]] vs1 /\ visits (skeleton is_letter is_digit w_flat) [[116]] vs2 /\
    Permutation (trxs (training_sems is_letter is_digit w_tree vs1)) (trxs (training_sems is_letter is_digit w_flat vs2)).
Proof.
  exists [[[97]]; [[115]; [98]]], [[[116]]].
  replace (skeleton is_letter is_digit w_tree) with sk_tree by (vm_compute; reflexivity).
  replace (skeleton is_letter is_digit w_flat) with sk_flat by (vm_compute; reflexivity).
  split; [|split].
  - eapply (visits_file _ [[97]] _ [[[[115]; [98]]]]); [vm_compute; reflexivity|].
    vm_compute. constructor; [|constructor].
    eapply (visits_file _ [[115]; [98]] _ []); [vm_compute; reflexivity|vm_compute; constructor].
  - eapply (visits_file _ [[116]] _ []); [vm_compute; reflexivity|vm_compute; constructor].
  - vm_compute. apply perm_swap.
Qed.

(* an include cycle: the hypotheses of C15_training_cycle_is_error hold, and the model says InferErr *)
Example C15_fs_cycle_runs :
  (exists e, training_files is_letter is_digit w_cycle [[97]] = TrErr e) /\
  infer_cmd_fs is_letter is_digit tbd Z zlog Z.add Z.gtb one_field same w_cycle [[97]] w_tie_target = InferErr /\
  tclosed is_letter is_digit w_cycle (fun p => p = [[97]] \/ p = [[115]; [98]]).
Proof.
  split; [eexists; vm_compute; reflexivity|]. split; [vm_compute; reflexivity|].
  intros p [->| ->].
  - do 3 eexists. split; [vm_compute; reflexivity|]. split; [vm_compute; reflexivity|].
    split; [vm_compute; left; reflexivity|]. right. vm_compute. reflexivity.
  - do 3 eexists. split; [vm_compute; reflexivity|]. split; [vm_compute; reflexivity|].
    split; [vm_compute; right; left; reflexivity|]. left. vm_compute. reflexivity.
Qed.
