(* C13  Importers turn every statement row into a valid, faithful journal entry.
   Group A: ch.swisscard2, ch.viac, ch.cumulus, ch.postfinance, ch.swisscard, ch.supercard
   (group B: Properties/C13b.v).  Theorem statements only.

   Models: Model/Imp/<importer>.v (import_X: the records Go's reader delivered -> directives;
   run_X: the whole command incl. flags and journal.Print), Model/ImpCommonA.v, Model/JPrinter.v.
   Vocabulary: Spec/ImpSpecA.v
     row_fact (date, signed amount, currency)   what a booking row says
     effect a c t                               change of account a's balance in c by transaction t (in Q)
     books acct counter f t                     t is dated rf_date f, consists of exactly one booking between
                                                acct and counter in rf_com f, changes acct by rf_amount f in
                                                rf_com f and by 0 in every other commodity, no annotation
     X_wf_row / X_fact / X_text                 executable reading of a record of importer X
   The theorems quantify over records (what encoding/csv resp. encoding/json delivered), not over
   file bytes.  In every theorem the import account must differ from Expenses:TBD, the counter
   account all six importers use (otherwise both postings hit the same account).

   Deviations of the code from the property's wording, stated here as the relation the code
   implements and written up under findings/:
   * cumulus ignores every record that is neither a booking row, a comment row nor a
     "Rundungskorrektur" row -- that includes the payment rows of the statement
     (findings/C13-cumulus-payment-rows-dropped.md); comment rows are folded into the
     description of the preceding transaction.
   * cumulus and swisscard recognise a booking row by an unanchored date-like expression; a row
     whose date is written differently is ignored without a diagnostic
     (findings/C13-silently-skipped-rows.md).
   * postfinance wrote a debugging line to standard output (C13_postfinance_stdout_refuted, F13;
     repaired by ea2bee2: the code is dbg = false).
   * a double quote in free text ended the description early (C13_quote_breaks_header_pinned, F14;
     repaired by faa0268: C13_description_has_no_quote).
   * supercard: when both Gutschrift and Belastung are filled Gutschrift wins; postfinance takes
     the amount as written (a Lastschrift without minus sign is booked as a credit); swisscard2
     ignores the Debit/Kredit column: the sign of Betrag decides. *)
From Coq Require Import ZArith QArith List Bool.
From Knut Require Import Model.Str Model.Dec Model.Date Model.Account Model.Ledger Model.Journal
     Model.Table Model.Report Model.JPrinter Model.ImpCommonA
     Model.Imp.Swisscard2 Model.Imp.Viac Model.Imp.Cumulus Model.Imp.Postfinance Model.Imp.Swisscard
     Model.Imp.Supercard
     Spec.ImpSpecA Spec.ImpStmtA Proofs.DecValue Proofs.PairProofs Proofs.ImpProofsA Proofs.ImpRunB Proofs.ImpStdoutA.
Import ListNotations.

(* ---------------------------------------------------------------- sign conventions *)

(* a booking that credits the import account lowers its balance by the quantity, one that debits
   it raises it; other commodities are untouched *)
Theorem C13_effect_of_credit : forall a counter c q d desc tg, a <> counter ->
  effect a c (mkTxn d desc (pair_build a counter c q dec_nil) tg) == - dvalue q.
Proof. exact effect_credit. Qed.
Print Assumptions C13_effect_of_credit.

Theorem C13_effect_of_debit : forall a counter c q d desc tg, a <> counter ->
  effect a c (mkTxn d desc (pair_build counter a c q dec_nil) tg) == dvalue q.
Proof. exact effect_debit. Qed.
Print Assumptions C13_effect_of_debit.

(* ---------------------------------------------------------------- ch.swisscard2 *)
(* Every record after the header is a booking row.  One transaction per row, in order, on the
   Transaktionsdatum; the account changes by -Betrag in Währung; counter-account Expenses:TBD;
   description = Beschreibung / Händler / Händlerkategorie / Kartennummer / Registrierte
   Kategorie / Debit-Kredit joined by " / "; nothing else is emitted. *)
Theorem C13_swisscard2_faithful : forall acct header rows,
  acct <> tbd_account -> forallb sc2_wf_row rows = true ->
  exists ts, import_swisscard2 acct (CRec header :: map CRec rows) = MOk (map DTxn ts) /\
    Forall2 (books acct tbd_account) (map sc2_fact rows) ts /\
    map t_desc ts = map build_desc (map sc2_text rows).
Proof. exact swisscard2_faithful. Qed.
Print Assumptions C13_swisscard2_faithful.

(* ---------------------------------------------------------------- ch.viac *)
(* The statement has no booking rows.  Exactly one price directive per dailyWealth entry that is
   not before --from and whose value is not zero, in order: <commodity> = round(value, 2) CHF on
   the entry's date; nothing else. *)
Theorem C13_viac_faithful : forall com from l,
  forallb viac_wf_entry l = true ->
  import_viac com from (VValues l) = MOk (map (price_of com s_CHF) (viac_prices from l)).
Proof. exact viac_faithful. Qed.
Print Assumptions C13_viac_faithful.

(* ---------------------------------------------------------------- ch.swisscard *)
(* Booking rows are the records whose first two fields look like dates; all other records are
   ignored.  One transaction per booking row, in order, on the Transaction Date; the account
   changes by -(Billing Amount without "CHF" and "'") CHF; description = the trimmed non-empty
   fields Card Number, Description, City, State, Zip, Reference Number joined by blanks. *)
Theorem C13_swisscard_faithful : forall acct rows,
  acct <> tbd_account -> forallb sc_wf_row rows = true ->
  exists ts, import_swisscard acct (map CRec rows) = MOk (map DTxn ts) /\
    Forall2 (books acct tbd_account) (map sc_fact (filter sc_is_booking rows)) ts /\
    map t_desc ts = map build_desc (map sc_text (filter sc_is_booking rows)).
Proof. exact swisscard_faithful. Qed.
Print Assumptions C13_swisscard_faithful.

(* ---------------------------------------------------------------- ch.supercard *)
(* After the "sep=;" line and the column header: Saldovortrag rows, 11-field rows and rows
   without account number are ignored; every other row is a booking row of 13 fields.  One
   transaction per booking row, in order, on the Einkaufsdatum; the account changes by
   +Gutschrift if filled, else by -Belastung, in Währung; description = Buchungstext Branche
   with runs of white space collapsed. *)
Theorem C13_supercard_faithful : forall acct header rows,
  acct <> tbd_account -> forallb sup_wf_row rows = true ->
  exists ts, import_supercard acct (CRec sup_first :: CRec header :: map CRec rows) = MOk (map DTxn ts) /\
    Forall2 (books acct tbd_account) (map sup_fact (filter sup_is_booking rows)) ts /\
    map t_desc ts = map build_desc (map sup_text (filter sup_is_booking rows)).
Proof. exact supercard_faithful. Qed.
Print Assumptions C13_supercard_faithful.

(* ---------------------------------------------------------------- ch.postfinance *)
(* Statement = key/value lines, column header, booking rows (7 or 8 fields), one further line
   d1 of another width, disclaimer lines of one field.  One transaction per booking row, in order,
   on the Buchungsdatum; the account changes by the filled one of Gutschrift / Lastschrift as
   written, in the currency of the "Währung:" line (CHF without one); description =
   Avisierungstext Kategorie Label, each trimmed.  The second component is what the importer has
   written to standard output besides the journal: the debugging line for d1.  dbg = true is
   the pinned code, dbg = false the code without the debugging statement. *)
Theorem C13_postfinance_faithful : forall dbg acct kvs header rows d1 ds,
  let cur := pf_header_currency kvs s_CHF in
  acct <> tbd_account ->
  forallb pf_is_kv kvs = true -> pf_is_kv header = false -> valid_name cur = true ->
  forallb pf_wf_row rows = true -> pf_is_row d1 = false -> forallb (fun r => len_is r 1) ds = true ->
  exists ts, import_postfinance dbg acct (pf_statement kvs header rows d1 ds) = (MOk (map DTxn ts), pf_debug_line dbg d1) /\
    Forall2 (books acct tbd_account) (map (pf_fact cur) rows) ts /\
    map t_desc ts = map build_desc (map pf_text rows).
Proof. exact postfinance_faithful. Qed.
Print Assumptions C13_postfinance_faithful.

(* "nothing else is emitted" is false of ch.postfinance (F13): on every well-formed statement the
   standard output starts with a non-empty line that is not part of the journal ... *)
Theorem C13_postfinance_stdout : forall dbg flag acct items ds out,
  account_flag flag = AAcc acct -> import_postfinance dbg acct items = (MOk ds, out) ->
  run_postfinance dbg flag items = mkRun (out ++ print_directives ds) SOk.
Proof. exact run_postfinance_ok. Qed.
Print Assumptions C13_postfinance_stdout.

Theorem C13_postfinance_debug_line_nonempty : forall r, pf_debug_line true r <> [].
Proof. exact pf_debug_line_nonempty. Qed.
Print Assumptions C13_postfinance_debug_line_nonempty.

(* without the debugging statement nothing but the journal is written *)
Theorem C13_postfinance_repaired_stdout : forall r, pf_debug_line false r = [].
Proof. reflexivity. Qed.
Print Assumptions C13_postfinance_repaired_stdout.

(* ... witness: a statement without rows imports nothing and still prints something *)
Theorem C13_postfinance_stdout_refuted :
  exists flag acct items,
    account_flag flag = AAcc acct /\
    fst (import_postfinance true acct items) = MOk [] /\
    ir_status (run_postfinance true flag items) = SOk /\
    ir_stdout (run_postfinance true flag items) <> print_directives [].
Proof.
  exists w_acct_flag, [s_Assets; [65]%Z], (pf_statement [] [[97]%Z] [] [[68]%Z] []).
  split; [reflexivity|]. exact pf_stdout_witness.
Qed.
Print Assumptions C13_postfinance_stdout_refuted.

(* ---------------------------------------------------------------- ch.cumulus *)
(* A statement is a sequence of entries (Spec.ImpSpecA.cum_entry): ignored records, booking rows
   with their comment rows, rounding rows.  One transaction per booking or rounding row, in
   order, on the Einkaufs-Datum (rounding: the date of the row); the account changes by
   +Gutschrift or -Belastung CHF; description = Beschreibung followed by the comments, each
   preceded by a blank; ignored records (which include the statement's payment rows) yield
   nothing. *)
Theorem C13_cumulus_faithful : forall acct entries,
  acct <> tbd_account -> forallb cum_wf_entry entries = true ->
  exists ts, import_cumulus acct (map CRec (flat_map cum_records entries)) = MOk (map DTxn ts) /\
    Forall2 (books acct tbd_account) (flat_map cum_facts entries) ts /\
    map t_desc ts = map build_desc (flat_map cum_texts entries).
Proof. exact cumulus_faithful. Qed.
Print Assumptions C13_cumulus_faithful.

(* ---------------------------------------------------------------- from the command line to stdout *)
(* With a valid --account (--commodity) the command succeeds on every well-formed statement and
   its standard output is journal.Print of exactly the transactions (prices) of the theorems
   above -- for postfinance preceded by the debugging line when dbg = true. *)
Theorem C13_swisscard2_end_to_end : forall flag acct header rows,
  account_flag flag = AAcc acct -> acct <> tbd_account -> forallb sc2_wf_row rows = true ->
  exists ts, run_swisscard2 flag (CRec header :: map CRec rows) = mkRun (print_directives (map DTxn ts)) SOk /\
    Forall2 (books acct tbd_account) (map sc2_fact rows) ts /\ map t_desc ts = map build_desc (map sc2_text rows).
Proof. exact swisscard2_run. Qed.
Print Assumptions C13_swisscard2_end_to_end.

Theorem C13_viac_end_to_end : forall flag l,
  valid_name flag = true -> forallb viac_wf_entry l = true ->
  run_viac flag None (VValues l) = mkRun (print_directives (map (price_of flag s_CHF) (viac_prices 0 l))) SOk.
Proof. exact viac_run. Qed.
Print Assumptions C13_viac_end_to_end.

(* with --from: the prices of the entries not before that day (None: all entries from day 0 on) *)
Theorem C13_viac_end_to_end_from : forall flag from l fr,
  valid_name flag = true ->
  match from with None => Some 0%Z | Some f => parse_iso f end = Some fr ->
  forallb viac_wf_entry l = true ->
  run_viac flag from (VValues l) = mkRun (print_directives (map (price_of flag s_CHF) (viac_prices fr l))) SOk.
Proof. exact viac_run_from. Qed.
Print Assumptions C13_viac_end_to_end_from.

Theorem C13_cumulus_end_to_end : forall flag acct entries,
  account_flag flag = AAcc acct -> acct <> tbd_account -> forallb cum_wf_entry entries = true ->
  exists ts, run_cumulus flag (map CRec (flat_map cum_records entries)) = mkRun (print_directives (map DTxn ts)) SOk /\
    Forall2 (books acct tbd_account) (flat_map cum_facts entries) ts /\
    map t_desc ts = map build_desc (flat_map cum_texts entries).
Proof. exact cumulus_run. Qed.
Print Assumptions C13_cumulus_end_to_end.

Theorem C13_postfinance_end_to_end : forall dbg flag acct kvs header rows d1 ds,
  let cur := pf_header_currency kvs s_CHF in
  account_flag flag = AAcc acct -> acct <> tbd_account ->
  forallb pf_is_kv kvs = true -> pf_is_kv header = false -> valid_name cur = true ->
  forallb pf_wf_row rows = true -> pf_is_row d1 = false -> forallb (fun r => len_is r 1) ds = true ->
  exists ts, run_postfinance dbg flag (pf_statement kvs header rows d1 ds) =
             mkRun (pf_debug_line dbg d1 ++ print_directives (map DTxn ts)) SOk /\
    Forall2 (books acct tbd_account) (map (pf_fact cur) rows) ts /\
    map t_desc ts = map build_desc (map pf_text rows).
Proof. exact postfinance_run. Qed.
Print Assumptions C13_postfinance_end_to_end.

Theorem C13_swisscard_end_to_end : forall flag acct rows,
  account_flag flag = AAcc acct -> acct <> tbd_account -> forallb sc_wf_row rows = true ->
  exists ts, run_swisscard flag (map CRec rows) = mkRun (print_directives (map DTxn ts)) SOk /\
    Forall2 (books acct tbd_account) (map sc_fact (filter sc_is_booking rows)) ts /\
    map t_desc ts = map build_desc (map sc_text (filter sc_is_booking rows)).
Proof. exact swisscard_run. Qed.
Print Assumptions C13_swisscard_end_to_end.

Theorem C13_supercard_end_to_end : forall flag acct header rows,
  account_flag flag = AAcc acct -> acct <> tbd_account -> forallb sup_wf_row rows = true ->
  exists ts, run_supercard flag (CRec sup_first :: CRec header :: map CRec rows) = mkRun (print_directives (map DTxn ts)) SOk /\
    Forall2 (books acct tbd_account) (map sup_fact (filter sup_is_booking rows)) ts /\
    map t_desc ts = map build_desc (map sup_text (filter sup_is_booking rows)).
Proof. exact supercard_run. Qed.
Print Assumptions C13_supercard_end_to_end.

(* ---------------------------------------------------------------- executable statement-level forms *)
(* Spec/ImpStmtA.v defines, from the row readings of Spec/ImpSpecA.v (X_wf_row, X_fact, X_text), the
   realisation of a row fact as one booking between the import account and Expenses:TBD and the shared
   printer -- not from the importer model -- the journal text X_statement_output the property
   prescribes for the records of a well-formed statement (None for any other list of records).
   The command prints exactly that text.  ./check C13 evaluates the extracted X_statement_output
   on the records of every generated well-formed statement and compares it with the standard
   output of the binary (drv_c13a.ml, verdict `spec`).  Unlike `books`, the executable form says
   which decimal is printed (the amount as written) and which way round a booking of zero is
   written (charge_directive / change_directive). *)

(* the executable form refines the relation: the transaction prescribed for a row fact books it
   (so every X_statement_output is the journal of transactions that `books` the statement's row
   facts, described by the rows' texts) *)
Theorem C13_change_directive_books : forall acct f text, acct <> tbd_account ->
  exists t, change_directive acct f text = DTxn t /\ books acct tbd_account f t /\ t_desc t = build_desc text.
Proof. exact change_directive_books. Qed.
Print Assumptions C13_change_directive_books.

Theorem C13_charge_directive_books : forall acct f text, acct <> tbd_account ->
  exists t, charge_directive acct f text = DTxn t /\ books acct tbd_account f t /\ t_desc t = build_desc text.
Proof. exact charge_directive_books. Qed.
Print Assumptions C13_charge_directive_books.

(* swisscard2: a header record, then well-formed rows; per row the charge Betrag booked from the
   account to Expenses:TBD *)
Theorem C13_swisscard2_stdout : forall flag acct recs,
  account_flag flag = AAcc acct -> sc2_statement_wf recs = true ->
  exists out, sc2_statement_output acct recs = Some out /\ run_swisscard2 flag (map CRec recs) = mkRun out SOk.
Proof. exact swisscard2_stdout. Qed.
Print Assumptions C13_swisscard2_stdout.

(* postfinance: key/value lines, the column header, well-formed booking rows, one further record,
   one-field disclaimer lines (pf_parts cuts the records up accordingly), the currency named by
   the key/value lines valid; per row the amount as written booked from Expenses:TBD to the
   account.  With the debugging statement (dbg = true, F13) the record after the rows precedes the
   journal.  (C13_postfinance_stdout above is the older theorem about the debugging line.) *)
Theorem C13_postfinance_statement_stdout : forall dbg flag acct recs,
  account_flag flag = AAcc acct -> pf_statement_wf recs = true ->
  exists out, pf_statement_output acct recs = Some out /\
    run_postfinance dbg flag (map CRec recs) = mkRun (pf_debug_line dbg (pf_after_rows recs) ++ out) SOk.
Proof. exact postfinance_stdout. Qed.
Print Assumptions C13_postfinance_statement_stdout.

(* the statement of the golden test in miniature: one key/value line, header, one row, disclaimer *)
Example C13_postfinance_statement_wf :
  let row := [[48;56;46;48;51;46;50;48;50;50]; [100]; []; [45;49;57]; [102]; [98]; [48;56;46;48;51;46;50;48;50;50]; []]%Z in
  pf_statement_wf [[s_waehr; [61;34;69;85;82;34]]; [[66]]; row; [[68]]; [[69]]]%Z = true /\
  pf_parts [[s_waehr; [61;34;69;85;82;34]]; [[66]]; row; [[68]]; [[69]]]%Z =
    Some ([[s_waehr; [61;34;69;85;82;34]]], [[66]], [row], [[68]], [[[69]]])%Z.
Proof. vm_compute. split; reflexivity. Qed.

(* viac: the decoded dailyWealth entries well-formed, --from (if given) a date; one price per entry
   that is not before that day and whose value is not zero *)
Theorem C13_viac_stdout : forall flag from l,
  valid_name flag = true -> viac_statement_wf from l = true ->
  exists out, viac_statement_output flag from l = Some out /\ run_viac flag from (VValues l) = mkRun out SOk.
Proof. exact viac_stdout. Qed.
Print Assumptions C13_viac_stdout.

Example C13_viac_statement_wf :
  viac_statement_wf (Some [50;48;49;56;45;48;54;45;50;48]%Z)
                    [([50;48;49;56;45;48;54;45;50;48]%Z, [54;55;54;56;46;53;53;54]%Z)] = true.
Proof. vm_compute. reflexivity. Qed.

(* supercard: the "sep=;" record, the column header, well-formed rows; per booking row Gutschrift
   resp. -Belastung booked from Expenses:TBD to the account *)
Theorem C13_supercard_stdout : forall flag acct recs,
  account_flag flag = AAcc acct -> sup_statement_wf recs = true ->
  exists out, sup_statement_output acct recs = Some out /\ run_supercard flag (map CRec recs) = mkRun out SOk.
Proof. exact supercard_stdout. Qed.
Print Assumptions C13_supercard_stdout.

Example C13_supercard_statement_wf :
  sup_statement_wf [sup_first; [[75]];
             [[49]; [50]; [79]; [48;57;46;48;53;46;50;48;50;49]; [65]; [84]; [51;46;50;48]; s_CHF; []; s_CHF;
              [51;46;50;48]; []; [49;48;46;48;53;46;50;48;50;49]]]%Z = true.
Proof. vm_compute. reflexivity. Qed.

(* swisscard: every record a well-formed row (a booking row or an ignored one); per booking row the
   Billing Amount booked from the account to Expenses:TBD *)
Theorem C13_swisscard_stdout : forall flag acct recs,
  account_flag flag = AAcc acct -> sc_statement_wf recs = true ->
  exists out, sc_statement_output acct recs = Some out /\ run_swisscard flag (map CRec recs) = mkRun out SOk.
Proof. exact swisscard_stdout. Qed.
Print Assumptions C13_swisscard_stdout.

Example C13_swisscard_statement_wf :
  sc_statement_wf [[[84]; [80]; [67]; [66]; [68]; [67]; [83]; [90]; [82]; [70]; [83]];
            [[49;52;46;48;50;46;50;48;50;48]; [49;52;46;48;50;46;50;48;50;48]; [49]; [45;67;72;70;50;39;48;48;48;46;53;48];
             [100]; []; []; []; []; [68]; []]]%Z = true.
Proof. vm_compute. reflexivity. Qed.

(* cumulus: the records, read as entries by cum_entries (a comment row belongs to the booking or
   rounding row before it; every other record is a well-formed booking row, rounding row or ignored
   record; no comment row before the first row or after an ignored record); per booking/rounding row
   +Gutschrift resp. -Belastung booked from Expenses:TBD to the account, the comments appended to the
   description *)
Theorem C13_cumulus_stdout : forall flag acct recs,
  account_flag flag = AAcc acct -> cum_statement_wf recs = true ->
  exists out, cum_statement_output acct recs = Some out /\ run_cumulus flag (map CRec recs) = mkRun out SOk.
Proof. exact cumulus_stdout. Qed.
Print Assumptions C13_cumulus_stdout.

(* cum_entries is the inverse of cum_records on well-formed entries: the records of
   C13_cumulus_entries_wf are read as those entries *)
Example C13_cumulus_statement_wf :
  let d1 := [50;50;46;48;56;46;50;48;50;48]%Z in      (* 22.08.2020 *)
  let d2 := [50;52;46;48;56;46;50;48;50;48]%Z in      (* 24.08.2020 *)
  let es := [CumIgnored [[86]; [66]; [71]; [66]]%Z;
             CumIgnored [d1; [73;104;114;101]; [49;39;50;51;52;46;53;54]; []]%Z;
             CumBooking [d1; d2; [68;101;115;99]; []; [49;39;50;51;51;46;52;53]]%Z [[70;88]%Z];
             CumRounding [d2; s_rund; [48;46;48;50]; []]%Z []] in
  cum_entries (flat_map cum_records es) = Some es.
Proof. vm_compute. reflexivity. Qed.

(* swisscard: the importer's one-pass replacer = remove every "CHF", then every "'" *)
Theorem C13_swisscard_amount_text : forall s, sc_clean s = sc_amount_text s.
Proof. exact sc_clean_spec. Qed.
Print Assumptions C13_swisscard_amount_text.

(* ---------------------------------------------------------------- shared back half *)

(* every transaction an importer emits is one posting pair; the journal handed to the printer
   consists of such transactions, day by day *)
Theorem C13_print_balanced : forall acct counter fs ts,
  Forall2 (books acct counter) fs ts ->
  Forall txn_ok ts /\ Forall day_ok (b_days (builder_of (map DTxn ts))).
Proof.
  intros acct counter fs ts H. split; [|eapply imported_days_ok; eassumption].
  induction H; constructor; [eapply books_paired; eassumption|assumption].
Qed.
Print Assumptions C13_print_balanced.

(* the printer writes the description verbatim between two double quotes: the header of a
   transaction is  date SP " description " LF *)
Theorem C13_description_verbatim : forall padding t, t_targets t = None ->
  print_txn padding t =
  format_date (t_date t) ++ [32; 34]%Z ++ t_desc t ++ [34; 10]%Z ++
  concat (map (fun p => print_posting padding p ++ [10%Z]) (odd_postings (t_postings t))).
Proof. exact print_txn_header. Qed.
Print Assumptions C13_description_verbatim.

(* "whatever characters occur in free-text fields, the output stays syntactically valid".
   knut's parser (parseQuotedString) reads a description as everything up to the next double
   quote, there is no escape.  Since fix faa0268 transaction.Builder.Build maps a double quote
   to a single quote, so the description the printer writes between the two delimiting quotes
   contains none, whatever the free text was ([simple_txn] is how all six importers build a
   transaction); every other byte of the text is kept. *)
Theorem C13_description_has_no_quote : forall s, count_quotes (build_desc s) = 0%nat.
Proof. exact build_desc_no_quote. Qed.
Print Assumptions C13_description_has_no_quote.

Theorem C13_description_kept : forall s,
  length (build_desc s) = length s /\ (count_quotes s = 0%nat -> build_desc s = s).
Proof. intros s. split; [apply build_desc_length|apply build_desc_id]. Qed.
Print Assumptions C13_description_kept.

Theorem C13_header_line : forall date desc credit debit com q,
  exists rest,
    print_directives [simple_txn date desc credit debit com q] =
    format_date date ++ [32; 34]%Z ++ build_desc desc ++ [34; 10]%Z ++ rest.
Proof. exact simple_txn_header. Qed.
Print Assumptions C13_header_line.

(* the row whose Beschreibung is a double quote: two quotes on the header line now ... *)
Theorem C13_quote_row_fixed :
  exists flag header row,
    sc2_wf_row row = true /\
    ir_status (run_swisscard2 flag [CRec header; CRec row]) = SOk /\
    count_quotes (first_line (ir_stdout (run_swisscard2 flag [CRec header; CRec row]))) = 2%nat.
Proof. exists w_acct_flag, [], w_quote_row. exact quote_witness. Qed.
Print Assumptions C13_quote_row_fixed.

(* ... and three with Build as pinned (F14): the parser ends the description at the second one
   and rejects the rest of the line *)
Theorem C13_quote_breaks_header_pinned :
  exists date desc credit debit com q,
    count_quotes (first_line (print_directives [simple_txn_pinned date desc credit debit com q])) = 3%nat.
Proof. do 6 eexists. exact quote_witness_pinned. Qed.
Print Assumptions C13_quote_breaks_header_pinned.

(* ---------------------------------------------------------------- the hypotheses are satisfiable *)
(* rows of the importers' golden test inputs *)
Example C13_cumulus_entries_wf :
  let d1 := [50;50;46;48;56;46;50;48;50;48]%Z in      (* 22.08.2020 *)
  let d2 := [50;52;46;48;56;46;50;48;50;48]%Z in      (* 24.08.2020 *)
  forallb cum_wf_entry
    [CumIgnored [[86]; [66]; [71]; [66]]%Z;
     CumIgnored [d1; [73;104;114;101]; [49;39;50;51;52;46;53;54]; []]%Z;      (* a payment row *)
     CumBooking [d1; d2; [68;101;115;99]; []; [49;39;50;51;51;46;52;53]]%Z [[70;88]%Z];
     CumRounding [d2; s_rund; [48;46;48;50]; []]%Z []] = true.
Proof. vm_compute. reflexivity. Qed.

Example C13_supercard_row_wf :
  sup_wf_row [[49]; [50]; [79]; [48;57;46;48;53;46;50;48;50;49]; [65]; [84]; [51;46;50;48]; s_CHF; []; s_CHF;
              [51;46;50;48]; []; [49;48;46;48;53;46;50;48;50;49]]%Z = true.
Proof. vm_compute. reflexivity. Qed.

Example C13_postfinance_row_wf :
  pf_wf_row [[48;56;46;48;51;46;50;48;50;50]; [100]; []; [45;49;57]; [102]; [98]; [48;56;46;48;51;46;50;48;50;50]; []]%Z = true.
Proof. vm_compute. reflexivity. Qed.

Example C13_swisscard_row_wf :
  sc_wf_row [[49;52;46;48;50;46;50;48;50;48]; [49;52;46;48;50;46;50;48;50;48]; [49]; [45;67;72;70;50;39;48;48;48;46;53;48];
             [100]; []; []; []; []; [68]; []]%Z = true.
Proof. vm_compute. reflexivity. Qed.

Example C13_viac_entry_wf :
  viac_wf_entry ([50;48;49;56;45;48;54;45;50;48]%Z, [54;55;54;56;46;53;53;54]%Z) = true.
Proof. vm_compute. reflexivity. Qed.
