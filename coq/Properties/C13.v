(* C13 (group A)  placeholder while the check is brought up *)
From Coq Require Import ZArith List Bool.
From Knut Require Import Model.Str Model.Dec Model.Ledger Model.ImpCommonA Proofs.PairProofs.
Import ListNotations.

Theorem C13_print_balanced : forall cr db com q, paired (pair_build cr db com q dec_nil).
Proof. intros. apply pair_build_paired. Qed.
Print Assumptions C13_print_balanced.
