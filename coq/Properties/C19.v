(* C19  Concurrent loading and processing is race-free (at the level of the protocol) and terminates.
   Theorem statements only.  Models: Model/Pipe.v (cpr.Seq under conc's context pool with
   WithCancelOnError/WithFirstError), Model/PipeLoader.v (ParseFileRecursively -> FromStream ->
   FromModelStream), Model/PipeFromPath.v (FromPath's three stages on an include tree),
   Model/PipeFromPathCycle.v (the same on an arbitrary include graph: parser tasks with ancestor
   chains).  Vocabulary: Spec/PipeSpec.v, Spec/IncludeGraph.v.  Proofs: Proofs/Pipe*.v,
   Proofs/IncludeGraphProofs.v.
   Every theorem holds for every number of stages n, number of items m, failure oracle [fails]
   and schedule (list of labels; disabled labels are skipped) - no bound anywhere.
   Not covered by proof (DESIGN.md section 7, C19): data races on Go memory (searched by the race
   detector in checks/c19.py) and the semantics of Go channels/select (assumed as modelled).   *)
From Coq Require Import List Bool Arith PeanoNat Permutation.
From Knut Require Import Model.Pipe Model.PipeLoader Model.PipeFromPath Spec.PipeSpec.
From Knut Require Import Spec.IncludeGraph Model.PipeFromPathCycle.
From Knut Require Import Proofs.PipeInv Proofs.PipeProofs Proofs.PipeLive Proofs.PipeTrace
                         Proofs.PipeExact Proofs.PipeLoaderProofs Proofs.PipeFromPathProofs
                         Proofs.IncludeGraphProofs Proofs.PipeFromPathCycleProofs.
Import ListNotations.

(* Ownership.  In every reachable state: of two nodes (source 0, stages 1..n, sink n+1) holding
   items, the downstream node holds a strictly earlier item - so no item is held by two nodes;
   and a node holds item k only after its predecessor has finished k (ended it and handed it
   over). *)
Theorem C19_ownership : forall n m fails sched,
  let st := run n m fails sched init in
  (forall i j k k', i < j -> j <= S n ->
     holds (nodes st i) k -> holds (nodes st j) k' -> k' < k) /\
  (forall i k, 1 <= i -> i <= S n -> holds (nodes st i) k ->
     k < ended (nodes st (pred i)) /\ k < sent (nodes st (pred i))).
Proof.
  intros n m fails sched st. split.
  - exact (ownership_inv n m fails st (reachable_inv n m fails sched)).
  - exact (predecessor_finished_inv n m fails st (reachable_inv n m fails sched)).
Qed.
Print Assumptions C19_ownership.

(* Order.  Whenever a hand-over on channel i is possible in a reachable state, the item handed
   over is exactly the next one the receiver expects (it has received 0..k-1 and gets k); and in
   the event trace every stage begins, and ends, the items in source order 0,1,2,... *)
Theorem C19_order : forall n m fails sched,
  let st := run n m fails sched init in
  (forall i st', step n m fails (Hand i) st = Some st' ->
     recv (nodes st (S i)) = cnt (nodes st i) /\
     ph (nodes st' (S i)) = PHolding /\ cnt (nodes st' (S i)) = cnt (nodes st i)) /\
  (forall i, begins_of i (trace st) = seq 0 (count_ev i EvBegin (trace st)) /\
             ends_of i (trace st) = seq 0 (count_ev i EvEnd (trace st))).
Proof.
  intros n m fails sched st. split.
  - intros i st' H.
    destruct (hand_in_order n m fails st st' i (reachable_inv n m fails sched) H) as (_ & A & B & C).
    auto.
  - apply (tr_spec_in_order n). apply (T_spec _ _ (reachable_tinv n m fails sched)).
Qed.
Print Assumptions C19_order.

(* No loss, no duplication.  In every reachable state the source list is exactly: what the sink
   has collected, then the items held in the pipeline (downstream first; items stuck in a stage
   that failed or was cancelled included), then what the source has not yet handed over.  The
   sink always holds a prefix of the source list.  A complete run without recorded error
   delivers exactly the source list. *)
Theorem C19_no_loss_dup : forall n m fails sched,
  let st := run n m fails sched init in
  sinkacc st ++ inflight n st ++ unsent m st = seq 0 m /\
  sinkacc st = seq 0 (length (sinkacc st)) /\
  (terminal n st = true -> errs st = [] ->
     result st = Some (seq 0 m) /\ outcome_of st = Success (seq 0 m)) /\
  ((forall i k, 1 <= i <= n -> k < m -> fails i k = false) -> errs st = [] /\ cancelled st = false).
Proof.
  intros n m fails sched st. pose proof (reachable_inv n m fails sched) as HI. repeat split.
  - exact (conservation_inv n m fails st HI).
  - exact (proj1 (sink_prefix_inv n m fails st HI)).
  - destruct (success_result n m fails st HI H H0) as (A & _ & _). exact A.
  - destruct (success_result n m fails st HI H H0) as (_ & _ & A). exact A.
  - exact (proj2 (nofail_no_cancel n m fails st HI H)).
  - exact (proj1 (nofail_no_cancel n m fails st HI H)).
Qed.
Print Assumptions C19_no_loss_dup.

(* Deadlock freedom.  In every reachable state that is not terminal (some goroutine has not
   returned) some label is enabled. *)
Theorem C19_deadlock_free : forall n m fails sched,
  let st := run n m fails sched init in
  terminal n st = false -> exists l, In l (all_labels n) /\ enabled n m fails st l = true.
Proof. intros n m fails sched st H. exact (deadlock_free_inv n m fails st (reachable_inv n m fails sched) H). Qed.
Print Assumptions C19_deadlock_free.

(* Termination.  A progress measure grows with every enabled step and is bounded, hence: every
   schedule has at most (n+2)(4m+5) effective steps; after any schedule the canonical scheduler
   reaches a terminal state within that many steps; a terminal state has no enabled label. *)
Theorem C19_terminates : forall n m fails sched,
  effective n m fails sched init <= bound n m /\
  terminal n (drain n m fails (bound n m) (run n m fails sched init)) = true /\
  (forall st l, terminal n st = true -> step n m fails l st = None).
Proof.
  intros n m fails sched. repeat split.
  - pose proof (effective_bound_from n m fails sched init (inv_init n m fails)).
    apply (Nat.le_trans _ (effective n m fails sched init + mu n m init)); [apply Nat.le_add_r | assumption].
  - apply (drain_terminal_from n m fails (bound n m) _ (reachable_inv n m fails sched)). apply Nat.le_add_l.
  - intros st l H. exact (terminal_no_step n m fails st l H).
Qed.
Print Assumptions C19_terminates.

(* Errors.  In every reachable state, if any error has been recorded the command's result is the
   error of a stage function that did fail (fails i k = true) - never success, never merely the
   cancellation error of a bystander.  In a terminal state (all goroutines have returned: Done or
   Stopped) in which some f_i(t_k) failed, an error has been recorded.  Together with
   C19_terminates: a failing stage makes all stages stop and Seq return that stage's error. *)
Theorem C19_error : forall n m fails sched,
  let st := run n m fails sched init in
  (errs st <> [] ->
     exists i k, outcome_of st = Failure (EFail i k) /\ fails i k = true /\ 1 <= i <= n /\ k < m) /\
  (terminal n st = true -> (exists i, i <= S n /\ ph (nodes st i) = PFailed) ->
     errs st <> [] /\ forall i, i <= S n -> stat (nodes st i) <> Running).
Proof.
  intros n m fails sched st. pose proof (reachable_inv n m fails sched) as HI. split.
  - exact (failure_outcome n m fails st HI).
  - intros HT HF. split; [exact (fired_recorded n m fails st HI HT HF)|].
    apply (terminal_spec n). exact HT.
Qed.
Print Assumptions C19_error.

(* Refinement of the sequential program  for k in items { for i in 1..n { f_i(t_k) } }.
   What is observable of a run: the returned list, and the begin/end events of the stage
   functions.  For a terminal run without recorded error: the result is the source list; for
   every stage the projection of the trace equals the projection of the sequential trace (each
   stage function sees exactly the same sequence of calls - and a stage's state is touched by
   that stage only); and for every item, stage i+1 begins it only after stage i ended it and a
   stage ends it only after beginning it (each item meets the stages in the order 1..n). *)
Theorem C19_seq_refines : forall n m fails sched,
  let st := run n m fails sched init in
  terminal n st = true -> errs st = [] ->
  outcome_of st = Success (seq 0 m) /\
  (forall i, 1 <= i <= n -> proj_stage i (trace st) = proj_stage i (seq_trace n m)) /\
  (forall pre i k post, trace st = pre ++ mkEv i EvBegin k :: post -> 2 <= i ->
     In (mkEv (pred i) EvEnd k) pre) /\
  (forall pre i k post, trace st = pre ++ mkEv i EvEnd k :: post -> In (mkEv i EvBegin k) pre).
Proof.
  intros n m fails sched st HT HE.
  pose proof (reachable_inv n m fails sched) as HI.
  pose proof (reachable_tinv n m fails sched) as HTI.
  change (run n m fails sched init) with st in HI, HTI. clearbody st.
  pose proof (T_spec _ _ HTI) as HS. change (rev (trace_rev st)) with (trace st) in HS.
  repeat split.
  - destruct (success_result n m fails st HI HT HE) as (_ & _ & A). exact A.
  - intros i Hi. rewrite (proj_stage_spec n _ HS i), (proj_stage_seq_trace n m i Hi).
    assert (HC : cancelled st = false).
    { destruct (I_err _ _ _ _ HI) as [[A _]|[_ (i0 & k & r & E & _)]]; [assumption|congruence]. }
    destruct (all_done_counts n m fails st HI HT HC i ltac:(apply Nat.le_trans with n; [apply Hi|apply Nat.le_succ_diag_r]))
      as (_ & P & C).
    destruct (T_count _ _ HTI i Hi) as [CB CE].
    unfold trace. rewrite !count_ev_rev, CB, CE. unfold begun, ended. rewrite P, C, Nat.eqb_refl.
    apply app_nil_r.
  - intros pre i k post E Hi. exact (tr_spec_handover n _ HS pre i k post E Hi).
  - intros pre i k post E. exact (tr_spec_end_after_begin n _ HS pre i k post E).
Qed.
Print Assumptions C19_seq_refines.

(* The trace checker that is run on the hook events of the real binary: it accepts exactly the
   traces satisfying the declarative specification (soundness and its converse), and it accepts
   the trace of every run of the transition system (completeness). *)
Theorem trace_ok_sound : forall n tr, trace_ok n tr = true -> tr_spec n tr.
Proof. intros n tr. exact (proj1 (trace_ok_iff n tr)). Qed.
Print Assumptions trace_ok_sound.

Theorem trace_ok_sound_order : forall n tr, trace_ok n tr = true ->
  (forall i, begins_of i tr = seq 0 (count_ev i EvBegin tr) /\ ends_of i tr = seq 0 (count_ev i EvEnd tr)) /\
  (forall pre i k post, tr = pre ++ mkEv i EvBegin k :: post -> 2 <= i -> In (mkEv (pred i) EvEnd k) pre) /\
  (forall pre i k post, tr = pre ++ mkEv i EvEnd k :: post -> In (mkEv i EvBegin k) pre).
Proof.
  intros n tr H. apply trace_ok_iff in H. repeat split.
  - apply (tr_spec_in_order n tr H).
  - apply (tr_spec_in_order n tr H).
  - intros. eapply tr_spec_handover; eassumption.
  - intros. eapply tr_spec_end_after_begin; eassumption.
Qed.
Print Assumptions trace_ok_sound_order.

Theorem trace_ok_spec_accepts : forall n tr, tr_spec n tr -> trace_ok n tr = true.
Proof. intros n tr. exact (proj2 (trace_ok_iff n tr)). Qed.
Print Assumptions trace_ok_spec_accepts.

Theorem trace_ok_complete : forall n m fails sched,
  trace_ok n (trace (run n m fails sched init)) = true.
Proof. exact trace_ok_complete_run. Qed.
Print Assumptions trace_ok_complete.

(* Exactness (the converse of trace_ok_complete).  Every event list accepted by the checker is the
   trace of a run of the transition system from its initial state, for some number of items and
   some failure oracle (the proof uses length tr items and the oracle that never fails; the
   schedule uses only Fetch, Hand, Begin, End - nothing is cancelled or closed). *)
Theorem C19_trace_ok_exact : forall n tr, trace_ok n tr = true ->
  exists m fails sched, trace (run n m fails sched init) = tr.
Proof. exact trace_ok_exact. Qed.
Print Assumptions C19_trace_ok_exact.

(* Exactness per instance.  For n stages, items 0..m-1 and failure oracle [fails], the traces of
   the runs are exactly the accepted event lists that fit the instance (Spec/PipeSpec.v
   [respects]: items below m; a begin of item k at stage i only if f_(i-1)(t_k) succeeded and
   f_(i+j)(t_(k-1-j)) succeeded for all j >= 0 with i+j <= n - a stage that failed neither hands
   its item on nor receives again). *)
Theorem C19_trace_exact : forall n m fails tr,
  (exists sched, trace (run n m fails sched init) = tr) <->
  (trace_ok n tr = true /\ respects n m fails tr).
Proof. exact trace_exact. Qed.
Print Assumptions C19_trace_exact.

(* The checker as it was before the back-pressure clause (Spec/PipeSpec.v trace_ok_loose: per stage
   source order and alternation, begin(i,k) after end(i-1,k)) is complete but not exact: for two
   stages it accepts  b(1,0) e(1,0) b(1,1) e(1,1) b(1,2)  which no run emits for any number of items, any
   oracle and any schedule - the channels are unbuffered, so stage 1 cannot take its third item
   before stage 2 has taken (begun and ended) its first.  trace_ok now has the clause. *)
Theorem trace_ok_loose_exact_refuted : exists n tr,
  trace_ok_loose n tr = true /\
  forall m fails sched, trace (run n m fails sched init) <> tr.
Proof. exists 2, loose_witness. exact trace_ok_loose_not_exact. Qed.
Print Assumptions trace_ok_loose_exact_refuted.

(* ------------------------------------------------------------------------------------------
   The loader.  [rank] witnesses that the include graph is acyclic. *)

(* Under every schedule the loader makes at most W(root)+2 effective steps, and after any
   schedule the canonical scheduler drives it to completion (the consumer sees the channel
   closed) - with or without parse and conversion errors: termination rests on closure. *)
Theorem C19_loader_terminates : forall inc bad cbad rank root sched,
  (forall f g, In g (inc f) -> rank g < rank f) ->
  leffective inc bad cbad sched (linit inc root) <= W inc rank root + 2 /\
  finished (ldrain inc bad cbad (W inc rank root + 2) (lrun inc bad cbad sched (linit inc root))) = true.
Proof.
  intros inc bad cbad rank root sched H. split.
  - rewrite <- (lmu_init inc rank H root). apply leffective_bound_from. exact H.
  - apply (ldrain_finishes_from inc bad cbad rank H).
    rewrite <- (lmu_init inc rank H root). apply lrun_lmu. exact H.
Qed.
Print Assumptions C19_loader_terminates.

(* Without parse errors, when the loader has finished, the files received by the consumer are
   exactly (as a multiset) the files of the include tree below the root - one copy per include
   path, hence each file exactly once when no file is included twice - and no error is reported. *)
Theorem C19_load_multiset : forall inc bad cbad rank root sched,
  (forall f g, In g (inc f) -> rank g < rank f) ->
  (forall f, bad f = false) ->
  let st := lrun inc bad cbad sched (linit inc root) in
  finished st = true ->
  Permutation (got st) (expand inc (rank root) root) /\ perrs st = [] /\
  (NoDup (expand inc (rank root) root) -> NoDup (got st)).
Proof.
  intros inc bad cbad rank root sched H Hb st F.
  destruct (finished_loaded inc rank root st
              (lrun_linv inc bad cbad rank H Hb root sched _ (linv_init inc rank H root)) F)
    as [P E].
  repeat split; [exact P | exact E |].
  intros ND. apply (Permutation_NoDup (Permutation_sym P) ND).
Qed.
Print Assumptions C19_load_multiset.

(* A file that includes itself, in the loader model WITHOUT the ancestor chain (the code as pinned,
   DESIGN.md F12): for every k there is a schedule with k effective steps (k parser tasks spawned) -
   that loader does not terminate on a cyclic include graph.  The code as it is carries the chain:
   C19_frompath_cycle_terminates / C19_frompath_cycle_is_error below. *)
Theorem C19_loader_cycle_unbounded : forall k,
  leffective (fun f => [f]) (fun _ => false) (fun _ => false) (map LSpawn (seq 0 k))
             (linit (fun f => [f]) 0) = k.
Proof. exact self_include_unbounded. Qed.
Print Assumptions C19_loader_cycle_unbounded.

(* ------------------------------------------------------------------------------------------
   journal.FromPath with its three consumers (Model/PipeFromPath.v).  Oracles: [bad f] parsing f
   fails, [cbad f] converting f fails, [abad f] Builder.Add fails on f (constantly false in knut as
   it is: Add fails only on a directive type that model.ParseDirective never produces).
   [drain = true] is the code as it is: model.FromStream keeps receiving after a conversion error. *)

(* Termination from closure (nothing cancels the outer context).  Every schedule makes at most
   3 W(root) + 4 effective steps (for every oracle, with or without the drain).  In the code as it
   is, with a builder that does not fail, a reachable state in which some worker has not returned
   has an enabled label - no stage blocks forever, whatever fails in the parsers and in the
   conversion - and after any schedule the canonical scheduler (first enabled label) makes all
   three workers return within the bound. *)
Theorem C19_frompath_terminates : forall inc bad cbad abad drain rank root sched,
  (forall f g, In g (inc f) -> rank g < rank f) ->
  feffective inc bad cbad abad drain sched (finit inc root) <= 3 * W inc rank root + 4 /\
  (drain = true -> (forall f, abad f = false) ->
   let st := frun inc bad cbad abad drain sched (finit inc root) in
   (ffinished st = false -> exists l, In l (flabels st) /\ fenabled inc bad cbad abad drain st l = true) /\
   ffinished (fdrain inc bad cbad abad drain (3 * W inc rank root + 4) st) = true).
Proof.
  intros inc bad cbad abad drain rank root sched H. split.
  - rewrite <- (fmu_init inc rank H root). apply feffective_bound_from. exact H.
  - intros Hd Ha st. pose proof (reachable_fpinv inc bad cbad abad drain rank H root sched) as HI. split.
    + intros F. exact (fdeadlock_free inc bad cbad abad drain rank root st HI Hd Ha F).
    + apply (fdrain_finishes_from inc bad cbad abad drain rank H root); auto.
      rewrite <- (fmu_init inc rank H root). apply frun_fmu. exact H.
Qed.
Print Assumptions C19_frompath_terminates.

(* Success.  If the three workers have returned and no error was recorded - whatever the oracles
   are - then FromPath returns the builder, the files whose directives were added to it are exactly
   (as a multiset) the files of the include tree, one copy per include path: each file's directives
   reach the builder exactly once when no file is included twice; no stage failed and nothing was
   cancelled.  And when no stage function fails, no error is ever recorded. *)
Theorem C19_frompath_loads_once : forall inc bad cbad abad drain rank root sched,
  (forall f g, In g (inc f) -> rank g < rank f) ->
  let st := frun inc bad cbad abad drain sched (finit inc root) in
  (ffinished st = true -> f_werrs st = [] ->
     foutcome_of st = FOk (f_added st) /\
     Permutation (f_added st) (expand inc (rank root) root) /\
     (NoDup (expand inc (rank root) root) -> NoDup (f_added st)) /\
     f_bld st = BDone /\ f_perrs st = [] /\ f_cerrs st = [] /\ f_pcancel st = false /\ f_ccancel st = false) /\
  ((forall f, bad f = false) -> (forall f, cbad f = false) -> (forall f, abad f = false) -> f_werrs st = []).
Proof.
  intros inc bad cbad abad drain rank root sched H st.
  pose proof (reachable_fpinv inc bad cbad abad drain rank H root sched) as HI. split.
  - intros F We.
    destruct (ffinished_success inc bad cbad abad drain rank root st HI F We) as (P & B & Pe & Ce & Pc & Cc).
    repeat split; auto.
    + unfold foutcome_of. rewrite F, We. reflexivity.
    + intros ND. apply (Permutation_NoDup (Permutation_sym P) ND).
  - exact (nofail_no_werrs inc bad cbad abad drain rank root st HI).
Qed.
Print Assumptions C19_frompath_loads_once.

(* Errors.  Every error recorded by the outer pool - in particular the first, which FromPath
   returns - is the error of a stage function that did fail (never the cancellation error of a
   bystander); and once the three workers have returned, a failure in any of the three stages
   (a parser task, a conversion task, Builder.Add) makes FromPath return such an error. *)
Theorem C19_frompath_error : forall inc bad cbad abad drain rank root sched,
  (forall f g, In g (inc f) -> rank g < rank f) ->
  let st := frun inc bad cbad abad drain sched (finit inc root) in
  (forall e, In e (f_werrs st) -> genuine bad cbad abad e = true) /\
  (ffinished st = true ->
   (exists t, In t (f_ptasks st) /\ t_st t = PFail) \/
   (exists c, In c (f_ctasks st) /\ c_st c = CFail) \/ f_bld st = BFail ->
   exists e, foutcome_of st = FErr e /\ genuine bad cbad abad e = true).
Proof.
  intros inc bad cbad abad drain rank root sched H st.
  pose proof (reachable_fpinv inc bad cbad abad drain rank H root sched) as HI. split.
  - exact (P_werrs _ _ _ _ _ _ _ _ HI).
  - intros F Hf.
    destruct (ffailure_reported inc bad cbad abad drain rank root st HI F Hf) as (e & rest & We & G).
    exists e. split; [|exact G]. unfold foutcome_of. rewrite F, We. reflexivity.
Qed.
Print Assumptions C19_frompath_error.

(* Without the drain (model.FromStream returns at the first conversion error): a reachable state in
   which nothing is enabled, worker1 has not returned, and a parser task is blocked in Push on
   syntaxCh with its context not cancelled - knut hangs.  (Seeded change
   C19b-fromstream-inline-hang.) *)
Theorem C19_frompath_nodrain_refuted : exists inc bad cbad abad root sched,
  let st := frun inc bad cbad abad false sched (finit inc root) in
  ffinished st = false /\ stuck_pusher st = true /\ f_pcancel st = false /\
  (forall l, fstep inc bad cbad abad false l st = None).
Proof. exists inc01, none, is1, none, 0, nodrain_sched. exact nodrain_blocks. Qed.
Print Assumptions C19_frompath_nodrain_refuted.

(* The hypothesis on Builder.Add in C19_frompath_terminates is needed: in the code as it is, if
   Builder.Add returned an error, the builder would stop receiving, and the next conversion task
   would block in Push on modelCh forever (the error is recorded but p.Wait never returns).  Not
   reachable from any journal today (findings/C19-builder-error-latent-hang.md). *)
Theorem C19_frompath_builder_error_refuted : exists inc bad cbad abad root sched,
  let st := frun inc bad cbad abad true sched (finit inc root) in
  ffinished st = false /\ stuck_pusher st = true /\ f_ccancel st = false /\
  f_werrs st = [WAdd 1] /\
  (forall l, fstep inc bad cbad abad true l st = None).
Proof. exists inc01, none, none, is1, 0, addfail_sched. exact builder_error_blocks. Qed.
Print Assumptions C19_frompath_builder_error_refuted.

(* ------------------------------------------------------------------------------------------
   journal.FromPath on an arbitrary include GRAPH (Model/PipeFromPathCycle.v): the parser tasks as
   they are since fix 3215d33 - every task carries the chain of its ancestors (syntax.parseRec); a
   task whose file is among its ancestors returns "include cycle" (the errgroup records it and
   cancels its context); there is no set of loaded files, so a file included from two places gets
   two tasks.  Stages 2 and 3 as above (with the drain).  Vocabulary: Spec/IncludeGraph.v.
   [finite_graph inc univ root]: the root is in [univ] and [univ] is closed under include - the graph
   may be cyclic.  A visit (anc, f) is a file with the chain of files that led to it; [all_visits] are
   the include paths from the root whose proper prefix is simple, i.e. [simple_paths] (no file twice)
   and [cycle_closings] (a simple path and one include back into it).
   [once = false] is the code as it is, [once = true] the seeded change seeded/C06c-load-once-set. *)

(* Termination on every finite include graph, cyclic or not.  The visits are characterised
   declaratively; every schedule makes at most 6 |visits| + 3 effective steps (with or without the
   global set of the seeded variant); in the code as it is there are never more parser tasks than
   visits - simple paths from the root plus their one-edge cycle closings - and, with a builder that
   does not fail, no reachable state blocks and the canonical scheduler makes the three workers
   return within the bound.  (Compare C19_loader_cycle_unbounded: without the ancestor check a
   self-include spawns tasks forever.) *)
Theorem C19_frompath_cycle_terminates : forall inc bad cbad abad once univ root sched,
  finite_graph inc univ root ->
  let visits := all_visits inc univ root in
  let st := krun inc bad cbad abad once sched (kinit root) in
  (forall anc f, In (anc, f) visits <-> ipath inc root anc f /\ NoDup anc) /\
  (forall anc f, In (anc, f) (simple_paths inc univ root) <-> ipath inc root anc f /\ NoDup (anc ++ [f])) /\
  length visits = length (simple_paths inc univ root) + length (cycle_closings inc univ root) /\
  keffective inc bad cbad abad once sched (kinit root) <= 6 * length visits + 3 /\
  (once = false -> length (k_ptasks st) <= length visits) /\
  (once = false -> (forall f, abad f = false) ->
   (kfinished st = false -> exists l, In l (klabels st) /\ kenabled inc bad cbad abad once st l = true) /\
   kfinished (kdrain inc bad cbad abad once (6 * length visits + 3) st) = true).
Proof. exact frompath_cycle_terminates. Qed.
Print Assumptions C19_frompath_cycle_terminates.

(* A cycle reachable from the root is an error.  If some include path from the root comes back to a
   file it has passed, then in the code as it is, with a builder that does not fail: as soon as the
   parser stage has returned, the first error of the outer pool is an error of the parser stage (an
   include cycle, or a file that does not parse) that did occur; FromPath never returns the builder
   (the outcome of a reachable state is never KOk: the builder's result is not used), and once the
   three workers have returned it returns that error.  Every include-cycle error ever recorded names
   the chain of an include path from the root whose last file is among the files before it. *)
Theorem C19_frompath_cycle_is_error : forall inc bad cbad abad univ root sched,
  finite_graph inc univ root -> (forall f, abad f = false) ->
  cycle_reachable inc root ->
  let st := krun inc bad cbad abad false sched (kinit root) in
  (k_synclosed st = true ->
     exists e rest, k_werrs st = e :: rest /\ parser_stage e = true /\ kgenuine bad cbad abad e = true) /\
  (forall files, koutcome_of st <> KOk files) /\
  (kfinished st = true ->
     exists e, koutcome_of st = KErr e /\ parser_stage e = true /\ kgenuine bad cbad abad e = true) /\
  (forall c, In (KWCycle c) (k_werrs st) ->
     exists anc f, c = anc ++ [f] /\ ipath inc root anc f /\ NoDup anc /\ In f anc).
Proof. exact frompath_cycle_is_error. Qed.
Print Assumptions C19_frompath_cycle_is_error.

(* A diamond is loaded twice.  In the code as it is, on any finite graph and whatever the oracles are:
   if the three workers have returned and no error was recorded then no cycle is reachable from the
   root, FromPath returns the builder, and the files whose directives were added to it are exactly
   (as a multiset) the last files of the simple paths from the root - one copy per simple path: a
   file included from two places is loaded twice.  On a ranked (acyclic) graph that multiset is the
   include tree [expand] of C19_frompath_loads_once, which is the visit list of C05_layout
   ([gvisits], Proofs/OrderLayout.v [visits] on numbered files; it is unique), and when no stage
   function fails no error is recorded. *)
Theorem C19_frompath_diamond_loads_twice : forall inc bad cbad abad univ root sched,
  finite_graph inc univ root ->
  let st := krun inc bad cbad abad false sched (kinit root) in
  kfinished st = true -> k_werrs st = [] ->
  koutcome_of st = KOk (k_added st) /\
  Permutation (k_added st) (map snd (simple_paths inc univ root)) /\
  cycle_closings inc univ root = [] /\ ~ cycle_reachable inc root /\
  k_bld st = BDone /\ k_perrs st = [] /\ k_cerrs st = [] /\ k_pcancel st = false /\ k_ccancel st = false.
Proof. exact frompath_diamond_loads_twice. Qed.
Print Assumptions C19_frompath_diamond_loads_twice.

Theorem C19_frompath_diamond_loads_twice_ranked : forall inc bad cbad abad rank root sched,
  (forall f g, In g (inc f) -> rank g < rank f) ->
  let st := krun inc bad cbad abad false sched (kinit root) in
  (kfinished st = true -> k_werrs st = [] ->
     Permutation (k_added st) (expand inc (rank root) root) /\
     gvisits inc root (expand inc (rank root) root) /\
     (forall vs, gvisits inc root vs -> Permutation (k_added st) vs)) /\
  ((forall f, bad f = false) -> (forall f, cbad f = false) -> (forall f, abad f = false) -> k_werrs st = []).
Proof. exact frompath_diamond_loads_twice_ranked. Qed.
Print Assumptions C19_frompath_diamond_loads_twice_ranked.

(* The seeded change "global load-once set" (seeded/C06c-load-once-set: after the cycle check a task
   claims its file in a global set and returns nil when the file is already claimed).  The statement
   "on a finite graph the outcome of a run that has finished does not depend on the schedule" -
   true of the code as it is for the error/success class by the two theorems above - is false of
   it: on the graph 0 -> 1, 2; 1 -> 2; 2 -> 1 one schedule returns the builder with every file
   loaded once, another one returns "include cycle: 0 -> 1 -> 2 -> 1". *)
Theorem C19_frompath_load_once_refuted : exists inc univ root sched1 sched2,
  finite_graph inc univ root /\ cycle_reachable inc root /\
  let fin s := kdrain inc none none none true (6 * length (all_visits inc univ root) + 3)
                 (krun inc none none none true s (kinit root)) in
  koutcome_of (fin sched1) = KOk [0; 1; 2] /\
  koutcome_of (fin sched2) = KErr (KWCycle [0; 1; 2; 1]).
Proof. exists g_mutual, [0; 1; 2], 0, once_sched_ok, once_sched_err. exact load_once_refuted. Qed.
Print Assumptions C19_frompath_load_once_refuted.

(* ------------------------------------------------------------------------------------------
   examples: the hypotheses are satisfiable and the model runs *)
Definition rr (n : nat) : list label :=   (* one round-robin round over all labels *)
  all_labels n.
Definition rounds (n k : nat) : list label := concat (repeat (rr n) k).

Example C19_example_success :
  let st := run 3 4 (fun _ _ => false) (rounds 3 40) init in
  terminal 3 st = true /\ outcome_of st = Success [0; 1; 2; 3] /\
  trace_ok 3 (trace st) = true /\ trace_complete 3 4 (trace st) = true.
Proof. vm_compute. repeat split. Qed.

Example C19_example_failure :
  let st := run 3 4 (fun i k => (i =? 2) && (k =? 1)) (rounds 3 40) init in
  terminal 3 st = true /\ outcome_of st = Failure (EFail 2 1) /\ trace_ok 3 (trace st) = true.
Proof. vm_compute. repeat split. Qed.

(* an accepted event list with a failing stage function that fits its instance *)
Example C19_example_respects :
  let fails := fun i k => (i =? 2) && (k =? 1) in
  let st := run 3 4 fails (rounds 3 40) init in
  trace_ok 3 (trace st) = true /\ respects 3 4 fails (trace st) /\
  trace_ok_loose 2 loose_witness = true /\ trace_ok 2 loose_witness = false.
Proof.
  split; [vm_compute; reflexivity|]. split; [|split; vm_compute; reflexivity].
  apply (proj1 (C19_trace_exact 3 4 _ _)). eexists. reflexivity.
Qed.

Example C19_example_loader :
  let inc := fun f => match f with 0 => [1; 2] | 1 => [3] | _ => [] end in
  let st := ldrain inc (fun _ => false) (fun _ => false) 40 (linit inc 0) in
  finished st = true /\ got st = [0; 1; 2; 3].
Proof. vm_compute. split; reflexivity. Qed.

(* the hypotheses of the cycle theorems are satisfiable: a diamond (acyclic, ranked), and mutual
   includes below the root (a reachable cycle) *)
Example C19_example_graphs :
  finite_graph g_diamond [0; 1; 2; 3] 0 /\ (forall f g, In g (g_diamond f) -> (4 - g) < (4 - f)) /\
  map snd (simple_paths g_diamond [0; 1; 2; 3] 0) = [0; 1; 3; 2; 3] /\ cycle_closings g_diamond [0; 1; 2; 3] 0 = [] /\
  koutcome_of (kdrain g_diamond none none none false 80 (kinit 0)) = KOk [0; 1; 2; 3; 3] /\
  finite_graph g_mutual [0; 1; 2] 0 /\ cycle_reachable g_mutual 0 /\
  cycle_closings g_mutual [0; 1; 2] 0 = [([0; 1; 2], 1); ([0; 2; 1], 2)] /\
  koutcome_of (kdrain g_mutual none none none false 80 (kinit 0)) = KErr (KWCycle [0; 1; 2; 1]).
Proof. exact example_graphs. Qed.

Example C19_example_frompath :
  let inc := fun f => match f with 0 => [1; 2] | 1 => [3] | _ => [] end in
  let ok := fdrain inc none none none true 60 (finit inc 0) in
  let pe := fdrain inc (fun f => f =? 3) none none true 60 (finit inc 0) in
  let ce := fdrain inc none (fun f => f =? 2) none true 60 (finit inc 0) in
  foutcome_of ok = FOk [0; 1; 2; 3] /\ foutcome_of pe = FErr (WParse 3) /\ foutcome_of ce = FErr (WConv 2) /\
  foutcome_of (fdrain inc01 none is1 none true 30
                 (frun inc01 none is1 none true nodrain_sched (finit inc01 0))) = FErr (WConv 1).
Proof. vm_compute. repeat split. Qed.
