(* C18  In-place rewrites are all-or-nothing.
   Theorem statements only.  Model: Model/AtomicFS.v (directory, operations, [safe_trace], the
   protocol of natefinch/atomic.WriteFile as used by `knut format` / `infer --inplace` / `fetch`).
   Proofs: Proofs/AtomicFSProofs.v.
   Assumed, not proved (DESIGN.md section 7, C18): rename(2) is atomic; the mapping of the
   binary's system calls to this alphabet (harness/c18.go) is right.                          *)
From Coq Require Import List Bool Arith PeanoNat NArith.
From Knut Require Import Model.AtomicFS Proofs.AtomicFSProofs.
Import ListNotations.

(* If the executable predicate accepts a trace, then after EVERY prefix of it - that is, wherever
   the process is interrupted or fails - the target holds its complete old or its complete new
   contents. *)
Theorem C18_safe : forall tgt old new tr,
  safe_trace tgt old new tr = true ->
  forall k,
    content (fs_run tgt (firstn k tr) (fs_init tgt old)) tgt = Some old \/
    content (fs_run tgt (firstn k tr) (fs_init tgt old)) tgt = Some new.
Proof.
  intros tgt old new tr H k. exact (safe_prefixes tgt old new tr _ H (init_ok tgt old new) k).
Qed.
Print Assumptions C18_safe.

(* Every trace of the protocol - whatever operation fails (creation of the temp file, the write
   after any number k of bytes, fsync, close, stat, chmod, rename), however the write is split
   into short writes, with or without the chmod - is safe; the target ends as new exactly when
   the rename happened, which is exactly the run without a fault, and as old otherwise; no
   temporary file is left behind. *)
Theorem C18_protocol : forall tgt old new tmp chmod splits flt,
  tmp <> tgt ->
  let tr := atomic_write tmp tgt new chmod splits flt in
  let f := fs_run tgt tr (fs_init tgt old) in
  safe_trace tgt old new tr = true /\
  content f tgt = Some (if renamed_to tgt tr then new else old) /\
  (renamed_to tgt tr = true <-> flt = NoFault) /\
  content f tmp = None.
Proof. intros tgt old new tmp chmod splits flt H. exact (protocol_correct tgt old new tmp H chmod splits flt). Qed.
Print Assumptions C18_protocol.

(* A file that does not parse causes no operation at all: it stays bit-identical. *)
Theorem C18_parse_error_no_ops : forall tmp tgt chmod splits flt f,
  format_file tmp tgt None chmod splits flt = [] /\
  fs_run tgt (format_file tmp tgt None chmod splits flt) f = f.
Proof. intros. split; reflexivity. Qed.
Print Assumptions C18_parse_error_no_ops.

(* Files are independent: an operation leaves every path it does not mention untouched, and the
   rewrite of one target mentions only that target and its own temporary file - so in a run of
   `knut format a b c` (one goroutine per file, errors combined at the end, format.go) the
   operations for one file, whether they succeed or fail, leave the other files as they are. *)
Theorem C18_files_independent :
  (forall tgt f o q, mentions o tgt q = false ->
     content (fs_step tgt f o) q = content f q /\ is_open (fs_step tgt f o) q = is_open f q) /\
  (forall tgt new tmp chmod splits flt f q, q <> tmp -> q <> tgt ->
     content (fs_run tgt (atomic_write tmp tgt new chmod splits flt) f) q = content f q).
Proof.
  split.
  - intros. apply step_frame. assumption.
  - intros. apply protocol_leaves_others; assumption.
Qed.
Print Assumptions C18_files_independent.

(* C18_files_independent_partial note.  The full statement for the concurrent command would be:
   for every interleaving tr of the traces atomic_write tmp_i tgt_i new_i .. flt_i of files with
   pairwise distinct targets and temporaries, and every i,
     safe_trace tgt_i old_i new_i (filter (mentions . tgt_i or tmp_i) tr) = true  and the final
     content of tgt_i is as in C18_protocol.
   What is proved above is the per-operation frame property from which this follows by induction
   over the interleaving; the induction itself is not carried out here. *)

(* the hypotheses are satisfiable, and the checker does reject the unsafe way of writing *)
Example C18_example_ok :
  safe_trace 0 [1%N; 2%N] [3%N; 4%N; 5%N]
    (atomic_write 7 0 [3%N; 4%N; 5%N] true [1] (FailWrite 2)) = true /\
  target_class 0 [1%N; 2%N] [3%N; 4%N; 5%N]
    (atomic_write 7 0 [3%N; 4%N; 5%N] true [1] (FailWrite 2)) = 0 /\
  target_class 0 [1%N; 2%N] [3%N; 4%N; 5%N]
    (atomic_write 7 0 [3%N; 4%N; 5%N] true [1] NoFault) = 1.
Proof. vm_compute. repeat split. Qed.

(* os.WriteFile (open with O_TRUNC, write in place) is rejected, and a crash between its
   operations leaves a truncated target *)
Example C18_example_unsafe :
  safe_trace 0 [1%N; 2%N] [3%N; 4%N; 5%N] [OpenTrunc 0; WriteTgt [3%N; 4%N; 5%N]] = false /\
  target_class 0 [1%N; 2%N] [3%N; 4%N; 5%N] [OpenTrunc 0; WriteTgt [3%N]] = 2.
Proof. vm_compute. split; reflexivity. Qed.
