(* C18  In-place rewrites are all-or-nothing.
   Theorem statements only.  Model: Model/AtomicFS.v (directory, operations, [safe_trace], the
   protocol of natefinch/atomic.WriteFile as used by `knut format` / `infer --inplace` / `fetch`).
   Model/AtomicFSConc.v (the concurrent command: jobs, labelled schedules, projections).
   Proofs: Proofs/AtomicFSProofs.v, Proofs/AtomicFSInterleave.v.
   Assumed, not proved (DESIGN.md section 7, C18): rename(2) is atomic; the mapping of the
   binary's system calls to this alphabet (harness/c18.go) is right.                          *)
From Coq Require Import List Bool Arith PeanoNat NArith.
From Knut Require Import Model.AtomicFS Model.AtomicFSConc Proofs.AtomicFSProofs Proofs.AtomicFSInterleave.
Import ListNotations.

(* If the executable predicate accepts a trace, then after EVERY prefix of it - that is, wherever
   the process is interrupted or fails - the target holds its complete old or its complete new
   contents. *)
Theorem C18_safe : forall tgt old new tr,
  safe_trace tgt old new tr = true ->
  forall k,
    content (fs_run tgt (firstn k tr) (fs_init tgt old)) tgt = Some old \/
    content (fs_run tgt (firstn k tr) (fs_init tgt old)) tgt = Some new.
Proof.
  intros tgt old new tr H k. exact (safe_prefixes tgt old new tr _ H (init_ok tgt old new) k).
Qed.
Print Assumptions C18_safe.

(* Every trace of the protocol - whatever operation fails (creation of the temp file, the write
   after any number k of bytes, fsync, close, stat, chmod, rename), however the write is split
   into short writes, with or without the chmod - is safe; the target ends as new exactly when
   the rename happened, which is exactly the run without a fault, and as old otherwise; no
   temporary file is left behind. *)
Theorem C18_protocol : forall tgt old new tmp chmod splits flt,
  tmp <> tgt ->
  let tr := atomic_write tmp tgt new chmod splits flt in
  let f := fs_run tgt tr (fs_init tgt old) in
  safe_trace tgt old new tr = true /\
  content f tgt = Some (if renamed_to tgt tr then new else old) /\
  (renamed_to tgt tr = true <-> flt = NoFault) /\
  content f tmp = None.
Proof. intros tgt old new tmp chmod splits flt H. exact (protocol_correct tgt old new tmp H chmod splits flt). Qed.
Print Assumptions C18_protocol.

(* A file that does not parse causes no operation at all: it stays bit-identical. *)
Theorem C18_parse_error_no_ops : forall tmp tgt chmod splits flt f,
  format_file tmp tgt None chmod splits flt = [] /\
  fs_run tgt (format_file tmp tgt None chmod splits flt) f = f.
Proof. intros. split; reflexivity. Qed.
Print Assumptions C18_parse_error_no_ops.

(* Files are independent: an operation leaves every path it does not mention untouched, and the
   rewrite of one target mentions only that target and its own temporary file - so in a run of
   `knut format a b c` (one goroutine per file, errors combined at the end, format.go) the
   operations for one file, whether they succeed or fail, leave the other files as they are. *)
Theorem C18_files_independent :
  (forall tgt f o q, mentions o tgt q = false ->
     content (fs_step tgt f o) q = content f q /\ is_open (fs_step tgt f o) q = is_open f q) /\
  (forall tgt new tmp chmod splits flt f q, q <> tmp -> q <> tgt ->
     content (fs_run tgt (atomic_write tmp tgt new chmod splits flt) f) q = content f q).
Proof.
  split.
  - intros. apply step_frame. assumption.
  - intros. apply protocol_leaves_others; assumption.
Qed.
Print Assumptions C18_files_independent.

(* The concurrent command.  `knut format a b c` formats its arguments concurrently, one goroutine
   per file.  For every list of jobs (tmp_i, tgt_i, old_i, formatted_i, chmod_i, splits_i, fault_i)
   whose 2n paths are pairwise distinct, for EVERY labelled schedule ltr whose projection onto
   label i is exactly the protocol trace format_file tmp_i tgt_i formatted_i chmod_i splits_i fault_i
   of job i and which has no other labels - that is: every interleaving of the protocol traces,
   every fault per file, every splitting into short writes, unparseable files included - and for
   every prefix length k (wherever the process is interrupted): after the first k operations of the
   schedule, from the directory in which every tgt_i holds old_i, nothing else exists and nothing is
   open, every tgt_i holds old_i or its complete new contents; and after the whole schedule tgt_i
   holds new_i if formatted_i = Some new_i and fault_i = NoFault (job_final), old_i otherwise, and
   no tmp_i exists.  t0 is the parameter of fs_step that only WriteTgt uses (no protocol trace
   contains a WriteTgt): the statement holds for every value of it. *)
Theorem C18_interleaving : forall (jobs : list job) (ltr : list (nat * op)) (t0 : path),
  NoDup (job_paths jobs) ->
  (forall i, proj i ltr = match nth_error jobs i with Some j => job_trace j | None => [] end) ->
  (forall k i j, nth_error jobs i = Some j ->
     let f := fs_run t0 (map snd (firstn k ltr)) (fs_init_jobs jobs) in
     content f (j_tgt j) = Some (j_old j) \/
     (exists new, j_fmt j = Some new /\ content f (j_tgt j) = Some new)) /\
  (forall i j, nth_error jobs i = Some j ->
     let f := fs_run t0 (map snd ltr) (fs_init_jobs jobs) in
     content f (j_tgt j) = Some (job_final j) /\ content f (j_tmp j) = None).
Proof. exact interleaving. Qed.
Print Assumptions C18_interleaving.

(* The same for a directory f0 that may hold other files (other journals, the training file of
   `knut infer --inplace -t training target`), some of them open: it is enough that every tgt_i
   holds old_i, no tmp_i exists and none of the 2n paths is open.  In addition every path that
   belongs to no job keeps its contents and its handles at every point of every schedule. *)
Theorem C18_interleaving_any_dir : forall (jobs : list job) (ltr : list (nat * op)) (t0 : path) (f0 : fs),
  NoDup (job_paths jobs) ->
  (forall i, proj i ltr = match nth_error jobs i with Some j => job_trace j | None => [] end) ->
  (forall i j, nth_error jobs i = Some j ->
     content f0 (j_tgt j) = Some (j_old j) /\ content f0 (j_tmp j) = None /\
     is_open f0 (j_tgt j) = false /\ is_open f0 (j_tmp j) = false) ->
  (forall k i j, nth_error jobs i = Some j ->
     let f := fs_run t0 (map snd (firstn k ltr)) f0 in
     content f (j_tgt j) = Some (j_old j) \/
     (exists new, j_fmt j = Some new /\ content f (j_tgt j) = Some new)) /\
  (forall i j, nth_error jobs i = Some j ->
     let f := fs_run t0 (map snd ltr) f0 in
     content f (j_tgt j) = Some (job_final j) /\ content f (j_tmp j) = None) /\
  (forall k q, ~ In q (job_paths jobs) ->
     let f := fs_run t0 (map snd (firstn k ltr)) f0 in
     content f q = content f0 q /\ is_open f q = is_open f0 q).
Proof. exact interleaving_any_dir. Qed.
Print Assumptions C18_interleaving_any_dir.

(* the hypotheses of C18_interleaving are satisfiable: three files - one is rewritten, the write of
   the second fails after one byte, the third does not parse - and a schedule that alternates
   between the first two goroutines *)
Definition C18_ex_jobs : list job :=
  [ mkJob 10 0 [1%N; 2%N] (Some [3%N; 4%N; 5%N]) true [1] NoFault;
    mkJob 11 1 [6%N] (Some [7%N; 8%N]) false [] (FailWrite 1);
    mkJob 12 2 [9%N] None false [] NoFault ].
Definition C18_ex_schedule : list (nat * op) :=
  [ (0, Create 10); (1, Create 11); (0, Write 10 [3%N]); (1, Write 11 [7%N]); (1, Other);
    (0, Write 10 [4%N; 5%N]); (0, Fsync 10); (1, Close 11); (0, Close 10); (0, Chmod 10);
    (1, Unlink 11); (0, Rename 10 0); (0, Other) ].
Example C18_interleaving_example :
  NoDup (job_paths C18_ex_jobs) /\
  (forall i, proj i C18_ex_schedule =
             match nth_error C18_ex_jobs i with Some j => job_trace j | None => [] end) /\
  map (content (fs_run 99 (map snd C18_ex_schedule) (fs_init_jobs C18_ex_jobs))) [0; 1; 2; 10; 11; 12] =
    [Some [3%N; 4%N; 5%N]; Some [6%N]; Some [9%N]; None; None; None].
Proof.
  split; [|split].
  - repeat constructor; simpl; intuition discriminate.
  - intros [|[|[|[|i]]]]; reflexivity.
  - vm_compute. reflexivity.
Qed.

(* the hypotheses are satisfiable, and the checker does reject the unsafe way of writing *)
Example C18_example_ok :
  safe_trace 0 [1%N; 2%N] [3%N; 4%N; 5%N]
    (atomic_write 7 0 [3%N; 4%N; 5%N] true [1] (FailWrite 2)) = true /\
  target_class 0 [1%N; 2%N] [3%N; 4%N; 5%N]
    (atomic_write 7 0 [3%N; 4%N; 5%N] true [1] (FailWrite 2)) = 0 /\
  target_class 0 [1%N; 2%N] [3%N; 4%N; 5%N]
    (atomic_write 7 0 [3%N; 4%N; 5%N] true [1] NoFault) = 1.
Proof. vm_compute. repeat split. Qed.

(* os.WriteFile (open with O_TRUNC, write in place) is rejected, and a crash between its
   operations leaves a truncated target *)
Example C18_example_unsafe :
  safe_trace 0 [1%N; 2%N] [3%N; 4%N; 5%N] [OpenTrunc 0; WriteTgt [3%N; 4%N; 5%N]] = false /\
  target_class 0 [1%N; 2%N] [3%N; 4%N; 5%N] [OpenTrunc 0; WriteTgt [3%N]] = 2.
Proof. vm_compute. split; reflexivity. Qed.
