(* C13  Importers turn every statement row into a valid, faithful journal entry.
   Group B: revolut2, revolut, com.wise, ch.swissquote, us.interactivebrokers (group A and the
   shared back half: Properties/C13.v).  Theorem statements only.

   Models: Model/Imp/<importer>.v (import_X: the records Go's csv reader delivered -> directives;
   run_X: the whole command incl. account flags and journal.Print), Model/ImpCommonA.v,
   Model/ImpCommonB.v, Model/JPrinter.v.
   Vocabulary: Spec/ImpSpecB.v
     row_effect (date, [(commodity, signed change)])   what a booking row says about the import account
     leg (credit, debit, commodity, quantity)          one booking of a transaction
     books_b acct f legs tg t    t is dated re_date f, consists of exactly the bookings legs (in order),
                                 changes acct in EVERY commodity c by the sum of f's changes in c
                                 (so by nothing where f says nothing), and carries annotation tg
     assertion_of acct b         the balance assertion "b.date balance acct b.qty b.com"
     X_wf_row / X_fact / X_legs / X_text               executable reading of a record of importer X
   and, for us.interactivebrokers, Spec/ImpSpecIB.v (ibs_kind, ibs_wf, ibs_items, ibs_emitted).
   The theorems quantify over records (what encoding/csv delivered), not over file bytes.

   Where an importer does not turn rows into transactions one-to-one, or emits something the
   property's wording does not mention, the theorem states the relation the code implements and
   the deviation is written up under findings/C13-<importer>-*.md:
   * revolut2: rows without Completed Date are skipped; the statement's Balance column is turned
     into ONE assertion per (day, currency): the Balance of the last such row in file order; the
     order of the assertions of one day is Go's map order (findings/C13-revolut2-balances.md).
   * revolut: one transaction per row, but a currency sale/purchase row changes the account in
     two commodities; an assertion of the row's Balance precedes the transaction of every row
     whose date differs from the preceding row's date, which is the day's closing balance only in
     a statement that lists the newest row first (findings/C13-revolut-balances.md).
   * com.wise: a row yields zero (CANCELLED; NEUTRAL within one currency), one, or two transactions
     (conversion, then payment); an incoming payment in another currency credits the target amount
     twice -- C13_wise_incoming_conversion_refuted, findings/C13-wise-incoming-conversion.md
     (with a patch; the model parameter repaired = true is the patched code).
   * ch.swissquote: the two rows of a currency exchange become ONE transaction dated on the second
     row; a purchase/sale changes two commodities; a dividend row is booked from Stückpreis and
     Kosten, not from Nettobetrag; an exchange row left without partner at the end of the file is
     dropped without a diagnostic (findings/C13-swissquote-forex-pairs.md).
   * us.interactivebrokers: quantities, proceeds, deposit amounts, currency-trade commissions and
     cash balances are rounded to two places while stock commissions, dividends, interest, taxes
     and position quantities are not; on statements with IB's precision the emitted assertions
     contradict the emitted transactions (findings/C13-interactivebrokers-rounding.md, known
     finding C13-ib-rounding).  C13_interactivebrokers_faithful states the relation the code
     implements (Spec/ImpSpecIB.v reads those amounts with ibs_num2, i.e. rounded);
     C13_interactivebrokers_two_places_exact says when that is the row's amount. *)
From Coq Require Import ZArith QArith List Bool.
From Knut Require Import Model.Imp.Revolut2Files Proofs.ImpProofsFiles.
From Knut Require Import Model.Str Model.Dec Model.Date Model.Account Model.Ledger Model.Journal
     Model.ImpCommonA Model.ImpCommonB Model.Imp.Revolut2 Model.Imp.Revolut Model.Imp.Wise Model.Imp.Swissquote Model.Imp.Interactivebrokers
     Spec.TableSpec Spec.ImpSpecA Spec.ImpSpecB Spec.ImpSpecIB Spec.ImpStmtB Proofs.DecValue Proofs.PairProofs Proofs.ImpProofsB Proofs.ImpProofsIB Proofs.ImpRunB
     Proofs.ImpStdoutB.
Import ListNotations.

(* ---------------------------------------------------------------- bookings *)
(* a booking raises the debited account by its quantity and lowers the credited one, in its
   commodity, whatever the sign of the quantity *)
Theorem C13b_effect_of_bookings : forall a c ls d desc tg,
  effect a c (mkTxn d desc (concat (map booking_postings ls)) tg) == legs_effect a c ls.
Proof. intros. rewrite effect_peffect. apply bookings_effect. Qed.
Print Assumptions C13b_effect_of_bookings.

(* a transaction that books a row (books_b) is a sequence of posting pairs, and the journal built
   from directives whose transactions each book some row consists of such transactions, day by
   day: what group B importers hand to journal.Print is balanced (C13_print_balanced for group A) *)
Theorem C13b_print_balanced : forall acct f ls tg t, books_b acct f ls tg t -> txn_ok t.
Proof. exact books_b_paired. Qed.
Print Assumptions C13b_print_balanced.

Theorem C13b_journal_balanced : forall ds,
  Forall (fun d => match d with DTxn t => exists acct f ls tg, books_b acct f ls tg t | _ => True end) ds ->
  Forall day_ok (b_days (builder_of ds)).
Proof. exact booked_days_ok. Qed.
Print Assumptions C13b_journal_balanced.

(* ---------------------------------------------------------------- revolut2 *)
(* After the header every record has 10 fields.  Rows without Completed Date are not booked.
   Every other row yields exactly one transaction, in order, on the day of its Completed Date:
   Amount from Expenses:TBD to the account and, when Fee is not zero, Fee from the account to the
   fee account -- the account changes by Amount - Fee in Currency and by nothing else;
   description = Description.  After the transactions one balance assertion per (day, currency)
   that occurs, no key twice, carrying the Balance of the last booking row of that day and
   currency; nothing else. *)
Theorem C13_revolut2_faithful : forall acct feeacct rows,
  acct <> tbd_account -> acct <> feeacct -> forallb r2_wf_row rows = true ->
  exists ts bals,
    import_revolut2 acct feeacct (CRec r2_header :: map CRec rows) =
      MOk (map DTxn ts ++ map (assertion_of acct) bals) /\
    Forall2 (fun r t => books_b acct (r2_fact r) (r2_legs acct feeacct r) None t) (filter r2_is_booking rows) ts /\
    map t_desc ts = map build_desc (map r2_text (filter r2_is_booking rows)) /\
    NoDup (map (fun b => (bf_date b, bf_com b)) bals) /\
    (forall d c v, In (mkBalFact d c v) bals <-> r2_closing (d, c) rows = Some v).
Proof. exact revolut2_faithful. Qed.
Print Assumptions C13_revolut2_faithful.

(* `knut import revolut2 FILE...`: every file is imported on its own (its own parser, its own balance map) into one
   journal: the directives of the run are the concatenation, in argument order, of what C13_revolut2_faithful says
   about each file -- no assertion or transaction of one statement leaks into another (seeded change
   C13d-revolut2-parser-reused kept the balance map across files and repeated the assertions of earlier files); the
   first failing file fails the run. *)
Theorem C13_revolut2_files : forall a f files dss,
  Forall2 (fun file ds => import_revolut2 a f file = MOk ds) files dss ->
  import_revolut2_files a f files = MOk (concat dss).
Proof. exact revolut2_files_concat. Qed.
Print Assumptions C13_revolut2_files.

Theorem C13_revolut2_files_error : forall a f pre file post dss e,
  Forall2 (fun file ds => import_revolut2 a f file = MOk ds) pre dss ->
  import_revolut2 a f file = MErr e ->
  import_revolut2_files a f (pre ++ file :: post) = MErr e.
Proof. exact revolut2_files_error. Qed.
Print Assumptions C13_revolut2_files_error.

(* 2020-07-01 10:00:00, -16.95, fee 1.00, CHF, balance 779.65 *)
Example C13_revolut2_row_wf :
  r2_wf_row [[67]; [67]; []; [50;48;50;48;45;48;55;45;48;49;32;49;48;58;48;48;58;48;48]; [97];
             [45;49;54;46;57;53]; [49;46;48;48]; [67;72;70]; [67]; [55;55;57;46;54;53]]%Z = true.
Proof. vm_compute. reflexivity. Qed.

(* ---------------------------------------------------------------- revolut *)
(* The header (9 fields) names the statement's currency in "Paid Out (CUR)".  Every further record
   is a booking row of 9 fields: exactly one transaction per row, in order, on the Completed Date;
   a plain row books the signed amount (+Paid In / -Paid Out) between Expenses:TBD and the
   account in CUR; a "Sold X to Y" / "Bought X from Y" row books the signed amount in CUR and the
   amount of Exchange Out (received) resp. Exchange In (given) in its currency against the
   valuation account Income:<rest of the account name>; the account changes by exactly these
   amounts; description = Reference, Exchange Rate, Category joined by blanks with white space
   collapsed and trimmed.  Besides the transactions: an assertion of the row's Balance in CUR,
   dated on the row's date, before the transaction of each row whose date differs from the date
   of the row before it (rv_weave); nothing else. *)
Theorem C13_revolut_faithful : forall acct cur header rows,
  acct <> tbd_account -> acct <> valuation_account_for acct ->
  len_is header 9 = true -> field header 2 = s_paid_out ++ cur ++ [41%Z] ->
  forallb is_alpha cur = true -> cur <> [] ->
  forallb rv_wf_row rows = true ->
  exists ts,
    import_revolut acct (CRec header :: map CRec rows) = MOk (rv_weave acct cur zero_date rows ts) /\
    Forall2 (fun r t => books_b acct (rv_fact cur r) (rv_legs acct cur r) None t) rows ts /\
    map t_desc ts = map build_desc (map rv_text rows).
Proof. exact revolut_faithful. Qed.
Print Assumptions C13_revolut_faithful.

(* "26 Nov 2020;Sold EUR to CHF; 184.98;;CHF  199.95;; 100.00;FX-rate;General" as the reader delivers it *)
Example C13_revolut_row_wf :
  rv_wf_row [[50;54;32;78;111;118;32;50;48;50;48]; [83;111;108;100;32;69;85;82;32;116;111;32;67;72;70];
             [49;56;52;46;57;56]; []; [67;72;70;32;32;49;57;57;46;57;53]; []; [49;48;48;46;48;48]; [70;88]; [71]]%Z = true /\
  rv_exchange [[50;54;32;78;111;118;32;50;48;50;48]; [83;111;108;100;32;69;85;82;32;116;111;32;67;72;70];
             [49;56;52;46;57;56]; []; [67;72;70;32;32;49;57;57;46;57;53]; []; [49;48;48;46;48;48]; [70;88]; [71]]%Z
    = Some ([67;72;70]%Z, mkDec 19995 (-2)).
Proof. vm_compute. split; reflexivity. Qed.

(* ---------------------------------------------------------------- com.wise *)
(* After the header every record has 18 fields.  Each row stands for the entries ws_entries lists
   (none for a CANCELLED row and for a NEUTRAL row within one currency -- whose fees, if any, are
   dropped; one payment with its fees for OUT/IN within one currency; for differing currencies a
   conversion transaction carrying the fees -- source amount to the trading account, target
   amount from it -- followed for OUT by the payment of the target amount, for IN by the receipt
   of the target amount [repaired: of the source amount]).  Exactly one transaction per entry,
   in order, on the day of "Created on", consisting of the entry's bookings, changing the account
   by exactly the entry's changes; descriptions "<ID, - and _ as blanks> / <Target name>" resp.
   "<ID> / convert <source> <cur> to <target> <cur>"; nothing else. *)
Theorem C13_wise_faithful : forall repaired acct feeacct trading rows,
  acct <> tbd_account -> acct <> feeacct -> acct <> trading -> forallb ws_wf_row rows = true ->
  let entries := flat_map (ws_entries repaired acct feeacct trading) rows in
  exists ts,
    import_wise repaired acct feeacct trading (CRec ws_header :: map CRec rows) = MOk (map DTxn ts) /\
    Forall2 (fun e t => books_b acct (en_fact e) (en_legs e) None t) entries ts /\
    map t_desc ts = map build_desc (map en_text entries).
Proof. exact wise_faithful. Qed.
Print Assumptions C13_wise_faithful.

(* TRANSFER-1, COMPLETED, IN, 100.00 CHF arrive as 92.50 EUR: the row's effect on the account
   ought to be +92.50 EUR (and nothing in CHF).  The code as it stands changes the account by
   +185 EUR and -100 CHF; the patched code by +92.50 EUR and 0 CHF. *)
Definition w_incoming : list str :=
  [[84;82;65;78;83;70;69;82;45;49]; [67;79;77;80;76;69;84;69;68]; [73;78];
   [50;48;50;52;45;48;49;45;48;50;32;49;48;58;48;48;58;48;48]; [50;48;50;52;45;48;49;45;48;50;32;49;48;58;48;48;58;48;48];
   [48;46;48;48]; [67;72;70]; []; []; [82;111;99;107;121]; [49;48;48;46;48;48]; [67;72;70]; [82;111;99;107;121];
   [57;50;46;53;48]; [69;85;82]; []; []; []]%Z.
Definition w_acct : account := [s_Assets; [87]%Z].
Definition w_fee : account := [s_Expenses; [70]%Z].
Definition w_trading : account := [s_Expenses; [84]%Z].

Theorem C13_wise_incoming_conversion_refuted :
  ws_wf_row w_incoming = true /\ ws_dir_of w_incoming = WsIn /\ ws_converted w_incoming = true /\
  ws_row_change false w_acct w_fee w_trading w_incoming (ws_tcur w_incoming) == 2 * dvalue (ws_tgt w_incoming) /\
  ws_row_change false w_acct w_fee w_trading w_incoming (ws_scur w_incoming) == - dvalue (ws_src w_incoming) /\
  ws_row_change true w_acct w_fee w_trading w_incoming (ws_tcur w_incoming) == dvalue (ws_tgt w_incoming) /\
  ws_row_change true w_acct w_fee w_trading w_incoming (ws_scur w_incoming) == 0.
Proof. repeat split; vm_compute; reflexivity. Qed.
Print Assumptions C13_wise_incoming_conversion_refuted.

Example C13_wise_row_wf : ws_wf_row w_incoming = true.
Proof. vm_compute. reflexivity. Qed.

(* ---------------------------------------------------------------- ch.swissquote *)
(* After the header every record has 13 fields.  A statement is well-formed (sqs_wf) when its
   rows are, exchange rows come in pairs with at most purchases/sales between the two rows of a
   pair, and no exchange is left open at the end.  Entries (sqs_entries), in order: one per
   purchase/sale (Symbol changes by -/+Anzahl, cash by Nettobetrag: bookings of the proceeds
   Nettobetrag + Kosten against the trading account and of -Kosten against the fee account;
   annotated with Symbol and Währung), one per PAIR of exchange rows (both Nettobetrag amounts
   against the trading account, dated on the second row), one per other row (dividend kinds:
   Stückpreis from the dividend account, Kosten to the tax account, annotated with Symbol;
   Depotgebühren: Nettobetrag against the fee account, empty annotation; Zins: against the interest
   account, annotated with Währung; Einzahlung/Auszahlung/Vergütung/Belastung and every unknown
   kind: Nettobetrag against Expenses:TBD).  Exactly one transaction per entry, on the row's date,
   consisting of the entry's bookings and changing the account by exactly the entry's changes;
   nothing else. *)
Theorem C13_swissquote_faithful : forall acct dividend interest tax fee trading header rows,
  acct <> tbd_account -> acct <> dividend -> acct <> interest -> acct <> tax -> acct <> fee -> acct <> trading ->
  sqs_wf false rows = true ->
  let entries := sqs_entries acct dividend interest tax fee trading None rows in
  exists ts,
    import_swissquote acct dividend interest tax fee trading (CRec header :: map CRec rows) = MOk (map DTxn ts) /\
    Forall2 (fun e t => books_b acct (en_fact (fst e)) (en_legs (fst e)) (snd e) t) entries ts /\
    map t_desc ts = map build_desc (map (fun e => en_text (fst e)) entries).
Proof. exact swissquote_faithful. Qed.
Print Assumptions C13_swissquote_faithful.

(* an exchange row without partner at the end of the statement leaves no trace: the statement
   Einzahlung; Forex-Gutschrift imports exactly like the statement Einzahlung *)
Definition w_sq_row (typ : str) (netto : str) : list str :=
  [[48;57;45;49;48;45;50;48;50;48]; [48]; typ; []; []; []; [49]; [49]; [48]; [48]; netto; [48]; [67;72;70]]%Z.
Theorem C13_swissquote_open_exchange_dropped :
  let a := [s_Assets; [83]%Z] in let x := [s_Expenses; [88]%Z] in
  let ein := w_sq_row [69;105;110;122;97;104;108;117;110;103]%Z [49;48;48]%Z in
  let fx := w_sq_row [70;111;114;101;120;45;71;117;116;115;99;104;114;105;102;116]%Z [56;51;48]%Z in
  sqs_wf_row fx = true /\ sqs_wf false [ein; fx] = false /\
  import_swissquote a x x x x x [CRec []; CRec ein; CRec fx] = import_swissquote a x x x x x [CRec []; CRec ein].
Proof. vm_compute. repeat split. Qed.
Print Assumptions C13_swissquote_open_exchange_dropped.

Example C13_swissquote_statement_wf :
  sqs_wf false [w_sq_row [69;105;110;122;97;104;108;117;110;103]%Z [49;48;48]%Z;
                w_sq_row [70;111;114;101;120;45;71;117;116;115;99;104;114;105;102;116]%Z [56;51;48]%Z;
                w_sq_row [70;111;114;101;120;45;66;101;108;97;115;116;117;110;103]%Z [45;57;49;56]%Z] = true.
Proof. vm_compute. reflexivity. Qed.

(* ---------------------------------------------------------------- from the command line to stdout *)
(* With every account flag valid (so that it names an account; an empty flag gives a nil account,
   findings/C13-nil-account-panic.md) the command succeeds on every well-formed statement and its
   standard output is journal.Print of exactly the directives of the theorems above. *)
Theorem C13_revolut2_end_to_end : forall aflag fflag acct feeacct rows,
  account_flag aflag = AAcc acct -> account_flag fflag = AAcc feeacct ->
  acct <> tbd_account -> acct <> feeacct -> forallb r2_wf_row rows = true ->
  exists ts bals,
    run_revolut2 aflag fflag (CRec r2_header :: map CRec rows) =
      mkRun (print_directives (map DTxn ts ++ map (assertion_of acct) bals)) SOk /\
    Forall2 (fun r t => books_b acct (r2_fact r) (r2_legs acct feeacct r) None t) (filter r2_is_booking rows) ts /\
    map t_desc ts = map build_desc (map r2_text (filter r2_is_booking rows)) /\
    NoDup (map (fun b => (bf_date b, bf_com b)) bals) /\
    (forall d c v, In (mkBalFact d c v) bals <-> r2_closing (d, c) rows = Some v).
Proof. exact revolut2_run. Qed.
Print Assumptions C13_revolut2_end_to_end.

Theorem C13_revolut_end_to_end : forall aflag acct cur header rows,
  account_flag aflag = AAcc acct ->
  acct <> tbd_account -> acct <> valuation_account_for acct ->
  len_is header 9 = true -> field header 2 = s_paid_out ++ cur ++ [41%Z] ->
  forallb is_alpha cur = true -> cur <> [] ->
  forallb rv_wf_row rows = true ->
  exists ts,
    run_revolut aflag (CRec header :: map CRec rows) = mkRun (print_directives (rv_weave acct cur zero_date rows ts)) SOk /\
    Forall2 (fun r t => books_b acct (rv_fact cur r) (rv_legs acct cur r) None t) rows ts /\
    map t_desc ts = map build_desc (map rv_text rows).
Proof. exact revolut_run. Qed.
Print Assumptions C13_revolut_end_to_end.

Theorem C13_wise_end_to_end : forall repaired aflag fflag tflag acct feeacct trading rows,
  account_flag aflag = AAcc acct -> account_flag fflag = AAcc feeacct -> account_flag tflag = AAcc trading ->
  acct <> tbd_account -> acct <> feeacct -> acct <> trading -> forallb ws_wf_row rows = true ->
  let entries := flat_map (ws_entries repaired acct feeacct trading) rows in
  exists ts,
    run_wise repaired aflag fflag tflag (CRec ws_header :: map CRec rows) = mkRun (print_directives (map DTxn ts)) SOk /\
    Forall2 (fun e t => books_b acct (en_fact e) (en_legs e) None t) entries ts /\
    map t_desc ts = map build_desc (map en_text entries).
Proof. exact wise_run. Qed.
Print Assumptions C13_wise_end_to_end.

Theorem C13_swissquote_end_to_end :
  forall aflag dflag iflag wflag fflag tflag acct dividend interest tax fee trading header rows,
  account_flag aflag = AAcc acct -> account_flag dflag = AAcc dividend -> account_flag iflag = AAcc interest ->
  account_flag wflag = AAcc tax -> account_flag fflag = AAcc fee -> account_flag tflag = AAcc trading ->
  acct <> tbd_account -> acct <> dividend -> acct <> interest -> acct <> tax -> acct <> fee -> acct <> trading ->
  sqs_wf false rows = true ->
  let entries := sqs_entries acct dividend interest tax fee trading None rows in
  exists ts,
    run_swissquote aflag dflag iflag wflag fflag tflag (CRec header :: map CRec rows) = mkRun (print_directives (map DTxn ts)) SOk /\
    Forall2 (fun e t => books_b acct (en_fact (fst e)) (en_legs (fst e)) (snd e) t) entries ts /\
    map t_desc ts = map build_desc (map (fun e => en_text (fst e)) entries).
Proof. exact swissquote_run. Qed.
Print Assumptions C13_swissquote_end_to_end.

(* ---------------------------------------------------------------- us.interactivebrokers *)
(* An activity statement is a sequence of records; ibs_kind says what a record is: a context
   record (Base Currency, Period), a booking row (Trades/Order of Stocks or Forex, Deposits &
   Withdrawals, Dividends, Interest, Withholding Tax -- the format has no separate fee rows:
   commissions are columns of the trade rows), a balance row (Open Positions/Summary, Forex
   Balances/Forex: the statement's position and cash report) or anything else (headers, totals,
   other sections).  A statement is well-formed (ibs_wf) when every record is (ibs_wf_row: the
   fields the kind needs are present and parse), every Forex trade comes after a Base Currency
   record and every balance row after a Period record whose end is not 1 January of year 1.
   For every well-formed statement the importer emits, in record order, exactly one directive per
   booking row and per balance row and nothing for any other record (ibs_items lists the items;
   the two length equations count them):
   * per booking row ONE transaction dated on the row's date that consists of exactly the row's
     bookings (trade: quantity and proceeds against the trading account, commission against the
     fee account -- for a Forex trade in the base currency and only when not zero; deposit: against
     Expenses:TBD; dividend / interest / tax: against the respective account), changes the import
     account by exactly the row's signed amounts in every commodity, carries the annotation
     (traded symbol and currency; security of a dividend/tax row; currency of an interest row)
     and the text (trade/deposit: composed; else the row's description);
   * per balance row the assertion of that balance on the import account, dated on the end of the
     period named by the last Period record before the row.
   "The row's signed amount" is the amount AS THE CODE ROUNDS IT: quantity, proceeds, Forex
   commission, deposit amount and cash balance are read with ibs_num2 (two places, half away
   from zero), stock commission, dividend, interest, tax and position quantity exactly.  This is
   the relation the code implements, not the property's wording: known finding C13-ib-rounding
   (findings/C13-interactivebrokers-rounding.md; C13_interactivebrokers_rounding_witness below).
   Where every rounded amount of the statement has at most two decimals the two readings agree
   (C13_interactivebrokers_two_places_exact). *)
Theorem C13_interactivebrokers_faithful : forall acct dividend interest tax fee trading rows,
  acct <> tbd_account -> acct <> dividend -> acct <> interest -> acct <> tax -> acct <> fee -> acct <> trading ->
  ibs_wf ibs_ctx0 rows = true ->
  let items := ibs_items acct dividend interest tax fee trading ibs_ctx0 rows in
  exists ds,
    import_interactivebrokers acct dividend interest tax fee trading (map CRec rows) = MOk ds /\
    Forall2 (ibs_emitted acct) items ds /\
    length (filter is_txn_dir ds) = length (filter ibs_is_booking rows) /\
    length (filter (fun d => negb (is_txn_dir d)) ds) = length (filter ibs_is_balance rows).
Proof. exact interactivebrokers_faithful. Qed.
Print Assumptions C13_interactivebrokers_faithful.

(* from the command line to standard output: with six valid account flags (-a -i -d -w -f -t) the
   command succeeds on every well-formed statement and prints journal.Print of those directives *)
Theorem C13_interactivebrokers_end_to_end :
  forall aflag iflag dflag wflag fflag tflag acct dividend interest tax fee trading rows,
  account_flag aflag = AAcc acct -> account_flag iflag = AAcc interest -> account_flag dflag = AAcc dividend ->
  account_flag wflag = AAcc tax -> account_flag fflag = AAcc fee -> account_flag tflag = AAcc trading ->
  acct <> tbd_account -> acct <> dividend -> acct <> interest -> acct <> tax -> acct <> fee -> acct <> trading ->
  ibs_wf ibs_ctx0 rows = true ->
  let items := ibs_items acct dividend interest tax fee trading ibs_ctx0 rows in
  exists ds,
    run_interactivebrokers aflag iflag dflag wflag fflag tflag (map CRec rows) = mkRun (print_directives ds) SOk /\
    Forall2 (ibs_emitted acct) items ds /\
    length (filter is_txn_dir ds) = length (filter ibs_is_booking rows) /\
    length (filter (fun d => negb (is_txn_dir d)) ds) = length (filter ibs_is_balance rows).
Proof. exact interactivebrokers_run. Qed.
Print Assumptions C13_interactivebrokers_end_to_end.

(* the executable form of the statement theorem, which ./check C13 evaluates on the standard
   output of the binary for every generated well-formed statement (drv_c13b.ml): the command
   prints ibs_statement_output, the journal of the directives that realise the statement's items *)
Theorem C13_interactivebrokers_stdout :
  forall aflag iflag dflag wflag fflag tflag acct dividend interest tax fee trading rows,
  account_flag aflag = AAcc acct -> account_flag iflag = AAcc interest -> account_flag dflag = AAcc dividend ->
  account_flag wflag = AAcc tax -> account_flag fflag = AAcc fee -> account_flag tflag = AAcc trading ->
  ibs_wf ibs_ctx0 rows = true ->
  exists out, ibs_statement_output acct dividend interest tax fee trading rows = Some out /\
    run_interactivebrokers aflag iflag dflag wflag fflag tflag (map CRec rows) = mkRun out SOk.
Proof. exact interactivebrokers_stdout. Qed.
Print Assumptions C13_interactivebrokers_stdout.

(* ... and that journal consists of posting pairs, day by day *)
Theorem C13_interactivebrokers_print_balanced : forall acct items ds,
  Forall2 (ibs_emitted acct) items ds -> Forall day_ok (b_days (builder_of ds)).
Proof. exact interactivebrokers_days_ok. Qed.
Print Assumptions C13_interactivebrokers_print_balanced.

(* what ibs_num2 is: the exact amount rounded half away from zero to two places (Spec/TableSpec.v,
   is_round_haz); an amount with at most two decimals (exponent >= -2) is read exactly *)
Theorem C13_interactivebrokers_rounding : forall s q,
  ibs_num2 s = Some q -> exists d, ibs_num s = Some d /\ is_round_haz d 2 q.
Proof. exact ibs_num2_rounds. Qed.
Print Assumptions C13_interactivebrokers_rounding.

Theorem C13_interactivebrokers_two_places_exact : forall s d,
  ibs_num s = Some d -> (-2 <= ex d)%Z -> exists q, ibs_num2 s = Some q /\ dvalue q == dvalue d.
Proof. exact ibs_num2_exact. Qed.
Print Assumptions C13_interactivebrokers_two_places_exact.

(* a statement with every kind of record: well-formed; six transactions and two assertions *)
Definition w_ib_statement : list (list str) :=
  [
   (* Statement,Data,Period,"January 1, 2024 - January 31, 2024" *)
   [[83;116;97;116;101;109;101;110;116]; [68;97;116;97]; [80;101;114;105;111;100]; [74;97;110;117;97;114;121;32;49;44;32;50;48;50;52;32;45;32;74;97;110;117;97;114;121;32;51;49;44;32;50;48;50;52]];
   (* Account Information,Data,Base Currency,CHF *)
   [[65;99;99;111;117;110;116;32;73;110;102;111;114;109;97;116;105;111;110]; [68;97;116;97]; [66;97;115;101;32;67;117;114;114;101;110;99;121]; [67;72;70]];
   (* Trades,Header,DataDiscriminator,Asset Category *)
   [[84;114;97;100;101;115]; [72;101;97;100;101;114]; [68;97;116;97;68;105;115;99;114;105;109;105;110;97;116;111;114]; [65;115;115;101;116;32;67;97;116;101;103;111;114;121]];
   (* Trades,Data,Order,Stocks,USD,BRK,"2024-01-07, 11:48:02",0.1615,68.3430,68.34,-11.04,-0.005,0,0,0,0,O *)
   [[84;114;97;100;101;115]; [68;97;116;97]; [79;114;100;101;114]; [83;116;111;99;107;115]; [85;83;68]; [66;82;75]; [50;48;50;52;45;48;49;45;48;55;44;32;49;49;58;52;56;58;48;50]; [48;46;49;54;49;53]; [54;56;46;51;52;51;48]; [54;56;46;51;52]; [45;49;49;46;48;52]; [45;48;46;48;48;53]; [48]; [48]; [48]; [48]; [79]];
   (* Trades,Data,Order,Forex,CHF,USD.CHF,"2024-01-08, 10:00:00","1,000",0.9,,-900,-1.8,,,,, *)
   [[84;114;97;100;101;115]; [68;97;116;97]; [79;114;100;101;114]; [70;111;114;101;120]; [67;72;70]; [85;83;68;46;67;72;70]; [50;48;50;52;45;48;49;45;48;56;44;32;49;48;58;48;48;58;48;48]; [49;44;48;48;48]; [48;46;57]; []; [45;57;48;48]; [45;49;46;56]; []; []; []; []; []];
   (* Deposits & Withdrawals,Data,CHF,2024-01-02,Electronic Fund Transfer,5000 *)
   [[68;101;112;111;115;105;116;115;32;38;32;87;105;116;104;100;114;97;119;97;108;115]; [68;97;116;97]; [67;72;70]; [50;48;50;52;45;48;49;45;48;50]; [69;108;101;99;116;114;111;110;105;99;32;70;117;110;100;32;84;114;97;110;115;102;101;114]; [53;48;48;48]];
   (* Deposits & Withdrawals,Data,Total,,,5000 *)
   [[68;101;112;111;115;105;116;115;32;38;32;87;105;116;104;100;114;97;119;97;108;115]; [68;97;116;97]; [84;111;116;97;108]; []; []; [53;48;48;48]];
   (* Dividends,Data,USD,2024-01-15,BRK(US0846707026) Cash Dividend,1.5 *)
   [[68;105;118;105;100;101;110;100;115]; [68;97;116;97]; [85;83;68]; [50;48;50;52;45;48;49;45;49;53]; [66;82;75;40;85;83;48;56;52;54;55;48;55;48;50;54;41;32;67;97;115;104;32;68;105;118;105;100;101;110;100]; [49;46;53]];
   (* Withholding Tax,Data,USD,2024-01-15,BRK(US0846707026) Cash Dividend - US Tax,-0.22, *)
   [[87;105;116;104;104;111;108;100;105;110;103;32;84;97;120]; [68;97;116;97]; [85;83;68]; [50;48;50;52;45;48;49;45;49;53]; [66;82;75;40;85;83;48;56;52;54;55;48;55;48;50;54;41;32;67;97;115;104;32;68;105;118;105;100;101;110;100;32;45;32;85;83;32;84;97;120]; [45;48;46;50;50]; []];
   (* Interest,Data,USD,2024-01-04,USD Debit Interest for Dec-2023,-0.73 *)
   [[73;110;116;101;114;101;115;116]; [68;97;116;97]; [85;83;68]; [50;48;50;52;45;48;49;45;48;52]; [85;83;68;32;68;101;98;105;116;32;73;110;116;101;114;101;115;116;32;102;111;114;32;68;101;99;45;50;48;50;51]; [45;48;46;55;51]];
   (* Open Positions,Data,Summary,Stocks,USD,BRK,0.1615,1 *)
   [[79;112;101;110;32;80;111;115;105;116;105;111;110;115]; [68;97;116;97]; [83;117;109;109;97;114;121]; [83;116;111;99;107;115]; [85;83;68]; [66;82;75]; [48;46;49;54;49;53]; [49]];
   (* Forex Balances,Data,Forex,CHF,USD,-11.045,1 *)
   [[70;111;114;101;120;32;66;97;108;97;110;99;101;115]; [68;97;116;97]; [70;111;114;101;120]; [67;72;70]; [85;83;68]; [45;49;49;46;48;52;53]; [49]];
   (* Notes,Data *)
   [[78;111;116;101;115]; [68;97;116;97]]
  ]%Z.

Example C13_interactivebrokers_statement_wf :
  ibs_wf ibs_ctx0 w_ib_statement = true /\
  map ibs_kind w_ib_statement =
    [IbPeriod; IbBase; IbOther; IbStock; IbForex; IbDeposit; IbOther; IbDividend; IbWithholding; IbInterest;
     IbPosition; IbCash; IbOther] /\
  length (filter ibs_is_booking w_ib_statement) = 6%nat /\ length (filter ibs_is_balance w_ib_statement) = 2%nat.
Proof. vm_compute. repeat split. Qed.

(* the same statement through the model: the stock row books 0.16 BRK where the statement says
   0.1615, and the cash balance -11.045 is asserted as -11.05 (C13-ib-rounding) *)
Example C13_interactivebrokers_statement_run :
  let a := [s_Assets; [73;66]%Z] in let x := [s_Expenses; [88]%Z] in
  exists ds, import_interactivebrokers a x x x x x (map CRec w_ib_statement) = MOk ds /\
    length ds = 8%nat /\
    nth 7 ds (DAssert 0 []) = DAssert (of_civil 2024 1 31) [mkBalance a (mkDec (-1105) (-2)) [85;83;68]%Z].
Proof. eexists. split; [vm_compute; reflexivity|]. split; reflexivity. Qed.

(* the order of the records matters (the hypothesis ibs_wf threads the context): a Forex trade
   after the Base Currency record is booked, the same trade before it makes the import fail *)
Example C13_interactivebrokers_order_matters :
  let a := [s_Assets; [73;66]%Z] in let x := [s_Expenses; [88]%Z] in
  let base := nth 1 w_ib_statement [] in let fx := nth 4 w_ib_statement [] in
  ibs_wf ibs_ctx0 [base; fx] = true /\ ibs_wf ibs_ctx0 [fx; base] = false /\
  (exists t, import_interactivebrokers a x x x x x [CRec base; CRec fx] = MOk [DTxn t]) /\
  import_interactivebrokers a x x x x x [CRec fx; CRec base] = MErr e_base.
Proof. vm_compute. repeat split. eexists. reflexivity. Qed.

(* The row theorems: what ONE record of each transaction kind other than a Forex trade yields, in
   ANY state of the importer (the state is unchanged), stated on the record alone.  On well-formed
   statements they are instances of C13_interactivebrokers_faithful. *)
Theorem C13_interactivebrokers_deposit_row : forall acct dividend interest tax fee trading st cur day desc amt d q,
  acct <> tbd_account ->
  str_eqb cur s_total = false -> is_empty day = false -> valid_name cur = true ->
  parse_iso day = Some d -> ibs_num2 amt = Some q ->
  exists t, ib_line acct dividend interest tax fee trading st [s_deposits; s_data; cur; day; desc; amt] = MOk (st, [DTxn t]) /\
    books_b acct (mkEffect d [(cur, q)]) [mkLeg tbd_account acct cur q] None t.
Proof. intros. eapply ib_deposit_row; eassumption. Qed.
Print Assumptions C13_interactivebrokers_deposit_row.

Theorem C13_interactivebrokers_dividend_row : forall acct dividend interest tax fee trading st cur day desc amt d q,
  acct <> dividend ->
  is_prefix s_total cur = false -> valid_name cur = true -> parse_iso day = Some d -> ibs_num amt = Some q ->
  ibs_security desc <> [] ->
  exists t, ib_line acct dividend interest tax fee trading st [s_dividends; s_data; cur; day; desc; amt] = MOk (st, [DTxn t]) /\
    books_b acct (mkEffect d [(cur, q)]) [mkLeg dividend acct cur q] (Some [ibs_security desc]) t /\
    t_desc t = build_desc desc.
Proof. intros. eapply ib_dividend_row; eassumption. Qed.
Print Assumptions C13_interactivebrokers_dividend_row.

Theorem C13_interactivebrokers_interest_row : forall acct dividend interest tax fee trading st cur day desc amt d q,
  acct <> interest ->
  is_prefix s_total cur = false -> valid_name cur = true -> parse_iso day = Some d -> ibs_num amt = Some q ->
  exists t, ib_line acct dividend interest tax fee trading st [s_interest; s_data; cur; day; desc; amt] = MOk (st, [DTxn t]) /\
    books_b acct (mkEffect d [(cur, q)]) [mkLeg interest acct cur q] (Some [cur]) t /\
    t_desc t = build_desc desc.
Proof. intros. eapply ib_interest_row; eassumption. Qed.
Print Assumptions C13_interactivebrokers_interest_row.

Theorem C13_interactivebrokers_withholding_row : forall acct dividend interest tax fee trading st cur day desc amt code d q,
  acct <> tax ->
  is_prefix s_total cur = false -> valid_name cur = true -> parse_iso day = Some d -> ibs_num amt = Some q ->
  ibs_security desc <> [] ->
  exists t, ib_line acct dividend interest tax fee trading st [s_withholding; s_data; cur; day; desc; amt; code] = MOk (st, [DTxn t]) /\
    books_b acct (mkEffect d [(cur, q)]) [mkLeg tax acct cur q] (Some [ibs_security desc]) t /\
    t_desc t = build_desc desc.
Proof. intros. eapply ib_withholding_row; eassumption. Qed.
Print Assumptions C13_interactivebrokers_withholding_row.

(* the holding changes by the quantity ROUNDED to two places (ibs_num2), the cash by the ROUNDED
   proceeds plus the signed, unrounded commission *)
Theorem C13_interactivebrokers_stock_row :
  forall acct dividend interest tax fee trading st cur sym stamp qs ps x9 prs fs x12 x13 x14 x15 x16 d qty price proceeds feeq,
  acct <> fee -> acct <> trading ->
  valid_name cur = true -> valid_name sym = true ->
  Nat.leb 10 (length stamp) = true -> parse_iso (firstn 10 stamp) = Some d ->
  ibs_num2 qs = Some qty -> ibs_num ps = Some price -> ibs_num2 prs = Some proceeds -> new_from_string fs = Some feeq ->
  exists t, ib_line acct dividend interest tax fee trading st
              [s_trades; s_data; s_order; s_stocks; cur; sym; stamp; qs; ps; x9; prs; fs; x12; x13; x14; x15; x16] = MOk (st, [DTxn t]) /\
    books_b acct (mkEffect d [(sym, qty); (cur, proceeds); (cur, feeq)])
            [mkLeg trading acct sym qty; mkLeg trading acct cur proceeds; mkLeg fee acct cur feeq] (Some [sym; cur]) t.
Proof. intros. eapply ib_stock_row; eassumption. Qed.
Print Assumptions C13_interactivebrokers_stock_row.

Theorem C13_interactivebrokers_loop : forall acct dividend interest tax fee trading st r rest st' ds,
  ib_line acct dividend interest tax fee trading st r = MOk (st', ds) ->
  ib_rows acct dividend interest tax fee trading st (CRec r :: rest) =
  mbind (ib_rows acct dividend interest tax fee trading st' rest) (fun ds' => MOk (ds ++ ds')).
Proof. exact ib_rows_cons. Qed.
Print Assumptions C13_interactivebrokers_loop.

(* rounding loses what the row says: 0.1615 shares are booked as 0.16 *)
Example C13_interactivebrokers_rounding_witness :
  ibs_num [48;46;49;54;49;53]%Z = Some (mkDec 1615 (-4)) /\ ibs_num2 [48;46;49;54;49;53]%Z = Some (mkDec 16 (-2)).
Proof. vm_compute. split; reflexivity. Qed.

(* ---------------------------------------------------------------- executable statement-level forms *)
(* As C13_interactivebrokers_stdout for the other importers of the group: Spec/ImpStmtB.v defines, from
   the row readings of Spec/ImpSpecB.v (X_wf_row, X_fact, X_legs, X_text), the realisation of bookings as
   posting pairs and the shared printer -- not from the importer model -- the journal text
   X_statement_output the property prescribes for the records of a well-formed statement (None for any
   other list of records).  The command prints exactly that text.  ./check C13 evaluates the extracted
   X_statement_output on the records of every generated well-formed statement and compares it with
   the standard output of the binary (drv_c13b.ml, verdict `spec`). *)

(* the relation of the _faithful theorems pins the transaction down: a transaction that books a row
   (books_b: date, bookings, annotation) under the row's text IS the one the executable form
   prescribes -- so the transactions of C13_<importer>_faithful / _end_to_end are those of
   <importer>_statement_output *)
Theorem C13b_books_determines : forall acct f ls tg text t,
  books_b acct f ls tg t -> t_desc t = build_desc text -> DTxn t = booking_directive f text ls tg.
Proof. exact books_b_determines. Qed.
Print Assumptions C13b_books_determines.

(* revolut2: the header record, then well-formed rows (r2_statement_wf); one transaction per
   booking row in file order, then the assertions of the closing balances (r2s_closings: per day
   and currency with a booking row the Balance of the last such row) ordered by day, then by the
   name of the currency (r2s_balances) *)
Theorem C13_revolut2_stdout : forall aflag fflag acct feeacct recs,
  account_flag aflag = AAcc acct -> account_flag fflag = AAcc feeacct ->
  r2_statement_wf recs = true ->
  exists out, r2_statement_output acct feeacct recs = Some out /\
    run_revolut2 aflag fflag (map CRec recs) = mkRun out SOk.
Proof. exact revolut2_stdout. Qed.
Print Assumptions C13_revolut2_stdout.

(* the header and the row of C13_revolut2_row_wf: one transaction with a fee booking, one assertion *)
Example C13_revolut2_statement_wf :
  let row := [[67]; [67]; []; [50;48;50;48;45;48;55;45;48;49;32;49;48;58;48;48;58;48;48]; [97];
              [45;49;54;46;57;53]; [49;46;48;48]; [67;72;70]; [67]; [55;55;57;46;54;53]]%Z in
  r2_statement_wf [r2s_header; row] = true /\
  length (r2s_directives [s_Assets; [82]%Z] [s_Expenses; [70]%Z] [row]) = 2%nat.
Proof. vm_compute. split; reflexivity. Qed.

(* revolut: a header of nine fields whose third field is "Paid Out (CUR)" (rvs_currency), then
   well-formed rows; the transaction of each row, preceded by the assertion of the row's Balance
   where the date changes (rvs_weave, from 1 January of year 1) *)
Theorem C13_revolut_stdout : forall aflag acct recs,
  account_flag aflag = AAcc acct -> rv_statement_wf recs = true ->
  exists out, rv_statement_output acct recs = Some out /\ run_revolut aflag (map CRec recs) = mkRun out SOk.
Proof. exact revolut_stdout. Qed.
Print Assumptions C13_revolut_stdout.

(* a header and the row of C13_revolut_row_wf: one assertion, one transaction with two bookings *)
Example C13_revolut_statement_wf :
  let header := [[67]; [82]; [80;97;105;100;32;79;117;116;32;40;69;85;82;41]; [80]; [69]; [69]; [66]; [69]; [67]]%Z in
  let row := [[50;54;32;78;111;118;32;50;48;50;48]; [83;111;108;100;32;69;85;82;32;116;111;32;67;72;70];
              [49;56;52;46;57;56]; []; [67;72;70;32;32;49;57;57;46;57;53]; []; [49;48;48;46;48;48]; [70;88]; [71]]%Z in
  rv_statement_wf [header; row] = true /\ rvs_currency header = Some [69;85;82]%Z /\
  length (rvs_weave [s_Assets; [82]%Z] [69;85;82]%Z rvs_zero_day [row]) = 2%nat.
Proof. vm_compute. repeat split. Qed.

(* com.wise: the header record, then well-formed rows; one transaction per entry of each row
   (ws_entries; repaired = true is the code since 0ec20cd) *)
Theorem C13_wise_stdout : forall repaired aflag fflag tflag acct feeacct trading recs,
  account_flag aflag = AAcc acct -> account_flag fflag = AAcc feeacct -> account_flag tflag = AAcc trading ->
  ws_statement_wf recs = true ->
  exists out, ws_statement_output repaired acct feeacct trading recs = Some out /\
    run_wise repaired aflag fflag tflag (map CRec recs) = mkRun out SOk.
Proof. exact wise_stdout. Qed.
Print Assumptions C13_wise_stdout.

(* the header and the converted incoming payment w_incoming: a conversion and a receipt *)
Example C13_wise_statement_wf :
  ws_statement_wf [wss_header; w_incoming] = true /\
  length (ws_directives true w_acct w_fee w_trading [w_incoming]) = 2%nat.
Proof. vm_compute. split; reflexivity. Qed.

(* ch.swissquote: a header record, then a well-formed sequence of rows (sqs_wf: exchange rows in
   complete pairs); one transaction per entry (sqs_entries) *)
Theorem C13_swissquote_stdout :
  forall aflag dflag iflag wflag fflag tflag acct dividend interest tax fee trading recs,
  account_flag aflag = AAcc acct -> account_flag dflag = AAcc dividend -> account_flag iflag = AAcc interest ->
  account_flag wflag = AAcc tax -> account_flag fflag = AAcc fee -> account_flag tflag = AAcc trading ->
  sqs_statement_wf recs = true ->
  exists out, sqs_statement_output acct dividend interest tax fee trading recs = Some out /\
    run_swissquote aflag dflag iflag wflag fflag tflag (map CRec recs) = mkRun out SOk.
Proof. exact swissquote_stdout. Qed.
Print Assumptions C13_swissquote_stdout.

(* a header and the statement of C13_swissquote_statement_wf: a transfer and ONE exchange transaction *)
Example C13_swissquote_statement_output_wf :
  let a := [s_Assets; [83]%Z] in let x := [s_Expenses; [88]%Z] in
  let rows := [w_sq_row [69;105;110;122;97;104;108;117;110;103]%Z [49;48;48]%Z;
               w_sq_row [70;111;114;101;120;45;71;117;116;115;99;104;114;105;102;116]%Z [56;51;48]%Z;
               w_sq_row [70;111;114;101;120;45;66;101;108;97;115;116;117;110;103]%Z [45;57;49;56]%Z] in
  sqs_statement_wf ([] :: rows) = true /\ length (sqs_directives a x x x x x rows) = 2%nat.
Proof. vm_compute. split; reflexivity. Qed.
