(* C13  Importers turn every statement row into a valid, faithful journal entry.
   Group B: revolut2, revolut, com.wise, ch.swissquote, us.interactivebrokers (group A and the
   shared back half: Properties/C13.v).  Theorem statements only.

   Models: Model/Imp/<importer>.v (import_X: the records Go's csv reader delivered -> directives;
   run_X: the whole command incl. account flags and journal.Print), Model/ImpCommonA.v,
   Model/ImpCommonB.v, Model/JPrinter.v.
   Vocabulary: Spec/ImpSpecB.v
     row_effect (date, [(commodity, signed change)])   what a booking row says about the import account
     leg (credit, debit, commodity, quantity)          one booking of a transaction
     books_b acct f legs tg t    t is dated re_date f, consists of exactly the bookings legs (in order),
                                 changes acct in EVERY commodity c by the sum of f's changes in c
                                 (so by nothing where f says nothing), and carries annotation tg
     assertion_of acct b         the balance assertion "b.date balance acct b.qty b.com"
     X_wf_row / X_fact / X_legs / X_text               executable reading of a record of importer X
   The theorems quantify over records (what encoding/csv delivered), not over file bytes.

   Where an importer does not turn rows into transactions one-to-one, or emits something the
   property's wording does not mention, the theorem states the relation the code implements and
   the deviation is written up under findings/C13-<importer>-*.md:
   * revolut2: rows without Completed Date are skipped; the statement's Balance column is turned
     into ONE assertion per (day, currency): the Balance of the last such row in file order; the
     order of the assertions of one day is Go's map order (findings/C13-revolut2-balances.md).
   * revolut: one transaction per row, but a currency sale/purchase row changes the account in
     two commodities; an assertion of the row's Balance precedes the transaction of every row
     whose date differs from the preceding row's date, which is the day's closing balance only in
     a statement that lists the newest row first (findings/C13-revolut-balances.md).
   * com.wise: a row yields zero (CANCELLED; NEUTRAL within one currency), one, or two transactions
     (conversion, then payment); an incoming payment in another currency credits the target amount
     twice -- C13_wise_incoming_conversion_refuted, findings/C13-wise-incoming-conversion.md
     (with a patch; the model parameter repaired = true is the patched code).
   * ch.swissquote: the two rows of a currency exchange become ONE transaction dated on the second
     row; a purchase/sale changes two commodities; a dividend row is booked from Stückpreis and
     Kosten, not from Nettobetrag; an exchange row left without partner at the end of the file is
     dropped without a diagnostic (findings/C13-swissquote-forex-pairs.md).
   * us.interactivebrokers: quantities, proceeds, deposit amounts, currency-trade commissions and
     cash balances are rounded to two places while stock commissions, dividends, interest, taxes
     and position quantities are not; on statements with IB's precision the emitted assertions
     contradict the emitted transactions (findings/C13-interactivebrokers-rounding.md).  The
     theorems below are PARTIAL: one per kind of booking row, on the record alone. *)
From Coq Require Import ZArith QArith List Bool.
From Knut Require Import Model.Str Model.Dec Model.Date Model.Account Model.Ledger Model.Journal
     Model.ImpCommonA Model.ImpCommonB Model.Imp.Revolut2 Model.Imp.Revolut Model.Imp.Wise Model.Imp.Swissquote Model.Imp.Interactivebrokers
     Spec.ImpSpecA Spec.ImpSpecB Proofs.DecValue Proofs.ImpProofsB.
Import ListNotations.

(* ---------------------------------------------------------------- bookings *)
(* a booking raises the debited account by its quantity and lowers the credited one, in its
   commodity, whatever the sign of the quantity *)
Theorem C13b_effect_of_bookings : forall a c ls d desc tg,
  effect a c (mkTxn d desc (concat (map booking_postings ls)) tg) == legs_effect a c ls.
Proof. intros. rewrite effect_peffect. apply bookings_effect. Qed.
Print Assumptions C13b_effect_of_bookings.

(* ---------------------------------------------------------------- revolut2 *)
(* After the header every record has 10 fields.  Rows without Completed Date are not booked.
   Every other row yields exactly one transaction, in order, on the day of its Completed Date:
   Amount from Expenses:TBD to the account and, when Fee is not zero, Fee from the account to the
   fee account -- the account changes by Amount - Fee in Currency and by nothing else;
   description = Description.  After the transactions one balance assertion per (day, currency)
   that occurs, no key twice, carrying the Balance of the last booking row of that day and
   currency; nothing else. *)
Theorem C13_revolut2_faithful : forall acct feeacct rows,
  acct <> tbd_account -> acct <> feeacct -> forallb r2_wf_row rows = true ->
  exists ts bals,
    import_revolut2 acct feeacct (CRec r2_header :: map CRec rows) =
      MOk (map DTxn ts ++ map (assertion_of acct) bals) /\
    Forall2 (fun r t => books_b acct (r2_fact r) (r2_legs acct feeacct r) None t) (filter r2_is_booking rows) ts /\
    map t_desc ts = map build_desc (map r2_text (filter r2_is_booking rows)) /\
    NoDup (map (fun b => (bf_date b, bf_com b)) bals) /\
    (forall d c v, In (mkBalFact d c v) bals <-> r2_closing (d, c) rows = Some v).
Proof. exact revolut2_faithful. Qed.
Print Assumptions C13_revolut2_faithful.

(* 2020-07-01 10:00:00, -16.95, fee 1.00, CHF, balance 779.65 *)
Example C13_revolut2_row_wf :
  r2_wf_row [[67]; [67]; []; [50;48;50;48;45;48;55;45;48;49;32;49;48;58;48;48;58;48;48]; [97];
             [45;49;54;46;57;53]; [49;46;48;48]; [67;72;70]; [67]; [55;55;57;46;54;53]]%Z = true.
Proof. vm_compute. reflexivity. Qed.

(* ---------------------------------------------------------------- revolut *)
(* The header (9 fields) names the statement's currency in "Paid Out (CUR)".  Every further record
   is a booking row of 9 fields: exactly one transaction per row, in order, on the Completed Date;
   a plain row books the signed amount (+Paid In / -Paid Out) between Expenses:TBD and the
   account in CUR; a "Sold X to Y" / "Bought X from Y" row books the signed amount in CUR and the
   amount of Exchange Out (received) resp. Exchange In (given) in its currency against the
   valuation account Income:<rest of the account name>; the account changes by exactly these
   amounts; description = Reference, Exchange Rate, Category joined by blanks with white space
   collapsed and trimmed.  Besides the transactions: an assertion of the row's Balance in CUR,
   dated on the row's date, before the transaction of each row whose date differs from the date
   of the row before it (rv_weave); nothing else. *)
Theorem C13_revolut_faithful : forall acct cur header rows,
  acct <> tbd_account -> acct <> valuation_account_for acct ->
  len_is header 9 = true -> field header 2 = s_paid_out ++ cur ++ [41%Z] ->
  forallb is_alpha cur = true -> cur <> [] ->
  forallb rv_wf_row rows = true ->
  exists ts,
    import_revolut acct (CRec header :: map CRec rows) = MOk (rv_weave acct cur zero_date rows ts) /\
    Forall2 (fun r t => books_b acct (rv_fact cur r) (rv_legs acct cur r) None t) rows ts /\
    map t_desc ts = map build_desc (map rv_text rows).
Proof. exact revolut_faithful. Qed.
Print Assumptions C13_revolut_faithful.

(* "26 Nov 2020;Sold EUR to CHF; 184.98;;CHF  199.95;; 100.00;FX-rate;General" as the reader delivers it *)
Example C13_revolut_row_wf :
  rv_wf_row [[50;54;32;78;111;118;32;50;48;50;48]; [83;111;108;100;32;69;85;82;32;116;111;32;67;72;70];
             [49;56;52;46;57;56]; []; [67;72;70;32;32;49;57;57;46;57;53]; []; [49;48;48;46;48;48]; [70;88]; [71]]%Z = true /\
  rv_exchange [[50;54;32;78;111;118;32;50;48;50;48]; [83;111;108;100;32;69;85;82;32;116;111;32;67;72;70];
             [49;56;52;46;57;56]; []; [67;72;70;32;32;49;57;57;46;57;53]; []; [49;48;48;46;48;48]; [70;88]; [71]]%Z
    = Some ([67;72;70]%Z, mkDec 19995 (-2)).
Proof. vm_compute. split; reflexivity. Qed.

(* ---------------------------------------------------------------- com.wise *)
(* After the header every record has 18 fields.  Each row stands for the entries ws_entries lists
   (none for a CANCELLED row and for a NEUTRAL row within one currency -- whose fees, if any, are
   dropped; one payment with its fees for OUT/IN within one currency; for differing currencies a
   conversion transaction carrying the fees -- source amount to the trading account, target
   amount from it -- followed for OUT by the payment of the target amount, for IN by the receipt
   of the target amount [repaired: of the source amount]).  Exactly one transaction per entry,
   in order, on the day of "Created on", consisting of the entry's bookings, changing the account
   by exactly the entry's changes; descriptions "<ID, - and _ as blanks> / <Target name>" resp.
   "<ID> / convert <source> <cur> to <target> <cur>"; nothing else. *)
Theorem C13_wise_faithful : forall repaired acct feeacct trading rows,
  acct <> tbd_account -> acct <> feeacct -> acct <> trading -> forallb ws_wf_row rows = true ->
  let entries := flat_map (ws_entries repaired acct feeacct trading) rows in
  exists ts,
    import_wise repaired acct feeacct trading (CRec ws_header :: map CRec rows) = MOk (map DTxn ts) /\
    Forall2 (fun e t => books_b acct (en_fact e) (en_legs e) None t) entries ts /\
    map t_desc ts = map build_desc (map en_text entries).
Proof. exact wise_faithful. Qed.
Print Assumptions C13_wise_faithful.

(* TRANSFER-1, COMPLETED, IN, 100.00 CHF arrive as 92.50 EUR: the row's effect on the account
   ought to be +92.50 EUR (and nothing in CHF).  The code as it stands changes the account by
   +185 EUR and -100 CHF; the patched code by +92.50 EUR and 0 CHF. *)
Definition w_incoming : list str :=
  [[84;82;65;78;83;70;69;82;45;49]; [67;79;77;80;76;69;84;69;68]; [73;78];
   [50;48;50;52;45;48;49;45;48;50;32;49;48;58;48;48;58;48;48]; [50;48;50;52;45;48;49;45;48;50;32;49;48;58;48;48;58;48;48];
   [48;46;48;48]; [67;72;70]; []; []; [82;111;99;107;121]; [49;48;48;46;48;48]; [67;72;70]; [82;111;99;107;121];
   [57;50;46;53;48]; [69;85;82]; []; []; []]%Z.
Definition w_acct : account := [s_Assets; [87]%Z].
Definition w_fee : account := [s_Expenses; [70]%Z].
Definition w_trading : account := [s_Expenses; [84]%Z].

Theorem C13_wise_incoming_conversion_refuted :
  ws_wf_row w_incoming = true /\ ws_dir_of w_incoming = WsIn /\ ws_converted w_incoming = true /\
  ws_row_change false w_acct w_fee w_trading w_incoming (ws_tcur w_incoming) == 2 * dvalue (ws_tgt w_incoming) /\
  ws_row_change false w_acct w_fee w_trading w_incoming (ws_scur w_incoming) == - dvalue (ws_src w_incoming) /\
  ws_row_change true w_acct w_fee w_trading w_incoming (ws_tcur w_incoming) == dvalue (ws_tgt w_incoming) /\
  ws_row_change true w_acct w_fee w_trading w_incoming (ws_scur w_incoming) == 0.
Proof. repeat split; vm_compute; reflexivity. Qed.
Print Assumptions C13_wise_incoming_conversion_refuted.

Example C13_wise_row_wf : ws_wf_row w_incoming = true.
Proof. vm_compute. reflexivity. Qed.

(* ---------------------------------------------------------------- ch.swissquote *)
(* After the header every record has 13 fields.  A statement is well-formed (sqs_wf) when its
   rows are, exchange rows come in pairs with at most purchases/sales between the two rows of a
   pair, and no exchange is left open at the end.  Entries (sqs_entries), in order: one per
   purchase/sale (Symbol changes by -/+Anzahl, cash by Nettobetrag: bookings of the proceeds
   Nettobetrag + Kosten against the trading account and of -Kosten against the fee account;
   annotated with Symbol and Währung), one per PAIR of exchange rows (both Nettobetrag amounts
   against the trading account, dated on the second row), one per other row (dividend kinds:
   Stückpreis from the dividend account, Kosten to the tax account, annotated with Symbol;
   Depotgebühren: Nettobetrag against the fee account, empty annotation; Zins: against the interest
   account, annotated with Währung; Einzahlung/Auszahlung/Vergütung/Belastung and every unknown
   kind: Nettobetrag against Expenses:TBD).  Exactly one transaction per entry, on the row's date,
   consisting of the entry's bookings and changing the account by exactly the entry's changes;
   nothing else. *)
Theorem C13_swissquote_faithful : forall acct dividend interest tax fee trading header rows,
  acct <> tbd_account -> acct <> dividend -> acct <> interest -> acct <> tax -> acct <> fee -> acct <> trading ->
  sqs_wf false rows = true ->
  let entries := sqs_entries acct dividend interest tax fee trading None rows in
  exists ts,
    import_swissquote acct dividend interest tax fee trading (CRec header :: map CRec rows) = MOk (map DTxn ts) /\
    Forall2 (fun e t => books_b acct (en_fact (fst e)) (en_legs (fst e)) (snd e) t) entries ts /\
    map t_desc ts = map build_desc (map (fun e => en_text (fst e)) entries).
Proof. exact swissquote_faithful. Qed.
Print Assumptions C13_swissquote_faithful.

(* an exchange row without partner at the end of the statement leaves no trace: the statement
   Einzahlung; Forex-Gutschrift imports exactly like the statement Einzahlung *)
Definition w_sq_row (typ : str) (netto : str) : list str :=
  [[48;57;45;49;48;45;50;48;50;48]; [48]; typ; []; []; []; [49]; [49]; [48]; [48]; netto; [48]; [67;72;70]]%Z.
Theorem C13_swissquote_open_exchange_dropped :
  let a := [s_Assets; [83]%Z] in let x := [s_Expenses; [88]%Z] in
  let ein := w_sq_row [69;105;110;122;97;104;108;117;110;103]%Z [49;48;48]%Z in
  let fx := w_sq_row [70;111;114;101;120;45;71;117;116;115;99;104;114;105;102;116]%Z [56;51;48]%Z in
  sqs_wf_row fx = true /\ sqs_wf false [ein; fx] = false /\
  import_swissquote a x x x x x [CRec []; CRec ein; CRec fx] = import_swissquote a x x x x x [CRec []; CRec ein].
Proof. vm_compute. repeat split. Qed.
Print Assumptions C13_swissquote_open_exchange_dropped.

Example C13_swissquote_statement_wf :
  sqs_wf false [w_sq_row [69;105;110;122;97;104;108;117;110;103]%Z [49;48;48]%Z;
                w_sq_row [70;111;114;101;120;45;71;117;116;115;99;104;114;105;102;116]%Z [56;51;48]%Z;
                w_sq_row [70;111;114;101;120;45;66;101;108;97;115;116;117;110;103]%Z [45;57;49;56]%Z] = true.
Proof. vm_compute. reflexivity. Qed.

(* ---------------------------------------------------------------- us.interactivebrokers (partial) *)
(* Full statement (NOT proved; the model is compared byte for byte with the binary on generated
   statements instead): for every activity statement whose records are well-formed, import yields,
   in record order, one transaction per Trades/Order row (Stocks, Forex), per Deposits & Withdrawals
   row that is not a total, per Dividends, Interest and Withholding Tax row that is not a total, and
   one balance assertion dated on the end of the statement period per Open Positions/Summary row
   and per Forex Balances/Forex row, and nothing for any other record; it needs the Base Currency
   record before the first Forex trade and the Period record before the first position row.
   Proved: what ONE record of each transaction kind other than a Forex trade yields, in any state
   of the importer (the state is unchanged), and that the statement loop concatenates the per-record
   results.  Not covered by a theorem: Forex trades (need the base currency), the two assertion
   kinds (need the period), the Period and Base Currency records, and that all other records
   are ignored. *)
Theorem C13_interactivebrokers_deposit_row_partial : forall acct dividend interest tax fee trading st cur day desc amt d q,
  acct <> tbd_account ->
  str_eqb cur s_total = false -> is_empty day = false -> valid_name cur = true ->
  parse_iso day = Some d -> ibs_num2 amt = Some q ->
  exists t, ib_line acct dividend interest tax fee trading st [s_deposits; s_data; cur; day; desc; amt] = MOk (st, [DTxn t]) /\
    books_b acct (mkEffect d [(cur, q)]) [mkLeg tbd_account acct cur q] None t.
Proof. intros. eapply ib_deposit_row; eassumption. Qed.
Print Assumptions C13_interactivebrokers_deposit_row_partial.

Theorem C13_interactivebrokers_dividend_row_partial : forall acct dividend interest tax fee trading st cur day desc amt d q,
  acct <> dividend ->
  is_prefix s_total cur = false -> valid_name cur = true -> parse_iso day = Some d -> ibs_num amt = Some q ->
  ibs_security desc <> [] ->
  exists t, ib_line acct dividend interest tax fee trading st [s_dividends; s_data; cur; day; desc; amt] = MOk (st, [DTxn t]) /\
    books_b acct (mkEffect d [(cur, q)]) [mkLeg dividend acct cur q] (Some [ibs_security desc]) t /\
    t_desc t = build_desc desc.
Proof. intros. eapply ib_dividend_row; eassumption. Qed.
Print Assumptions C13_interactivebrokers_dividend_row_partial.

Theorem C13_interactivebrokers_interest_row_partial : forall acct dividend interest tax fee trading st cur day desc amt d q,
  acct <> interest ->
  is_prefix s_total cur = false -> valid_name cur = true -> parse_iso day = Some d -> ibs_num amt = Some q ->
  exists t, ib_line acct dividend interest tax fee trading st [s_interest; s_data; cur; day; desc; amt] = MOk (st, [DTxn t]) /\
    books_b acct (mkEffect d [(cur, q)]) [mkLeg interest acct cur q] (Some [cur]) t /\
    t_desc t = build_desc desc.
Proof. intros. eapply ib_interest_row; eassumption. Qed.
Print Assumptions C13_interactivebrokers_interest_row_partial.

Theorem C13_interactivebrokers_withholding_row_partial : forall acct dividend interest tax fee trading st cur day desc amt code d q,
  acct <> tax ->
  is_prefix s_total cur = false -> valid_name cur = true -> parse_iso day = Some d -> ibs_num amt = Some q ->
  ibs_security desc <> [] ->
  exists t, ib_line acct dividend interest tax fee trading st [s_withholding; s_data; cur; day; desc; amt; code] = MOk (st, [DTxn t]) /\
    books_b acct (mkEffect d [(cur, q)]) [mkLeg tax acct cur q] (Some [ibs_security desc]) t /\
    t_desc t = build_desc desc.
Proof. intros. eapply ib_withholding_row; eassumption. Qed.
Print Assumptions C13_interactivebrokers_withholding_row_partial.

(* the holding changes by the quantity ROUNDED to two places (ibs_num2), the cash by the ROUNDED
   proceeds plus the signed, unrounded commission *)
Theorem C13_interactivebrokers_stock_row_partial :
  forall acct dividend interest tax fee trading st cur sym stamp qs ps x9 prs fs x12 x13 x14 x15 x16 d qty price proceeds feeq,
  acct <> fee -> acct <> trading ->
  valid_name cur = true -> valid_name sym = true ->
  Nat.leb 10 (length stamp) = true -> parse_iso (firstn 10 stamp) = Some d ->
  ibs_num2 qs = Some qty -> ibs_num ps = Some price -> ibs_num2 prs = Some proceeds -> new_from_string fs = Some feeq ->
  exists t, ib_line acct dividend interest tax fee trading st
              [s_trades; s_data; s_order; s_stocks; cur; sym; stamp; qs; ps; x9; prs; fs; x12; x13; x14; x15; x16] = MOk (st, [DTxn t]) /\
    books_b acct (mkEffect d [(sym, qty); (cur, proceeds); (cur, feeq)])
            [mkLeg trading acct sym qty; mkLeg trading acct cur proceeds; mkLeg fee acct cur feeq] (Some [sym; cur]) t.
Proof. intros. eapply ib_stock_row; eassumption. Qed.
Print Assumptions C13_interactivebrokers_stock_row_partial.

Theorem C13_interactivebrokers_loop : forall acct dividend interest tax fee trading st r rest st' ds,
  ib_line acct dividend interest tax fee trading st r = MOk (st', ds) ->
  ib_rows acct dividend interest tax fee trading st (CRec r :: rest) =
  mbind (ib_rows acct dividend interest tax fee trading st' rest) (fun ds' => MOk (ds ++ ds')).
Proof. exact ib_rows_cons. Qed.
Print Assumptions C13_interactivebrokers_loop.

(* rounding loses what the row says: 0.1615 shares are booked as 0.16 *)
Example C13_interactivebrokers_rounding_witness :
  ibs_num [48;46;49;54;49;53]%Z = Some (mkDec 1615 (-4)) /\ ibs_num2 [48;46;49;54;49;53]%Z = Some (mkDec 16 (-2)).
Proof. vm_compute. split; reflexivity. Qed.
